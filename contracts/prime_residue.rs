//@ unit prime_residue
//@ props C18
//@@ same-trait row_echelon :: Array2d Entry
#![feature(panic_internals)]
#![feature(sized_hierarchy)]
use vstd::prelude::*;
use vstd::arithmetic::div_mod::*;
use vstd::std_specs::ops::*;
use std::ops::{Add, Div, Mul, Neg, Sub, Index, IndexMut};
use vstd::std_specs::core::*;
verus! {
// assert_eq! expands to a call of core::panicking::assert_failed: reaching it is a proof obligation (requires false)
#[verifier::external_type_specification]
pub struct ExAssertKind(core::panicking::AssertKind);

pub assume_specification<T, U> [core::panicking::assert_failed] (_0: core::panicking::AssertKind, _1: &T, _2: &U, _3: std::option::Option<std::fmt::Arguments<'_>>) -> !
    where
    T: std::marker::MetaSized + std::fmt::Debug + ?Sized,
    U: std::marker::MetaSized + std::fmt::Debug + ?Sized,
    requires false;

// ---------------------------------------------------------------------------------------------------------
// the moduli C18 quantifies over: what PrimeResidueClass::<P>::valid() accepts (2 <= P, P*P fits i64, P prime).
// A trait impl cannot carry `requires` on its const parameter, so the domain is an assumption about the
// *instantiation*, called at function entry; it says nothing about the code.  The Kani harnesses do not use it.
// ---------------------------------------------------------------------------------------------------------
pub open spec fn valid_p(p: int) -> bool { 2 <= p <= 3037000499 }
pub open spec fn is_prime(p: int) -> bool { p >= 2 && forall|d: int| 1 < d < p ==> #[trigger] (p % d) != 0 }

#[verifier::external_body]
proof fn domain_valid_p<const P: i64>() ensures valid_p(P as int), is_prime(P as int) {}

// Rust's truncated remainder (vstd::arithmetic::div_mod::rust_rem) vs Euclidean remainder
proof fn lemma_trunc_mod(n: int, p: int)
    requires p > 0
    ensures ({
        let t = rust_rem(n, p);
        (if t < 0 { t + p } else { t }) == n % p
    })
{
    if n == 0 {
        lemma_small_mod(0, p as nat);
    } else if n < 0 {
        let m = -n;
        lemma_fundamental_div_mod(m, p);
        lemma_mod_bound(m, p);
        if m % p == 0 {
            let q = -(m / p);
            assert(n == q * p + 0) by(nonlinear_arith) requires m == p * (m / p) + m % p, m % p == 0, n == -m, q == -(m / p);
            lemma_fundamental_div_mod_converse(n, p, q, 0);
        } else {
            let q = -(m / p) - 1;
            let r = p - m % p;
            assert(n == q * p + r) by(nonlinear_arith) requires m == p * (m / p) + m % p, n == -m, q == -(m / p) - 1, r == p - m % p;
            lemma_fundamental_div_mod_converse(n, p, q, r);
        }
    }
}


proof fn lemma_div_correct(a: int, i: int, b: int, p: int)
    requires p >= 2, 0 <= a < p, (i * b) % p == 1
    ensures (((a * i) % p) * b) % p == a
{
    lemma_mul_mod_noop_left(a * i, b, p);
    assert(a * i * b == a * (i * b)) by(nonlinear_arith);
    lemma_mul_mod_noop_right(a, i * b, p);
    lemma_small_mod(a as nat, p as nat);
}

//@ begin src/geometry/prime_residue_classes.rs :: - :: struct PrimeResidueClass
pub struct PrimeResidueClass<const P: i64> {
    value: i64
}
//@ end

// derived Copy / Clone (dropped with the derive attribute, R0)
impl<const P: i64> Clone for PrimeResidueClass<P> {
    #[verifier::external_body]
    fn clone(&self) -> (r: Self) ensures r == *self { PrimeResidueClass { value: self.value } }
}
impl<const P: i64> Copy for PrimeResidueClass<P> {}

impl<const P: i64> PrimeResidueClass<P> {
    // C18: "a canonical representative for every integer input": every value of the type holds 0 <= value < P
    #[verifier::type_invariant]
    spec fn inv(self) -> bool { 0 <= self.value < P }

    pub closed spec fn val(self) -> int { self.value as int }

    //@ begin src/geometry/prime_residue_classes.rs :: impl<const P: i64> PrimeResidueClass<P> :: fn inverse
    //@ rw R16 /-> Self/-> (res: Self)/
    //@ rw R12 /let \(mut t, mut t1\) = /let (mut t, mut t1): (i64, i64) = /
    //@ rw R1 /^([ \t]*)\(t, t1\) = (\(.*\));$/\1let tmp_t = \2; t = tmp_t.0; t1 = tmp_t.1;/
    //@ rw R1 /^([ \t]*)\(r, r1\) = (\(.*\));$/\1let tmp_r = \2; r = tmp_r.0; r1 = tmp_r.1;/
    #[verifier::exec_allows_no_decreases_clause]
    fn inverse(self) -> (res: Self)
        requires self.val() != 0
        ensures (res.val() * self.val()) % (P as int) == 1
    {
        proof { domain_valid_p::<P>(); use_type_invariant(self); }
        let ghost v = self.value as int;
        let ghost p = P as int;
        let (mut t, mut t1): (i64, i64) = (0, 1);
        let (mut r, mut r1) = (P, self.value);
        let ghost mut sg: int = 1;      // sign bookkeeping: sg*t1 >= 0, sg*t <= 0
        let ghost mut a: int = 1;       // r  == a*p  + t*v
        let ghost mut a1: int = 0;      // r1 == a1*p + t1*v

        while r1 != 0
            invariant
                p == P, v == self.value, valid_p(p), 0 < v < p,
                sg == 1 || sg == -1,
                sg * t1 >= 0, sg * t <= 0,
                t1 * r - t * r1 == sg * p,
                0 <= r1 < r <= p,
                r == p ==> r1 == v,
                r == a * p + t * v,
                r1 == a1 * p + t1 * v,
        {
            proof {
                // |t1| * r <= p  and  |t| * r1 <= p
                assert(sg * t1 * r <= p && -(sg * t) * r1 <= p && sg * t1 * r >= 0 && -(sg * t) * r1 >= 0) by(nonlinear_arith)
                    requires sg * t1 >= 0, sg * t <= 0, t1 * r - t * r1 == sg * p, sg == 1 || sg == -1, r >= 1, r1 >= 0;
                assert(-p <= t1 <= p) by(nonlinear_arith) requires sg * t1 * r <= p, sg * t1 >= 0, r >= 1, sg == 1 || sg == -1, p >= 2;
                assert(-p <= t <= p) by(nonlinear_arith) requires -(sg * t) * r1 <= p, sg * t <= 0, r1 >= 1, sg == 1 || sg == -1, p >= 2;
            }
            let q = r / r1;
            proof {
                vstd::arithmetic::div_mod::lemma_fundamental_div_mod(r as int, r1 as int);
                vstd::arithmetic::div_mod::lemma_mod_bound(r as int, r1 as int);
                assert(1 <= q <= r) by(nonlinear_arith) requires r == r1 * q + (r as int) % (r1 as int), 0 <= (r as int) % (r1 as int) < r1, 0 < r1 < r;
                // |q * t1| <= p
                assert(-p <= q * t1 <= p) by(nonlinear_arith)
                    requires sg * t1 * r <= p, sg * t1 >= 0, sg == 1 || sg == -1, r == r1 * q + (r as int) % (r1 as int), 0 <= (r as int) % (r1 as int), r1 >= 1, q >= 1;
                assert(0 <= q * r1 <= r) by(nonlinear_arith) requires r == r1 * q + (r as int) % (r1 as int), 0 <= (r as int) % (r1 as int), r1 >= 1, q >= 1;
            }
            let ghost (t_o, t1_o, r_o, r1_o, a_o, a1_o) = (t as int, t1 as int, r as int, r1 as int, a, a1);
            let tmp_t = (t1, t - q * t1); t = tmp_t.0; t1 = tmp_t.1;
            let tmp_r = (r1, r - q * r1); r = tmp_r.0; r1 = tmp_r.1;
            proof {
                sg = -sg;
                a = a1_o;
                a1 = a_o - q * a1_o;
                assert(t1 * r - t * r1 == sg * p) by(nonlinear_arith)
                    requires t == t1_o, t1 == t_o - q * t1_o, r == r1_o, r1 == r_o - q * r1_o, t1_o * r_o - t_o * r1_o == -sg * p;
                assert(sg * t <= 0) by(nonlinear_arith) requires t == t1_o, -sg * t1_o >= 0;
                assert(sg * t1 >= 0) by(nonlinear_arith) requires t1 == t_o - q * t1_o, -sg * t1_o >= 0, -sg * t_o <= 0, q >= 1, sg == 1 || sg == -1;
                assert(r1 == a1 * p + t1 * v) by(nonlinear_arith)
                    requires r1 == r_o - q * r1_o, r_o == a_o * p + t_o * v, r1_o == a1_o * p + t1_o * v, a1 == a_o - q * a1_o, t1 == t_o - q * t1_o;
                assert(r1 == r_o % r1_o);
            }
        }

        proof {
            // r1 == 0:  t1 * r == sg * p, so r divides p; 1 <= r < p and p prime give r == 1
            assert(r < p);
            let m = sg * t1;
            assert(p == r * m) by(nonlinear_arith) requires t1 * r - t * r1 == sg * p, r1 == 0, m == sg * t1, sg == 1 || sg == -1;
            if r > 1 {
                vstd::arithmetic::div_mod::lemma_mod_multiples_basic(m, r as int);
                assert(p == m * r) by(nonlinear_arith) requires p == r * m;
                assert(p % (r as int) == 0);
                assert(false);
            }
            assert(r >= 1);
        }
        assert_eq!(r, 1);

        proof {
            // 1 == a*p + t*v  ==>  (t mod p) * v mod p == 1
            assert(1 == a * p + t * v);
            vstd::arithmetic::div_mod::lemma_mul_mod_noop_left(t as int, v, p);
            vstd::arithmetic::div_mod::lemma_mod_multiples_vanish(a, t * v, p);
            vstd::arithmetic::div_mod::lemma_small_mod(1, p as nat);
            assert((a * p + t * v) % p == (t * v) % p) by {
                assert(a * p + t * v == p * a + t * v) by(nonlinear_arith);
            }
        }
        t.into()
    }
    //@ end
}

// the other common way to canonicalise a truncated remainder: (t + p) % p
proof fn lemma_trunc_mod_alt(n: int, p: int)
    requires p > 0
    ensures ({
        let t = rust_rem(n, p);
        -p < t < p && rust_rem(t + p, p) == n % p && (t + p) % p == n % p
    })
{
    lemma_trunc_mod(n, p);
    let t = rust_rem(n, p);
    lemma_mod_bound(n, p);
    if n == 0 { lemma_small_mod(0, p as nat); }
    else if n > 0 { assert(t == n % p); }
    else { lemma_mod_bound(-n, p); assert(t == -((-n) % p)); }
    assert(-p < t < p);
    if t < 0 { lemma_small_mod((t + p) as nat, p as nat); assert((t + p) % p == t + p); }
    else { lemma_mod_multiples_vanish(1, t, p); lemma_small_mod(t as nat, p as nat); assert((p * 1 + t) % p == t % p); assert(t + p == p * 1 + t); }
    // rust_rem of a positive number is the mathematical remainder
    assert(t + p > 0);
}

impl<const P: i64> vstd::std_specs::convert::FromSpecImpl<i64> for PrimeResidueClass<P> {
    open spec fn obeys_from_spec() -> bool { false }
    open spec fn from_spec(n: i64) -> Self { arbitrary() }
}

impl<const P: i64> From<i64> for PrimeResidueClass<P> {
    //@ begin src/geometry/prime_residue_classes.rs :: impl<const P: i64> From<i64> for PrimeResidueClass<P> :: fn from
    //@ rw R16 /-> Self/-> (r: Self)/
    fn from(n: i64) -> (r: Self)
        ensures r.val() == (n as int) % (P as int)
    {
        proof { domain_valid_p::<P>(); lemma_trunc_mod(n as int, P as int); lemma_trunc_mod_alt(n as int, P as int); }
        let r = n % P;
        PrimeResidueClass {
            value: if r < 0 { r + P } else { r }
        }
    }
    //@ end
}

impl<const P: i64> vstd::std_specs::convert::FromSpecImpl<i32> for PrimeResidueClass<P> {
    open spec fn obeys_from_spec() -> bool { false }
    open spec fn from_spec(n: i32) -> Self { arbitrary() }
}

impl<const P: i64> From<i32> for PrimeResidueClass<P> {
    //@ begin src/geometry/prime_residue_classes.rs :: impl<const P: i64> From<i32> for PrimeResidueClass<P> :: fn from
    //@ rw R16 /-> Self/-> (r: Self)/
    fn from(n: i32) -> (r: Self)
        ensures r.val() == (n as int) % (P as int)
    {
        proof { domain_valid_p::<P>(); lemma_trunc_mod(n as int, P as int); lemma_trunc_mod_alt(n as int, P as int); }
        let r = (n as i64) % P;
        PrimeResidueClass {
            value: if r < 0 { r + P } else { r }
        }
    }
    //@ end
}

impl<const P: i64> vstd::std_specs::convert::FromSpecImpl<PrimeResidueClass<P>> for i64 {
    open spec fn obeys_from_spec() -> bool { false }
    open spec fn from_spec(n: PrimeResidueClass<P>) -> Self { arbitrary() }
}

impl<const P: i64> From<PrimeResidueClass<P>> for i64 {
    //@ begin src/geometry/prime_residue_classes.rs :: impl<const P: i64> From<PrimeResidueClass<P>> for i64 :: fn from
    //@ rw R16 /-> Self/-> (r: Self)/
    fn from(n: PrimeResidueClass<P>) -> (r: Self)
        ensures r == n.val(), 0 <= r < P
    {
        proof { use_type_invariant(n); }
        n.value
    }
    //@ end
}

impl<const P: i64> AddSpecImpl<PrimeResidueClass<P>> for PrimeResidueClass<P> {
    open spec fn obeys_add_spec() -> bool { false }
    open spec fn add_req(self, rhs: PrimeResidueClass<P>) -> bool { true }
    open spec fn add_spec(self, rhs: PrimeResidueClass<P>) -> PrimeResidueClass<P> { arbitrary() }
}
impl<const P: i64> Add<PrimeResidueClass<P>> for PrimeResidueClass<P> {
    type Output = Self;

    //@ begin src/geometry/prime_residue_classes.rs :: impl<const P: i64> Add<PrimeResidueClass<P>> for PrimeResidueClass<P> :: fn add
    //@ rw R16 /-> Self::Output/-> (r: Self::Output)/
    fn add(self, rhs: PrimeResidueClass<P>) -> (r: Self::Output)
        ensures r.val() == (self.val() + rhs.val()) % (P as int)
    {
        proof {
            domain_valid_p::<P>(); use_type_invariant(self); use_type_invariant(rhs);
        }
        (self.value + rhs.value).into()
    }
    //@ end
}

impl<const P: i64> AddSpecImpl<PrimeResidueClass<P>> for &PrimeResidueClass<P> {
    open spec fn obeys_add_spec() -> bool { false }
    open spec fn add_req(self, rhs: PrimeResidueClass<P>) -> bool { true }
    open spec fn add_spec(self, rhs: PrimeResidueClass<P>) -> PrimeResidueClass<P> { arbitrary() }
}
impl<const P: i64> Add<PrimeResidueClass<P>> for &PrimeResidueClass<P> {
    type Output = PrimeResidueClass<P>;

    //@ begin src/geometry/prime_residue_classes.rs :: impl<const P: i64> Add<PrimeResidueClass<P>> for &PrimeResidueClass<P> :: fn add
    //@ rw R16 /-> Self::Output/-> (r: Self::Output)/
    fn add(self, rhs: PrimeResidueClass<P>) -> (r: Self::Output)
        ensures r.val() == (self.val() + rhs.val()) % (P as int)
    {
        proof {
            domain_valid_p::<P>(); use_type_invariant(self); use_type_invariant(rhs);
        }
        (self.value + rhs.value).into()
    }
    //@ end
}

impl<const P: i64> AddSpecImpl<&PrimeResidueClass<P>> for &PrimeResidueClass<P> {
    open spec fn obeys_add_spec() -> bool { false }
    open spec fn add_req(self, rhs: &PrimeResidueClass<P>) -> bool { true }
    open spec fn add_spec(self, rhs: &PrimeResidueClass<P>) -> PrimeResidueClass<P> { arbitrary() }
}
impl<const P: i64> Add<&PrimeResidueClass<P>> for &PrimeResidueClass<P> {
    type Output = PrimeResidueClass<P>;

    //@ begin src/geometry/prime_residue_classes.rs :: impl<const P: i64> Add<&PrimeResidueClass<P>> for &PrimeResidueClass<P> :: fn add
    //@ rw R16 /-> Self::Output/-> (r: Self::Output)/
    fn add(self, rhs: &PrimeResidueClass<P>) -> (r: Self::Output)
        ensures r.val() == (self.val() + rhs.val()) % (P as int)
    {
        proof {
            domain_valid_p::<P>(); use_type_invariant(self); use_type_invariant(rhs);
        }
        (self.value + rhs.value).into()
    }
    //@ end
}

impl<const P: i64> SubSpecImpl<PrimeResidueClass<P>> for PrimeResidueClass<P> {
    open spec fn obeys_sub_spec() -> bool { false }
    open spec fn sub_req(self, rhs: PrimeResidueClass<P>) -> bool { true }
    open spec fn sub_spec(self, rhs: PrimeResidueClass<P>) -> PrimeResidueClass<P> { arbitrary() }
}
impl<const P: i64> Sub<PrimeResidueClass<P>> for PrimeResidueClass<P> {
    type Output = Self;

    //@ begin src/geometry/prime_residue_classes.rs :: impl<const P: i64> Sub<PrimeResidueClass<P>> for PrimeResidueClass<P> :: fn sub
    //@ rw R16 /-> Self::Output/-> (r: Self::Output)/
    fn sub(self, rhs: PrimeResidueClass<P>) -> (r: Self::Output)
        ensures r.val() == (self.val() - rhs.val()) % (P as int)
    {
        proof {
            domain_valid_p::<P>(); use_type_invariant(self); use_type_invariant(rhs);
        }
        (self.value - rhs.value).into()
    }
    //@ end
}

impl<const P: i64> SubSpecImpl<PrimeResidueClass<P>> for &PrimeResidueClass<P> {
    open spec fn obeys_sub_spec() -> bool { false }
    open spec fn sub_req(self, rhs: PrimeResidueClass<P>) -> bool { true }
    open spec fn sub_spec(self, rhs: PrimeResidueClass<P>) -> PrimeResidueClass<P> { arbitrary() }
}
impl<const P: i64> Sub<PrimeResidueClass<P>> for &PrimeResidueClass<P> {
    type Output = PrimeResidueClass<P>;

    //@ begin src/geometry/prime_residue_classes.rs :: impl<const P: i64> Sub<PrimeResidueClass<P>> for &PrimeResidueClass<P> :: fn sub
    //@ rw R16 /-> Self::Output/-> (r: Self::Output)/
    fn sub(self, rhs: PrimeResidueClass<P>) -> (r: Self::Output)
        ensures r.val() == (self.val() - rhs.val()) % (P as int)
    {
        proof {
            domain_valid_p::<P>(); use_type_invariant(self); use_type_invariant(rhs);
        }
        (self.value - rhs.value).into()
    }
    //@ end
}

impl<const P: i64> SubSpecImpl<&PrimeResidueClass<P>> for &PrimeResidueClass<P> {
    open spec fn obeys_sub_spec() -> bool { false }
    open spec fn sub_req(self, rhs: &PrimeResidueClass<P>) -> bool { true }
    open spec fn sub_spec(self, rhs: &PrimeResidueClass<P>) -> PrimeResidueClass<P> { arbitrary() }
}
impl<const P: i64> Sub<&PrimeResidueClass<P>> for &PrimeResidueClass<P> {
    type Output = PrimeResidueClass<P>;

    //@ begin src/geometry/prime_residue_classes.rs :: impl<const P: i64> Sub<&PrimeResidueClass<P>> for &PrimeResidueClass<P> :: fn sub
    //@ rw R16 /-> Self::Output/-> (r: Self::Output)/
    fn sub(self, rhs: &PrimeResidueClass<P>) -> (r: Self::Output)
        ensures r.val() == (self.val() - rhs.val()) % (P as int)
    {
        proof {
            domain_valid_p::<P>(); use_type_invariant(self); use_type_invariant(rhs);
        }
        (self.value - rhs.value).into()
    }
    //@ end
}

impl<const P: i64> MulSpecImpl<PrimeResidueClass<P>> for PrimeResidueClass<P> {
    open spec fn obeys_mul_spec() -> bool { false }
    open spec fn mul_req(self, rhs: PrimeResidueClass<P>) -> bool { true }
    open spec fn mul_spec(self, rhs: PrimeResidueClass<P>) -> PrimeResidueClass<P> { arbitrary() }
}
impl<const P: i64> Mul<PrimeResidueClass<P>> for PrimeResidueClass<P> {
    type Output = PrimeResidueClass<P>;

    //@ begin src/geometry/prime_residue_classes.rs :: impl<const P: i64> Mul<PrimeResidueClass<P>> for PrimeResidueClass<P> :: fn mul
    //@ rw R16 /-> Self::Output/-> (r: Self::Output)/
    fn mul(self, rhs: PrimeResidueClass<P>) -> (r: Self::Output)
        ensures r.val() == (self.val() * rhs.val()) % (P as int)
    {
        proof {
            domain_valid_p::<P>(); use_type_invariant(self); use_type_invariant(rhs);
            assert(0 <= self.value * rhs.value <= 3037000498 * 3037000498) by(nonlinear_arith)
                requires 0 <= self.value <= 3037000498, 0 <= rhs.value <= 3037000498;
        }
        (self.value * rhs.value).into()
    }
    //@ end
}

impl<const P: i64> MulSpecImpl<PrimeResidueClass<P>> for &PrimeResidueClass<P> {
    open spec fn obeys_mul_spec() -> bool { false }
    open spec fn mul_req(self, rhs: PrimeResidueClass<P>) -> bool { true }
    open spec fn mul_spec(self, rhs: PrimeResidueClass<P>) -> PrimeResidueClass<P> { arbitrary() }
}
impl<const P: i64> Mul<PrimeResidueClass<P>> for &PrimeResidueClass<P> {
    type Output = PrimeResidueClass<P>;

    //@ begin src/geometry/prime_residue_classes.rs :: impl<const P: i64> Mul<PrimeResidueClass<P>> for &PrimeResidueClass<P> :: fn mul
    //@ rw R16 /-> Self::Output/-> (r: Self::Output)/
    fn mul(self, rhs: PrimeResidueClass<P>) -> (r: Self::Output)
        ensures r.val() == (self.val() * rhs.val()) % (P as int)
    {
        proof {
            domain_valid_p::<P>(); use_type_invariant(self); use_type_invariant(rhs);
            assert(0 <= self.value * rhs.value <= 3037000498 * 3037000498) by(nonlinear_arith)
                requires 0 <= self.value <= 3037000498, 0 <= rhs.value <= 3037000498;
        }
        (self.value * rhs.value).into()
    }
    //@ end
}

impl<const P: i64> MulSpecImpl<&PrimeResidueClass<P>> for &PrimeResidueClass<P> {
    open spec fn obeys_mul_spec() -> bool { false }
    open spec fn mul_req(self, rhs: &PrimeResidueClass<P>) -> bool { true }
    open spec fn mul_spec(self, rhs: &PrimeResidueClass<P>) -> PrimeResidueClass<P> { arbitrary() }
}
impl<const P: i64> Mul<&PrimeResidueClass<P>> for &PrimeResidueClass<P> {
    type Output = PrimeResidueClass<P>;

    //@ begin src/geometry/prime_residue_classes.rs :: impl<const P: i64> Mul<&PrimeResidueClass<P>> for &PrimeResidueClass<P> :: fn mul
    //@ rw R16 /-> Self::Output/-> (r: Self::Output)/
    fn mul(self, rhs: &PrimeResidueClass<P>) -> (r: Self::Output)
        ensures r.val() == (self.val() * rhs.val()) % (P as int)
    {
        proof {
            domain_valid_p::<P>(); use_type_invariant(self); use_type_invariant(rhs);
            assert(0 <= self.value * rhs.value <= 3037000498 * 3037000498) by(nonlinear_arith)
                requires 0 <= self.value <= 3037000498, 0 <= rhs.value <= 3037000498;
        }
        (self.value * rhs.value).into()
    }
    //@ end
}

impl<const P: i64> DivSpecImpl<PrimeResidueClass<P>> for PrimeResidueClass<P> {
    open spec fn obeys_div_spec() -> bool { false }
    open spec fn div_req(self, rhs: PrimeResidueClass<P>) -> bool { rhs.val() != 0 }
    open spec fn div_spec(self, rhs: PrimeResidueClass<P>) -> PrimeResidueClass<P> { arbitrary() }
}
impl<const P: i64> Div<PrimeResidueClass<P>> for PrimeResidueClass<P> {
    type Output = PrimeResidueClass<P>;

    //@ begin src/geometry/prime_residue_classes.rs :: impl<const P: i64> Div<PrimeResidueClass<P>> for PrimeResidueClass<P> :: fn div
    //@ rw R16 /-> Self::Output/-> (r: Self::Output)/
    //@ rw R14 /^([ \t]*)self \* (rhs\.inverse\(\))$/\1let __i = \2;\n\1self * __i/
    fn div(self, rhs: PrimeResidueClass<P>) -> (r: Self::Output)
        // the quotient: the unique residue q with q * rhs == self (mod P)
        ensures (r.val() * rhs.val()) % (P as int) == self.val()
    {
        proof { domain_valid_p::<P>(); use_type_invariant(self); use_type_invariant(rhs); }
        let __i = rhs.inverse();
        proof { use_type_invariant(__i); lemma_div_correct(self.val(), __i.val(), rhs.val(), P as int); }
        self * __i
    }
    //@ end
}

impl<const P: i64> DivSpecImpl<PrimeResidueClass<P>> for &PrimeResidueClass<P> {
    open spec fn obeys_div_spec() -> bool { false }
    open spec fn div_req(self, rhs: PrimeResidueClass<P>) -> bool { rhs.val() != 0 }
    open spec fn div_spec(self, rhs: PrimeResidueClass<P>) -> PrimeResidueClass<P> { arbitrary() }
}
impl<const P: i64> Div<PrimeResidueClass<P>> for &PrimeResidueClass<P> {
    type Output = PrimeResidueClass<P>;

    //@ begin src/geometry/prime_residue_classes.rs :: impl<const P: i64> Div<PrimeResidueClass<P>> for &PrimeResidueClass<P> :: fn div
    //@ rw R16 /-> Self::Output/-> (r: Self::Output)/
    //@ rw R9+R14 /^([ \t]*)self \* (rhs\.inverse\(\))$/\1let __i = \2;\n\1Mul::mul(self, __i)/
    fn div(self, rhs: PrimeResidueClass<P>) -> (r: Self::Output)
        // the quotient: the unique residue q with q * rhs == self (mod P)
        ensures (r.val() * rhs.val()) % (P as int) == self.val()
    {
        proof { domain_valid_p::<P>(); use_type_invariant(self); use_type_invariant(rhs); }
        let __i = rhs.inverse();
        proof { use_type_invariant(__i); lemma_div_correct(self.val(), __i.val(), rhs.val(), P as int); }
        Mul::mul(self, __i)
    }
    //@ end
}

impl<const P: i64> DivSpecImpl<&PrimeResidueClass<P>> for &PrimeResidueClass<P> {
    open spec fn obeys_div_spec() -> bool { false }
    open spec fn div_req(self, rhs: &PrimeResidueClass<P>) -> bool { rhs.val() != 0 }
    open spec fn div_spec(self, rhs: &PrimeResidueClass<P>) -> PrimeResidueClass<P> { arbitrary() }
}
impl<const P: i64> Div<&PrimeResidueClass<P>> for &PrimeResidueClass<P> {
    type Output = PrimeResidueClass<P>;

    //@ begin src/geometry/prime_residue_classes.rs :: impl<const P: i64> Div<&PrimeResidueClass<P>> for &PrimeResidueClass<P> :: fn div
    //@ rw R16 /-> Self::Output/-> (r: Self::Output)/
    //@ rw R9+R14 /^([ \t]*)self \* (rhs\.inverse\(\))$/\1let __i = \2;\n\1Mul::mul(self, __i)/
    fn div(self, rhs: &PrimeResidueClass<P>) -> (r: Self::Output)
        // the quotient: the unique residue q with q * rhs == self (mod P)
        ensures (r.val() * rhs.val()) % (P as int) == self.val()
    {
        proof { domain_valid_p::<P>(); use_type_invariant(self); use_type_invariant(rhs); }
        let __i = rhs.inverse();
        proof { use_type_invariant(__i); lemma_div_correct(self.val(), __i.val(), rhs.val(), P as int); }
        Mul::mul(self, __i)
    }
    //@ end
}

impl<const P: i64> NegSpecImpl for PrimeResidueClass<P> {
    open spec fn obeys_neg_spec() -> bool { false }
    open spec fn neg_req(self) -> bool { true }
    open spec fn neg_spec(self) -> PrimeResidueClass<P> { arbitrary() }
}
impl<const P: i64> Neg for PrimeResidueClass<P> {
    type Output = PrimeResidueClass<P>;

    //@ begin src/geometry/prime_residue_classes.rs :: impl<const P: i64> Neg for PrimeResidueClass<P> :: fn neg
    //@ rw R16 /-> Self::Output/-> (r: Self::Output)/
    fn neg(self) -> (r: Self::Output)
        ensures r.val() == (-self.val()) % (P as int)
    {
        proof { domain_valid_p::<P>(); use_type_invariant(self); }
        (-self.value).into()
    }
    //@ end
}

impl<const P: i64> NegSpecImpl for &PrimeResidueClass<P> {
    open spec fn obeys_neg_spec() -> bool { false }
    open spec fn neg_req(self) -> bool { true }
    open spec fn neg_spec(self) -> PrimeResidueClass<P> { arbitrary() }
}
impl<const P: i64> Neg for &PrimeResidueClass<P> {
    type Output = PrimeResidueClass<P>;

    //@ begin src/geometry/prime_residue_classes.rs :: impl<const P: i64> Neg for &PrimeResidueClass<P> :: fn neg
    //@ rw R16 /-> Self::Output/-> (r: Self::Output)/
    fn neg(self) -> (r: Self::Output)
        ensures r.val() == (-self.val()) % (P as int)
    {
        proof { domain_valid_p::<P>(); use_type_invariant(self); }
        (-self.value).into()
    }
    //@ end
}

// =====================================================================================================
// PrimeResidueClass as matrix entry (src/geometry/modular_solver.rs: `impl Entry for PrimeResidueClass<P>`), against the trait-level
// contracts of unit row_echelon: the declarations of `Array2d` and `Entry` below are textually those of contracts/row_echelon.rs
// (checked on every run: `//@@ same-trait`), where RowEchelonVecMatrix::new / RowEchelonMatrix::new are proved to produce a row
// echelon form for EVERY Entry type that meets them.  Here the two methods are proved to meet them for the prime field.
// =====================================================================================================
pub trait Array2d<T>:
    Sized + Index<(usize, usize), Output=T> + IndexMut<(usize, usize), Output=T>
{
    spec fn wf(&self) -> bool;
    spec fn srows(&self) -> int;
    spec fn scols(&self) -> int;
    spec fn at(&self, i: int, j: int) -> T;
    fn nr_rows(&self) -> (r: usize) requires self.wf() ensures r == self.srows();
    fn nr_columns(&self) -> (r: usize) requires self.wf() ensures r == self.scols();
    // law tying the index precondition (the assert!s of the Index impl) to the shape; every implementation proves it
    proof fn index_law(&self, i: usize, j: usize)
        requires self.wf()
        ensures IndexSpec::index_req(self, &(i, j)) <==> (i < self.srows() && j < self.scols()),
            0 <= self.srows() <= usize::MAX, 0 <= self.scols() <= usize::MAX;
    // law: whatever `a[(i, j)]` returns (the postcondition of the implementation's `index`) is the abstract entry
    proof fn read_law(&self)
        requires self.wf()
        ensures forall|i: usize, j: usize, r: &T|
            #[trigger] call_ensures(<Self as Index<(usize, usize)>>::index, (self, (i, j)), r) && i < self.srows() && j < self.scols()
                ==> *r == self.at(i as int, j as int);
    // law: `a[(i, j)] = v` (the postcondition of the implementation's `index_mut`) writes exactly that entry
    proof fn write_law()
        ensures forall|m: &mut Self, i: usize, j: usize, r: &mut T|
            #[trigger] call_ensures(<Self as IndexMut<(usize, usize)>>::index_mut, (m, (i, j)), r) && (*m).wf() && i < (*m).srows() && j < (*m).scols()
                ==> mut_ref_future(m).wf() && mut_ref_future(m).srows() == (*m).srows() && mut_ref_future(m).scols() == (*m).scols()
                    && mut_ref_future(m).at(i as int, j as int) == mut_ref_future(r)
                    && forall|k: int, l: int| 0 <= k < (*m).srows() && 0 <= l < (*m).scols() && !(k == i && l == j)
                        ==> #[trigger] mut_ref_future(m).at(k, l) == (*m).at(k, l);
}

pub open spec fn same_shape<T, A: Array2d<T>>(a0: A, a1: A) -> bool {
    a1.wf() && a1.srows() == a0.srows() && a1.scols() == a0.scols()
}

// a1 is a0 with entry (i, j) replaced by v
pub open spec fn written<T, A: Array2d<T>>(a0: A, a1: A, i: int, j: int, v: T) -> bool {
    same_shape(a0, a1) && a1.at(i, j) == v
    && forall|k: int, l: int| 0 <= k < a0.srows() && 0 <= l < a0.scols() && !(k == i && l == j) ==> #[trigger] a1.at(k, l) == a0.at(k, l)
}

// what `clear_col(col, row1, row2, a, _)` leaves behind: entry (row1, col) is zero, the pivot (row2, col) is still non-zero,
// and nothing changes to the left of `col` or outside the two rows
pub open spec fn cleared<T: Entry, A: Array2d<T>>(a0: A, a1: A, col: int, row1: int, row2: int) -> bool {
    same_shape(a0, a1) && a1.at(row1, col).zr() && !a1.at(row2, col).zr()
    && forall|k: int, l: int| 0 <= k < a0.srows() && 0 <= l < a0.scols() && (l < col || (k != row1 && k != row2)) ==> #[trigger] a1.at(k, l) == a0.at(k, l)
}

pub trait Entry: Sized {
    spec fn zr(&self) -> bool;      // "is zero"

    // contract every implementation has to meet (proved below for i64, in unit prime_residue for PrimeResidueClass):
    // Some(p): p is a row at or below row0 whose entry in `col` is NOT zero;  None: the whole rest of the column is zero
    fn pivot_row<M: Array2d<Self>>(col: usize, row0: usize, a: &M) -> (r: Option<usize>)
        requires a.wf(), row0 < a.srows(), col < a.scols()
        ensures r.is_some() ==> row0 <= r.unwrap() < a.srows() && !a.at(r.unwrap() as int, col as int).zr(),
            r.is_none() ==> forall|k: int| row0 <= k < a.srows() ==> (#[trigger] a.at(k, col as int)).zr();
    // shape preservation and zero structure; the arithmetic itself (gcdx on machine integers, BigRational, f64) is outside the verifier
    fn clear_col<A: Array2d<Self>, B: Array2d<Self>>(
        col: usize, row1: usize, row2: usize, a: &mut A, x: Option<&mut B>
    )
        requires old(a).wf(), row1 < old(a).srows(), row2 < old(a).srows(), col < old(a).scols(),
            row1 != row2, !old(a).at(row2 as int, col as int).zr(),      // the body divides by the pivot entry
            x.is_some() ==> old(x.unwrap()).wf() && row1 < old(x.unwrap()).srows() && row2 < old(x.unwrap()).srows(),
        // (= `cleared(*old(a), *final(a), col, row1, row2)` below, spelled out: a trait may not mention a predicate generic over itself)
        ensures same_shape(*old(a), *final(a)),
            final(a).at(row1 as int, col as int).zr(), !final(a).at(row2 as int, col as int).zr(),
            forall|k: int, l: int| 0 <= k < old(a).srows() && 0 <= l < old(a).scols() && (l < col || (k != row1 && k != row2))
                ==> #[trigger] final(a).at(k, l) == old(a).at(k, l),
            x.is_some() ==> same_shape(*old(x.unwrap()), *final(x.unwrap()));
}


impl<const P: i64> PrimeResidueClass<P> {
    // `impl Zero for PrimeResidueClass<P>` (num_traits), emitted as inherent methods (R15)
    //@ begin src/geometry/prime_residue_classes.rs :: impl<const P: i64> Zero for PrimeResidueClass<P> :: fn zero
    //@ rw R16 /-> Self/-> (r: Self)/
    fn zero() -> (r: Self)
        ensures r.val() == 0
    {
        proof { domain_valid_p::<P>(); lemma_small_mod(0, P as nat); }
        0.into()
    }
    //@ end

    //@ begin src/geometry/prime_residue_classes.rs :: impl<const P: i64> Zero for PrimeResidueClass<P> :: fn is_zero
    //@ rw R16 /-> bool/-> (r: bool)/
    fn is_zero(&self) -> (r: bool)
        ensures r == (self.val() == 0)
    {
        self.value == 0
    }
    //@ end
}

impl<const P: i64> Entry for PrimeResidueClass<P> {
    open spec fn zr(&self) -> bool { self.val() == 0 }

    //@ begin src/geometry/modular_solver.rs :: impl<const P: i64> Entry for PrimeResidueClass<P> :: fn pivot_row
    //@ rw R16 /-> Option<usize>/-> (r: Option<usize>)/
    fn pivot_row<M: Array2d<Self>>(col: usize, row0: usize, a: &M)
        -> (r: Option<usize>)
    {
        proof { a.read_law(); }
        for row in row0..a.nr_rows()
            invariant a.wf(), col < a.scols(), row0 < a.srows(),
                forall|k: int| row0 <= k < row ==> (#[trigger] a.at(k, col as int)).zr(),
        {
            proof { a.index_law(row, col); a.read_law(); }
            if !a[(row, col)].is_zero() {
                return Some(row);
            }
        }

        None
    }
    //@ end

    //@ begin src/geometry/modular_solver.rs :: impl<const P: i64> Entry for PrimeResidueClass<P> :: fn clear_col
    #[verifier::loop_isolation(false)]
    fn clear_col<A: Array2d<Self>, B: Array2d<Self>>(
        col: usize, row1: usize, row2: usize, a: &mut A, x: Option<&mut B>
    )
    {
        proof { a.index_law(row1, col); a.index_law(row2, col); a.read_law(); A::write_law(); }
        let ghost a0 = *a;
        let f = a[(row1, col)] / a[(row2, col)];
        a[(row1, col)] = Self::zero();

        for k in (col + 1)..a.nr_columns()
            invariant same_shape(a0, *a), row1 < a0.srows(), row2 < a0.srows(), col < a0.scols(), row1 != row2,
                a.at(row1 as int, col as int).zr(),
                // only row1 changes, and only from `col` on
                forall|i: int, l: int| 0 <= i < a0.srows() && 0 <= l < a0.scols() && (i != row1 || l < col) ==> #[trigger] a.at(i, l) == a0.at(i, l),
        {
            proof { a.index_law(row1, k); a.index_law(row2, k); a.read_law(); A::write_law(); }
            a[(row1, k)] = a[(row1, k)] - a[(row2, k)] * f;
        }

        if let Some(x) = x {
            let ghost x0 = *x;
            for k in 0..x.nr_columns()
                invariant same_shape(x0, *x), row1 < x0.srows(), row2 < x0.srows(),
            {
                proof { x.index_law(row1, k); x.index_law(row2, k); B::write_law(); }
                x[(row1, k)] = x[(row1, k)] - x[(row2, k)] * f;
            }
        }
    }
    //@ end
}

// vacuity guards: canary_* MUST FAIL, witness_* must verify
proof fn canary_domain_is_satisfiable<const P: i64>()
    ensures false
{
    domain_valid_p::<P>();
}

proof fn canary_type_invariant_is_satisfiable<const P: i64>(x: PrimeResidueClass<P>)
    requires x.val() == 1
    ensures false
{
    domain_valid_p::<P>();
}

fn canary_inverse_contract<const P: i64>(x: PrimeResidueClass<P>)
    requires x.val() != 0
    ensures false
{
    let y = x.inverse();
}

fn canary_prc_clear_col_contract<const P: i64, A: Array2d<PrimeResidueClass<P>>>(a: &mut A)
    requires old(a).wf(), old(a).srows() == 2, old(a).scols() == 2, !old(a).at(0, 0).zr()
    ensures false
{
    <PrimeResidueClass<P> as Entry>::clear_col::<A, A>(0, 1, 0, a, None);
}

fn canary_prc_pivot_row_contract<const P: i64, A: Array2d<PrimeResidueClass<P>>>(a: &A)
    requires a.wf(), a.srows() == 2, a.scols() == 2
    ensures false
{
    let r = <PrimeResidueClass<P> as Entry>::pivot_row(0, 0, a);
}

fn witness_calls()
{
    let a = PrimeResidueClass::<61>::from(5i64);
    let b = PrimeResidueClass::<61>::from(-7i32);
    let c = a + b;
    let d = a * b - c;
    let e = -d;
    let f = e / a;
    let g: i64 = f.into();
}

} // verus!
fn main() {}
