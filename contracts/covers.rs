//@ unit covers
//@ props C05
//@@ depends cosets dsyms free_words partitions
//@@ same-spec cosets :: valid trace inv_word within all_within
//@@ same-spec dsyms :: base_complete bop sm_callable sm_functional sm_involutive sm_injective
use vstd::prelude::*;
use std::collections::{BTreeMap, BTreeSet};
verus! {
// =====================================================================================================
// cover_for_table (src/covers.rs): the cover of a symbol that belongs to a coset table of its fundamental group.
// Everything this unit knows about coset tables, free words, D-sets and `cover` is IMPORTED: assumed here, proved in the units
// cosets / free_words / dsyms (clause lists compared mechanically by tools/imports.py; spec functions defined in both units must be
// textually identical).  `covers` and `cover_degrees` -- the postcondition of `cover` -- are left UNINTERPRETED here: the proof below
// holds for every interpretation, in particular for the definitions of unit dsyms, where `cover` is proved to establish them.
// =====================================================================================================
// --- unit free_words
pub struct FreeWord { pub w: Vec<isize> }
impl FreeWord {
    pub open spec fn view(&self) -> Seq<isize> { self.w@ }
    //@@ import free_words :: impl FreeWord::empty
    #[verifier::external_body]
    pub fn empty() -> (r: Self)
        ensures r@ == Seq::<isize>::empty()
    { unimplemented!() }
}
// --- unit partitions: only the representative function is mentioned (through CosetTable::act)
pub struct IntPartition { pub _impl: usize }
impl IntPartition {
    pub uninterp spec fn rep(&self, x: int) -> int;
}
// --- unit cosets
//@ begin src/fpgroups/cosets.rs :: - :: struct CosetTable
//@ rw R0 /^([ \t]+)(\w+): /\1pub \2: /
pub struct CosetTable {
    pub nr_gens: usize,
    pub table: Vec<Vec<isize>>,
    pub part: IntPartition
}
//@ end

impl CosetTable {
    pub open spec fn wf(&self) -> bool {
        &&& self.nr_gens < isize::MAX / 2
        &&& forall|c: int| 0 <= c < self.table@.len() ==> (#[trigger] self.table@[c])@.len() == 2 * self.nr_gens + 1
    }
    pub open spec fn col_ok(&self, g: int) -> bool { -(self.nr_gens as int) <= g <= self.nr_gens as int }
    pub open spec fn gen_ok(&self, g: int) -> bool { g != 0 && self.col_ok(g) }
    pub open spec fn raw(&self, c: int, g: int) -> int { self.table@[c]@[g + self.nr_gens] as int }
    pub open spec fn act(&self, c: int, g: int) -> Option<usize> {
        if 0 <= c < self.table@.len() && self.raw(c, g) >= 0 { Some(self.part.rep(self.raw(c, g)) as usize) } else { None }
    }
    //@@ import cosets :: impl CosetTable::len
    #[verifier::external_body]
    pub fn len(&self) -> (r: usize)
        ensures r == self.table@.len()
    { unimplemented!() }
    //@@ import cosets :: impl CosetTable::get
    #[verifier::external_body]
    pub fn get(&self, c: usize, g: isize) -> (r: Option<usize>)
        requires self.wf(), self.col_ok(g as int)
        ensures r == self.act(c as int, g as int)
    { unimplemented!() }
}
pub open spec fn trace(t: &CosetTable, row: int, w: Seq<isize>) -> Option<usize>
    decreases w.len()
{
    if w.len() == 0 { Some(row as usize) }
    else { match trace(t, row, w.drop_last()) { Some(x) => t.act(x as int, w.last() as int), None => None } }
}
pub open spec fn valid(t: &CosetTable) -> bool {
    &&& t.wf()
    &&& t.table@.len() >= 1
    &&& forall|r: int, g: int| 0 <= r < t.table@.len() && t.gen_ok(g) ==>
            (#[trigger] t.act(r, g)).is_some() && t.act(r, g).unwrap() < t.table@.len()
            && t.act(t.act(r, g).unwrap() as int, -g) == Some(r as usize)
}

// --- unit dsyms: the abstract D-set interface (spec side only), and `cover`
pub trait DSet: Sized {
    spec fn wf(&self) -> bool;
    spec fn ssize(&self) -> int;
    spec fn sdim(&self) -> int;
    spec fn sop(&self, i: int, d: int) -> Option<usize>;
}
pub trait DSym: DSet {}
pub struct PartialDSym { pub _opaque: usize }
pub uninterp spec fn covers<T: DSet>(c: &PartialDSym, ds: &T, n: int) -> bool;
pub uninterp spec fn cover_degrees<T: DSet>(c: &PartialDSym, ds: &T) -> bool;
pub open spec fn base_complete<T: DSet>(ds: &T) -> bool {
    forall|i: int, c: int| 0 <= i <= ds.sdim() && 1 <= c <= ds.ssize() ==> (#[trigger] ds.sop(i, c)).is_some()
}
pub open spec fn bop<T: DSet>(ds: &T, i: int, c: int) -> int { ds.sop(i, c).unwrap() as int }
pub open spec fn sm_ens<F: Fn(usize, usize, usize) -> usize>(sm: &F, k: usize, i: usize, c: usize, r: usize) -> bool {
    sm.ensures((k, i, c), r)
}
pub open spec fn sm_req<F: Fn(usize, usize, usize) -> usize>(sm: &F, k: usize, i: usize, c: usize) -> bool {
    sm.requires((k, i, c))
}
// requirements on the sheet map, as relations on the closure's ensures
pub open spec fn sm_callable<T: DSet, F: Fn(usize, usize, usize) -> usize>(ds: &T, sm: &F, n: int) -> bool {
    forall|k: usize, i: usize, c: usize| k < n && i <= ds.sdim() && 1 <= c <= ds.ssize() ==> #[trigger] sm.requires((k, i, c))
}
pub open spec fn sm_functional<T: DSet, F: Fn(usize, usize, usize) -> usize>(ds: &T, sm: &F, n: int) -> bool {
    forall|k: usize, i: usize, c: usize, a: usize, b: usize| #![trigger sm_ens(sm, k, i, c, a), sm_ens(sm, k, i, c, b)]
        k < n && i <= ds.sdim() && 1 <= c <= ds.ssize() && sm_ens(sm, k, i, c, a) && sm_ens(sm, k, i, c, b) ==> a == b && a < n
}
pub open spec fn sm_involutive<T: DSet, F: Fn(usize, usize, usize) -> usize>(ds: &T, sm: &F, n: int) -> bool {
    forall|k: usize, i: usize, c: usize, k2: usize, k3: usize| #![trigger sm_ens(sm, k, i, c, k2), sm_ens(sm, k2, i, bop(ds, i as int, c as int) as usize, k3)]
        k < n && i <= ds.sdim() && 1 <= c <= ds.ssize() && sm_ens(sm, k, i, c, k2)
            && sm_ens(sm, k2, i, bop(ds, i as int, c as int) as usize, k3) ==> k3 == k
}
pub open spec fn sm_injective<T: DSet, F: Fn(usize, usize, usize) -> usize>(ds: &T, sm: &F, n: int) -> bool {
    forall|ka: usize, kb: usize, i: usize, c: usize, k2: usize| #![trigger sm_ens(sm, ka, i, c, k2), sm_ens(sm, kb, i, c, k2)]
        ka < n && kb < n && i <= ds.sdim() && 1 <= c <= ds.ssize() && sm_ens(sm, ka, i, c, k2) && sm_ens(sm, kb, i, c, k2) ==> ka == kb
}


//@@ import dsyms :: cover
#[verifier::external_body]
pub fn cover<T, F>(ds: &T, nr_sheets: usize, sheet_map: F) -> (res: PartialDSym)
    where
        T: DSet,
        F: Fn(usize, usize, usize) -> usize
    requires ds.wf(), base_complete(ds),
        nr_sheets >= 1, nr_sheets * ds.ssize() * (ds.sdim() + 1) <= usize::MAX, nr_sheets * ds.ssize() < usize::MAX,
        // the sheet map is a function into 0..nr_sheets which, for every operation i, permutes the sheets over each i-edge consistently
        sm_callable(ds, &sheet_map, nr_sheets as int), sm_functional(ds, &sheet_map, nr_sheets as int),
        sm_involutive(ds, &sheet_map, nr_sheets as int), sm_injective(ds, &sheet_map, nr_sheets as int),
    // C05: the result is a well-formed complete symbol of nr_sheets * size chambers whose projection d |-> (d-1) % size + 1
    // onto the base commutes with every operation
    ensures covers(&res, ds, nr_sheets as int), cover_degrees(&res, ds),
{ unimplemented!() }

// =====================================================================================================
// std pieces outside vstd, by their std semantics (R5)
// =====================================================================================================
// `word.iter().fold(init, f)`: Iterator::fold over the letters of a word, as an invariant rule
#[verifier::external_body]
fn __fold_letters<F: Fn(usize, &isize) -> usize>(word: &FreeWord, init: usize, f: F, Ghost(inv): Ghost<spec_fn(int, usize) -> bool>) -> (r: usize)
    requires holds(inv, 0, init),
        forall|k: int, acc: usize| 0 <= k < word@.len() && #[trigger] holds(inv, k, acc) ==> f.requires((acc, &word@[k])),
        forall|k: int, acc: usize, r: usize| #![trigger holds(inv, k, acc), holds(inv, k + 1, r)]
            0 <= k < word@.len() && holds(inv, k, acc) && f.ensures((acc, &word@[k]), r) ==> holds(inv, k + 1, r),
    ensures holds(inv, word@.len() as int, r)
{ unimplemented!() }
pub open spec fn holds(inv: spec_fn(int, usize) -> bool, k: int, acc: usize) -> bool { inv(k, acc) }

// `edge_to_word.get(&(d, i))`: BTreeMap::get is a function of the map and the key (vstd has no key model for tuple keys)
pub uninterp spec fn ewget(m: &BTreeMap<(usize, usize), FreeWord>, d: usize, i: usize) -> Option<FreeWord>;
#[verifier::external_body]
fn __edge_get<'a>(m: &'a BTreeMap<(usize, usize), FreeWord>, d: usize, i: usize) -> (r: Option<&'a FreeWord>)
    ensures r.is_some() == ewget(m, d, i).is_some(), r.is_some() ==> *r.unwrap() == ewget(m, d, i).unwrap()
{ unimplemented!() }

// =====================================================================================================
// trace_word
// =====================================================================================================
pub open spec fn gens_ok(t: &CosetTable, w: Seq<isize>) -> bool { forall|k: int| 0 <= k < w.len() ==> t.gen_ok(#[trigger] w[k] as int) }

pub open spec fn trace_inv(t: &CosetTable, start: int, w: Seq<isize>) -> spec_fn(int, usize) -> bool {
    |k: int, acc: usize| 0 <= k <= w.len() && trace(t, start, w.take(k)) == Some(acc) && acc < t.table@.len()
}

proof fn lemma_trace_take(t: &CosetTable, start: int, w: Seq<isize>, k: int)
    requires 0 <= k < w.len()
    ensures trace(t, start, w.take(k + 1)) == (match trace(t, start, w.take(k)) { Some(x) => t.act(x as int, w[k] as int), None => None })
{
    assert(w.take(k + 1).drop_last() =~= w.take(k));
    assert(w.take(k + 1).last() == w[k]);
}

//@ begin src/covers.rs :: - :: fn trace_word | props=C05
//@ rw R16 /-> usize$/-> (r: usize)/
//@ rw R5+R14 /^([ \t]*)word\.iter\(\)\.fold\(start, \|row, g\| (.*)\)$/\1let __r = __fold_letters(word, start, |row: usize, g: &isize| -> (r: usize)\n\1{ \2 }, Ghost(trace_inv(table, start as int, word@)));\n\1__r/
fn trace_word(table: &CosetTable, start: usize, word: &FreeWord) -> (r: usize)
    requires valid(table), start < table.table@.len(), gens_ok(table, word@),
    // C05 "sheet map = action of the edge word on coset-table rows"
    ensures trace(table, start as int, word@) == Some(r), r < table.table@.len()
{
    proof {
        assert(word@.take(0) =~= Seq::<isize>::empty());
        let inv = trace_inv(table, start as int, word@);
        assert forall|k: int, acc: usize, r: usize| #![trigger holds(inv, k, acc), holds(inv, k + 1, r)] 0 <= k < word@.len() && holds(inv, k, acc)
            && r == table.act(acc as int, word@[k] as int).unwrap() implies holds(inv, k + 1, r) by {
            lemma_trace_take(table, start as int, word@, k);
            assert(table.gen_ok(word@[k] as int));
            assert(table.act(acc as int, word@[k] as int).is_some());
        }
    }
    let __r = __fold_letters(word, start, |row: usize, g: &isize| -> (r: usize)
        requires valid(table), row < table.table@.len(), table.gen_ok(*g as int)
        ensures r == table.act(row as int, *g as int).unwrap()
    { table.get(row, *g).unwrap() }, Ghost(trace_inv(table, start as int, word@)));
    proof { assert(word@.take(word@.len() as int) =~= word@); }
    __r
}
//@ end

// =====================================================================================================
// cover_for_table
// =====================================================================================================
// the word attached to facet i of chamber d (the empty word where the map has no entry)
pub open spec fn ew_word(m: &BTreeMap<(usize, usize), FreeWord>, d: usize, i: usize) -> Seq<isize> {
    match ewget(m, d, i) { Some(w) => w@, None => Seq::<isize>::empty() }
}
pub open spec fn words_ok<T: DSet>(ds: &T, t: &CosetTable, m: &BTreeMap<(usize, usize), FreeWord>) -> bool {
    forall|d: usize, i: usize| 1 <= d <= ds.ssize() && i <= ds.sdim() ==> gens_ok(t, #[trigger] ew_word(m, d, i))
}
pub open spec fn trace2(t: &CosetTable, s: int, a: Seq<isize>, b: Seq<isize>) -> Option<usize> {
    match trace(t, s, a) { Some(x) => trace(t, x as int, b), None => None }
}
// the word on the far side of a facet undoes the word on its near side, on every row of the table (what the fundamental-group
// presentation guarantees: "the words attached to the two sides of a non-mirror facet are mutually inverse", C09)
pub open spec fn words_paired<T: DSet>(ds: &T, t: &CosetTable, m: &BTreeMap<(usize, usize), FreeWord>) -> bool {
    forall|d: usize, i: usize, s: int| 1 <= d <= ds.ssize() && i <= ds.sdim() && 0 <= s < t.table@.len() ==>
        trace2(t, s, #[trigger] ew_word(m, d, i), ew_word(m, bop(ds, i as int, d as int) as usize, i)) == Some(s as usize) || #[trigger] unreachable_row(s)
}
pub open spec fn unreachable_row(s: int) -> bool { false }

//@ begin src/covers.rs :: - :: fn cover_for_table | props=C05
//@ rw R16 /^([ \t]*)-> PartialDSym$/\1-> (res: PartialDSym)/
//@ rw R5+R14 /^([ \t]*)cover\(\n[ \t]*ds,\n[ \t]*table\.len\(\),\n[ \t]*\|sheet, i, d\|\n[ \t]*trace_word\(\n[ \t]*table,\n[ \t]*sheet,\n[ \t]*&edge_to_word\.get\(&\(d, i\)\)\.unwrap_or\(&FreeWord::empty\(\)\)\n[ \t]*\)\n[ \t]*\)$/\1let __sm = |sheet: usize, i: usize, d: usize| -> (k2: usize)\n\1{\n\1    let __e = FreeWord::empty();\n\1    let __w = __edge_get(edge_to_word, d, i).unwrap_or(&__e);\n\1    trace_word(table, sheet, __w)\n\1};\n\1let __r = cover(ds, table.len(), __sm);\n\1__r/
pub fn cover_for_table<T: DSym>(
    ds: &T,
    table: &CosetTable,
    edge_to_word: &BTreeMap<(usize, usize), FreeWord>
)
    -> (res: PartialDSym)
    requires ds.wf(), base_complete(ds), valid(table),
        table.table@.len() * ds.ssize() * (ds.sdim() + 1) <= usize::MAX, table.table@.len() * ds.ssize() < usize::MAX,
        words_ok(ds, table, edge_to_word), words_paired(ds, table, edge_to_word),
    // C05: a covering of ds with one sheet per row of the table, with the degrees of ds
    ensures covers(&res, ds, table.table@.len() as int), cover_degrees(&res, ds),
{
    let ghost n = table.table@.len() as int;
    let __sm = |sheet: usize, i: usize, d: usize| -> (k2: usize)
        requires valid(table), sheet < table.table@.len(), 1 <= d <= ds.ssize(), i <= ds.sdim(), words_ok(ds, table, edge_to_word),
        ensures k2 < table.table@.len(), trace(table, sheet as int, ew_word(edge_to_word, d, i)) == Some(k2),
    {
        let __e = FreeWord::empty();
        let __w = __edge_get(edge_to_word, d, i).unwrap_or(&__e);
        proof { assert(gens_ok(table, ew_word(edge_to_word, d, i))); }
        trace_word(table, sheet, __w)
    };
    proof {
        assert(sm_callable(ds, &__sm, n));
        assert(sm_functional(ds, &__sm, n));
        assert(sm_involutive(ds, &__sm, n)) by {
            assert forall|k: usize, i: usize, c: usize, k2: usize, k3: usize| #![trigger sm_ens(&__sm, k, i, c, k2), sm_ens(&__sm, k2, i, bop(ds, i as int, c as int) as usize, k3)]
                k < n && i <= ds.sdim() && 1 <= c <= ds.ssize() && sm_ens(&__sm, k, i, c, k2)
                    && sm_ens(&__sm, k2, i, bop(ds, i as int, c as int) as usize, k3) implies k3 == k by {
                let a = ew_word(edge_to_word, c, i);
                let b = ew_word(edge_to_word, bop(ds, i as int, c as int) as usize, i);
                assert(trace2(table, k as int, a, b) == Some(k) || unreachable_row(k as int));
            }
        }
        assert(sm_injective(ds, &__sm, n)) by {
            assert forall|ka: usize, kb: usize, i: usize, c: usize, k2: usize| #![trigger sm_ens(&__sm, ka, i, c, k2), sm_ens(&__sm, kb, i, c, k2)]
                ka < n && kb < n && i <= ds.sdim() && 1 <= c <= ds.ssize() && sm_ens(&__sm, ka, i, c, k2) && sm_ens(&__sm, kb, i, c, k2) implies ka == kb by {
                let a = ew_word(edge_to_word, c, i);
                let b = ew_word(edge_to_word, bop(ds, i as int, c as int) as usize, i);
                assert(trace2(table, ka as int, a, b) == Some(ka) || unreachable_row(ka as int));
                assert(trace2(table, kb as int, a, b) == Some(kb) || unreachable_row(kb as int));
            }
        }
    }
    let __r = cover(ds, table.len(), __sm);
    __r
}
//@ end

// =====================================================================================================
// Where `words_paired` comes from.  What the presentation of the fundamental group provides is syntactic (C09: "the words attached to the two
// sides of a non-mirror facet are mutually inverse"; across a mirror the facet word is a generator whose square is a relator), what the
// coset enumeration provides is that every relator traced from every row returns to that row (C11, the postcondition of coset_table).
// Together they give the semantic precondition of cover_for_table:
// =====================================================================================================
pub open spec fn inv_word(w: Seq<isize>) -> Seq<isize> { Seq::new(w.len(), |k: int| (-(w[w.len() - 1 - k] as int)) as isize) }

// the two words of a facet are mutually inverse, or their product is one of the relators
pub open spec fn facet_ok(a: Seq<isize>, b: Seq<isize>, rels: Seq<FreeWord>) -> bool {
    b == inv_word(a) || exists|k: int| 0 <= k < rels.len() && (#[trigger] rels[k])@ == a + b
}
pub open spec fn words_by_relators<T: DSet>(ds: &T, m: &BTreeMap<(usize, usize), FreeWord>, rels: Seq<FreeWord>) -> bool {
    forall|d: usize, i: usize| 1 <= d <= ds.ssize() && i <= ds.sdim() ==>
        facet_ok(#[trigger] ew_word(m, d, i), ew_word(m, bop(ds, i as int, d as int) as usize, i), rels)
}
// every relator traced from every row returns to that row (literally the clause coset_table ensures)
pub open spec fn closes(t: &CosetTable, relators: Seq<FreeWord>) -> bool {
    forall|m: int, r: int| 0 <= m < relators.len() && 0 <= r < t.table@.len() ==> #[trigger] trace(t, r, relators[m]@) == Some(r as usize)
}

proof fn lemma_tr_total(t: &CosetTable, s: int, w: Seq<isize>)
    requires valid(t), 0 <= s < t.table@.len(), gens_ok(t, w)
    ensures trace(t, s, w).is_some(), trace(t, s, w).unwrap() < t.table@.len()
    decreases w.len()
{
    if w.len() > 0 {
        lemma_tr_total(t, s, w.drop_last());
        assert(t.gen_ok(w[w.len() - 1] as int));
        let x = trace(t, s, w.drop_last()).unwrap();
        assert(t.act(x as int, w.last() as int).is_some());
    }
}

proof fn lemma_tr_concat(t: &CosetTable, s: int, u: Seq<isize>, v: Seq<isize>)
    ensures trace(t, s, u + v) == trace2(t, s, u, v)
    decreases v.len()
{
    if v.len() == 0 { assert(u + v =~= u); }
    else {
        assert((u + v).drop_last() =~= u + v.drop_last());
        assert((u + v).last() == v.last());
        lemma_tr_concat(t, s, u, v.drop_last());
    }
}

// tracing a word and then its inverse leads back
proof fn lemma_tr_inv(t: &CosetTable, s: int, v: Seq<isize>)
    requires valid(t), 0 <= s < t.table@.len(), gens_ok(t, v)
    ensures trace2(t, s, v, inv_word(v)) == Some(s as usize), gens_ok(t, inv_word(v))
    decreases v.len()
{
    assert forall|k: int| 0 <= k < inv_word(v).len() implies t.gen_ok(#[trigger] inv_word(v)[k] as int) by {
        assert(t.gen_ok(v[v.len() - 1 - k] as int));
    }
    if v.len() == 0 {
        assert(inv_word(v) =~= Seq::<isize>::empty());
    } else {
        let v0 = v.drop_last();
        let g = v.last();
        assert(t.gen_ok(v[v.len() - 1] as int));
        lemma_tr_total(t, s, v0);
        let y = trace(t, s, v0).unwrap();
        let x = t.act(y as int, g as int).unwrap();
        assert(t.act(y as int, g as int).is_some() && x < t.table@.len() && t.act(x as int, -(g as int)) == Some(y));
        // inv_word(v) == [-g] + inv_word(v0)
        let minus_g = (-(g as int)) as isize;
        assert(inv_word(v) =~= seq![minus_g] + inv_word(v0));
        lemma_tr_concat(t, x as int, seq![minus_g], inv_word(v0));
        assert(seq![minus_g].drop_last() =~= Seq::<isize>::empty());
        assert(seq![minus_g].last() == minus_g);
        assert(trace(t, x as int, Seq::<isize>::empty()) == Some(x));
        assert(trace(t, x as int, seq![minus_g]) == t.act(x as int, minus_g as int));
        assert(trace(t, s, v) == Some(x));
        lemma_tr_inv(t, s, v0);
        assert(trace(t, y as int, inv_word(v0)) == Some(s as usize));
    }
}

pub proof fn lemma_words_paired<T: DSet>(ds: &T, t: &CosetTable, m: &BTreeMap<(usize, usize), FreeWord>, rels: Seq<FreeWord>)
    requires valid(t), words_ok(ds, t, m), words_by_relators(ds, m, rels), closes(t, rels)
    ensures words_paired(ds, t, m)
{
    assert forall|d: usize, i: usize, s: int| 1 <= d <= ds.ssize() && i <= ds.sdim() && 0 <= s < t.table@.len() implies
        trace2(t, s, #[trigger] ew_word(m, d, i), ew_word(m, bop(ds, i as int, d as int) as usize, i)) == Some(s as usize) || #[trigger] unreachable_row(s) by {
        let a = ew_word(m, d, i);
        let b = ew_word(m, bop(ds, i as int, d as int) as usize, i);
        assert(facet_ok(a, b, rels));
        assert(gens_ok(t, a));
        if b == inv_word(a) {
            lemma_tr_inv(t, s, a);
        } else {
            let k = choose|k: int| 0 <= k < rels.len() && (#[trigger] rels[k])@ == a + b;
            lemma_tr_concat(t, s, a, b);
            assert(trace(t, s, rels[k]@) == Some(s as usize));
        }
    }
}

// =====================================================================================================
// subgroup_cover / finite_universal_cover: fundamental group -> Todd-Coxeter table of the subgroup -> cover_for_table.
// fundamental_group is OUTSIDE the contracts (C09 is not applicable); what the chain needs of it is stated as an assumed contract,
// and it is exactly the syntactic part of C09.  coset_table is imported from unit cosets (proved there).
// =====================================================================================================
pub open spec fn within(s: Seq<isize>, b: int) -> bool { forall|k: int| 0 <= k < s.len() ==> -b <= #[trigger] s[k] <= b }
pub open spec fn all_within(ws: Seq<FreeWord>, b: int) -> bool { forall|m: int| 0 <= m < ws.len() ==> within((#[trigger] ws[m])@, b) }

//@@ import cosets :: coset_table
#[verifier::external_body]
pub fn coset_table(
    nr_gens: usize, relators: &Vec<FreeWord>, subgroup_gens: &Vec<FreeWord>
) -> (result: CosetTable)
    requires nr_gens < isize::MAX / 2,
        all_within(relators@, nr_gens as int), all_within(subgroup_gens@, nr_gens as int),
    ensures result.wf(), result.nr_gens == nr_gens, result.table@.len() >= 1,
        result.table@.len() <= 100_000,
        valid(&result),
        forall|m: int, r: int| 0 <= m < relators@.len() && 0 <= r < result.table@.len() ==> #[trigger] trace(&result, r, relators@[m]@) == Some(r as usize),
        forall|m: int| 0 <= m < subgroup_gens@.len() ==> trace(&result, 0, (#[trigger] subgroup_gens@[m])@) == Some(0usize),
{ unimplemented!() }

type Edge = (usize, usize);
//@ begin src/fundamental_group.rs :: - :: struct FundamentalGroup | props=C05
pub struct FundamentalGroup {
    pub relators: Vec<FreeWord>,
    pub cones: BTreeSet<(FreeWord, usize)>,
    pub gen_to_edge: BTreeMap<usize, Edge>,
    pub edge_to_word: BTreeMap<Edge, FreeWord>,
}
//@ end

impl FundamentalGroup {
    // the number of generators (`self.gen_to_edge.len()`)
    pub uninterp spec fn ngens(&self) -> int;
    //@ begin src/fundamental_group.rs :: impl FundamentalGroup :: fn nr_generators | props=C05
    //@ rw R16 /-> usize/-> (r: usize)/
    #[verifier::external_body]
    pub fn nr_generators(&self) -> (r: usize)
        ensures r == self.ngens()
    {
        self.gen_to_edge.len()
    }
    //@ end
}

// every letter is a generator 1..=n or its inverse
pub open spec fn letters_ok(w: Seq<isize>, n: int) -> bool { forall|k: int| 0 <= k < w.len() ==> #[trigger] w[k] != 0 && -n <= w[k] <= n }
// ASSUMED of fundamental_group (the syntactic content of C09): at most one generator per facet, relators and facet words are words in the
// generators, and the two words of every facet are mutually inverse or multiply to a relator
pub open spec fn fg_spec<T: DSet>(ds: &T, g: &FundamentalGroup) -> bool {
    &&& 0 <= g.ngens() <= ds.ssize() * (ds.sdim() + 1)
    &&& all_within(g.relators@, g.ngens())
    &&& forall|d: usize, i: usize| 1 <= d <= ds.ssize() && i <= ds.sdim() ==> letters_ok(#[trigger] ew_word(&g.edge_to_word, d, i), g.ngens())
    &&& words_by_relators(ds, &g.edge_to_word, g.relators@)
}
pub uninterp spec fn fg_ngens<T: DSet>(ds: &T) -> int;
pub uninterp spec fn fg_rels<T: DSet>(ds: &T) -> Seq<FreeWord>;        // the relators fundamental_group returns for ds (a function of ds)
#[verifier::external_body]
pub fn fundamental_group<T: DSym>(ds: &T) -> (g: FundamentalGroup)
    requires ds.wf(), base_complete(ds)
    ensures fg_spec(ds, &g), g.ngens() == fg_ngens(ds), g.relators@ == fg_rels(ds)
{ unimplemented!() }

// "the cover belonging to a subgroup": t is a valid table of the presentation (every relator closes at every row) in which every one of the
// GIVEN subgroup generators, traced from row 0, returns to row 0
pub open spec fn sub_table(t: &CosetTable, rels: Seq<FreeWord>, subs: Seq<FreeWord>) -> bool {
    &&& valid(t) && 1 <= t.table@.len() <= 100_000
    &&& closes(t, rels)
    &&& forall|m: int| 0 <= m < subs.len() ==> trace(t, 0, (#[trigger] subs[m])@) == Some(0usize)
}

//@ begin src/covers.rs :: - :: fn subgroup_cover | props=C05
//@ rw R16 /^([ \t]*)-> PartialDSym$/\1-> (res: PartialDSym)/
//@ rw R14 /^([ \t]*)cover_for_table\(ds, &table, &g\.edge_to_word\)$/\1let __r = cover_for_table(ds, &table, &g.edge_to_word);\n\1__r/
pub fn subgroup_cover<T: DSym>(ds: &T, subgens: &Vec<FreeWord>)
    -> (res: PartialDSym)
    requires ds.wf(), base_complete(ds), ds.ssize() >= 1, ds.sdim() >= 0,
        100_000 * ds.ssize() * (ds.sdim() + 1) <= usize::MAX, 100_000 * ds.ssize() < usize::MAX,
        all_within(subgens@, fg_ngens(ds)),
    // C05: a covering of ds (with one sheet per row of the Todd-Coxeter table, at most 100_000: the enumeration aborts beyond), with the degrees of ds
    ensures exists|n: int| 1 <= n <= 100_000 && #[trigger] covers(&res, ds, n), cover_degrees(&res, ds),
        // ... and it is the cover of THIS subgroup: one sheet per row of a table in which the given generators fix row 0
        exists|t: CosetTable| #[trigger] sub_table(&t, fg_rels(ds), subgens@) && covers(&res, ds, t.table@.len() as int),
{
    let g = fundamental_group(ds);
    proof {
        assert(g.ngens() <= ds.ssize() * (ds.sdim() + 1));
        assert(ds.ssize() * (ds.sdim() + 1) < isize::MAX / 2) by(nonlinear_arith)
            requires 100_000 * ds.ssize() * (ds.sdim() + 1) <= usize::MAX, ds.ssize() >= 1, ds.sdim() >= 0;
    }
    let table = coset_table(g.nr_generators(), &g.relators, subgens);
    proof {
        let n = table.table@.len() as int;
        assert(words_ok(ds, &table, &g.edge_to_word)) by {
            assert forall|d: usize, i: usize| 1 <= d <= ds.ssize() && i <= ds.sdim() implies gens_ok(&table, #[trigger] ew_word(&g.edge_to_word, d, i)) by {
                let w = ew_word(&g.edge_to_word, d, i);
                assert(letters_ok(w, g.ngens()));
                assert forall|k: int| 0 <= k < w.len() implies table.gen_ok(#[trigger] w[k] as int) by { }
            }
        }
        assert(closes(&table, g.relators@));
        lemma_words_paired(ds, &table, &g.edge_to_word, g.relators@);
        assert(n * ds.ssize() * (ds.sdim() + 1) <= usize::MAX && n * ds.ssize() < usize::MAX) by(nonlinear_arith)
            requires 1 <= n <= 100_000, 100_000 * ds.ssize() * (ds.sdim() + 1) <= usize::MAX, 100_000 * ds.ssize() < usize::MAX, ds.ssize() >= 1, ds.sdim() >= 0;
    }
    let __r = cover_for_table(ds, &table, &g.edge_to_word);
    proof {
        assert(covers(&__r, ds, table.table@.len() as int)); // post-witness
        assert(sub_table(&table, fg_rels(ds), subgens@)); // post-witness
    }
    __r
}
//@ end

//@ begin src/covers.rs :: - :: fn finite_universal_cover | props=C05
//@ rw R16 /-> PartialDSym$/-> (res: PartialDSym)/
//@ rw R12+R14 /^([ \t]*)subgroup_cover\(ds, &vec!\[\]\)$/\1let __none: Vec<FreeWord> = vec![];\n\1subgroup_cover(ds, &__none)/
pub fn finite_universal_cover<T: DSym>(ds: &T) -> (res: PartialDSym)
    requires ds.wf(), base_complete(ds), ds.ssize() >= 1, ds.sdim() >= 0,
        100_000 * ds.ssize() * (ds.sdim() + 1) <= usize::MAX, 100_000 * ds.ssize() < usize::MAX,
    ensures exists|n: int| 1 <= n <= 100_000 && #[trigger] covers(&res, ds, n), cover_degrees(&res, ds),
        exists|t: CosetTable| #[trigger] sub_table(&t, fg_rels(ds), Seq::<FreeWord>::empty()) && covers(&res, ds, t.table@.len() as int),
{
    let __none: Vec<FreeWord> = vec![];
    subgroup_cover(ds, &__none)
}
//@ end

fn canary_subgroup_cover_contract<T: DSym>(ds: &T, subgens: &Vec<FreeWord>)
    requires ds.wf(), base_complete(ds), ds.ssize() >= 1, ds.sdim() >= 0,
        100_000 * ds.ssize() * (ds.sdim() + 1) <= usize::MAX, 100_000 * ds.ssize() < usize::MAX,
        all_within(subgens@, fg_ngens(ds)),
    ensures false
{
    let r = subgroup_cover(ds, subgens);
}

// =====================================================================================================
// vacuity canaries (each MUST fail) and a witness
// =====================================================================================================
fn canary_cover_for_table_contract<T: DSym>(ds: &T, table: &CosetTable, m: &BTreeMap<(usize, usize), FreeWord>)
    requires ds.wf(), base_complete(ds), valid(table),
        table.table@.len() * ds.ssize() * (ds.sdim() + 1) <= usize::MAX, table.table@.len() * ds.ssize() < usize::MAX,
        words_ok(ds, table, m), words_paired(ds, table, m),
    ensures false
{
    let r = cover_for_table(ds, table, m);
}

fn canary_trace_word_contract(table: &CosetTable, word: &FreeWord)
    requires valid(table), gens_ok(table, word@)
    ensures false
{
    let r = trace_word(table, 0, word);
}
} // verus!
fn main() {}
