//@ unit dsyms
//@ props C01 C02 C04 C05
//@@ verus-args --rlimit 40
//@@ depends partitions
//@@ fnprops C04 witness_automorphisms_are_bijections lemma_const_along lemma_self_morphism_bijective lemma_morphism_total lemma_assigned_along witness_morphism_total lemma_done_stable canary_morphism_contract lemma_track_step lemma_img_rng lemma_conn_cong lemma_conn_homog lemma_conn_base lemma_pop lemma_skip lemma_unite_step lemma_queue_push lemma_ci_pop lemma_good_images lemma_ci_push lemma_ci_none lemma_fold_result lemma_walk_rng lemma_img_involution lemma_pull_back lemma_minimal_iff_only_trivial canary_is_minimal_contract canary_fold_contract canary_connected_is_satisfiable lemma_jchain_rng lemma_jchain_cons lemma_jchain_sym lemma_jchain_trans lemma_joined_equiv lemma_least lemma_jrep lemma_jchain_cong lemma_join_good lemma_walk_cong lemma_coarsest lemma_mi_step lemma_mi_back lemma_mi_commutes canary_minimal_image_contract canary_join_is_satisfiable
//@@ fnprops C01 canary_from_str_contract
//@@ fnprops C02 lemma_iter_ij_range lemma_step_ij_injective lemma_iter_ij_cancel lemma_r_bound canary_default_r_contract
//@@ fnprops C05 canary_cover_contract lemma_fibres lemma_sheet lemma_compose lemma_bop lemma_xor1 lemma_xor1_inj
#![feature(panic_internals)]
#![feature(sized_hierarchy)]
use vstd::prelude::*;
use vstd::std_specs::iter::*;
use vstd::arithmetic::div_mod::*;
use std::collections::VecDeque;
verus! {

// =====================================================================================================
// trusted std specifications that vstd lacks
// =====================================================================================================
#[verifier::external_type_specification]
pub struct ExAssertKind(core::panicking::AssertKind);

// assert_eq! / assert_ne! expand to a call of this function: reaching it is a proof obligation
pub assume_specification<T, U> [core::panicking::assert_failed] (_0: core::panicking::AssertKind, _1: &T, _2: &U, _3: std::option::Option<std::fmt::Arguments<'_>>) -> !
    where
    T: std::marker::MetaSized + std::fmt::Debug + ?Sized,
    U: std::marker::MetaSized + std::fmt::Debug + ?Sized,
    requires false;

pub assume_specification<T: Clone>[<[T]>::fill](s: &mut [T], value: T)
    ensures final(s)@.len() == old(s)@.len(),
        forall|i: int| 0 <= i < final(s)@.len() ==> final(s)@[i] == value,
;

// =====================================================================================================
// the abstract D-set interface (trait DSet of src/dsets.rs): contracts of the three required methods and of `m`
// =====================================================================================================
pub trait DSet: Sized {
    spec fn wf(&self) -> bool;
    spec fn ssize(&self) -> int;
    spec fn sdim(&self) -> int;
    // the partial operation table: None outside 0..=dim x 1..=size and where undefined
    spec fn sop(&self, i: int, d: int) -> Option<usize>;
    spec fn sm(&self, i: int, j: int, d: int) -> Option<usize>;

    // C02 "every operation is an involution": a law every implementation has to prove from its invariant
    proof fn lemma_wf(&self)
        requires self.wf()
        ensures 1 <= self.ssize() < usize::MAX, 1 <= self.sdim() < usize::MAX,
            forall|i: int, d: int| (#[trigger] self.sop(i, d)).is_some() ==>
                0 <= i <= self.sdim() && 1 <= d <= self.ssize() && 1 <= self.sop(i, d).unwrap() <= self.ssize()
                && self.sop(i, self.sop(i, d).unwrap() as int) == Some(d as usize);

    // C02 "m is constant on (i,j)-orbits", adjacent indices: the second law every implementation proves from its invariant
    proof fn lemma_m_orbit(&self)
        requires self.wf()
        ensures
            forall|i: int, d: int| 0 <= i < self.sdim() && (#[trigger] self.sop(i, d)).is_some() ==>
                self.sm(i, i + 1, self.sop(i, d).unwrap() as int) == self.sm(i, i + 1, d),
            forall|i: int, d: int| 0 <= i < self.sdim() && (#[trigger] self.sop(i + 1, d)).is_some() ==>
                self.sm(i, i + 1, self.sop(i + 1, d).unwrap() as int) == self.sm(i, i + 1, d);

    fn size(&self) -> (r: usize) requires self.wf() ensures r == self.ssize();
    fn dim(&self) -> (r: usize) ensures r == self.sdim();       // (no precondition: `grow` reads it between two updates)
    // C02 "out-of-range arguments give None rather than a panic": total on usize x usize
    fn op(&self, i: usize, d: usize) -> (r: Option<usize>) requires self.wf() ensures r == self.sop(i as int, d as int);
    fn m(&self, i: usize, j: usize, d: usize) -> (r: Option<usize>) requires self.wf() ensures r == self.sm(i as int, j as int, d as int);

    // a default method no type overrides: verified once, against the interface contract
    //@ begin src/dsets.rs :: trait DSet: Sized :: fn degrees_match | props=C04
    //@ rw R16 /-> bool/-> (b: bool)/
    //@ rw R14 /^([ \t]*)(\(0\.\.self\.dim\(\)\)\.all\()\|i\| (.*)\)$/\1let __b = \2|i: usize| -> (c: bool)\n\1{ \3 });\n\1__b/
    fn degrees_match(&self, d: usize, e: usize) -> (b: bool)
        requires self.wf()
        ensures b == (forall|i: int| 0 <= i < self.sdim() ==> #[trigger] self.sm(i, i + 1, d as int) == self.sm(i, i + 1, e as int))
    {
        proof { self.lemma_wf(); }
        let __b = (0..self.dim()).all(|i: usize| -> (c: bool)
            requires i < self.sdim(), self.wf(), self.sdim() < usize::MAX
            ensures c == (self.sm(i as int, i + 1, d as int) == self.sm(i as int, i + 1, e as int))
        { self.m(i, i + 1, d) == self.m(i, i + 1, e) });
        proof {
            if __b {
                assert forall|i: int| 0 <= i < self.sdim() implies #[trigger] self.sm(i, i + 1, d as int) == self.sm(i, i + 1, e as int) by {
                    let rg = 0..(self.sdim() as usize);
                    assert(IteratorSpec::remaining(&rg)[i] == i);
                }
            }
        }
        __b
    }
    //@ end

}

// =====================================================================================================
// trait DSym of src/dsyms.rs: a D-set with branching numbers v; the laws tie the degree m to v and to the orbit length
// =====================================================================================================
pub trait DSym: DSet {
    spec fn sv(&self, i: int, j: int, d: int) -> Option<usize>;

    // C02 "v is constant on (i,j)-orbits" (adjacent indices)
    proof fn lemma_v_orbit(&self)
        requires self.wf()
        ensures
            forall|i: int, d: int| 0 <= i < self.sdim() && (#[trigger] self.sop(i, d)).is_some() ==>
                self.sv(i, i + 1, self.sop(i, d).unwrap() as int) == self.sv(i, i + 1, d),
            forall|i: int, d: int| 0 <= i < self.sdim() && (#[trigger] self.sop(i + 1, d)).is_some() ==>
                self.sv(i, i + 1, self.sop(i + 1, d).unwrap() as int) == self.sv(i, i + 1, d);

    // C02 "m = r * v" with r the length of the orbit of d under (operation i, then operation i+1), whatever that length is
    proof fn lemma_m_rv(&self, i: int, d: usize, n: nat)
        requires self.wf(), 0 <= i < self.sdim(), 1 <= d <= self.ssize(), ret_ij(self, i, i + 1, d, n)
        ensures self.sv(i, i + 1, d as int).is_some(), n * self.sv(i, i + 1, d as int).unwrap() <= usize::MAX,
            self.sm(i, i + 1, d as int) == Some((n * self.sv(i, i + 1, d as int).unwrap()) as usize);

    fn v(&self, i: usize, j: usize, d: usize) -> (r: Option<usize>) requires self.wf() ensures r == self.sv(i as int, j as int, d as int);
}

// n is the least positive number of (operation i, then operation j) steps that lead from d back to d
pub open spec fn ret_ij<S: DSet>(ds: &S, i: int, j: int, d: usize, n: nat) -> bool {
    n >= 1 && iter_ij(ds, i, j, d, n) == Some(d) && forall|k: nat| 0 < k < n ==> #[trigger] iter_ij(ds, i, j, d, k) != Some(d)
}

// two D-sets with the same operations have the same orbits
pub open spec fn same_ops<A: DSet, B: DSet>(a: &A, b: &B) -> bool {
    forall|i: int, x: int| #[trigger] a.sop(i, x) == b.sop(i, x)
}
proof fn lemma_iter_ij_same_ops<A: DSet, B: DSet>(a: &A, b: &B, i: int, j: int, d: usize, k: nat)
    requires same_ops(a, b)
    ensures iter_ij(a, i, j, d, k) == iter_ij(b, i, j, d, k)
    decreases k
{
    if k > 0 {
        lemma_iter_ij_same_ops(a, b, i, j, d, (k - 1) as nat);
        let x = iter_ij(a, i, j, d, (k - 1) as nat);
        if x.is_some() {
            let e = x.unwrap();
            assert(a.sop(i, e as int) == b.sop(i, e as int));
            if a.sop(i, e as int).is_some() { let ei = a.sop(i, e as int).unwrap(); assert(a.sop(j, ei as int) == b.sop(j, ei as int)); }
        }
    }
}
proof fn lemma_ret_ij_same_ops<A: DSet, B: DSet>(a: &A, b: &B, i: int, j: int, d: usize, n: nat)
    requires same_ops(a, b), ret_ij(a, i, j, d, n)
    ensures ret_ij(b, i, j, d, n)
{
    lemma_iter_ij_same_ops(a, b, i, j, d, n);
    assert forall|k: nat| 0 < k < n implies #[trigger] iter_ij(b, i, j, d, k) != Some(d) by { lemma_iter_ij_same_ops(a, b, i, j, d, k); }
}

// the abstract iteration, on a symbol's own table
proof fn lemma_iter_ij_bridge(dset: &SimpleDSet, i: int, d: usize, k: nat)
    requires dset.inv(), 0 <= i < dset.dim, 1 <= d <= dset.size
    ensures iter_ij(dset, i, i + 1, d, k) == Some(iter(dset, i, d as int, k) as usize), 1 <= iter(dset, i, d as int, k) <= dset.size
    decreases k
{
    dset.lemma_inv_tbl();
    if k > 0 {
        lemma_iter_ij_bridge(dset, i, d, (k - 1) as nat);
        let y = iter(dset, i, d as int, (k - 1) as nat);
        assert(1 <= dset.t(i, y) <= dset.size);
        assert(1 <= dset.t(i + 1, dset.t(i, y)) <= dset.size);
    }
}

proof fn lemma_sym_ret_ij(dset: &SimpleDSet, oi: Seq<Vec<usize>>, rs: Seq<usize>, vs: Seq<usize>, i: int, d: usize)
    requires sym_ok(dset, oi, rs, vs), 0 <= i < dset.dim, 1 <= d <= dset.size
    ensures ret_ij(dset, i, i + 1, d, rs[oix(oi, i, d as int)] as nat),
        forall|n: nat| #[trigger] ret_ij(dset, i, i + 1, d, n) ==> n == rs[oix(oi, i, d as int)],
{
    reveal(ret_all);
    reveal(ret_at);
    assert(ret_all(dset, i, oi[i]@, rs));
    let m = rs[oix(oi, i, d as int)] as nat;
    let p = inv2_of(dset, i);
    assert(p.ret(d as int, m));
    assert forall|k: nat| true implies #[trigger] iter_ij(dset, i, i + 1, d, k) == Some(p.iter(d as int, k) as usize) && 1 <= p.iter(d as int, k) <= dset.size by {
        lemma_iter_ij_bridge(dset, i, d, k);
        lemma_iter_bridge(dset, i, d as int, k);
    }
    assert(ret_ij(dset, i, i + 1, d, m));
    assert forall|n: nat| #[trigger] ret_ij(dset, i, i + 1, d, n) implies n == m by {
        if n < m { assert(iter_ij(dset, i, i + 1, d, n) == Some(p.iter(d as int, n) as usize)); assert(p.iter(d as int, n) != d as int); }
        if m < n { assert(iter_ij(dset, i, i + 1, d, m) != Some(d)); }
    }
}

proof fn lemma_sym_v_orbit(dset: &SimpleDSet, oi: Seq<Vec<usize>>, rs: Seq<usize>, vs: Seq<usize>)
    requires sym_ok(dset, oi, rs, vs)
    ensures
        forall|i: int, d: int| 0 <= i < dset.dim && (#[trigger] dset.sop(i, d)).is_some() ==>
            spec_v(dset, oi, vs, i, i + 1, dset.sop(i, d).unwrap() as int) == spec_v(dset, oi, vs, i, i + 1, d),
        forall|i: int, d: int| 0 <= i < dset.dim && (#[trigger] dset.sop(i + 1, d)).is_some() ==>
            spec_v(dset, oi, vs, i, i + 1, dset.sop(i + 1, d).unwrap() as int) == spec_v(dset, oi, vs, i, i + 1, d),
{
    dset.lemma_wf();
    dset.lemma_inv_tbl();
    assert forall|i: int, d: int| 0 <= i < dset.dim && (#[trigger] dset.sop(i, d)).is_some() implies
            spec_v(dset, oi, vs, i, i + 1, dset.sop(i, d).unwrap() as int) == spec_v(dset, oi, vs, i, i + 1, d) by {
        lemma_rvm_adjacent_constant_on_orbit(dset, oi, rs, vs, i, d);
    }
    assert forall|i: int, d: int| 0 <= i < dset.dim && (#[trigger] dset.sop(i + 1, d)).is_some() implies
            spec_v(dset, oi, vs, i, i + 1, dset.sop(i + 1, d).unwrap() as int) == spec_v(dset, oi, vs, i, i + 1, d) by {
        lemma_rvm_adjacent_constant_on_orbit(dset, oi, rs, vs, i, d);
    }
}

// m = r * v for a symbol's tables, with r ANY n that is the least return time in the abstract sense
proof fn lemma_sym_m_rv(dset: &SimpleDSet, oi: Seq<Vec<usize>>, rs: Seq<usize>, vs: Seq<usize>, i: int, d: usize, n: nat)
    requires sym_ok(dset, oi, rs, vs), 0 <= i < dset.dim, 1 <= d <= dset.size, ret_ij(dset, i, i + 1, d, n)
    ensures spec_v(dset, oi, vs, i, i + 1, d as int).is_some(), n * spec_v(dset, oi, vs, i, i + 1, d as int).unwrap() <= usize::MAX,
        spec_m(dset, oi, rs, vs, i, i + 1, d as int) == Some((n * spec_v(dset, oi, vs, i, i + 1, d as int).unwrap()) as usize),
{
    lemma_sym_ret_ij(dset, oi, rs, vs, i, d);
    lemma_oix_bound(dset, oi, rs, vs, i, d as int);
}

// ---- (i,j)-orbits of an abstract D-set, without reference to any enumeration: a function on chambers is an ORBIT FUNCTION
// when it is constant along the operations i and j (wherever they are defined); two chambers lie on one (i,j)-orbit iff
// no orbit function separates them (the indicator of an orbit is an orbit function)
pub open spec fn orbit_fn<T: DSet>(ds: &T, i: int, j: int, f: spec_fn(int) -> int) -> bool {
    forall|x: int| 1 <= x <= ds.ssize() ==>
        ((#[trigger] ds.sop(i, x)).is_some() ==> f(ds.sop(i, x).unwrap() as int) == f(x))
        && ((#[trigger] ds.sop(j, x)).is_some() ==> f(ds.sop(j, x).unwrap() as int) == f(x))
}
pub open spec fn same_ij<T: DSet>(ds: &T, i: int, j: int, a: int, b: int) -> bool {
    forall|f: spec_fn(int) -> int| #[trigger] orbit_fn(ds, i, j, f) ==> f(a) == f(b)
}
pub open spec fn has_rep<T: DSet>(ds: &T, i: int, j: int, reps: Seq<usize>, x: int) -> bool {
    exists|k: int| 0 <= k < reps.len() && #[trigger] same_ij(ds, i, j, reps[k] as int, x)
}

proof fn lemma_has_rep_push<T: DSet>(ds: &T, i: int, j: int, reps: Seq<usize>, d: usize, x: int)
    requires has_rep(ds, i, j, reps, x)
    ensures has_rep(ds, i, j, reps.push(d), x)
{
    let k = choose|k: int| 0 <= k < reps.len() && #[trigger] same_ij(ds, i, j, reps[k] as int, x);
    assert(reps.push(d)[k] == reps[k]);
    assert(same_ij(ds, i, j, reps.push(d)[k] as int, x));
}

// one step along operation i or j (or no step, where the operation is undefined) stays on the orbit
proof fn lemma_same_ij_step<T: DSet>(ds: &T, i: int, j: int, d: int, e: int, e2: usize)
    requires ds.wf(), 1 <= e <= ds.ssize(), same_ij(ds, i, j, d, e),
        e2 == e || ds.sop(i, e) == Some(e2) || ds.sop(j, e) == Some(e2),
    ensures same_ij(ds, i, j, d, e2 as int)
{
    assert forall|f: spec_fn(int) -> int| #[trigger] orbit_fn(ds, i, j, f) implies f(d) == f(e2 as int) by {
        assert(f(d) == f(e));
        if e2 != e {
            if ds.sop(i, e) == Some(e2) { assert(ds.sop(i, e).is_some()); } else { assert(ds.sop(j, e).is_some()); }
        }
    }
}

// ---- "exactly one representative per (i,j)-orbit": a set of chambers that is CLOSED under the operations i and j (wherever they are
// defined) has an orbit function as its indicator, so a chamber inside and a chamber outside are on different orbits
pub open spec fn ci_at<T: DSet>(ds: &T, i: int, s: Seq<bool>, x: int) -> bool {
    ds.sop(i, x).is_some() ==> s[ds.sop(i, x).unwrap() as int]
}
pub open spec fn closed_ij<T: DSet>(ds: &T, i: int, j: int, s: Seq<bool>) -> bool {
    forall|x: int| 1 <= x <= ds.ssize() && #[trigger] s[x] ==> ci_at(ds, i, s, x) && ci_at(ds, j, s, x)
}
pub open spec fn distinct_orbits<T: DSet>(ds: &T, i: int, j: int, reps: Seq<usize>) -> bool {
    forall|k: int, l: int| 0 <= k < l < reps.len() ==> !#[trigger] same_ij(ds, i, j, reps[k] as int, reps[l] as int)
}

proof fn lemma_closed_separates<T: DSet>(ds: &T, i: int, j: int, s: Seq<bool>, a: int, b: int)
    requires ds.wf(), s.len() == ds.ssize() + 1, closed_ij(ds, i, j, s), 1 <= a <= ds.ssize(), 1 <= b <= ds.ssize(), s[a], !s[b]
    ensures !same_ij(ds, i, j, a, b)
{
    ds.lemma_wf();
    let f = |x: int| if 1 <= x <= ds.ssize() && s[x] { 1int } else { 0int };
    assert(orbit_fn(ds, i, j, f)) by {
        assert forall|x: int| 1 <= x <= ds.ssize() implies
            ((#[trigger] ds.sop(i, x)).is_some() ==> f(ds.sop(i, x).unwrap() as int) == f(x))
            && ((#[trigger] ds.sop(j, x)).is_some() ==> f(ds.sop(j, x).unwrap() as int) == f(x)) by {
            if ds.sop(i, x).is_some() {
                let y = ds.sop(i, x).unwrap() as int;
                if s[x] { assert(ci_at(ds, i, s, x)); } else if s[y] { assert(ci_at(ds, i, s, y)); }
            }
            if ds.sop(j, x).is_some() {
                let y = ds.sop(j, x).unwrap() as int;
                if s[x] { assert(ci_at(ds, j, s, x)); } else if s[y] { assert(ci_at(ds, j, s, y)); }
            }
        }
    }
    assert(f(a) == 1 && f(b) == 0);
}

// default method no type overrides; emitted as a free function (R11) because its contract speaks about orbit functions of the
// abstract D-set, which a method INSIDE the trait declaration may not mention (Verus: cyclic self-reference)
//@ begin src/dsets.rs :: trait DSet: Sized :: fn orbit_reps_2d | props=C02,C05
//@ rw R11 /fn orbit_reps_2d\(&self, i: usize, j: usize\)/pub fn orbit_reps_2d<S: DSet>(this: &S, i: usize, j: usize)/
//@ rw R11 /\bself\b/this/
//@ rw R16 /-> Vec<usize>/-> (result: Vec<usize>)/
//@ rw R12 /let mut result = vec!\[\];/let mut result: Vec<usize> = vec![];/
//@ rw R10 /for d in 1\.\.=this\.size\(\)$/for d in 1..(this.size()) + 1/
#[verifier::exec_allows_no_decreases_clause]
    pub fn orbit_reps_2d<S: DSet>(this: &S, i: usize, j: usize) -> (result: Vec<usize>)
    requires this.wf()
    // total for every index pair (also out-of-range ones); every representative is a chamber
    ensures forall|k: int| 0 <= k < result@.len() ==> 1 <= #[trigger] result@[k] <= this.ssize(),
        // every chamber lies on the (i,j)-orbit of a listed representative
        forall|x: int| 1 <= x <= this.ssize() ==> #[trigger] has_rep(this, i as int, j as int, result@, x),
        // and no orbit is listed twice: EXACTLY one representative per (i,j)-orbit
        distinct_orbits(this, i as int, j as int, result@),
    {
        proof { this.lemma_wf(); }
        let mut result: Vec<usize> = vec![];
        let mut seen = vec![false; this.size() + 1];

        for d in 1..(this.size()) + 1
            invariant this.wf(), seen@.len() == this.ssize() + 1, this.ssize() < usize::MAX,
                forall|k: int| 0 <= k < result@.len() ==> 1 <= #[trigger] result@[k] <= this.ssize(),
                forall|x: int| 1 <= x <= this.ssize() && #[trigger] seen@[x] ==> has_rep(this, i as int, j as int, result@, x),
                forall|x: int| 1 <= x < d ==> #[trigger] has_rep(this, i as int, j as int, result@, x),
                // the marked chambers are closed under both operations, all listed representatives are marked, and they lie on different orbits
                closed_ij(this, i as int, j as int, seen@),
                forall|k: int| 0 <= k < result@.len() ==> seen@[#[trigger] result@[k] as int],
                distinct_orbits(this, i as int, j as int, result@),
        {
            if !seen[d] {
                let ghost r0 = result@;
                let ghost seen0 = seen@;
                result.push(d);
                seen[d] = true;
                proof {
                    assert(result@[r0.len() as int] == d);
                    assert(same_ij(this, i as int, j as int, d as int, d as int));
                    assert(has_rep(this, i as int, j as int, result@, d as int));
                    assert forall|x: int| 1 <= x <= this.ssize() && #[trigger] seen@[x] implies has_rep(this, i as int, j as int, result@, x) by {
                        if x != d { assert(has_rep(this, i as int, j as int, r0, x)); lemma_has_rep_push(this, i as int, j as int, r0, d, x); }
                    }
                    assert forall|x: int| 1 <= x < d + 1 implies #[trigger] has_rep(this, i as int, j as int, result@, x) by {
                        if x != d { assert(has_rep(this, i as int, j as int, r0, x)); lemma_has_rep_push(this, i as int, j as int, r0, d, x); }
                    }
                    // d was not marked, every earlier representative is: a closed set separates them
                    assert forall|k: int, l: int| 0 <= k < l < result@.len() implies !#[trigger] same_ij(this, i as int, j as int, result@[k] as int, result@[l] as int) by {
                        if l < r0.len() { assert(result@[k] == r0[k] && result@[l] == r0[l]); }
                        else { assert(result@[k] == r0[k]); assert(seen0[r0[k] as int]); lemma_closed_separates(this, i as int, j as int, seen0, r0[k] as int, d as int); }
                    }
                }

                let mut e = d;
                let ghost mut started = false;

                loop
                    invariant this.wf(), seen@.len() == this.ssize() + 1, 1 <= e <= this.ssize(), 1 <= d <= this.ssize(),
                        forall|k: int| 0 <= k < result@.len() ==> 1 <= #[trigger] result@[k] <= this.ssize(),
                        forall|x: int| 1 <= x <= this.ssize() && #[trigger] seen@[x] ==> has_rep(this, i as int, j as int, result@, x),
                        result@.len() > 0, result@[result@.len() - 1] == d,
                        forall|x: int| 1 <= x < d + 1 ==> #[trigger] has_rep(this, i as int, j as int, result@, x),
                        same_ij(this, i as int, j as int, d as int, e as int),
                        // marks are only added; closure under operation i can be open at the current chamber e only, closure under
                        // operation j at the start chamber d only (it closes when the walk returns there)
                        forall|x: int| 0 <= x <= this.ssize() && #[trigger] seen0[x] ==> seen@[x],
                        seen@[d as int], seen@[e as int],
                        forall|x: int| 1 <= x <= this.ssize() && #[trigger] seen@[x] && x != e ==> ci_at(this, i as int, seen@, x),
                        forall|x: int| 1 <= x <= this.ssize() && #[trigger] seen@[x] && x != d ==> ci_at(this, j as int, seen@, x),
                        started ==> ci_at(this, i as int, seen@, d as int), !started ==> e == d, seen0.len() == seen@.len(),
                        forall|k: int| 0 <= k < result@.len() ==> seen@[#[trigger] result@[k] as int],
                        distinct_orbits(this, i as int, j as int, result@),
                    ensures closed_ij(this, i as int, j as int, seen@),
                {
                    proof { this.lemma_wf(); }
                    let ghost e0 = e;
                    let ghost s_a = seen@;
                    let ei = this.op(i, e).unwrap_or(e);
                    proof { lemma_same_ij_step(this, i as int, j as int, d as int, e0 as int, ei); }
                    seen[ei] = true;
                    e = this.op(j, ei).unwrap_or(ei);
                    proof { lemma_same_ij_step(this, i as int, j as int, d as int, ei as int, e); }
                    seen[e] = true;
                    proof {
                        let s_b = seen@;
                        assert forall|x: int| 0 <= x <= this.ssize() implies (#[trigger] s_a[x] ==> s_b[x]) by {}
                        // closure under operation i: everything marked before keeps it (marks only grow), e0 got it through ei, ei through e0
                        assert forall|x: int| 1 <= x <= this.ssize() && #[trigger] s_b[x] && x != e implies ci_at(this, i as int, s_b, x) by {
                            if x == e0 as int { assert(s_b[ei as int]); }
                            else if x == ei as int { if this.sop(i as int, e0 as int).is_some() { assert(this.sop(i as int, ei as int) == Some(e0)); } }
                            else { assert(s_a[x]); assert(ci_at(this, i as int, s_a, x)); }
                        }
                        // closure under operation j: ei got it through e, e through ei (where the step was a real one)
                        assert forall|x: int| 1 <= x <= this.ssize() && #[trigger] s_b[x] && x != d implies ci_at(this, j as int, s_b, x) by {
                            if x == ei as int { assert(s_b[e as int]); }
                            else if x == e as int { if this.sop(j as int, ei as int).is_some() { assert(this.sop(j as int, e as int) == Some(ei)); } }
                            else { assert(s_a[x]); assert(ci_at(this, j as int, s_a, x)); }
                        }
                        // the start chamber: closed under i after the first step
                        assert(ci_at(this, i as int, s_b, d as int)) by {
                            if started { assert(ci_at(this, i as int, s_a, d as int)); } else { assert(e0 == d); assert(s_b[ei as int]); }
                        }
                        started = true;
                        if e == d {
                            // back at the start: its j-neighbour is ei (or there is none)
                            assert(ci_at(this, j as int, s_b, d as int)) by {
                                if this.sop(j as int, ei as int).is_some() { assert(this.sop(j as int, d as int) == Some(ei)); assert(s_b[ei as int]); }
                            }
                        }
                    }

                    if e == d {
                        break;
                    }
                }
            }
        }

        result
    }
//@ end

// C02 "loopless ... coincide with their graph-theoretic definitions": no operation fixes a chamber.  Default method no type overrides,
// emitted as a free function (R11); `self.indices()` / `self.elements()` are the trait's own `0..=self.dim()` / `1..=self.size()` (R10)
pub open spec fn loop_free_row<S: DSet>(ds: &S, i: int) -> bool {
    forall|d: int| 1 <= d <= ds.ssize() ==> #[trigger] ds.sop(i, d) != Some(d as usize)
}
pub open spec fn loop_free<S: DSet>(ds: &S) -> bool {
    forall|i: int| 0 <= i <= ds.sdim() ==> #[trigger] loop_free_row(ds, i)
}
//@ begin src/dsets.rs :: trait DSet: Sized :: fn is_loopless | props=C02,C05
//@ rw R11 /fn is_loopless\(&self\)/pub fn is_loopless<S: DSet>(this: &S)/
//@ rw R11 /\bself\b/this/
//@ rw R16 /-> bool/-> (r: bool)/
//@ rw R10+R14 /^([ \t]*)this\.indices\(\)\.all\(\|i\|\s*this\.elements\(\)\.all\(\|d\|\s*(.*?)\n\s*\)\n\s*\)$/\1let __r = (0..(this.dim()) + 1).all(|i: usize| -> (b: bool)\n\1{\n\1let __b = (1..(this.size()) + 1).all(|d: usize| -> (c: bool)\n\1{ \2 }\n\1);\n\1__b\n\1});\n\1__r/s
    pub fn is_loopless<S: DSet>(this: &S) -> (r: bool)
    requires this.wf()
    ensures r == loop_free(this)
    {
        proof { this.lemma_wf(); }
        let __r = (0..(this.dim()) + 1).all(|i: usize| -> (b: bool)
            requires i <= this.sdim(), this.wf(), this.ssize() < usize::MAX
            ensures b == loop_free_row(this, i as int)
        {
        let __b = (1..(this.size()) + 1).all(|d: usize| -> (c: bool)
            requires this.wf()
            ensures c == (this.sop(i as int, d as int) != Some(d))
        { this.op(i, d) != Some(d) }
        );
            proof {
                if __b {
                    assert forall|d: int| 1 <= d <= this.ssize() implies #[trigger] this.sop(i as int, d) != Some(d as usize) by {
                        let rg = 1..((this.ssize() + 1) as usize);
                        assert(IteratorSpec::remaining(&rg)[d - 1] == d);
                    }
                }
            }
        __b
        });
        proof {
            if __r {
                assert forall|i: int| 0 <= i <= this.sdim() implies #[trigger] loop_free_row(this, i) by {
                    let rg = 0..((this.sdim() + 1) as usize);
                    assert(IteratorSpec::remaining(&rg)[i] == i);
                }
            }
        }
        __r
    }
//@ end

// the default `m` of the trait (plain D-sets carry no degrees)
pub open spec fn default_m(dim: int, size: int, i: int, j: int, d: int) -> Option<usize> {
    if i > dim || j > dim || d < 1 || d > size { None }
    else if j == i { Some(1usize) }
    else if i == j + 1 || j == i + 1 { Some(0usize) }
    else { Some(2usize) }
}

// =====================================================================================================
// operation tables
// =====================================================================================================
pub open spec fn sidx(dim: int, i: int, d: int) -> int { (d - 1) * (dim + 1) + i }

proof fn lemma_idx_bound(size: int, dim: int, i: int, d: int)
    requires 0 <= i <= dim, 1 <= d <= size,
    ensures 0 <= sidx(dim, i, d) < size * (dim + 1), dim + 1 <= size * (dim + 1), 0 <= (d - 1) * (dim + 1) <= sidx(dim, i, d)
{
    assert((d - 1) * (dim + 1) + i < size * (dim + 1)) by(nonlinear_arith)
        requires 0 <= i <= dim, 1 <= d <= size;
    assert(0 <= (d - 1) * (dim + 1)) by(nonlinear_arith)
        requires 0 <= dim, 1 <= d;
    assert(dim + 1 <= size * (dim + 1)) by(nonlinear_arith)
        requires 0 <= dim, 1 <= size;
}

proof fn lemma_idx_inj(dim: int, i: int, d: int, j: int, c: int)
    requires 0 <= i <= dim, 0 <= j <= dim, 1 <= d, 1 <= c, sidx(dim, i, d) == sidx(dim, j, c)
    ensures i == j && d == c
{
    assert(i == j && d == c) by(nonlinear_arith)
        requires 0 <= i <= dim, 0 <= j <= dim, 1 <= d, 1 <= c, (d - 1) * (dim + 1) + i == (c - 1) * (dim + 1) + j;
}

// the table as a function (i, d) -> entry; kept opaque so that the nonlinear index never reaches a quantified invariant
#[verifier::opaque]
pub open spec fn tbl(op: Seq<usize>, dim: int, i: int, d: int) -> int {
    op[sidx(dim, i, d)] as int
}

// C02: every defined entry is an involution on 1..=size
pub open spec fn tbl_ok(op: Seq<usize>, size: int, dim: int) -> bool {
    &&& size >= 1 && dim >= 1 && size < usize::MAX && dim < usize::MAX
    &&& op.len() == size * (dim + 1)
    &&& op.len() <= usize::MAX
    &&& forall|i: int, d: int| 0 <= i <= dim && 1 <= d <= size ==> {
            let e = #[trigger] tbl(op, dim, i, d);
            e == 0 || (1 <= e <= size && tbl(op, dim, i, e) == d)
        }
}

pub open spec fn tbl_complete(op: Seq<usize>, size: int, dim: int) -> bool {
    forall|i: int, d: int| 0 <= i <= dim && 1 <= d <= size ==> #[trigger] tbl(op, dim, i, d) != 0
}

pub open spec fn tbl_op(op: Seq<usize>, size: int, dim: int, i: int, d: int) -> Option<usize> {
    if i < 0 || i > dim || d < 1 || d > size || tbl(op, dim, i, d) == 0 { None } else { Some(tbl(op, dim, i, d) as usize) }
}

proof fn lemma_tbl_op(op: Seq<usize>, size: int, dim: int)
    requires tbl_ok(op, size, dim)
    ensures
        forall|i: int, d: int| (#[trigger] tbl_op(op, size, dim, i, d)).is_some() ==>
            0 <= i <= dim && 1 <= d <= size && 1 <= tbl_op(op, size, dim, i, d).unwrap() <= size
            && tbl_op(op, size, dim, i, tbl_op(op, size, dim, i, d).unwrap() as int) == Some(d as usize)
{
    assert forall|i: int, d: int| (#[trigger] tbl_op(op, size, dim, i, d)).is_some() implies
            0 <= i <= dim && 1 <= d <= size && 1 <= tbl_op(op, size, dim, i, d).unwrap() <= size
            && tbl_op(op, size, dim, i, tbl_op(op, size, dim, i, d).unwrap() as int) == Some(d as usize) by {
        let e = tbl(op, dim, i, d);
        assert(e != 0);
        assert(1 <= e <= size && tbl(op, dim, i, e) == d);
    }
}

// ---------------------------------------------------------------------------------------------------------
// PartialDSet
// ---------------------------------------------------------------------------------------------------------
// R21: an argument check of the library (`assert!(c)`, `assert_eq!(a, b)`): returns only if the condition holds, otherwise the call panics
#[verifier::external_body]
pub fn __guard(c: bool)
    ensures c
{ assert!(c); }

//@ begin src/dsets.rs :: - :: struct PartialDSet | props=C01,C02,C04,C05
//@ rw R0 /^(\s+)(\w+): /\1pub \2: /
pub struct PartialDSet {
    pub size: usize,
    pub dim: usize,
    pub op: Vec<usize>,
}
//@ end

impl PartialDSet {
    pub open spec fn t(&self, i: int, d: int) -> int { tbl(self.op@, self.dim as int, i, d) }
    pub open spec fn inv(&self) -> bool { tbl_ok(self.op@, self.size as int, self.dim as int) }
    pub open spec fn complete(&self) -> bool { tbl_complete(self.op@, self.size as int, self.dim as int) }
    pub open spec fn row_complete(&self, i: int) -> bool {
        forall|d: int| 1 <= d <= self.size ==> #[trigger] self.t(i, d) != 0
    }

    //@ begin src/dsets.rs :: impl PartialDSet :: fn new | props=C01,C02,C04,C05
    //@ rw R16 /-> PartialDSet$/-> (r: PartialDSet)/
    pub fn new(size: usize, dim: usize) -> (r: PartialDSet)
        requires size >= 1, dim >= 1, size * (dim + 1) <= usize::MAX, size < usize::MAX, dim < usize::MAX
        ensures r.inv(), r.size == size, r.dim == dim,
            forall|i: int, d: int| 0 <= i <= dim && 1 <= d <= size ==> #[trigger] r.t(i, d) == 0,
    {
        assert!(size >= 1);
        assert!(dim >= 1);

        let op = vec![0; size * (dim + 1)];
        proof {
            assert forall|i: int, d: int| 0 <= i <= dim && 1 <= d <= size implies #[trigger] tbl(op@, dim as int, i, d) == 0 by {
                reveal(tbl);
                lemma_idx_bound(size as int, dim as int, i, d);
            }
        }
        PartialDSet { size, dim, op }
    }
    //@ end

    //@ begin src/dsets.rs :: impl PartialDSet :: fn idx | props=C01,C02,C04,C05
    //@ rw R16 /-> usize/-> (r: usize)/
    fn idx(&self, i: usize, d: usize) -> (r: usize)
        requires self.inv(), i <= self.dim, 1 <= d <= self.size,
        ensures r == sidx(self.dim as int, i as int, d as int), r < self.op@.len(),
    {
        proof { lemma_idx_bound(self.size as int, self.dim as int, i as int, d as int); }
        (d - 1) * (self.dim + 1) + i
    }
    //@ end

    //@ begin src/dsets.rs :: impl PartialDSet :: fn set | props=C01,C02,C04,C05
    pub fn set(&mut self, i: usize, d: usize, e: usize)
        requires old(self).inv(),
            // the four assertions of the body
            i <= old(self).dim, 1 <= d <= old(self).size, 1 <= e <= old(self).size,
            old(self).t(i as int, d as int) == 0 || old(self).t(i as int, d as int) == e,
            old(self).t(i as int, e as int) == 0 || old(self).t(i as int, e as int) == d,
        ensures final(self).inv(), final(self).size == old(self).size, final(self).dim == old(self).dim,
            final(self).t(i as int, d as int) == e,
            final(self).t(i as int, e as int) == d,
            // frame: every other entry is unchanged
            forall|j: int, c: int| 0 <= j <= old(self).dim && 1 <= c <= old(self).size && !(j == i && (c == d || c == e))
                ==> #[trigger] final(self).t(j, c) == old(self).t(j, c),
    {
        assert!(i <= self.dim);
        assert!(1 <= d && d <= self.size);
        assert!(1 <= e && e <= self.size);

        let di = self.op_unchecked(i, d);
        let ei = self.op_unchecked(i, e);

        if di != 0 {
            assert_eq!(di, e);
        }
        if ei != 0 {
            assert_eq!(ei, d);
        }

        let kd = self.idx(i, d);
        let ke = self.idx(i, e);

        self.op[kd] = e;
        self.op[ke] = d;
        proof {
            reveal(tbl);
            let dim = self.dim as int;
            let o0 = old(self).op@;
            let o1 = self.op@;
            // (holds for either order of the two assignments: kd == ke only if d == e)
            if kd == ke { lemma_idx_inj(dim, i as int, d as int, i as int, e as int); }
            assert(o1 =~= o0.update(kd as int, e).update(ke as int, d));
            assert forall|j: int, c: int| 0 <= j <= dim && 1 <= c <= self.size && !(j == i && (c == d || c == e))
                implies #[trigger] tbl(o1, dim, j, c) == tbl(o0, dim, j, c) by {
                lemma_idx_bound(self.size as int, dim, j, c);
                if sidx(dim, j, c) == kd { lemma_idx_inj(dim, j, c, i as int, d as int); }
                if sidx(dim, j, c) == ke { lemma_idx_inj(dim, j, c, i as int, e as int); }
            }
            assert(tbl(o1, dim, i as int, e as int) == d);
            assert(tbl(o1, dim, i as int, d as int) == e) by {
                if kd == ke { lemma_idx_inj(dim, i as int, d as int, i as int, e as int); }
            }
            assert forall|j: int, c: int| 0 <= j <= dim && 1 <= c <= self.size implies ({
                let x = #[trigger] tbl(o1, dim, j, c);
                x == 0 || (1 <= x <= self.size && tbl(o1, dim, j, x) == c)
            }) by {
                let x = tbl(o1, dim, j, c);
                if j == i && c == d {
                } else if j == i && c == e {
                } else {
                    let x0 = tbl(o0, dim, j, c);
                    assert(x == x0);
                    if x0 != 0 {
                        assert(1 <= x0 <= self.size && tbl(o0, dim, j, x0) == c);
                        // the partner of an untouched entry is untouched as well
                        if j == i && (x0 == d || x0 == e) {
                            // then c would be the old partner of d (resp. e), which is 0 or e (resp. d)
                            assert(false);
                        }
                        assert(tbl(o1, dim, j, x0) == tbl(o0, dim, j, x0));
                    }
                }
            }
        }
    }
    //@ end

    // R21: the SAME function once more, with its argument checks read as what they are at run time -- a call that fails one does not
    // return (it panics), so behind `assert!(c)` the condition holds.  Verified against the contract WITHOUT the corresponding
    // preconditions: whatever the arguments, a call that is accepted leaves a partial involution with only the two entries changed.
    // (C02 "every operation is an involution" for every D-set the public mutator can build: the runtime checks are SUFFICIENT.)
    //@ begin src/dsets.rs :: impl PartialDSet :: fn set | props=C02
    //@ rw R21 /pub fn set\(/pub fn set_guarded(/
    //@ rw R21 /^([ \t]*)assert!\((.*)\);$/\1__guard(\2);/
    //@ rw R21 /^([ \t]*)assert_eq!\((.*), (.*)\);$/\1__guard(\2 == \3);/
    pub fn set_guarded(&mut self, i: usize, d: usize, e: usize)
        requires old(self).inv(),      // nothing is asked of the arguments
        ensures final(self).inv(), final(self).size == old(self).size, final(self).dim == old(self).dim,
            final(self).t(i as int, d as int) == e,
            final(self).t(i as int, e as int) == d,
            // frame: every other entry is unchanged
            forall|j: int, c: int| 0 <= j <= old(self).dim && 1 <= c <= old(self).size && !(j == i && (c == d || c == e))
                ==> #[trigger] final(self).t(j, c) == old(self).t(j, c),
    {
        __guard(i <= self.dim);
        __guard(1 <= d && d <= self.size);
        __guard(1 <= e && e <= self.size);

        let di = self.op_unchecked(i, d);
        let ei = self.op_unchecked(i, e);

        if di != 0 {
            __guard(di == e);
        }
        if ei != 0 {
            __guard(ei == d);
        }

        let kd = self.idx(i, d);
        let ke = self.idx(i, e);

        self.op[kd] = e;
        self.op[ke] = d;
        proof {
            reveal(tbl);
            let dim = self.dim as int;
            let o0 = old(self).op@;
            let o1 = self.op@;
            // (holds for either order of the two assignments: kd == ke only if d == e)
            if kd == ke { lemma_idx_inj(dim, i as int, d as int, i as int, e as int); }
            assert(o1 =~= o0.update(kd as int, e).update(ke as int, d));
            assert forall|j: int, c: int| 0 <= j <= dim && 1 <= c <= self.size && !(j == i && (c == d || c == e))
                implies #[trigger] tbl(o1, dim, j, c) == tbl(o0, dim, j, c) by {
                lemma_idx_bound(self.size as int, dim, j, c);
                if sidx(dim, j, c) == kd { lemma_idx_inj(dim, j, c, i as int, d as int); }
                if sidx(dim, j, c) == ke { lemma_idx_inj(dim, j, c, i as int, e as int); }
            }
            assert(tbl(o1, dim, i as int, e as int) == d);
            assert(tbl(o1, dim, i as int, d as int) == e) by {
                if kd == ke { lemma_idx_inj(dim, i as int, d as int, i as int, e as int); }
            }
            assert forall|j: int, c: int| 0 <= j <= dim && 1 <= c <= self.size implies ({
                let x = #[trigger] tbl(o1, dim, j, c);
                x == 0 || (1 <= x <= self.size && tbl(o1, dim, j, x) == c)
            }) by {
                let x = tbl(o1, dim, j, c);
                if j == i && c == d {
                } else if j == i && c == e {
                } else {
                    let x0 = tbl(o0, dim, j, c);
                    assert(x == x0);
                    if x0 != 0 {
                        assert(1 <= x0 <= self.size && tbl(o0, dim, j, x0) == c);
                        // the partner of an untouched entry is untouched as well
                        if j == i && (x0 == d || x0 == e) {
                            // then c would be the old partner of d (resp. e), which is 0 or e (resp. d)
                            assert(false);
                        }
                        assert(tbl(o1, dim, j, x0) == tbl(o0, dim, j, x0));
                    }
                }
            }
        }
    }
    //@ end

    // C02: the second public mutator.  New chambers come with every operation undefined; nothing else changes.
    //@ begin src/dsets.rs :: impl PartialDSet :: fn grow | props=C02
    //@ rw R14 /^([ \t]*)self\.op\.append\(&mut vec!\[0 as usize; count \* \(self\.dim\(\) \+ 1\)\]\);/\1let mut __new = vec![0 as usize; count * (self.dim() + 1)];\n\1self.op.append(&mut __new);/
    pub fn grow(&mut self, count: usize)
        // (the additions and the product in the body overflow otherwise: a panic in debug builds)
        requires old(self).inv(), old(self).size + count < usize::MAX, (old(self).size + count) * (old(self).dim + 1) <= usize::MAX,
        ensures final(self).inv(), final(self).size == old(self).size + count, final(self).dim == old(self).dim,
            forall|i: int, d: int| 0 <= i <= old(self).dim && 1 <= d <= old(self).size ==> #[trigger] final(self).t(i, d) == old(self).t(i, d),
            forall|i: int, d: int| 0 <= i <= old(self).dim && old(self).size < d <= old(self).size + count ==> #[trigger] final(self).t(i, d) == 0,
    {
        proof {
            assert(count * (self.dim + 1) + self.size * (self.dim + 1) == (self.size + count) * (self.dim + 1)) by(nonlinear_arith);
            assert(count * (self.dim + 1) >= 0) by(nonlinear_arith);
        }
        let ghost o0 = self.op@;
        self.size += count;
        let mut __new = vec![0 as usize; count * (self.dim() + 1)];
        self.op.append(&mut __new);
        proof {
            reveal(tbl);
            let dim = self.dim as int;
            let o1 = self.op@;
            let s0 = old(self).size as int;
            assert(o1.len() == self.size * (dim + 1));
            assert forall|i: int, d: int| 0 <= i <= dim && 1 <= d <= self.size implies #[trigger] tbl(o1, dim, i, d) == (if d <= old(self).size { tbl(o0, dim, i, d) } else { 0 }) by {
                lemma_idx_bound(self.size as int, dim, i, d);
                if d <= old(self).size { lemma_idx_bound(old(self).size as int, dim, i, d); }
                else { assert(sidx(dim, i, d) >= s0 * (dim + 1)) by(nonlinear_arith) requires d > s0, 0 <= i, dim >= 0, sidx(dim, i, d) == (d - 1) * (dim + 1) + i; }
            }
        }
    }
    //@ end

    //@ begin src/dsets.rs :: impl PartialDSet :: fn op_unchecked | props=C01,C02,C04,C05
    //@ rw R16 /-> usize/-> (r: usize)/
    pub fn op_unchecked(&self, i: usize, d: usize) -> (r: usize)
        requires self.inv(), i <= self.dim, 1 <= d <= self.size,
        ensures r == self.t(i as int, d as int)
    {
        proof { assert(self.t(i as int, d as int) == self.op@[sidx(self.dim as int, i as int, d as int)] as int) by { reveal(tbl); } }
        self.op[self.idx(i, d)]
    }
    //@ end

    // `impl DSet for PartialDSet :: is_complete` overrides the trait default; it is emitted as an inherent method (R15)
    //@ begin src/dsets.rs :: impl DSet for PartialDSet :: fn is_complete | props=C01,C02,C04,C05
    //@ rw R16 /-> bool/-> (r: bool)/
    //@ rw R10+R14 /^([ \t]*)\((\w+)\.\.=(.+?)\)\.all\(\|i\|\s*\((\w+)\.\.=(.+?)\)\.all\(\|d\|\s*(.*?)\s*\)\s*\)$/\1let __r = (\2..(\3) + 1).all(|i: usize| -> (b: bool)\n\1{\n\1let __b = (\4..(\5) + 1).all(|d: usize| -> (c: bool)\n\1{ \6 }\n\1);\n\1__b\n\1});\n\1__r/s
    fn is_complete(&self) -> (r: bool)
        requires self.inv()
        ensures r == self.complete()
    {
        let __r = (0..(self.dim()) + 1).all(|i: usize| -> (b: bool)
            requires i <= self.dim, self.inv()
            ensures b == self.row_complete(i as int)
        {
        let __b = (1..(self.size()) + 1).all(|d: usize| -> (c: bool)
            requires i <= self.dim, 1 <= d <= self.size, self.inv()
            ensures c == (self.t(i as int, d as int) != 0)
        { self.op_unchecked(i, d) != 0 }
        );
            proof {
                if __b {
                    assert forall|d: int| 1 <= d <= self.size implies #[trigger] self.t(i as int, d) != 0 by {
                        let rg = 1..((self.size + 1) as usize);
                        assert(IteratorSpec::remaining(&rg)[d - 1] == d);
                    }
                }
            }
        __b
        });
        proof {
            if __r {
                assert forall|i: int| 0 <= i <= self.dim implies #[trigger] self.row_complete(i) by {
                    let rg = 0..((self.dim + 1) as usize);
                    assert(IteratorSpec::remaining(&rg)[i] == i);
                }
                assert forall|i: int, d: int| 0 <= i <= self.dim && 1 <= d <= self.size implies #[trigger] tbl(self.op@, self.dim as int, i, d) != 0 by {
                    assert(self.row_complete(i));
                    assert(self.t(i, d) != 0);
                }
            }
        }
        __r
    }
    //@ end
}

impl DSet for PartialDSet {
    open spec fn wf(&self) -> bool { self.inv() }
    open spec fn ssize(&self) -> int { self.size as int }
    open spec fn sdim(&self) -> int { self.dim as int }
    open spec fn sop(&self, i: int, d: int) -> Option<usize> { tbl_op(self.op@, self.size as int, self.dim as int, i, d) }
    open spec fn sm(&self, i: int, j: int, d: int) -> Option<usize> { default_m(self.dim as int, self.size as int, i, j, d) }

    proof fn lemma_wf(&self) { lemma_tbl_op(self.op@, self.size as int, self.dim as int); }
    proof fn lemma_m_orbit(&self) { self.lemma_wf(); }

    //@ begin src/dsets.rs :: impl DSet for PartialDSet :: fn size | props=C01,C02,C04,C05
    fn size(&self) -> usize
    {
        self.size
    }
    //@ end

    //@ begin src/dsets.rs :: impl DSet for PartialDSet :: fn dim | props=C01,C02,C04,C05
    fn dim(&self) -> usize
    {
        self.dim
    }
    //@ end

    //@ begin src/dsets.rs :: impl DSet for PartialDSet :: fn op | props=C01,C02,C04,C05
    fn op(&self, i: usize, d: usize) -> Option<usize>
    {
        if i > self.dim || d < 1 || d > self.size {
            None
        } else {
            match self.op_unchecked(i, d) {
                0 => None,
                di => Some(di)
            }
        }
    }
    //@ end

    // the trait's default body, which this type does not override (R15)
    //@ begin src/dsets.rs :: trait DSet: Sized :: fn m | props=C01,C02,C04
    fn m(&self, i: usize, j: usize, d: usize) -> Option<usize>
    {
        if i > self.dim() || j > self.dim() || d < 1 || d > self.size() {
            None
        } else if j == i {
            Some(1)
        } else if i == j + 1 || j == i + 1 {
            Some(0)
        } else {
            Some(2)
        }
    }
    //@ end
}


// ---------------------------------------------------------------------------------------------------------
// SimpleDSet (complete tables)
// ---------------------------------------------------------------------------------------------------------
//@ begin src/dsets.rs :: - :: struct SimpleDSet | props=C01,C02,C04,C05
//@ rw R0 /^(\s+)(\w+): /\1pub \2: /
pub struct SimpleDSet {
    pub size: usize,
    pub dim: usize,
    pub op: Vec<usize>,
    pub counter: usize,
}
//@ end

impl SimpleDSet {
    pub open spec fn t(&self, i: int, d: int) -> int { tbl(self.op@, self.dim as int, i, d) }
    // C02: every operation of a SimpleDSet is a total involution on 1..=size
    pub open spec fn inv(&self) -> bool {
        &&& self.size >= 1
        &&& self.dim >= 1
        &&& self.op@.len() == self.size * (self.dim + 1)
        &&& self.op@.len() <= usize::MAX
        &&& self.size < usize::MAX
        &&& self.dim < usize::MAX
        &&& forall|i: int, d: int| 0 <= i <= self.dim && 1 <= d <= self.size ==> {
                let e = #[trigger] self.t(i, d);
                1 <= e <= self.size && self.t(i, e) == d
            }
    }

    proof fn lemma_inv_tbl(&self)
        requires self.inv()
        ensures tbl_ok(self.op@, self.size as int, self.dim as int), tbl_complete(self.op@, self.size as int, self.dim as int)
    {
        assert forall|i: int, d: int| 0 <= i <= self.dim && 1 <= d <= self.size implies ({
            let e = #[trigger] tbl(self.op@, self.dim as int, i, d);
            e == 0 || (1 <= e <= self.size && tbl(self.op@, self.dim as int, i, e) == d)
        }) by { assert(1 <= self.t(i, d) <= self.size); }
        assert forall|i: int, d: int| 0 <= i <= self.dim && 1 <= d <= self.size implies #[trigger] tbl(self.op@, self.dim as int, i, d) != 0 by {
            assert(1 <= self.t(i, d) <= self.size);
        }
    }

    //@ begin src/dsets.rs :: impl SimpleDSet :: fn idx | props=C01,C02,C04,C05
    //@ rw R16 /-> usize/-> (r: usize)/
    fn idx(&self, i: usize, d: usize) -> (r: usize)
        requires self.inv(), i <= self.dim, 1 <= d <= self.size,
        ensures r == sidx(self.dim as int, i as int, d as int), r < self.op@.len(),
    {
        proof { lemma_idx_bound(self.size as int, self.dim as int, i as int, d as int); }
        (d - 1) * (self.dim + 1) + i
    }
    //@ end

    //@ begin src/dsets.rs :: impl SimpleDSet :: fn from_partial | props=C01,C02,C04,C05
    //@ rw R16 /-> Self/-> (r: Self)/
    pub fn from_partial(ds: PartialDSet, counter: usize) -> (r: Self)
        requires ds.inv(), ds.complete()      // the assertion of the body
        ensures r.inv(), r.size == ds.size, r.dim == ds.dim, r.op@ == ds.op@,
    {
        assert!(ds.is_complete());
        // TODO add more consistency checks here

        Self::from_partial_unchecked(ds, counter)
    }
    //@ end

    //@ begin src/dsets.rs :: impl SimpleDSet :: fn from_partial_unchecked | props=C01,C02,C04,C05
    //@ rw R16 /-> Self/-> (r: Self)/
    pub fn from_partial_unchecked(ds: PartialDSet, counter: usize) -> (r: Self)
        requires ds.inv(), ds.complete()      // "unchecked": completeness is the caller's obligation
        ensures r.inv(), r.size == ds.size, r.dim == ds.dim, r.op@ == ds.op@,
    {
        proof {
            assert forall|i: int, d: int| 0 <= i <= ds.dim && 1 <= d <= ds.size implies ({
                let e = #[trigger] tbl(ds.op@, ds.dim as int, i, d);
                1 <= e <= ds.size && tbl(ds.op@, ds.dim as int, i, e) == d
            }) by { assert(ds.t(i, d) != 0); }
        }
        let PartialDSet { size, dim, op } = ds;
        SimpleDSet { size, dim, op, counter }
    }
    //@ end

    //@ begin src/dsets.rs :: impl SimpleDSet :: fn op_unchecked | props=C01,C02,C04,C05
    //@ rw R16 /-> usize/-> (r: usize)/
    pub fn op_unchecked(&self, i: usize, d: usize) -> (r: usize)
        requires self.inv(), i <= self.dim, 1 <= d <= self.size,
        ensures r == self.t(i as int, d as int), 1 <= r <= self.size, self.t(i as int, r as int) == d,
    {
        proof {
            // the invariant is used with `tbl` opaque (its trigger is the table entry, not the nonlinear index); `tbl` is unfolded for
            // the one entry that is read
            assert(1 <= self.t(i as int, d as int) <= self.size && self.t(i as int, self.t(i as int, d as int)) == d);
            assert(self.t(i as int, d as int) == self.op@[sidx(self.dim as int, i as int, d as int)] as int) by { reveal(tbl); }
        }
        self.op[self.idx(i, d)]
    }
    //@ end

    // `impl From<PartialDSet> for SimpleDSet :: from`, emitted as a named constructor (R15: vstd's FromSpecImpl has no
    // slot for a precondition)
    //@ begin src/dsets.rs :: impl From<PartialDSet> for SimpleDSet :: fn from | props=C01,C02,C04,C05
    //@ rw R15 /fn from\(/fn from_partial_dset(/
    //@ rw R16 /-> Self/-> (r: Self)/
    fn from_partial_dset(value: PartialDSet) -> (r: Self)
        requires value.inv(), value.complete()
        ensures r.inv(), r.size == value.size, r.dim == value.dim, r.op@ == value.op@,
    {
        SimpleDSet::from_partial(value, 1)
    }
    //@ end
}

impl DSet for SimpleDSet {
    open spec fn wf(&self) -> bool { self.inv() }
    open spec fn ssize(&self) -> int { self.size as int }
    open spec fn sdim(&self) -> int { self.dim as int }
    open spec fn sop(&self, i: int, d: int) -> Option<usize> { tbl_op(self.op@, self.size as int, self.dim as int, i, d) }
    open spec fn sm(&self, i: int, j: int, d: int) -> Option<usize> { default_m(self.dim as int, self.size as int, i, j, d) }

    proof fn lemma_wf(&self) { self.lemma_inv_tbl(); lemma_tbl_op(self.op@, self.size as int, self.dim as int); }
    proof fn lemma_m_orbit(&self) { self.lemma_wf(); }

    //@ begin src/dsets.rs :: impl DSet for SimpleDSet :: fn size | props=C01,C02,C04,C05
    fn size(&self) -> usize
    {
        self.size
    }
    //@ end

    //@ begin src/dsets.rs :: impl DSet for SimpleDSet :: fn dim | props=C01,C02,C04,C05
    fn dim(&self) -> usize
    {
        self.dim
    }
    //@ end

    //@ begin src/dsets.rs :: impl DSet for SimpleDSet :: fn op | props=C01,C02,C04,C05
    fn op(&self, i: usize, d: usize) -> Option<usize>
    {
        if i > self.dim || d < 1 || d > self.size {
            None
        } else {
            Some(self.op_unchecked(i, d))
        }
    }
    //@ end

    // the trait's default body, which this type does not override (R15)
    //@ begin src/dsets.rs :: trait DSet: Sized :: fn m | props=C01,C02,C04
    fn m(&self, i: usize, j: usize, d: usize) -> Option<usize>
    {
        if i > self.dim() || j > self.dim() || d < 1 || d > self.size() {
            None
        } else if j == i {
            Some(1)
        } else if i == j + 1 || j == i + 1 {
            Some(0)
        } else {
            Some(2)
        }
    }
    //@ end
}

// ---------------------------------------------------------------------------------------------------------
// 2-orbits: collect_orbits
// ---------------------------------------------------------------------------------------------------------
// orbit structure for index pair (i, i+1)
pub open spec fn closed(ds: &SimpleDSet, i: int, seen: Seq<bool>) -> bool {
    forall|x: int| 1 <= x <= ds.size && #[trigger] seen[x] ==> seen[ds.t(i, x)] && seen[ds.t(i + 1, x)]
}

pub open spec fn idx_ok(ds: &SimpleDSet, i: int, seen: Seq<bool>, oi: Seq<usize>, n: int) -> bool {
    forall|x: int| 1 <= x <= ds.size && #[trigger] seen[x] ==>
        oi[x] < n && oi[ds.t(i, x)] == oi[x] && oi[ds.t(i + 1, x)] == oi[x]
}

// ---- cycle structure of x |-> sop(i+1, sop(i, x)) ----
pub open spec fn stepf(ds: &SimpleDSet, i: int, x: int) -> int { ds.t(i + 1, ds.t(i, x)) }

pub open spec fn iter(ds: &SimpleDSet, i: int, x: int, k: nat) -> int
    decreases k
{
    if k == 0 { x } else { stepf(ds, i, iter(ds, i, x, (k - 1) as nat)) }
}

proof fn lemma_iter_range(ds: &SimpleDSet, i: int, x: int, k: nat)
    requires ds.inv(), 0 <= i < ds.dim, 1 <= x <= ds.size
    ensures 1 <= iter(ds, i, x, k) <= ds.size
    decreases k
{
    if k > 0 {
        lemma_iter_range(ds, i, x, (k - 1) as nat);
        let y = iter(ds, i, x, (k - 1) as nat);
        assert(1 <= ds.t(i, y) <= ds.size);
        assert(1 <= ds.t(i + 1, ds.t(i, y)) <= ds.size);
    }
}

proof fn lemma_stepf_inj(ds: &SimpleDSet, i: int, x: int, y: int)
    requires ds.inv(), 0 <= i < ds.dim, 1 <= x <= ds.size, 1 <= y <= ds.size, stepf(ds, i, x) == stepf(ds, i, y)
    ensures x == y
{
    let a = ds.t(i, x);
    let b = ds.t(i, y);
    assert(1 <= a <= ds.size && 1 <= b <= ds.size);
    assert(ds.t(i + 1, ds.t(i + 1, a)) == a);
    assert(ds.t(i + 1, ds.t(i + 1, b)) == b);
    assert(a == b);
    assert(ds.t(i, a) == x);
    assert(ds.t(i, b) == y);
}

// no earlier return to d  ==>  the first n+1 iterates are pairwise distinct
proof fn lemma_iter_distinct(ds: &SimpleDSet, i: int, d: int, n: nat, j: nat, l: nat)
    requires ds.inv(), 0 <= i < ds.dim, 1 <= d <= ds.size, j < l <= n,
        forall|k: nat| 0 < k <= n ==> #[trigger] iter(ds, i, d, k) != d,
    ensures iter(ds, i, d, j) != iter(ds, i, d, l)
    decreases j
{
    if j == 0 {
    } else {
        lemma_iter_distinct(ds, i, d, n, (j - 1) as nat, (l - 1) as nat);
        lemma_iter_range(ds, i, d, (j - 1) as nat);
        lemma_iter_range(ds, i, d, (l - 1) as nat);
        if iter(ds, i, d, j) == iter(ds, i, d, l) {
            lemma_stepf_inj(ds, i, iter(ds, i, d, (j - 1) as nat), iter(ds, i, d, (l - 1) as nat));
        }
    }
}

// pigeonhole: a duplicate-free sequence of values in 1..=n has length <= n
proof fn lemma_pigeon(s: Seq<int>, n: int)
    requires n >= 0, forall|k: int| 0 <= k < s.len() ==> 1 <= #[trigger] s[k] <= n,
        forall|a: int, b: int| 0 <= a < b < s.len() ==> s[a] != s[b],
    ensures s.len() <= n
    decreases n
{
    if s.len() == 0 {
    } else if n == 0 {
        assert(1 <= s[0] <= 0);
    } else {
        if exists|p: int| 0 <= p < s.len() && s[p] == n {
            let p = choose|p: int| 0 <= p < s.len() && s[p] == n;
            let t = s.remove(p);
            assert forall|k: int| 0 <= k < t.len() implies 1 <= #[trigger] t[k] <= n - 1 by {
                if k < p { assert(t[k] == s[k]); assert(s[k] != s[p]); } else { assert(t[k] == s[k + 1]); assert(s[p] != s[k + 1]); }
            }
            assert forall|a: int, b: int| 0 <= a < b < t.len() implies t[a] != t[b] by {
                let a2 = if a < p { a } else { a + 1 };
                let b2 = if b < p { b } else { b + 1 };
                assert(t[a] == s[a2] && t[b] == s[b2]);
            }
            lemma_pigeon(t, n - 1);
        } else {
            assert forall|k: int| 0 <= k < s.len() implies 1 <= #[trigger] s[k] <= n - 1 by { }
            lemma_pigeon(s, n - 1);
        }
    }
}

proof fn lemma_steps_bound(ds: &SimpleDSet, i: int, d: int, n: nat)
    requires ds.inv(), 0 <= i < ds.dim, 1 <= d <= ds.size,
        forall|k: nat| 0 < k <= n ==> #[trigger] iter(ds, i, d, k) != d,
    ensures n + 1 <= ds.size
{
    let s = Seq::new(n + 1, |k: int| iter(ds, i, d, k as nat));
    assert forall|k: int| 0 <= k < s.len() implies 1 <= #[trigger] s[k] <= ds.size by { lemma_iter_range(ds, i, d, k as nat); }
    assert forall|a: int, b: int| 0 <= a < b < s.len() implies s[a] != s[b] by { lemma_iter_distinct(ds, i, d, n, a as nat, b as nat); }
    lemma_pigeon(s, ds.size as int);
}

#[verifier::opaque]
pub open spec fn orb_ok(ds: &SimpleDSet, j: int, oi: Seq<usize>, n: int) -> bool {
    forall|x: int| 1 <= x <= ds.size ==>
        (#[trigger] oi[x]) < n && oi[ds.t(j, x)] == oi[x] && oi[ds.t(j + 1, x)] == oi[x]
}

proof fn lemma_orb_ok_mono(ds: &SimpleDSet, j: int, oi: Seq<usize>, n: int, m: int)
    requires orb_ok(ds, j, oi, n), n <= m
    ensures orb_ok(ds, j, oi, m)
{
    reveal(orb_ok);
}

proof fn lemma_orb_ok_intro(ds: &SimpleDSet, i: int, seen: Seq<bool>, oi: Seq<usize>, n: int)
    requires ds.inv(), 0 <= i < ds.dim, seen.len() == ds.size + 1, oi.len() == ds.size + 1,
        idx_ok(ds, i, seen, oi, n), forall|x: int| 1 <= x <= ds.size ==> seen[x]
    ensures orb_ok(ds, i, oi, n)
{
    reveal(orb_ok);
    assert forall|x: int| 1 <= x <= ds.size implies
        (#[trigger] oi[x]) < n && oi[ds.t(i, x)] == oi[x] && oi[ds.t(i + 1, x)] == oi[x] by {
        assert(seen[x]);
    }
}


// ---------- inner-loop invariant as one predicate over abstract sequences ----------
pub open spec fn inner_inv(ds: &SimpleDSet, i: int, d: int, e: int, steps: int,
                  seen0: Seq<bool>, oi0: Seq<usize>, seen: Seq<bool>, oi: Seq<usize>, nr: usize) -> bool {
    &&& seen0.len() == ds.size + 1 && oi0.len() == ds.size + 1 && seen.len() == ds.size + 1 && oi.len() == ds.size + 1
    &&& 1 <= d <= ds.size && 1 <= e <= ds.size
    &&& closed(ds, i, seen0) && !seen0[d] && !seen0[e]
    &&& forall|x: int| 1 <= x <= ds.size && seen0[x] ==> #[trigger] seen[x] && oi[x] == oi0[x]
    &&& forall|x: int| 1 <= x <= ds.size && #[trigger] seen[x] && !seen0[x] ==> {
            &&& oi[x] == nr
            &&& (seen[ds.t(i, x)] || x == e || ds.t(i, x) == d)
            &&& (seen[ds.t(i + 1, x)] || ds.t(i + 1, x) == d)
            &&& !seen0[ds.t(i, x)] && !seen0[ds.t(i + 1, x)]
        }
    &&& (steps == 0 ==> e == d)
    &&& (steps > 0 ==> seen[e] && seen[ds.t(i, d)])
}

pub open spec fn final_inv(ds: &SimpleDSet, i: int, d: int,
                  seen0: Seq<bool>, oi0: Seq<usize>, seen: Seq<bool>, oi: Seq<usize>, nr: usize) -> bool {
    &&& seen.len() == ds.size + 1 && oi.len() == ds.size + 1
    &&& seen[d]
    &&& forall|x: int| 1 <= x <= ds.size && seen0[x] ==> #[trigger] seen[x] && oi[x] == oi0[x]
    &&& forall|x: int| 1 <= x <= ds.size && #[trigger] seen[x] && !seen0[x] ==> {
            &&& oi[x] == nr
            &&& seen[ds.t(i, x)]
            &&& seen[ds.t(i + 1, x)]
            &&& !seen0[ds.t(i, x)] && !seen0[ds.t(i + 1, x)]
        }
}

#[verifier::spinoff_prover]
proof fn lemma_inner_step(ds: &SimpleDSet, i: int, d: int, e: int, steps: int,
                          seen0: Seq<bool>, oi0: Seq<usize>, seen: Seq<bool>, oi: Seq<usize>, nr: usize)
    requires ds.inv(), 0 <= i < ds.dim, steps >= 0,
        inner_inv(ds, i, d, e, steps, seen0, oi0, seen, oi, nr),
        steps > 0 ==> e != d,
    ensures ({
        let ei = ds.t(i, e);
        let e2 = ds.t(i + 1, ei);
        let seen2 = seen.update(ei, true).update(e2, true);
        let oi2 = oi.update(ei, nr).update(e2, nr);
        &&& 1 <= ei <= ds.size && 1 <= e2 <= ds.size
        &&& (e2 != d ==> inner_inv(ds, i, d, e2, steps + 1, seen0, oi0, seen2, oi2, nr))
        &&& (e2 == d ==> final_inv(ds, i, d, seen0, oi0, seen2, oi2, nr))
    })
{
    let ei = ds.t(i, e);
    let e2 = ds.t(i + 1, ei);
    let seen2 = seen.update(ei, true).update(e2, true);
    let oi2 = oi.update(ei, nr).update(e2, nr);
    assert(1 <= ei <= ds.size && ds.t(i, ei) == e);
    assert(1 <= e2 <= ds.size && ds.t(i + 1, e2) == ei);
    if seen0[ei] { assert(seen0[ds.t(i, ei)]); }
    if seen0[e2] { assert(seen0[ds.t(i + 1, e2)]); }
    assert(!seen0[ei] && !seen0[e2]);
    assert forall|x: int| 1 <= x <= ds.size && seen0[x] implies #[trigger] seen2[x] && oi2[x] == oi0[x] by {
        assert(seen[x]);
        assert(x != ei && x != e2);
    }
    // facts about the partners of the two fresh elements
    let a1 = ds.t(i + 1, ei);   // == e2
    let b1 = ds.t(i, e2);
    let b2 = ds.t(i + 1, e2);   // == ei
    assert(1 <= b1 <= ds.size && ds.t(i, b1) == e2);
    if seen0[b1] { assert(seen0[ds.t(i, b1)]); }
    assert(!seen0[b1]);
    if seen0[e] { }
    assert forall|x: int| 1 <= x <= ds.size && #[trigger] seen2[x] && !seen0[x] implies ({
            &&& oi2[x] == nr
            &&& (seen2[ds.t(i, x)] || x == e2 || ds.t(i, x) == d)
            &&& (seen2[ds.t(i + 1, x)] || ds.t(i + 1, x) == d)
            &&& !seen0[ds.t(i, x)] && !seen0[ds.t(i + 1, x)]
        }) by {
        let sx = ds.t(i, x);
        let tx = ds.t(i + 1, x);
        assert(1 <= sx <= ds.size && 1 <= tx <= ds.size);
        if x == e2 {
        } else if x == ei {
            // sop(i, ei) == e : either e seen before (steps>0), or e == d (steps == 0)
        } else {
            assert(seen[x]);
            // previously: seen[sx] || x == e || sx == d ; now x == e is covered since sop(i,e)=ei is seen2
            if x == e { assert(sx == ei); }
        }
    }
    if e2 != d {
        assert(inner_inv(ds, i, d, e2, steps + 1, seen0, oi0, seen2, oi2, nr));
    } else {
        assert forall|x: int| 1 <= x <= ds.size && #[trigger] seen2[x] && !seen0[x] implies ({
            &&& oi2[x] == nr
            &&& seen2[ds.t(i, x)]
            &&& seen2[ds.t(i + 1, x)]
            &&& !seen0[ds.t(i, x)] && !seen0[ds.t(i + 1, x)]
        }) by {
            let sx = ds.t(i, x);
            let tx = ds.t(i + 1, x);
            assert(1 <= sx <= ds.size && 1 <= tx <= ds.size);
            if x == e2 { // == d : sop(i,d) is seen (steps>0) or equals ei (steps==0, e==d)
            } else if x == ei {
            } else {
                assert(seen[x]);
                if x == e { assert(sx == ei); }
            }
        }
    }
}

#[verifier::spinoff_prover]
proof fn lemma_final_to_outer(ds: &SimpleDSet, i: int, d: int,
                  seen0: Seq<bool>, oi0: Seq<usize>, seen: Seq<bool>, oi: Seq<usize>, nr: usize, n: int)
    requires ds.inv(), 0 <= i < ds.dim, 1 <= d <= ds.size, nr < n + 1, nr == n,
        seen0.len() == ds.size + 1, oi0.len() == ds.size + 1,
        closed(ds, i, seen0), idx_ok(ds, i, seen0, oi0, n),
        final_inv(ds, i, d, seen0, oi0, seen, oi, nr),
    ensures closed(ds, i, seen), idx_ok(ds, i, seen, oi, n + 1)
{
    assert forall|x: int| 1 <= x <= ds.size && #[trigger] seen[x] implies seen[ds.t(i, x)] && seen[ds.t(i + 1, x)] by {
        if seen0[x] {
            assert(seen0[ds.t(i, x)] && seen0[ds.t(i + 1, x)]);
            assert(1 <= ds.t(i, x) <= ds.size && 1 <= ds.t(i + 1, x) <= ds.size);
        }
    }
    assert forall|x: int| 1 <= x <= ds.size && #[trigger] seen[x] implies
        oi[x] < n + 1 && oi[ds.t(i, x)] == oi[x] && oi[ds.t(i + 1, x)] == oi[x] by {
        let a = ds.t(i, x);
        let b = ds.t(i + 1, x);
        assert(1 <= a <= ds.size && 1 <= b <= ds.size);
        if seen0[x] {
            assert(seen0[a] && seen0[b]);
            assert(seen[a] && seen[b]);
        } else {
            assert(seen[a] && seen[b]);
            assert(!seen0[a] && !seen0[b]);
        }
    }
}



// ---------------------------------------------------------------------------------------------------------
// least return times ("r(i,i+1,d) is the length of the orbit of d under the product of operations i and i+1")
// ---------------------------------------------------------------------------------------------------------
// abstract pair of involutions on 1..=n
pub struct Inv2 { pub n: int, pub s: spec_fn(int) -> int, pub t: spec_fn(int) -> int }

impl Inv2 {
    pub open spec fn wf(&self) -> bool {
        &&& forall|x: int| 1 <= x <= self.n ==> 1 <= #[trigger] (self.s)(x) <= self.n && (self.s)((self.s)(x)) == x
        &&& forall|x: int| 1 <= x <= self.n ==> 1 <= #[trigger] (self.t)(x) <= self.n && (self.t)((self.t)(x)) == x
    }
    pub open spec fn step(&self, x: int) -> int { (self.t)((self.s)(x)) }
    pub open spec fn istep(&self, x: int) -> int { (self.s)((self.t)(x)) }
    pub open spec fn iter(&self, x: int, k: nat) -> int decreases k {
        if k == 0 { x } else { self.step(self.iter(x, (k - 1) as nat)) }
    }
    pub open spec fn iiter(&self, x: int, k: nat) -> int decreases k {
        if k == 0 { x } else { self.istep(self.iiter(x, (k - 1) as nat)) }
    }
    // n is the least return time of x under step
    pub open spec fn ret(&self, x: int, m: nat) -> bool {
        m >= 1 && self.iter(x, m) == x && forall|k: nat| 0 < k < m ==> #[trigger] self.iter(x, k) != x
    }
    pub open spec fn iret(&self, x: int, m: nat) -> bool {
        m >= 1 && self.iiter(x, m) == x && forall|k: nat| 0 < k < m ==> #[trigger] self.iiter(x, k) != x
    }
}

pub proof fn lemma_range(p: &Inv2, x: int, k: nat)
    requires p.wf(), 1 <= x <= p.n
    ensures 1 <= p.iter(x, k) <= p.n, 1 <= p.iiter(x, k) <= p.n
    decreases k
{
    if k > 0 {
        lemma_range(p, x, (k - 1) as nat);
        let y = p.iter(x, (k - 1) as nat);
        assert(1 <= (p.s)(y) <= p.n);
        let z = p.iiter(x, (k - 1) as nat);
        assert(1 <= (p.t)(z) <= p.n);
    }
}

pub proof fn lemma_step_istep(p: &Inv2, x: int)
    requires p.wf(), 1 <= x <= p.n
    ensures p.step(p.istep(x)) == x, p.istep(p.step(x)) == x, 1 <= p.step(x) <= p.n, 1 <= p.istep(x) <= p.n
{
    assert(1 <= (p.t)(x) <= p.n);
    assert(1 <= (p.s)(x) <= p.n);
    assert((p.s)((p.s)((p.t)(x))) == (p.t)(x));
    assert((p.t)((p.t)((p.s)(x))) == (p.s)(x));
}

pub proof fn lemma_iter_add(p: &Inv2, x: int, a: nat, b: nat)
    ensures p.iter(p.iter(x, a), b) == p.iter(x, a + b), p.iiter(p.iiter(x, a), b) == p.iiter(x, a + b)
    decreases b
{
    if b > 0 { lemma_iter_add(p, x, a, (b - 1) as nat); }
}

// front form: iter(x, k+1) == iter(step x, k)
pub proof fn lemma_iter_front(p: &Inv2, x: int, k: nat)
    ensures p.iter(x, k + 1) == p.iter(p.step(x), k), p.iiter(x, k + 1) == p.iiter(p.istep(x), k)
{
    lemma_iter_add(p, x, 1, k);
    assert(p.iter(x, 1) == p.step(p.iter(x, 0)));
    assert(p.iiter(x, 1) == p.istep(p.iiter(x, 0)));
}

// iter and iiter undo each other
pub proof fn lemma_iter_iiter(p: &Inv2, x: int, k: nat)
    requires p.wf(), 1 <= x <= p.n
    ensures p.iter(p.iiter(x, k), k) == x, p.iiter(p.iter(x, k), k) == x
    decreases k
{
    if k > 0 {
        lemma_range(p, x, (k - 1) as nat);
        let y = p.iiter(x, (k - 1) as nat);
        lemma_iter_front(p, p.istep(y), (k - 1) as nat);
        lemma_step_istep(p, y);
        lemma_iter_iiter(p, x, (k - 1) as nat);
        let z = p.iter(x, (k - 1) as nat);
        lemma_iter_front(p, p.step(z), (k - 1) as nat);
        lemma_step_istep(p, z);
    }
}

// same fixed points: iter(x,k)==x <==> iiter(x,k)==x
pub proof fn lemma_fix_equiv(p: &Inv2, x: int, k: nat)
    requires p.wf(), 1 <= x <= p.n
    ensures (p.iter(x, k) == x) <==> (p.iiter(x, k) == x)
{
    lemma_iter_iiter(p, x, k);
}

pub proof fn lemma_ret_iret(p: &Inv2, x: int, m: nat)
    requires p.wf(), 1 <= x <= p.n
    ensures p.ret(x, m) <==> p.iret(x, m)
{
    lemma_fix_equiv(p, x, m);
    assert forall|k: nat| 0 < k < m implies ((#[trigger] p.iter(x, k) != x) <==> (p.iiter(x, k) != x)) by { lemma_fix_equiv(p, x, k); }
    if p.ret(x, m) {
        assert forall|k: nat| 0 < k < m implies #[trigger] p.iiter(x, k) != x by { lemma_fix_equiv(p, x, k); assert(p.iter(x, k) != x); }
    }
    if p.iret(x, m) {
        assert forall|k: nat| 0 < k < m implies #[trigger] p.iter(x, k) != x by { lemma_fix_equiv(p, x, k); assert(p.iiter(x, k) != x); }
    }
}

// (B) conjugation by s: iter(s x, k) == s(iiter(x, k))
pub proof fn lemma_conj(p: &Inv2, x: int, k: nat)
    requires p.wf(), 1 <= x <= p.n
    ensures p.iter((p.s)(x), k) == (p.s)(p.iiter(x, k))
    decreases k
{
    if k > 0 {
        lemma_conj(p, x, (k - 1) as nat);
        lemma_range(p, x, (k - 1) as nat);
        let y = p.iiter(x, (k - 1) as nat);
        // step(s y) = t(s(s y)) = t y ;  s(istep y) = s(s(t y)) = t y
        assert((p.s)((p.s)(y)) == y);
        assert(1 <= (p.t)(y) <= p.n);
        assert((p.s)((p.s)((p.t)(y))) == (p.t)(y));
    }
}

pub proof fn lemma_ret_s(p: &Inv2, x: int, m: nat)
    requires p.wf(), 1 <= x <= p.n, p.ret(x, m)
    ensures p.ret((p.s)(x), m)
{
    lemma_ret_iret(p, x, m);
    let sx = (p.s)(x);
    lemma_conj(p, x, m);
    assert forall|k: nat| 0 < k < m implies #[trigger] p.iter(sx, k) != sx by {
        lemma_conj(p, x, k);
        lemma_range(p, x, k);
        let y = p.iiter(x, k);
        assert(y != x);
        if (p.s)(y) == sx { assert((p.s)((p.s)(y)) == y); assert((p.s)((p.s)(x)) == x); }
    }
}

// (A) shift along the cycle
pub proof fn lemma_peel(p: &Inv2, x: int, a: nat, k: nat)
    requires p.wf(), 1 <= x <= p.n, p.iter(x, a + k) == p.iter(x, a)
    ensures p.iter(x, k) == x
{
    lemma_iter_add(p, x, k, a);
    assert(a + k == k + a);
    // iter(iter(x,k), a) == iter(x, a): apply iiter a times to both
    lemma_range(p, x, k);
    lemma_iter_iiter(p, p.iter(x, k), a);
    lemma_iter_iiter(p, x, a);
}

pub proof fn lemma_ret_shift(p: &Inv2, x: int, m: nat, j: nat)
    requires p.wf(), 1 <= x <= p.n, p.ret(x, m)
    ensures p.ret(p.iter(x, j), m)
{
    let y = p.iter(x, j);
    lemma_iter_add(p, x, j, m);
    lemma_iter_add(p, x, m, j);
    assert(j + m == m + j);
    assert(p.iter(y, m) == y);
    assert forall|k: nat| 0 < k < m implies #[trigger] p.iter(y, k) != y by {
        lemma_iter_add(p, x, j, k);
        if p.iter(y, k) == y { lemma_peel(p, x, j, k); }
    }
}


pub open spec fn inv2_of(ds: &SimpleDSet, i: int) -> Inv2 {
    Inv2 { n: ds.size as int, s: |x: int| ds.t(i, x), t: |x: int| ds.t(i + 1, x) }
}

pub proof fn lemma_inv2_wf(ds: &SimpleDSet, i: int)
    requires ds.inv(), 0 <= i < ds.dim
    ensures inv2_of(ds, i).wf()
{
    let p = inv2_of(ds, i);
    assert forall|x: int| 1 <= x <= p.n implies 1 <= #[trigger] (p.s)(x) <= p.n && (p.s)((p.s)(x)) == x by { assert(1 <= ds.t(i, x) <= ds.size); }
    assert forall|x: int| 1 <= x <= p.n implies 1 <= #[trigger] (p.t)(x) <= p.n && (p.t)((p.t)(x)) == x by { assert(1 <= ds.t(i + 1, x) <= ds.size); }
}

pub proof fn lemma_iter_bridge(ds: &SimpleDSet, i: int, x: int, k: nat)
    ensures iter(ds, i, x, k) == inv2_of(ds, i).iter(x, k)
    decreases k
{
    if k > 0 { lemma_iter_bridge(ds, i, x, (k - 1) as nat); }
}

// m is the least k >= 1 with (op_{i+1} op_i)^k x == x, i.e. the length of the (i,i+1)-cycle through x
#[verifier::opaque]
pub open spec fn ret_at(ds: &SimpleDSet, i: int, x: int, m: int) -> bool {
    m >= 1 && inv2_of(ds, i).ret(x, m as nat)
}

// x lies on the orbit of d under the group generated by op_i and op_{i+1}
pub open spec fn in_orbit(ds: &SimpleDSet, i: int, d: int, x: int) -> bool {
    exists|k: nat| x == #[trigger] iter(ds, i, d, k) || x == ds.t(i, iter(ds, i, d, k))
}

#[verifier::opaque]
pub open spec fn members(ds: &SimpleDSet, i: int, d: int, seen0: Seq<bool>, seen: Seq<bool>) -> bool {
    forall|x: int| 1 <= x <= ds.size && #[trigger] seen[x] && !seen0[x] ==> in_orbit(ds, i, d, x)
}

#[verifier::opaque]
pub open spec fn ret_seen(ds: &SimpleDSet, i: int, seen: Seq<bool>, oi: Seq<usize>, rs: Seq<usize>) -> bool {
    forall|x: int| 1 <= x <= ds.size && #[trigger] seen[x] ==> oi[x] < rs.len() && ret_at(ds, i, x, rs[oi[x] as int] as int)
}

// C02: for EVERY chamber x, orbit_rs[orbit_index[i][x]] is the length of the (i,i+1)-orbit cycle through x
#[verifier::opaque]
pub open spec fn ret_all(ds: &SimpleDSet, j: int, oi: Seq<usize>, rs: Seq<usize>) -> bool {
    forall|x: int| 1 <= x <= ds.size ==> (#[trigger] oi[x]) < rs.len() && ret_at(ds, j, x, rs[oi[x] as int] as int)
}

proof fn lemma_members_init(ds: &SimpleDSet, i: int, d: int, seen0: Seq<bool>)
    ensures members(ds, i, d, seen0, seen0)
{
    reveal(members);
}

proof fn lemma_members_step(ds: &SimpleDSet, i: int, d: int, steps: nat, seen0: Seq<bool>, seen: Seq<bool>)
    requires ds.inv(), 0 <= i < ds.dim, 1 <= d <= ds.size, seen.len() == ds.size + 1, members(ds, i, d, seen0, seen),
    ensures ({
        let e = iter(ds, i, d, steps);
        let ei = ds.t(i, e);
        let e2 = ds.t(i + 1, ei);
        members(ds, i, d, seen0, seen.update(ei, true).update(e2, true))
    })
{
    reveal(members);
    let e = iter(ds, i, d, steps);
    let ei = ds.t(i, e);
    let e2 = ds.t(i + 1, ei);
    lemma_iter_range(ds, i, d, steps);
    assert(1 <= ei <= ds.size);
    assert(1 <= e2 <= ds.size);
    let seen2 = seen.update(ei, true).update(e2, true);
    assert(e2 == iter(ds, i, d, steps + 1));
    assert forall|x: int| 1 <= x <= ds.size && #[trigger] seen2[x] && !seen0[x] implies in_orbit(ds, i, d, x) by {
        if x == e2 { assert(x == iter(ds, i, d, steps + 1)); }
        else if x == ei { assert(x == ds.t(i, iter(ds, i, d, steps))); }
        else { assert(seen[x]); }
    }
}

proof fn lemma_orbit_ret(ds: &SimpleDSet, i: int, d: int, steps: nat, x: int)
    requires ds.inv(), 0 <= i < ds.dim, 1 <= d <= ds.size, steps >= 1,
        iter(ds, i, d, steps) == d, forall|k: nat| 0 < k < steps ==> #[trigger] iter(ds, i, d, k) != d,
        in_orbit(ds, i, d, x),
    ensures ret_at(ds, i, x, steps as int)
{
    reveal(ret_at);
    let p = inv2_of(ds, i);
    lemma_inv2_wf(ds, i);
    lemma_iter_bridge(ds, i, d, steps);
    assert forall|k: nat| 0 < k < steps implies #[trigger] p.iter(d, k) != d by { lemma_iter_bridge(ds, i, d, k); }
    assert(p.ret(d, steps));
    let k = choose|k: nat| x == #[trigger] iter(ds, i, d, k) || x == ds.t(i, iter(ds, i, d, k));
    lemma_iter_bridge(ds, i, d, k);
    lemma_ret_shift(&p, d, steps, k);
    let y = p.iter(d, k);
    if x != y {
        lemma_range(&p, d, k);
        lemma_ret_s(&p, y, steps);
        assert((p.s)(y) == ds.t(i, y));
    }
}

proof fn lemma_ret_seen_init(ds: &SimpleDSet, i: int, seen: Seq<bool>, oi: Seq<usize>, rs: Seq<usize>)
    requires forall|x: int| 0 <= x < seen.len() ==> !seen[x], seen.len() == ds.size + 1
    ensures ret_seen(ds, i, seen, oi, rs)
{
    reveal(ret_seen);
}

proof fn lemma_ret_seen_extend(ds: &SimpleDSet, i: int, d: int, seen0: Seq<bool>, oi0: Seq<usize>, seen: Seq<bool>, oi: Seq<usize>,
                               rs: Seq<usize>, steps: usize)
    requires ds.inv(), 0 <= i < ds.dim, 1 <= d <= ds.size, steps >= 1,
        seen0.len() == ds.size + 1, oi0.len() == ds.size + 1,
        ret_seen(ds, i, seen0, oi0, rs), members(ds, i, d, seen0, seen),
        final_inv(ds, i, d, seen0, oi0, seen, oi, rs.len() as usize), rs.len() <= usize::MAX,
        iter(ds, i, d, steps as nat) == d, forall|k: nat| 0 < k < steps ==> #[trigger] iter(ds, i, d, k) != d,
    ensures ret_seen(ds, i, seen, oi, rs.push(steps))
{
    reveal(ret_seen);
    reveal(members);
    let rs2 = rs.push(steps);
    assert forall|x: int| 1 <= x <= ds.size && #[trigger] seen[x] implies oi[x] < rs2.len() && ret_at(ds, i, x, rs2[oi[x] as int] as int) by {
        if seen0[x] {
            assert(oi[x] == oi0[x]);
            assert(rs2[oi[x] as int] == rs[oi0[x] as int]);
        } else {
            assert(oi[x] == rs.len());
            assert(rs2[oi[x] as int] == steps);
            lemma_orbit_ret(ds, i, d, steps as nat, x);
        }
    }
}

proof fn lemma_ret_all_intro(ds: &SimpleDSet, i: int, seen: Seq<bool>, oi: Seq<usize>, rs: Seq<usize>)
    requires ret_seen(ds, i, seen, oi, rs), forall|x: int| 1 <= x <= ds.size ==> seen[x]
    ensures ret_all(ds, i, oi, rs)
{
    reveal(ret_seen);
    reveal(ret_all);
    assert forall|x: int| 1 <= x <= ds.size implies (#[trigger] oi[x]) < rs.len() && ret_at(ds, i, x, rs[oi[x] as int] as int) by { assert(seen[x]); }
}

proof fn lemma_ret_all_mono(ds: &SimpleDSet, j: int, oi: Seq<usize>, rs: Seq<usize>, v: usize)
    requires ret_all(ds, j, oi, rs)
    ensures ret_all(ds, j, oi, rs.push(v))
{
    reveal(ret_all);
    let rs2 = rs.push(v);
    assert forall|x: int| 1 <= x <= ds.size implies (#[trigger] oi[x]) < rs2.len() && ret_at(ds, j, x, rs2[oi[x] as int] as int) by {
        assert(rs2[oi[x] as int] == rs[oi[x] as int]);
    }
}

proof fn lemma_ret_all_cong(a: &SimpleDSet, b: &SimpleDSet, j: int, oi: Seq<usize>, rs: Seq<usize>)
    requires ret_all(a, j, oi, rs), a.op@ == b.op@, a.size == b.size, a.dim == b.dim
    ensures ret_all(b, j, oi, rs)
{
    reveal(ret_all);
    reveal(ret_at);
    assert(inv2_of(a, j).n == inv2_of(b, j).n);
    assert forall|x: int| 1 <= x <= b.size implies (#[trigger] oi[x]) < rs.len() && ret_at(b, j, x, rs[oi[x] as int] as int) by {
        let m = rs[oi[x] as int] as nat;
        let pa = inv2_of(a, j); let pb = inv2_of(b, j);
        assert forall|k: nat| pa.iter(x, k) == pb.iter(x, k) by { lemma_iter_cong(a, b, j, x, k); }
        assert(pa.ret(x, m));
        assert(pb.iter(x, m) == x);
        assert forall|k: nat| 0 < k < m implies #[trigger] pb.iter(x, k) != x by { assert(pa.iter(x, k) != x); }
    }
}

proof fn lemma_iter_cong(a: &SimpleDSet, b: &SimpleDSet, j: int, x: int, k: nat)
    requires a.op@ == b.op@, a.size == b.size, a.dim == b.dim
    ensures inv2_of(a, j).iter(x, k) == inv2_of(b, j).iter(x, k)
    decreases k
{
    if k > 0 {
        lemma_iter_cong(a, b, j, x, (k - 1) as nat);
        let y = inv2_of(a, j).iter(x, (k - 1) as nat);
        assert(a.t(j, y) == b.t(j, y));
        assert(a.t(j + 1, a.t(j, y)) == b.t(j + 1, b.t(j, y)));
    }
}

// ---------------------------------------------------------------------------------------------------------
// orbit indices SEPARATE orbits: two chambers share an index for the pair (i,i+1) only if they lie on one (i,i+1)-orbit,
// and indices used for different pairs never coincide (everything that writes degrees through set_v relies on it:
// C05 "preserves every degree", C04 degrees of the minimal image)
// ---------------------------------------------------------------------------------------------------------
pub open spec fn co_orbit(ds: &SimpleDSet, i: int, x: int, y: int) -> bool {
    exists|d: int| 1 <= d <= ds.size && #[trigger] in_orbit(ds, i, d, x) && in_orbit(ds, i, d, y)
}

#[verifier::opaque]
pub open spec fn sep_seen(ds: &SimpleDSet, i: int, seen: Seq<bool>, oi: Seq<usize>, lo: int) -> bool {
    &&& forall|x: int| 1 <= x <= ds.size && #[trigger] seen[x] ==> oi[x] >= lo
    &&& forall|x: int, y: int| #![trigger seen[x], seen[y]]
            1 <= x <= ds.size && 1 <= y <= ds.size && seen[x] && seen[y] && oi[x] == oi[y] ==> co_orbit(ds, i, x, y)
}

#[verifier::opaque]
pub open spec fn sep_ok(ds: &SimpleDSet, j: int, oi: Seq<usize>) -> bool {
    forall|x: int, y: int| #![trigger oi[x], oi[y]]
        1 <= x <= ds.size && 1 <= y <= ds.size && oi[x] == oi[y] ==> co_orbit(ds, j, x, y)
}

// every orbit index used for one index pair is smaller than every one used for a later pair
#[verifier::opaque]
pub open spec fn below(a: Seq<usize>, b: Seq<usize>, size: int) -> bool {
    forall|x: int, y: int| #![trigger a[x], b[y]] 1 <= x <= size && 1 <= y <= size ==> a[x] < b[y]
}

// the finished passes j < i: unaffected by pass i
pub open spec fn orbpass_ok(ds: &SimpleDSet, oi: Seq<Vec<usize>>, i: int, start: int) -> bool {
    &&& forall|j: int| 0 <= j < i ==> sep_ok(ds, j, (#[trigger] oi[j])@)
    &&& forall|j: int| 0 <= j < i ==> orb_ok(ds, j, (#[trigger] oi[j])@, start)
    &&& forall|j: int, j2: int| 0 <= j < j2 < i ==> below((#[trigger] oi[j])@, (#[trigger] oi[j2])@, ds.size as int)
}

proof fn lemma_orbpass_frame(ds: &SimpleDSet, oi0: Seq<Vec<usize>>, oi: Seq<Vec<usize>>, i: int, start: int)
    requires orbpass_ok(ds, oi0, i, start), oi0.len() == oi.len(), i <= oi.len(),
        forall|j: int| 0 <= j < oi.len() && j != i ==> #[trigger] oi[j] == oi0[j],
    ensures orbpass_ok(ds, oi, i, start)
{
    assert forall|j: int| 0 <= j < i implies sep_ok(ds, j, (#[trigger] oi[j])@) by { assert(oi[j] == oi0[j]); assert(sep_ok(ds, j, oi0[j]@)); }
    assert forall|j: int| 0 <= j < i implies orb_ok(ds, j, (#[trigger] oi[j])@, start) by { assert(oi[j] == oi0[j]); assert(orb_ok(ds, j, oi0[j]@, start)); }
    assert forall|j: int, j2: int| 0 <= j < j2 < i implies below((#[trigger] oi[j])@, (#[trigger] oi[j2])@, ds.size as int) by {
        assert(oi[j] == oi0[j]); assert(oi[j2] == oi0[j2]);
        assert(below(oi0[j]@, oi0[j2]@, ds.size as int));
    }
}

proof fn lemma_sep_init(ds: &SimpleDSet, i: int, seen: Seq<bool>, oi: Seq<usize>, lo: int)
    requires forall|x: int| 0 <= x < seen.len() ==> !seen[x], seen.len() == ds.size + 1
    ensures sep_seen(ds, i, seen, oi, lo)
{
    reveal(sep_seen);
}

// one more orbit (the one of d, numbered nr == n) has been marked
proof fn lemma_sep_extend(ds: &SimpleDSet, i: int, d: int, seen0: Seq<bool>, oi0: Seq<usize>, seen: Seq<bool>, oi: Seq<usize>,
                          nr: usize, lo: int)
    requires 1 <= d <= ds.size, lo <= nr,
        seen0.len() == ds.size + 1, oi0.len() == ds.size + 1,
        sep_seen(ds, i, seen0, oi0, lo), idx_ok(ds, i, seen0, oi0, nr as int),
        members(ds, i, d, seen0, seen), final_inv(ds, i, d, seen0, oi0, seen, oi, nr),
    ensures sep_seen(ds, i, seen, oi, lo)
{
    reveal(sep_seen);
    reveal(members);
    assert forall|x: int| 1 <= x <= ds.size && #[trigger] seen[x] implies oi[x] >= lo by {
        if seen0[x] { assert(oi[x] == oi0[x]); }
    }
    assert forall|x: int, y: int| #![trigger seen[x], seen[y]]
            1 <= x <= ds.size && 1 <= y <= ds.size && seen[x] && seen[y] && oi[x] == oi[y] implies co_orbit(ds, i, x, y) by {
        if seen0[x] && seen0[y] {
            assert(oi[x] == oi0[x] && oi[y] == oi0[y]);
        } else if !seen0[x] && !seen0[y] {
            assert(in_orbit(ds, i, d, x) && in_orbit(ds, i, d, y));
        } else if seen0[x] {
            assert(oi[x] == oi0[x] && oi0[x] < nr && oi[y] == nr);
        } else {
            assert(oi[y] == oi0[y] && oi0[y] < nr && oi[x] == nr);
        }
    }
}

// end of pass i: every chamber is marked
proof fn lemma_sep_intro(ds: &SimpleDSet, oi: Seq<Vec<usize>>, i: int, seen: Seq<bool>, lo: int, n: int)
    requires 0 <= i < oi.len(), lo <= n,
        sep_seen(ds, i, seen, oi[i]@, lo), forall|x: int| 1 <= x <= ds.size ==> seen[x],
        orb_ok(ds, i, oi[i]@, n),
        orbpass_ok(ds, oi, i, lo),
    ensures orbpass_ok(ds, oi, i + 1, n)
{
    reveal(sep_seen);
    reveal(sep_ok);
    reveal(below);
    reveal(orb_ok);
    assert(sep_ok(ds, i, oi[i]@)) by {
        assert forall|x: int, y: int| #![trigger oi[i]@[x], oi[i]@[y]]
            1 <= x <= ds.size && 1 <= y <= ds.size && oi[i]@[x] == oi[i]@[y] implies co_orbit(ds, i, x, y) by {
            assert(seen[x] && seen[y]);
        }
    }
    assert forall|j: int| 0 <= j < i + 1 implies sep_ok(ds, j, (#[trigger] oi[j])@) by { }
    assert forall|j: int| 0 <= j < i + 1 implies orb_ok(ds, j, (#[trigger] oi[j])@, n) by {
        if j < i { assert(orb_ok(ds, j, oi[j]@, lo)); }
    }
    assert forall|j: int, j2: int| 0 <= j < j2 < i + 1 implies below((#[trigger] oi[j])@, (#[trigger] oi[j2])@, ds.size as int) by {
        if j2 == i {
            assert(orb_ok(ds, j, oi[j]@, lo));
            assert forall|x: int, y: int| #![trigger oi[j]@[x], oi[i]@[y]] 1 <= x <= ds.size && 1 <= y <= ds.size implies oi[j]@[x] < oi[i]@[y] by {
                assert(seen[y]);
            }
        }
    }
}

proof fn lemma_in_orbit_cong(a: &SimpleDSet, b: &SimpleDSet, j: int, d: int, x: int)
    requires a.op@ == b.op@, a.size == b.size, a.dim == b.dim, in_orbit(a, j, d, x)
    ensures in_orbit(b, j, d, x)
{
    let k = choose|k: nat| x == #[trigger] iter(a, j, d, k) || x == a.t(j, iter(a, j, d, k));
    lemma_iter_bridge(a, j, d, k);
    lemma_iter_bridge(b, j, d, k);
    lemma_iter_cong(a, b, j, d, k);
    assert(iter(a, j, d, k) == iter(b, j, d, k));
    assert(a.t(j, iter(a, j, d, k)) == b.t(j, iter(b, j, d, k)));
}

proof fn lemma_sep_ok_cong(a: &SimpleDSet, b: &SimpleDSet, j: int, oi: Seq<usize>)
    requires sep_ok(a, j, oi), a.op@ == b.op@, a.size == b.size, a.dim == b.dim
    ensures sep_ok(b, j, oi)
{
    reveal(sep_ok);
    assert forall|x: int, y: int| #![trigger oi[x], oi[y]]
        1 <= x <= b.size && 1 <= y <= b.size && oi[x] == oi[y] implies co_orbit(b, j, x, y) by {
        assert(co_orbit(a, j, x, y));
        let d = choose|d: int| 1 <= d <= a.size && #[trigger] in_orbit(a, j, d, x) && in_orbit(a, j, d, y);
        lemma_in_orbit_cong(a, b, j, d, x);
        lemma_in_orbit_cong(a, b, j, d, y);
    }
}

// what separation is used for: a function that is constant along op_j and op_{j+1} takes one value per orbit index
proof fn lemma_in_orbit_const(ds: &SimpleDSet, j: int, d: int, x: int, f: spec_fn(int) -> int)
    requires ds.inv(), 0 <= j < ds.dim, 1 <= d <= ds.size, in_orbit(ds, j, d, x),
        forall|z: int| 1 <= z <= ds.size ==> f(ds.t(j, z)) == #[trigger] f(z) && f(ds.t(j + 1, z)) == f(z),
    ensures f(x) == f(d)
{
    let k = choose|k: nat| x == #[trigger] iter(ds, j, d, k) || x == ds.t(j, iter(ds, j, d, k));
    lemma_iter_const(ds, j, d, k, f);
    lemma_iter_range(ds, j, d, k);
}

proof fn lemma_iter_const(ds: &SimpleDSet, j: int, d: int, k: nat, f: spec_fn(int) -> int)
    requires ds.inv(), 0 <= j < ds.dim, 1 <= d <= ds.size,
        forall|z: int| 1 <= z <= ds.size ==> f(ds.t(j, z)) == #[trigger] f(z) && f(ds.t(j + 1, z)) == f(z),
    ensures f(iter(ds, j, d, k)) == f(d)
    decreases k
{
    if k > 0 {
        lemma_iter_const(ds, j, d, (k - 1) as nat, f);
        lemma_iter_range(ds, j, d, (k - 1) as nat);
        let y = iter(ds, j, d, (k - 1) as nat);
        assert(1 <= ds.t(j, y) <= ds.size);
    }
}

pub proof fn lemma_same_index_const(ds: &SimpleDSet, j: int, oi: Seq<usize>, x: int, y: int, f: spec_fn(int) -> int)
    requires ds.inv(), 0 <= j < ds.dim, sep_ok(ds, j, oi), 1 <= x <= ds.size, 1 <= y <= ds.size, oi[x] == oi[y],
        forall|z: int| 1 <= z <= ds.size ==> f(ds.t(j, z)) == #[trigger] f(z) && f(ds.t(j + 1, z)) == f(z),
    ensures f(x) == f(y)
{
    reveal(sep_ok);
    assert(co_orbit(ds, j, x, y));
    let d = choose|d: int| 1 <= d <= ds.size && #[trigger] in_orbit(ds, j, d, x) && in_orbit(ds, j, d, y);
    lemma_in_orbit_const(ds, j, d, x, f);
    lemma_in_orbit_const(ds, j, d, y, f);
}

//@ begin src/dsyms.rs :: - :: fn collect_orbits | props=C01,C02,C04
//@ rw R16 /-> \(Vec<usize>, Vec<bool>, Vec<Vec<usize>>\)/-> (res: (Vec<usize>, Vec<bool>, Vec<Vec<usize>>))/
//@ rw R12 /let mut orbit_rs = vec!\[\];/let mut orbit_rs: Vec<usize> = vec![];/
//@ rw R12 /let mut orbit_is_chain = vec!\[\];/let mut orbit_is_chain: Vec<bool> = vec![];/
//@ rw R12 /let mut steps = 0;/let mut steps: usize = 0;/
//@ rw R10 /for d in 1\.\.=([\w.()]+)$/for d in 1..(\1) + 1/
//@ rw R8 /^([ \t]*)is_chain \|= (.*);$/\1is_chain = is_chain || (\2);/
#[verifier::spinoff_prover]
#[verifier::exec_allows_no_decreases_clause]
pub fn collect_orbits(ds: &SimpleDSet)
    -> (res: (Vec<usize>, Vec<bool>, Vec<Vec<usize>>))
    requires ds.inv()
    ensures
        res.0@.len() == res.1@.len(),
        res.2@.len() == ds.dim,
        forall|i: int| 0 <= i < ds.dim ==> (#[trigger] res.2@[i])@.len() == ds.size + 1,
        forall|i: int| 0 <= i < ds.dim ==> orb_ok(ds, i, (#[trigger] res.2@[i])@, res.0@.len() as int),
        forall|k: int| 0 <= k < res.0@.len() ==> #[trigger] res.0@[k] >= 1,
        // C02: for every chamber, the recorded r is the least return time of op_{i+1} op_i, i.e. the orbit length
        forall|i: int| 0 <= i < ds.dim ==> ret_all(ds, i, (#[trigger] res.2@[i])@, res.0@),
        // C02/C05: orbit indices separate orbits, and the index ranges of different index pairs are disjoint (ascending)
        forall|i: int| 0 <= i < ds.dim ==> sep_ok(ds, i, (#[trigger] res.2@[i])@),
        forall|i: int, i2: int| 0 <= i < i2 < ds.dim ==> below((#[trigger] res.2@[i])@, (#[trigger] res.2@[i2])@, ds.size as int),
{
    let mut orbit_rs: Vec<usize> = vec![];
    let mut orbit_is_chain: Vec<bool> = vec![];
    let mut orbit_index = vec![vec![0; ds.size() + 1]; ds.dim()];
    let mut seen = vec![false; ds.size() + 1];

    for i in 0..ds.dim()
        invariant
            ds.inv(),
            orbit_rs@.len() == orbit_is_chain@.len(),
            seen@.len() == ds.size + 1,
            orbit_index@.len() == ds.dim,
            forall|j: int| 0 <= j < ds.dim ==> (#[trigger] orbit_index@[j])@.len() == ds.size + 1,
            forall|j: int| 0 <= j < i ==> orb_ok(ds, j, (#[trigger] orbit_index@[j])@, orbit_rs@.len() as int),
            forall|j: int| 0 <= j < i ==> ret_all(ds, j, (#[trigger] orbit_index@[j])@, orbit_rs@),
            forall|k: int| 0 <= k < orbit_rs@.len() ==> #[trigger] orbit_rs@[k] >= 1,
            orbpass_ok(ds, orbit_index@, i as int, orbit_rs@.len() as int),
    {
        seen.fill(false);
        let ghost start = orbit_rs@.len() as int;
        proof {
            lemma_ret_seen_init(ds, i as int, seen@, orbit_index@[i as int]@, orbit_rs@);
            lemma_sep_init(ds, i as int, seen@, orbit_index@[i as int]@, start);
        }

        for d in 1..(ds.size()) + 1
            invariant
                ds.inv(), 0 <= i < ds.dim,
                orbit_rs@.len() == orbit_is_chain@.len(),
                seen@.len() == ds.size + 1,
                orbit_index@.len() == ds.dim,
                forall|j: int| 0 <= j < ds.dim ==> (#[trigger] orbit_index@[j])@.len() == ds.size + 1,
                forall|j: int| 0 <= j < i ==> orb_ok(ds, j, (#[trigger] orbit_index@[j])@, orbit_rs@.len() as int),
                forall|k: int| 0 <= k < orbit_rs@.len() ==> #[trigger] orbit_rs@[k] >= 1,
                closed(ds, i as int, seen@),
                idx_ok(ds, i as int, seen@, orbit_index@[i as int]@, orbit_rs@.len() as int),
                forall|x: int| 1 <= x < d ==> seen@[x],
                forall|j: int| 0 <= j < i ==> ret_all(ds, j, (#[trigger] orbit_index@[j])@, orbit_rs@),
                ret_seen(ds, i as int, seen@, orbit_index@[i as int]@, orbit_rs@),
                start <= orbit_rs@.len(),
                sep_seen(ds, i as int, seen@, orbit_index@[i as int]@, start),
                orbpass_ok(ds, orbit_index@, i as int, start),
        {
            if !seen[d] {
                let orbit_nr = orbit_rs.len();
                let mut e = d;
                let mut steps: usize = 0;
                let mut is_chain = false;
                let ghost seen0 = seen@;
                let ghost oi0 = orbit_index@;
                proof { lemma_members_init(ds, i as int, d as int, seen0); }

                loop
                    invariant_except_break
                        forall|k: nat| 0 < k <= steps ==> #[trigger] iter(ds, i as int, d as int, k) != d,
                        inner_inv(ds, i as int, d as int, e as int, steps as int, seen0, oi0[i as int]@, seen@, orbit_index@[i as int]@, orbit_nr),
                    invariant
                        ds.inv(), 0 <= i < ds.dim, 1 <= d <= ds.size, 1 <= e <= ds.size,
                        orbit_nr == orbit_rs@.len(),
                        orbit_rs@.len() == orbit_is_chain@.len(),
                        seen@.len() == ds.size + 1, seen0.len() == ds.size + 1,
                        orbit_index@.len() == ds.dim, oi0.len() == ds.dim,
                        forall|j: int| 0 <= j < ds.dim ==> (#[trigger] orbit_index@[j])@.len() == ds.size + 1,
                        forall|j: int| 0 <= j < ds.dim && j != i ==> #[trigger] orbit_index@[j] == oi0[j],
                        e == iter(ds, i as int, d as int, steps as nat),
                        members(ds, i as int, d as int, seen0, seen@),
                    ensures
                        steps >= 1,
                        iter(ds, i as int, d as int, steps as nat) == d,
                        forall|k: nat| 0 < k < steps ==> #[trigger] iter(ds, i as int, d as int, k) != d,
                        final_inv(ds, i as int, d as int, seen0, oi0[i as int]@, seen@, orbit_index@[i as int]@, orbit_nr),
                {
                    proof {
                        lemma_steps_bound(ds, i as int, d as int, steps as nat);
                        lemma_inner_step(ds, i as int, d as int, e as int, steps as int, seen0, oi0[i as int]@, seen@, orbit_index@[i as int]@, orbit_nr);
                        lemma_members_step(ds, i as int, d as int, steps as nat, seen0, seen@);
                    }
                    let ghost seen_b = seen@;
                    let ghost oi_b = orbit_index@[i as int]@;
                    let ei = ds.op_unchecked(i, e);
                    is_chain = is_chain || (ei == e);
                    orbit_index[i][ei] = orbit_nr;
                    seen[ei] = true;

                    e = ds.op_unchecked(i + 1, ei);
                    is_chain = is_chain || (e == ei);
                    orbit_index[i][e] = orbit_nr;
                    seen[e] = true;

                    steps += 1;
                    proof {
                    }

                    if e == d {
                        break;
                    }
                }

                proof {
                    lemma_sep_extend(ds, i as int, d as int, seen0, oi0[i as int]@, seen@, orbit_index@[i as int]@, orbit_nr, start);
                    lemma_orbpass_frame(ds, oi0, orbit_index@, i as int, start);
                    lemma_final_to_outer(ds, i as int, d as int, seen0, oi0[i as int]@, seen@, orbit_index@[i as int]@, orbit_nr, orbit_rs@.len() as int);
                    assert forall|j: int| 0 <= j < i implies orb_ok(ds, j, (#[trigger] orbit_index@[j])@, orbit_rs@.len() as int + 1) by {
                        assert(orbit_index@[j] == oi0[j]);
                        lemma_orb_ok_mono(ds, j, oi0[j]@, orbit_rs@.len() as int, orbit_rs@.len() as int + 1);
                    }
                    lemma_ret_seen_extend(ds, i as int, d as int, seen0, oi0[i as int]@, seen@, orbit_index@[i as int]@, orbit_rs@, steps);
                    assert forall|j: int| 0 <= j < i implies ret_all(ds, j, (#[trigger] orbit_index@[j])@, orbit_rs@.push(steps)) by {
                        assert(orbit_index@[j] == oi0[j]);
                        lemma_ret_all_mono(ds, j, oi0[j]@, orbit_rs@, steps);
                    }
                }
                orbit_rs.push(steps);
                orbit_is_chain.push(is_chain);
            }
        }
        proof {
            lemma_orb_ok_intro(ds, i as int, seen@, orbit_index@[i as int]@, orbit_rs@.len() as int);
            lemma_ret_all_intro(ds, i as int, seen@, orbit_index@[i as int]@, orbit_rs@);
            lemma_sep_intro(ds, orbit_index@, i as int, seen@, start, orbit_rs@.len() as int);
        }
    }

    (orbit_rs, orbit_is_chain, orbit_index)
}

//@ end


// ---------------------------------------------------------------------------------------------------------
// D-symbols: orbit tables on top of a SimpleDSet; r, v, m
// ---------------------------------------------------------------------------------------------------------
proof fn lemma_orb_ok_cong(a: &SimpleDSet, b: &SimpleDSet, j: int, oi: Seq<usize>, n: int)
    requires orb_ok(a, j, oi, n), a.op@ == b.op@, a.size == b.size, a.dim == b.dim
    ensures orb_ok(b, j, oi, n)
{
    reveal(orb_ok);
    assert forall|x: int| 1 <= x <= b.size implies
        (#[trigger] oi[x]) < n && oi[b.t(j, x)] == oi[x] && oi[b.t(j + 1, x)] == oi[x] by {
        assert(b.t(j, x) == a.t(j, x)); assert(b.t(j + 1, x) == a.t(j + 1, x));
    }
}

// the representation invariant shared by PartialDSym and SimpleDSym
pub open spec fn sym_ok(dset: &SimpleDSet, oi: Seq<Vec<usize>>, rs: Seq<usize>, vs: Seq<usize>) -> bool {
    &&& dset.inv()
    &&& oi.len() == dset.dim
    &&& forall|i: int| 0 <= i < dset.dim ==> (#[trigger] oi[i])@.len() == dset.size + 1
    // orbit_index[i] is < #orbits and constant along operations i and i+1 (i.e. on (i,i+1)-orbits)
    &&& forall|i: int| 0 <= i < dset.dim ==> orb_ok(dset, i, (#[trigger] oi[i])@, rs.len() as int)
    // orbit_rs[orbit_index[i][x]] is the length of the (i,i+1)-orbit cycle through x, for every chamber x
    &&& forall|i: int| 0 <= i < dset.dim ==> ret_all(dset, i, (#[trigger] oi[i])@, rs)
    // orbit indices separate orbits; the indices of different index pairs are disjoint
    &&& forall|i: int| 0 <= i < dset.dim ==> sep_ok(dset, i, (#[trigger] oi[i])@)
    &&& forall|i: int, i2: int| 0 <= i < i2 < dset.dim ==> below((#[trigger] oi[i])@, (#[trigger] oi[i2])@, dset.size as int)
    &&& vs.len() == rs.len()
    &&& forall|k: int| 0 <= k < rs.len() ==> #[trigger] rs[k] >= 1
    // m = r * v is representable
    &&& forall|k: int| 0 <= k < rs.len() ==> #[trigger] rs[k] * vs[k] <= usize::MAX
}

pub open spec fn oix(oi: Seq<Vec<usize>>, i: int, d: int) -> int { oi[i]@[d] as int }

proof fn lemma_oix_bound(dset: &SimpleDSet, oi: Seq<Vec<usize>>, rs: Seq<usize>, vs: Seq<usize>, i: int, d: int)
    requires sym_ok(dset, oi, rs, vs), 0 <= i < dset.dim, 1 <= d <= dset.size
    ensures 0 <= oix(oi, i, d) < rs.len(), d < oi[i]@.len(),
        oix(oi, i, dset.t(i, d)) == oix(oi, i, d), oix(oi, i, dset.t(i + 1, d)) == oix(oi, i, d),
{
    reveal(orb_ok);
    assert(orb_ok(dset, i, oi[i]@, rs.len() as int));
}

// r, v, m as functions of the representation: the SAME spec functions for both representations (C02: "all
// representations of the same symbol return identical answers for every index pair and chamber")
pub open spec fn spec_r(dset: &SimpleDSet, oi: Seq<Vec<usize>>, rs: Seq<usize>, i: int, j: int, d: int) -> Option<usize> {
    if i > dset.dim || j > dset.dim || d < 1 || d > dset.size { None }      // out of range: None
    else if j == i { Some(1usize) }
    else if j == i + 1 { Some(rs[oix(oi, i, d)]) }
    else if i == j + 1 { Some(rs[oix(oi, j, d)]) }
    else if dset.t(i, d) == dset.t(j, d) { Some(1usize) }
    else { Some(2usize) }
}

pub open spec fn spec_v(dset: &SimpleDSet, oi: Seq<Vec<usize>>, vs: Seq<usize>, i: int, j: int, d: int) -> Option<usize> {
    if i > dset.dim || j > dset.dim || d < 1 || d > dset.size { None }
    else if j == i { Some(1usize) }
    else if j == i + 1 { Some(vs[oix(oi, i, d)]) }
    else if i == j + 1 { Some(vs[oix(oi, j, d)]) }
    else if dset.t(i, d) == dset.t(j, d) { Some(2usize) }
    else { Some(1usize) }
}

// C02: m = r * v
pub open spec fn spec_m(dset: &SimpleDSet, oi: Seq<Vec<usize>>, rs: Seq<usize>, vs: Seq<usize>, i: int, j: int, d: int) -> Option<usize> {
    match (spec_r(dset, oi, rs, i, j, d), spec_v(dset, oi, vs, i, j, d)) {
        (Some(a), Some(b)) => Some((a * b) as usize),
        _ => None,
    }
}

// C02: "r(i,j,d) is the length of the orbit of d under the product of operations i and j", adjacent indices: the value returned
// by r (in either representation: both are proved equal to spec_r) is the least k >= 1 with (op_{i+1} op_i)^k d == d
pub proof fn lemma_r_adjacent_is_orbit_length(dset: &SimpleDSet, oi: Seq<Vec<usize>>, rs: Seq<usize>, vs: Seq<usize>, i: int, d: int)
    requires sym_ok(dset, oi, rs, vs), 0 <= i < dset.dim, 1 <= d <= dset.size
    ensures spec_r(dset, oi, rs, i, i + 1, d).is_some(),
        ret_at(dset, i, d, spec_r(dset, oi, rs, i, i + 1, d).unwrap() as int),
        spec_r(dset, oi, rs, i + 1, i, d) == spec_r(dset, oi, rs, i, i + 1, d),
{
    reveal(ret_all);
    assert(ret_all(dset, i, oi[i]@, rs));
}

// C02: r, v, m are symmetric in (i, j)
pub proof fn lemma_rvm_symmetric(dset: &SimpleDSet, oi: Seq<Vec<usize>>, rs: Seq<usize>, vs: Seq<usize>, i: int, j: int, d: int)
    requires i >= 0, j >= 0
    ensures spec_r(dset, oi, rs, i, j, d) == spec_r(dset, oi, rs, j, i, d),
            spec_v(dset, oi, vs, i, j, d) == spec_v(dset, oi, vs, j, i, d),
            spec_m(dset, oi, rs, vs, i, j, d) == spec_m(dset, oi, rs, vs, j, i, d),
{}

// C02: r, v, m of adjacent indices are constant on (i, i+1)-orbits (one step along either operation)
pub proof fn lemma_rvm_adjacent_constant_on_orbit(dset: &SimpleDSet, oi: Seq<Vec<usize>>, rs: Seq<usize>, vs: Seq<usize>, i: int, d: int)
    requires sym_ok(dset, oi, rs, vs), 0 <= i < dset.dim, 1 <= d <= dset.size
    ensures
        spec_r(dset, oi, rs, i, i + 1, dset.t(i, d)) == spec_r(dset, oi, rs, i, i + 1, d),
        spec_r(dset, oi, rs, i, i + 1, dset.t(i + 1, d)) == spec_r(dset, oi, rs, i, i + 1, d),
        spec_v(dset, oi, vs, i, i + 1, dset.t(i, d)) == spec_v(dset, oi, vs, i, i + 1, d),
        spec_v(dset, oi, vs, i, i + 1, dset.t(i + 1, d)) == spec_v(dset, oi, vs, i, i + 1, d),
        spec_m(dset, oi, rs, vs, i, i + 1, dset.t(i, d)) == spec_m(dset, oi, rs, vs, i, i + 1, d),
        spec_m(dset, oi, rs, vs, i, i + 1, dset.t(i + 1, d)) == spec_m(dset, oi, rs, vs, i, i + 1, d),
{
    lemma_oix_bound(dset, oi, rs, vs, i, d);
    assert(1 <= dset.t(i, d) <= dset.size);
    assert(1 <= dset.t(i + 1, d) <= dset.size);
}

// C02: for |i - j| > 1, r is the orbit length of d under (op i, op j) whenever these two operations commute at d:
// the orbit is {d, op_i d, op_j d, op_i op_j d}; its (i,j)-cycle has length 1 iff op_i d == op_j d, else 2
pub proof fn lemma_r_far_is_cycle_length(dset: &SimpleDSet, oi: Seq<Vec<usize>>, rs: Seq<usize>, i: int, j: int, d: int)
    requires dset.inv(), 0 <= i <= dset.dim, 0 <= j <= dset.dim, i > j + 1 || j > i + 1, 1 <= d <= dset.size,
        dset.t(j, dset.t(i, dset.t(j, dset.t(i, d)))) == d,       // (op_j op_i)^2 d == d
    ensures
        spec_r(dset, oi, rs, i, j, d) == Some(1usize) <==> dset.t(j, dset.t(i, d)) == d,
        spec_r(dset, oi, rs, i, j, d) == Some(2usize) <==> dset.t(j, dset.t(i, d)) != d,
{
    let a = dset.t(i, d);
    assert(1 <= a <= dset.size && dset.t(i, a) == d);
    let b = dset.t(j, d);
    assert(1 <= b <= dset.size && dset.t(j, b) == d);
    let c = dset.t(j, a);
    assert(1 <= c <= dset.size && dset.t(j, c) == a);
    if a == b { assert(c == d); }
    if c == d { assert(dset.t(j, d) == a); }
}

//@ begin src/dsyms.rs :: - :: struct PartialDSym | props=C01,C02,C04
//@ rw R0 /^(\s+)(\w+): /\1pub \2: /
pub struct PartialDSym {
    pub dset: SimpleDSet,
    pub orbit_index: Vec<Vec<usize>>,
    pub orbit_rs: Vec<usize>,
    pub orbit_vs: Vec<usize>,
}
//@ end

impl SimpleDSet {
    // derived Clone (dropped with the derive attribute, R0): an owned copy with equal fields
    #[verifier::external_body]
    pub fn clone(&self) -> (r: Self)
        ensures r.size == self.size, r.dim == self.dim, r.op@ == self.op@, r.counter == self.counter
    { SimpleDSet { size: self.size, dim: self.dim, op: self.op.clone(), counter: self.counter } }

    // `impl DSet for SimpleDSet :: is_complete` (override, emitted as inherent method, R15)
    //@ begin src/dsets.rs :: impl DSet for SimpleDSet :: fn is_complete | props=C01,C02,C04,C05
    //@ rw R16 /-> bool/-> (r: bool)/
    fn is_complete(&self) -> (r: bool)
        requires self.inv()
        ensures r == tbl_complete(self.op@, self.size as int, self.dim as int)
    {
        proof { self.lemma_inv_tbl(); }
        // checked on creation
        true
    }
    //@ end
}

impl PartialDSym {
    pub open spec fn inv(&self) -> bool { sym_ok(&self.dset, self.orbit_index@, self.orbit_rs@, self.orbit_vs@) }
    pub open spec fn all_vs_positive(&self) -> bool { forall|k: int| 0 <= k < self.orbit_vs@.len() ==> #[trigger] self.orbit_vs@[k] > 0 }

    //@ begin src/dsyms.rs :: impl PartialDSym :: fn new | props=C01,C02,C04
    //@ rw R16 /-> PartialDSym$/-> (r: PartialDSym)/
    //@ rw R14 /^([ \t]*)PartialDSym \{ dset: dset\.clone\(\), (.*)$/\1let __c = dset.clone();\n\1PartialDSym { dset: __c, \2/
    pub fn new(dset: &SimpleDSet) -> (r: PartialDSym)
        requires dset.inv()
        ensures r.inv(), r.dset.size == dset.size, r.dset.dim == dset.dim, r.dset.op@ == dset.op@,
            forall|k: int| 0 <= k < r.orbit_vs@.len() ==> #[trigger] r.orbit_vs@[k] == 0,
    {
        let (orbit_rs, _, orbit_index) = collect_orbits(&dset);
        let orbit_vs = vec![0; orbit_rs.len()];

        let __c = dset.clone();
        proof {
            assert forall|i: int| 0 <= i < __c.dim implies orb_ok(&__c, i, (#[trigger] orbit_index@[i])@, orbit_rs@.len() as int) by {
                lemma_orb_ok_cong(dset, &__c, i, orbit_index@[i]@, orbit_rs@.len() as int);
            }
            assert forall|i: int| 0 <= i < __c.dim implies ret_all(&__c, i, (#[trigger] orbit_index@[i])@, orbit_rs@) by {
                lemma_ret_all_cong(dset, &__c, i, orbit_index@[i]@, orbit_rs@);
            }
            assert forall|i: int| 0 <= i < __c.dim implies sep_ok(&__c, i, (#[trigger] orbit_index@[i])@) by {
                lemma_sep_ok_cong(dset, &__c, i, orbit_index@[i]@);
            }
            assert forall|i: int, d: int| 0 <= i <= __c.dim && 1 <= d <= __c.size implies ({
                let e = #[trigger] __c.t(i, d);
                1 <= e <= __c.size && __c.t(i, e) == d
            }) by { assert(__c.t(i, d) == dset.t(i, d)); }
        }
        PartialDSym { dset: __c, orbit_index, orbit_rs, orbit_vs }
    }
    //@ end

    //@ begin src/dsyms.rs :: impl PartialDSym :: fn from_fields | props=C01,C02,C04
    //@ rw R16 /-> PartialDSym$/-> (r: PartialDSym)/
    pub fn from_fields(
        dset: SimpleDSet,
        orbit_index: Vec<Vec<usize>>,
        orbit_rs: Vec<usize>,
        orbit_vs: Vec<usize>
    ) -> (r: PartialDSym)
        requires sym_ok(&dset, orbit_index@, orbit_rs@, orbit_vs@)     // consistency of the parts is the caller's obligation
        ensures r.inv(), r.dset == dset, r.orbit_index == orbit_index, r.orbit_rs == orbit_rs, r.orbit_vs == orbit_vs
    {
        PartialDSym { dset, orbit_index, orbit_rs, orbit_vs }
    }
    //@ end

    //@ begin src/dsyms.rs :: impl PartialDSym :: fn set_v | props=C01,C02,C04
    pub fn set_v(&mut self, i: usize, d: usize, v: usize)
        requires old(self).inv(), i < old(self).dset.dim, 1 <= d <= old(self).dset.size,
            old(self).orbit_rs@[oix(old(self).orbit_index@, i as int, d as int)] * v <= usize::MAX,
        ensures final(self).inv(), final(self).dset == old(self).dset, final(self).orbit_index == old(self).orbit_index,
            final(self).orbit_rs == old(self).orbit_rs,
            // exactly the degree of the (i, i+1)-orbit of d changes
            final(self).orbit_vs@ == old(self).orbit_vs@.update(oix(old(self).orbit_index@, i as int, d as int), v),
    {
        proof { lemma_oix_bound(&self.dset, self.orbit_index@, self.orbit_rs@, self.orbit_vs@, i as int, d as int); }
        assert!(1 <= d);
        self.orbit_vs[self.orbit_index[i][d]] = v;
    }
    //@ end

    // `impl DSet for PartialDSym :: is_complete` (override, inherent emission R15)
    //@ begin src/dsyms.rs :: impl DSet for PartialDSym :: fn is_complete | props=C01,C02,C04
    //@ rw R16 /-> bool/-> (r: bool)/
    //@ rw R2+R14 /^([ \t]*)(self\.dset\.is_complete\(\)) && (self\.orbit_vs\.iter\(\))\.all\(\|&v\| (.*)\)$/\1let __a = \2;\n\1let mut __it = \3;\n\1let __b = __it.all(|__v: &usize| -> (c: bool) ensures c == (*__v > 0) { let v = *__v; \4 });\n\1__a && __b/
    fn is_complete(&self) -> (r: bool)
        requires self.inv()
        ensures r == self.all_vs_positive()
    {
        let __a = self.dset.is_complete();
        let mut __it = self.orbit_vs.iter();
        let ghost __g = __it;
        let __b = __it.all(|__v: &usize| -> (c: bool) ensures c == (*__v > 0) { let v = *__v; v > 0 });
        proof {
            self.dset.lemma_inv_tbl();
            if __b {
                assert forall|k: int| 0 <= k < self.orbit_vs@.len() implies #[trigger] self.orbit_vs@[k] > 0 by {
                    assert(IteratorSpec::remaining(&__g)[k] == &self.orbit_vs@[k]);
                }
            }
        }
        __a && __b
    }
    //@ end

    // `impl DSet for PartialDSym :: r` (override, inherent emission R15)
    //@ begin src/dsyms.rs :: impl DSet for PartialDSym :: fn r | props=C01,C02,C04,C05
    //@ rw R16 /-> Option<usize>/-> (r: Option<usize>)/
    fn r(&self, i: usize, j: usize, d: usize) -> (r: Option<usize>)
        requires self.inv()
        ensures r == spec_r(&self.dset, self.orbit_index@, self.orbit_rs@, i as int, j as int, d as int)
    {
        proof { self.dset.lemma_inv_tbl(); }
        if i > self.dim() || j > self.dim() || d < 1 || d > self.size() {
            None
        } else if j == i {
            Some(1)
        } else if j == i + 1 {
            proof { lemma_oix_bound(&self.dset, self.orbit_index@, self.orbit_rs@, self.orbit_vs@, i as int, d as int); }
            Some(self.orbit_rs[self.orbit_index[i][d]])
        } else if i == j + 1 {
            proof { lemma_oix_bound(&self.dset, self.orbit_index@, self.orbit_rs@, self.orbit_vs@, j as int, d as int); }
            Some(self.orbit_rs[self.orbit_index[j][d]])
        } else if self.op(i, d) == self.op(j, d) {
            Some(1)
        } else {
            Some(2)
        }
    }
    //@ end


    // `impl From<SimpleDSet> for PartialDSym :: from` as a named constructor (R15)
    //@ begin src/dsyms.rs :: impl From<SimpleDSet> for PartialDSym :: fn from | props=C01,C02,C04
    //@ rw R15 /fn from\(/fn from_simple_dset(/
    //@ rw R16 /-> Self/-> (r: Self)/
    fn from_simple_dset(dset: SimpleDSet) -> (r: Self)
        requires dset.inv()
        ensures r.inv(), r.dset == dset, forall|k: int| 0 <= k < r.orbit_vs@.len() ==> #[trigger] r.orbit_vs@[k] == 0,
    {
        let (orbit_rs, _, orbit_index) = collect_orbits(&dset);
        let orbit_vs = vec![0; orbit_rs.len()];

        PartialDSym { dset, orbit_index, orbit_rs, orbit_vs }
    }
    //@ end

    // `impl From<PartialDSet> for PartialDSym :: from` as a named constructor (R15); `.into()` is From::from
    //@ begin src/dsyms.rs :: impl From<PartialDSet> for PartialDSym :: fn from | props=C01,C02,C04
    //@ rw R15 /fn from\(/fn from_partial_dset(/
    //@ rw R16 /-> Self/-> (r: Self)/
    //@ rw R15 /^([ \t]*)SimpleDSet::from\((\w+)\)\.into\(\)$/\1PartialDSym::from_simple_dset(SimpleDSet::from_partial_dset(\2))/
    fn from_partial_dset(dset: PartialDSet) -> (r: Self)
        requires dset.inv(), dset.complete()
        ensures r.inv(), r.dset.size == dset.size, r.dset.dim == dset.dim, r.dset.op@ == dset.op@,
            forall|k: int| 0 <= k < r.orbit_vs@.len() ==> #[trigger] r.orbit_vs@[k] == 0,
    {
        PartialDSym::from_simple_dset(SimpleDSet::from_partial_dset(dset))
    }
    //@ end
}

proof fn lemma_sym_m_orbit(dset: &SimpleDSet, oi: Seq<Vec<usize>>, rs: Seq<usize>, vs: Seq<usize>)
    requires sym_ok(dset, oi, rs, vs)
    ensures
        forall|i: int, d: int| 0 <= i < dset.dim && (#[trigger] dset.sop(i, d)).is_some() ==>
            spec_m(dset, oi, rs, vs, i, i + 1, dset.sop(i, d).unwrap() as int) == spec_m(dset, oi, rs, vs, i, i + 1, d),
        forall|i: int, d: int| 0 <= i < dset.dim && (#[trigger] dset.sop(i + 1, d)).is_some() ==>
            spec_m(dset, oi, rs, vs, i, i + 1, dset.sop(i + 1, d).unwrap() as int) == spec_m(dset, oi, rs, vs, i, i + 1, d),
{
    dset.lemma_wf();
    dset.lemma_inv_tbl();
    assert forall|i: int, d: int| 0 <= i < dset.dim && (#[trigger] dset.sop(i, d)).is_some() implies
            spec_m(dset, oi, rs, vs, i, i + 1, dset.sop(i, d).unwrap() as int) == spec_m(dset, oi, rs, vs, i, i + 1, d) by {
        lemma_rvm_adjacent_constant_on_orbit(dset, oi, rs, vs, i, d);
    }
    assert forall|i: int, d: int| 0 <= i < dset.dim && (#[trigger] dset.sop(i + 1, d)).is_some() implies
            spec_m(dset, oi, rs, vs, i, i + 1, dset.sop(i + 1, d).unwrap() as int) == spec_m(dset, oi, rs, vs, i, i + 1, d) by {
        lemma_rvm_adjacent_constant_on_orbit(dset, oi, rs, vs, i, d);
    }
}

proof fn lemma_sym_wf(dset: &SimpleDSet)
    requires dset.inv()
    ensures dset.wf()
{}

impl DSet for PartialDSym {
    open spec fn wf(&self) -> bool { self.inv() }
    open spec fn ssize(&self) -> int { self.dset.size as int }
    open spec fn sdim(&self) -> int { self.dset.dim as int }
    open spec fn sop(&self, i: int, d: int) -> Option<usize> { self.dset.sop(i, d) }
    open spec fn sm(&self, i: int, j: int, d: int) -> Option<usize> {
        spec_m(&self.dset, self.orbit_index@, self.orbit_rs@, self.orbit_vs@, i, j, d)
    }

    proof fn lemma_wf(&self) { self.dset.lemma_wf(); }
    proof fn lemma_m_orbit(&self) { lemma_sym_m_orbit(&self.dset, self.orbit_index@, self.orbit_rs@, self.orbit_vs@); }

    //@ begin src/dsyms.rs :: impl DSet for PartialDSym :: fn size | props=C01,C02,C04
    fn size(&self) -> usize
    {
        self.dset.size()
    }
    //@ end

    //@ begin src/dsyms.rs :: impl DSet for PartialDSym :: fn dim | props=C01,C02,C04
    fn dim(&self) -> usize
    {
        self.dset.dim()
    }
    //@ end

    //@ begin src/dsyms.rs :: impl DSet for PartialDSym :: fn op | props=C01,C02,C04
    fn op(&self, i: usize, d: usize) -> Option<usize>
    {
        self.dset.op(i, d)
    }
    //@ end

    //@ begin src/dsyms.rs :: impl DSet for PartialDSym :: fn m | props=C01,C02,C04,C05
    fn m(&self, i: usize, j: usize, d: usize) -> Option<usize>
    {
        proof {
            if i < self.dset.dim && 1 <= d <= self.dset.size { lemma_oix_bound(&self.dset, self.orbit_index@, self.orbit_rs@, self.orbit_vs@, i as int, d as int); }
            if j < self.dset.dim && 1 <= d <= self.dset.size { lemma_oix_bound(&self.dset, self.orbit_index@, self.orbit_rs@, self.orbit_vs@, j as int, d as int); }
        }
        Some(self.r(i, j, d)? * self.v(i, j, d)?)
    }
    //@ end
}

impl DSym for PartialDSym {
    open spec fn sv(&self, i: int, j: int, d: int) -> Option<usize> { spec_v(&self.dset, self.orbit_index@, self.orbit_vs@, i, j, d) }

    proof fn lemma_v_orbit(&self) { lemma_sym_v_orbit(&self.dset, self.orbit_index@, self.orbit_rs@, self.orbit_vs@); }
    proof fn lemma_m_rv(&self, i: int, d: usize, n: nat) {
        lemma_ret_ij_same_ops(self, &self.dset, i, i + 1, d, n);
        lemma_sym_m_rv(&self.dset, self.orbit_index@, self.orbit_rs@, self.orbit_vs@, i, d, n);
    }

    // `impl DSym for PartialDSym :: v` (the real trait impl)
    //@ begin src/dsyms.rs :: impl DSym for PartialDSym :: fn v | props=C01,C02,C04,C05
    //@ rw R16 /-> Option<usize>/-> (r: Option<usize>)/
    fn v(&self, i: usize, j: usize, d: usize) -> (r: Option<usize>)
    {
        proof { self.dset.lemma_inv_tbl(); assert(self.sv(i as int, j as int, d as int) == spec_v(&self.dset, self.orbit_index@, self.orbit_vs@, i as int, j as int, d as int)); }
        if i > self.dim() || j > self.dim() || d < 1 || d > self.size() {
            None
        } else if j == i {
            Some(1)
        } else if j == i + 1 {
            proof { lemma_oix_bound(&self.dset, self.orbit_index@, self.orbit_rs@, self.orbit_vs@, i as int, d as int); }
            Some(self.orbit_vs[self.orbit_index[i][d]])
        } else if i == j + 1 {
            proof { lemma_oix_bound(&self.dset, self.orbit_index@, self.orbit_rs@, self.orbit_vs@, j as int, d as int); }
            Some(self.orbit_vs[self.orbit_index[j][d]])
        } else if self.op(i, d) == self.op(j, d) {
            Some(2)
        } else {
            Some(1)
        }
    }
    //@ end
}

// ---------------------------------------------------------------------------------------------------------
// C01: parsing.  The nom grammar is outside the verifier: parse_dsymbol may return ANY DSymSpec whatsoever
// (no assumption on the numbers), or any error.  Everything after it is the real code and must be panic-free.
// ---------------------------------------------------------------------------------------------------------
//@ begin src/parse_dsym.rs :: - :: struct DSymSpec | props=C01
pub struct DSymSpec {
    pub set_count: usize,
    pub sym_count: usize,
    pub size: usize,
    pub dim: usize,
    pub op_spec: Vec<Vec<usize>>,
    pub m_spec: Vec<Vec<usize>>
}
//@ end

#[verifier::external_body]
pub fn parse_dsymbol(input: &str) -> (r: Result<(&str, DSymSpec), String>)
{ unimplemented!() }

impl PartialDSym {
    // `impl FromStr for PartialDSym :: from_str` (inherent emission R15; Self::Err = String)
    //@ begin src/dsyms.rs :: impl FromStr for PartialDSym :: fn from_str | props=C01
    //@ rw R16 /-> Result<Self, Self::Err>/-> (res: Result<Self, String>)/
    //@ rw R15 /parse_dsym::parse_dsymbol/parse_dsymbol/
    //@ rw R10 /for i in 0\.\.=spec\.dim$/for i in 0..(spec.dim) + 1/
    //@ rw R10 /for d in 1\.\.=spec\.size$/for d in 1..(spec.size) + 1/
    //@ rw R2 /let &(\w+) = /let \1 = */
    //@ rw R15 /PartialDSym::from\(dset\)/PartialDSym::from_partial_dset(dset)/
    //@ rw R15 /Ok\(dsym\.into\(\)\)/Ok(dsym)/
    #[verifier::spinoff_prover]
    #[verifier::exec_allows_no_decreases_clause]
    fn from_str(s: &str) -> (res: Result<Self, String>)
        // C01: for EVERY string: no panic on any path, and an Ok result is a well-formed complete symbol: all operations
        // are total involutions on 1..=size, the orbit tables are consistent, every degree m is r * v (a multiple of r)
        ensures res.is_ok() ==> res.unwrap().inv()
    {
        let (_, spec) = parse_dsymbol(s)?;

        if spec.size < 1 {
            Err("size must be at least 1".into())
        } else if spec.dim < 1 {
            Err("dimension must be at least 1".into())
        } else if spec.dim == usize::MAX || spec.op_spec.len() != spec.dim as usize + 1 {
            Err("incorrect dimension for op specifications".into())
        } else if spec.m_spec.len() != spec.dim as usize {
            Err("incorrect dimension for degree specifications".into())
        } else if spec.op_spec[0].len() < spec.size / 2 {
            // every entry defines at most two chambers
            Err("incomplete op spec".into())
        } else if spec.size == usize::MAX || spec.size.checked_mul(spec.dim + 1).is_none() {
            Err("size too large".into())
        } else {
            let mut dset = PartialDSet::new(spec.size, spec.dim);

            for i in 0..(spec.dim) + 1
                invariant
                    dset.inv(), dset.size == spec.size, dset.dim == spec.dim,
                    spec.op_spec@.len() == spec.dim + 1, spec.dim < usize::MAX, spec.size < usize::MAX,
                    forall|j: int, d: int| 0 <= j < i && 1 <= d <= spec.size ==> #[trigger] dset.t(j, d) != 0,
                    forall|j: int, d: int| i <= j <= spec.dim && 1 <= d <= spec.size ==> #[trigger] dset.t(j, d) == 0,
            {
                let op_i = spec.op_spec.get(i).unwrap();
                let mut k = 0;

                for d in 1..(spec.size) + 1
                    invariant
                        dset.inv(), dset.size == spec.size, dset.dim == spec.dim, i <= spec.dim,
                        spec.op_spec@.len() == spec.dim + 1, spec.dim < usize::MAX, spec.size < usize::MAX,
                        k <= op_i.len(),
                        forall|j: int, c: int| 0 <= j < i && 1 <= c <= spec.size ==> #[trigger] dset.t(j, c) != 0,
                        forall|j: int, c: int| i < j <= spec.dim && 1 <= c <= spec.size ==> #[trigger] dset.t(j, c) == 0,
                        forall|c: int| 1 <= c < d ==> #[trigger] dset.t(i as int, c) != 0,
                {
                    if dset.op_unchecked(i, d) == 0 {
                        let di = *op_i.get(k)
                            .ok_or("incomplete op spec".to_string())?;
                        if di < 1 || di > spec.size || dset.op_unchecked(i, di) != 0 {
                            return Err("illegal op value".into());
                        }
                        let ghost before = dset;
                        dset.set(i, d, di);
                        k += 1;
                        proof {
                            assert forall|j: int, c: int| 0 <= j < i && 1 <= c <= spec.size implies #[trigger] dset.t(j, c) != 0 by {
                                assert(dset.t(j, c) == before.t(j, c));
                            }
                            assert forall|j: int, c: int| i < j <= spec.dim && 1 <= c <= spec.size implies #[trigger] dset.t(j, c) == 0 by {
                                assert(dset.t(j, c) == before.t(j, c));
                            }
                            assert forall|c: int| 1 <= c < d + 1 implies #[trigger] dset.t(i as int, c) != 0 by {
                                if c != d && c != di { assert(dset.t(i as int, c) == before.t(i as int, c)); }
                            }
                        }
                    }
                }

                if k < op_i.len() {
                    return Err("unused data in op spec".into());
                }
            }

            proof {
                assert forall|j: int, d: int| 0 <= j <= dset.dim && 1 <= d <= dset.size implies #[trigger] tbl(dset.op@, dset.dim as int, j, d) != 0 by {
                    assert(dset.t(j, d) != 0);
                }
            }
            let mut dsym = PartialDSym::from_partial_dset(dset);

            for i in 0..spec.dim
                invariant dsym.inv(), dsym.dset.dim == spec.dim, dsym.dset.size == spec.size,
                    spec.m_spec@.len() == spec.dim, spec.size < usize::MAX,
            {
                let ms_i = spec.m_spec.get(i).unwrap();
                let mut k = 0;

                for d in 1..(spec.size) + 1
                    invariant dsym.inv(), dsym.dset.dim == spec.dim, dsym.dset.size == spec.size, i < spec.dim,
                        k <= ms_i.len(), spec.size < usize::MAX,
                {
                    proof { lemma_oix_bound(&dsym.dset, dsym.orbit_index@, dsym.orbit_rs@, dsym.orbit_vs@, i as int, d as int); }
                    if dsym.v(i, i + 1, d) == Some(0) {
                        let m = *ms_i.get(k)
                            .ok_or("incomplete degree spec".to_string())?;
                        let r = dsym.r(i, i + 1, d).unwrap(); 
                        if m % r != 0 {
                            return Err("illegal degree value".into());
                        }
                        proof {
                            assert(r * (m / r) <= m) by(nonlinear_arith) requires r >= 1, m >= 0;
                        }
                        dsym.set_v(i, d, m / r);
                        k += 1;
                    }
                }

                if k < ms_i.len() {
                    return Err("unused data in degree spec".into());
                }
            }

            Ok(dsym)
        }
    }
    //@ end
}

// ---------------------------------------------------------------------------------------------------------
// SimpleDSym: the complete representation, same tables
// ---------------------------------------------------------------------------------------------------------
//@ begin src/dsyms.rs :: - :: struct SimpleDSym | props=C01,C02,C04
//@ rw R0 /^([ \t]+)(\w+): /\1pub \2: /
pub struct SimpleDSym {
    pub dset: SimpleDSet,
    pub orbit_index: Vec<Vec<usize>>,
    pub orbit_rs: Vec<usize>,
    pub orbit_vs: Vec<usize>,
    pub counter: usize,
}
//@ end

impl SimpleDSym {
    pub open spec fn inv(&self) -> bool { sym_ok(&self.dset, self.orbit_index@, self.orbit_rs@, self.orbit_vs@) }

    //@ begin src/dsyms.rs :: impl SimpleDSym :: fn from_partial | props=C01,C02,C04
    //@ rw R16 /-> Self/-> (r: Self)/
    pub fn from_partial(ds: PartialDSym, counter: usize) -> (r: Self)
        requires ds.inv(), ds.all_vs_positive()       // the assertion of the body
        // the representation change moves the tables unchanged, hence (spec_r/spec_v/spec_m are functions of the tables)
        // both representations answer r, v, m identically for every (i, j, d)
        ensures r.inv(), r.dset == ds.dset, r.orbit_index == ds.orbit_index, r.orbit_rs == ds.orbit_rs, r.orbit_vs == ds.orbit_vs,
    {
        assert!(ds.is_complete());
        // TODO add more consistency checks here

        let PartialDSym { dset, orbit_index, orbit_rs, orbit_vs } = ds;
        SimpleDSym { dset, orbit_index, orbit_rs, orbit_vs, counter }
    }
    //@ end

    // `impl From<PartialDSym> for SimpleDSym :: from` as a named constructor (R15)
    //@ begin src/dsyms.rs :: impl From<PartialDSym> for SimpleDSym :: fn from | props=C01,C02,C04
    //@ rw R15 /fn from\(/fn from_partial_dsym(/
    //@ rw R16 /-> Self/-> (r: Self)/
    fn from_partial_dsym(value: PartialDSym) -> (r: Self)
        requires value.inv(), value.all_vs_positive()
        ensures r.inv(), r.dset == value.dset, r.orbit_index == value.orbit_index, r.orbit_rs == value.orbit_rs, r.orbit_vs == value.orbit_vs,
    {
        SimpleDSym::from_partial(value, 1)
    }
    //@ end

    // `impl DSet for SimpleDSym :: r` (override, inherent emission R15)
    //@ begin src/dsyms.rs :: impl DSet for SimpleDSym :: fn r | props=C01,C02,C04,C05
    //@ rw R16 /-> Option<usize>/-> (r: Option<usize>)/
    fn r(&self, i: usize, j: usize, d: usize) -> (r: Option<usize>)
        requires self.inv()
        ensures r == spec_r(&self.dset, self.orbit_index@, self.orbit_rs@, i as int, j as int, d as int)
    {
        proof { self.dset.lemma_inv_tbl(); }
        if i > self.dim() || j > self.dim() || d < 1 || d > self.size() {
            None
        } else if j == i {
            Some(1)
        } else if j == i + 1 {
            proof { lemma_oix_bound(&self.dset, self.orbit_index@, self.orbit_rs@, self.orbit_vs@, i as int, d as int); }
            Some(self.orbit_rs[self.orbit_index[i][d]])
        } else if i == j + 1 {
            proof { lemma_oix_bound(&self.dset, self.orbit_index@, self.orbit_rs@, self.orbit_vs@, j as int, d as int); }
            Some(self.orbit_rs[self.orbit_index[j][d]])
        } else if self.op(i, d) == self.op(j, d) {
            Some(1)
        } else {
            Some(2)
        }
    }
    //@ end

}

impl DSet for SimpleDSym {
    open spec fn wf(&self) -> bool { self.inv() }
    open spec fn ssize(&self) -> int { self.dset.size as int }
    open spec fn sdim(&self) -> int { self.dset.dim as int }
    open spec fn sop(&self, i: int, d: int) -> Option<usize> { self.dset.sop(i, d) }
    open spec fn sm(&self, i: int, j: int, d: int) -> Option<usize> {
        spec_m(&self.dset, self.orbit_index@, self.orbit_rs@, self.orbit_vs@, i, j, d)
    }

    proof fn lemma_wf(&self) { self.dset.lemma_wf(); }
    proof fn lemma_m_orbit(&self) { lemma_sym_m_orbit(&self.dset, self.orbit_index@, self.orbit_rs@, self.orbit_vs@); }

    //@ begin src/dsyms.rs :: impl DSet for SimpleDSym :: fn size | props=C01,C02,C04
    fn size(&self) -> usize
    {
        self.dset.size()
    }
    //@ end

    //@ begin src/dsyms.rs :: impl DSet for SimpleDSym :: fn dim | props=C01,C02,C04
    fn dim(&self) -> usize
    {
        self.dset.dim()
    }
    //@ end

    //@ begin src/dsyms.rs :: impl DSet for SimpleDSym :: fn op | props=C01,C02,C04
    fn op(&self, i: usize, d: usize) -> Option<usize>
    {
        self.dset.op(i, d)
    }
    //@ end

    //@ begin src/dsyms.rs :: impl DSet for SimpleDSym :: fn m | props=C01,C02,C04,C05
    fn m(&self, i: usize, j: usize, d: usize) -> Option<usize>
    {
        proof {
            if i < self.dset.dim && 1 <= d <= self.dset.size { lemma_oix_bound(&self.dset, self.orbit_index@, self.orbit_rs@, self.orbit_vs@, i as int, d as int); }
            if j < self.dset.dim && 1 <= d <= self.dset.size { lemma_oix_bound(&self.dset, self.orbit_index@, self.orbit_rs@, self.orbit_vs@, j as int, d as int); }
        }
        Some(self.r(i, j, d)? * self.v(i, j, d)?)
    }
    //@ end
}

impl DSym for SimpleDSym {
    open spec fn sv(&self, i: int, j: int, d: int) -> Option<usize> { spec_v(&self.dset, self.orbit_index@, self.orbit_vs@, i, j, d) }

    proof fn lemma_v_orbit(&self) { lemma_sym_v_orbit(&self.dset, self.orbit_index@, self.orbit_rs@, self.orbit_vs@); }
    proof fn lemma_m_rv(&self, i: int, d: usize, n: nat) {
        lemma_ret_ij_same_ops(self, &self.dset, i, i + 1, d, n);
        lemma_sym_m_rv(&self.dset, self.orbit_index@, self.orbit_rs@, self.orbit_vs@, i, d, n);
    }

    // `impl DSym for SimpleDSym :: v` (the real trait impl)
    //@ begin src/dsyms.rs :: impl DSym for SimpleDSym :: fn v | props=C01,C02,C04,C05
    //@ rw R16 /-> Option<usize>/-> (r: Option<usize>)/
    fn v(&self, i: usize, j: usize, d: usize) -> (r: Option<usize>)
    {
        proof { self.dset.lemma_inv_tbl(); assert(self.sv(i as int, j as int, d as int) == spec_v(&self.dset, self.orbit_index@, self.orbit_vs@, i as int, j as int, d as int)); }
        if i > self.dim() || j > self.dim() || d < 1 || d > self.size() {
            None
        } else if j == i {
            Some(1)
        } else if j == i + 1 {
            proof { lemma_oix_bound(&self.dset, self.orbit_index@, self.orbit_rs@, self.orbit_vs@, i as int, d as int); }
            Some(self.orbit_vs[self.orbit_index[i][d]])
        } else if i == j + 1 {
            proof { lemma_oix_bound(&self.dset, self.orbit_index@, self.orbit_rs@, self.orbit_vs@, j as int, d as int); }
            Some(self.orbit_vs[self.orbit_index[j][d]])
        } else if self.op(i, d) == self.op(j, d) {
            Some(2)
        } else {
            Some(1)
        }
    }
    //@ end
}

// ---------------------------------------------------------------------------------------------------------
// C04: morphisms between D-sets / D-symbols (generic over the DSet interface)
// ---------------------------------------------------------------------------------------------------------
pub open spec fn deg_ok<S: DSet, T: DSet>(this: &S, other: &T, d: int, e: int) -> bool {
    forall|i: int| 0 <= i < this.sdim() ==> #[trigger] this.sm(i, i + 1, d) == other.sm(i, i + 1, e)
}

pub open spec fn op_ok<S: DSet, T: DSet>(this: &S, other: &T, m: Seq<usize>, d: int, i: int) -> bool {
    this.sop(i, d).is_some() && other.sop(i, m[d] as int).is_some()
        ==> m[this.sop(i, d).unwrap() as int] == other.sop(i, m[d] as int).unwrap()
}

pub open spec fn ops_ok<S: DSet, T: DSet>(this: &S, other: &T, m: Seq<usize>, d: int, upto: int) -> bool {
    forall|i: int| 0 <= i < upto ==> #[trigger] op_ok(this, other, m, d, i)
}

pub open spec fn valid_at<S: DSet, T: DSet>(this: &S, other: &T, m: Seq<usize>, d: int) -> bool {
    deg_ok(this, other, d, m[d] as int) && ops_ok(this, other, m, d, this.sdim() + 1)
}

pub open spec fn is_morphism<S: DSet, T: DSet>(this: &S, other: &T, phi: Seq<usize>, img0: usize) -> bool {
    &&& phi.len() == this.ssize() + 1
    &&& phi[1] == img0
    &&& forall|d: int| 1 <= d <= this.ssize() ==> #[trigger] valid_at(this, other, phi, d)
}

pub open spec fn in_queue(q: Seq<(usize, usize)>, d: int) -> bool {
    exists|k: int| 0 <= k < q.len() && (#[trigger] q[k]).0 == d
}

pub open spec fn agrees<S: DSet, T: DSet>(this: &S, other: &T, m: Seq<usize>, img0: usize) -> bool {
    forall|phi: Seq<usize>, x: int| #![trigger is_morphism(this, other, phi, img0), m[x]]
        is_morphism(this, other, phi, img0) && 1 <= x <= this.ssize() && m[x] != 0 ==> phi[x] == m[x]
}

pub open spec fn queue_ok<S: DSet>(this: &S, q: Seq<(usize, usize)>, m: Seq<usize>) -> bool {
    forall|k: int| 0 <= k < q.len() ==> 1 <= (#[trigger] q[k]).0 <= this.ssize() && m[q[k].0 as int] == q[k].1 && q[k].1 != 0
}

pub open spec fn done_ok<S: DSet, T: DSet>(this: &S, other: &T, m: Seq<usize>, done: Set<int>) -> bool {
    forall|x: int| #[trigger] done.contains(x) ==> 1 <= x <= this.ssize() && m[x] != 0 && valid_at(this, other, m, x)
}

// updating an unassigned slot keeps every finished chamber valid
#[verifier::spinoff_prover]
proof fn lemma_done_stable<S: DSet, T: DSet>(this: &S, other: &T, m: Seq<usize>, done: Set<int>, di: int, ei: usize)
    requires this.wf(), other.wf(), done_ok(this, other, m, done), 1 <= di < m.len(), m[di] == 0, ei != 0,
        m.len() == this.ssize() + 1,
    ensures done_ok(this, other, m.update(di, ei), done)
{
    this.lemma_wf(); other.lemma_wf();
    let m2 = m.update(di, ei);
    assert forall|x: int| #[trigger] done.contains(x) implies 1 <= x <= this.ssize() && m2[x] != 0 && valid_at(this, other, m2, x) by {
        assert(valid_at(this, other, m, x));
        assert(m2[x] == m[x]);
        assert forall|i: int| 0 <= i < this.sdim() + 1 implies #[trigger] op_ok(this, other, m2, x, i) by {
            assert(op_ok(this, other, m, x, i));
            if this.sop(i, x).is_some() && other.sop(i, m[x] as int).is_some() {
                let t = this.sop(i, x).unwrap() as int;
                assert(m[t] == other.sop(i, m[x] as int).unwrap());
                assert(m[t] != 0);
                assert(t != di);
            }
        }
    }
}


// `trait DSet :: morphism` is a default method generic over its own trait; Verus rejects that form ("cyclic
// self-reference"), so it is emitted as the free generic function static dispatch produces (R11: self -> this)
//@ begin src/dsets.rs :: trait DSet: Sized :: fn morphism | props=C04
//@ rw R11 /fn morphism<T: DSet>\(&self, other: &T, img0: usize\)/pub fn morphism<S: DSet, T: DSet>(this: &S, other: &T, img0: usize)/
//@ rw R11 /\bself\b/this/
//@ rw R16 /-> Option<Vec<usize>>/-> (r: Option<Vec<usize>>)/
//@ rw R12 /let mut queue = VecDeque::new\(\);/let mut queue: VecDeque<(usize, usize)> = VecDeque::new();/
//@ rw R10 /for i in 0\.\.=this\.dim\(\)$/for i in 0..(this.dim()) + 1/
//@ rw R14 /\.all\(\|i\| (.*)\) \{$/.all(|i: usize| -> (b: bool)\n            { \1 }) {/
#[verifier::spinoff_prover]
#[verifier::exec_allows_no_decreases_clause]
    pub fn morphism<S: DSet, T: DSet>(this: &S, other: &T, img0: usize)
        -> (r: Option<Vec<usize>>)
    requires this.wf(), other.wf(), img0 != 0      // 0 is the code's own "unassigned" marker
    ensures
        // Some(m): m maps chamber 1 to img0 and, on every chamber it assigns, commutes with all operations defined on
        // both sides and preserves all degrees m(i, i+1)
        r.is_some() ==> {
            let m = r.unwrap()@;
            &&& m.len() == this.ssize() + 1
            &&& m[1] == img0
            &&& forall|d: int| 1 <= d <= this.ssize() && m[d] != 0 ==> #[trigger] valid_at(this, other, m, d)
            // images are chambers of `other` (given that the base image is one)
            &&& img0 <= other.ssize() ==> forall|d: int| 1 <= d <= this.ssize() ==> #[trigger] m[d] <= other.ssize()
        },
        // None: no map whatsoever with base image img0 is a morphism
        r.is_none() ==> forall|phi: Seq<usize>| !#[trigger] is_morphism(this, other, phi, img0),
    {
    proof { this.lemma_wf(); other.lemma_wf(); }
    let mut m = vec![0; this.size() + 1];
    let mut queue: VecDeque<(usize, usize)> = VecDeque::new();

    m[1] = img0;
    queue.push_back((1, img0));
    let ghost mut done: Set<int> = Set::empty();
    let ghost mut qg: Seq<(usize, usize)> = queue@;
    proof {
        assert(queue@[0].0 == 1);
        assert(in_queue(queue@, 1));
    }

    while let Some((d, e)) = queue.pop_front()
        invariant
            this.wf(), other.wf(), img0 != 0,
            m@.len() == this.ssize() + 1,
            m@[1] == img0,
            queue_ok(this, queue@, m@),
            forall|x: int| 1 <= x <= this.ssize() && #[trigger] m@[x] != 0 ==> done.contains(x) || in_queue(queue@, x),
            done_ok(this, other, m@, done),
            agrees(this, other, m@, img0),
            qg == queue@,
            img0 <= other.ssize() ==> forall|x: int| 1 <= x <= this.ssize() ==> #[trigger] m@[x] <= other.ssize(),
        ensures
            queue@.len() == 0,
    {
        proof { this.lemma_wf(); other.lemma_wf(); }
        let ghost q0 = queue@;
        proof {
            // (d, e) was q_old[0]; the rest of the queue is unchanged
            assert forall|x: int| 1 <= x <= this.ssize() && #[trigger] m@[x] != 0 implies done.contains(x) || in_queue(queue@, x) || x == d by {
                if !done.contains(x) && x != d {
                    assert(in_queue(qg, x));
                    let k = choose|k: int| 0 <= k < qg.len() && (#[trigger] qg[k]).0 == x;
                    assert(qg[0] == (d, e));
                    assert(k > 0);
                    assert(queue@[k - 1] == qg[k]);
                }
            }
        }
        if !(0..this.dim()).all(|i: usize| -> (b: bool)
                requires i < this.sdim(), this.wf(), other.wf()
                ensures b == (this.sm(i as int, i + 1, d as int) == other.sm(i as int, i + 1, e as int))
            { this.m(i, i + 1, d) == other.m(i, i + 1, e) }) {
            proof {
                assert forall|phi: Seq<usize>| !#[trigger] is_morphism(this, other, phi, img0) by {
                    if is_morphism(this, other, phi, img0) {
                        assert(m@[d as int] == e);
                        assert(phi[d as int] == m@[d as int]);
                        assert(valid_at(this, other, phi, d as int));
                    }
                }
            }
            return None;
        }

        proof {
            assert forall|i: int| 0 <= i < this.sdim() implies #[trigger] this.sm(i, i + 1, d as int) == other.sm(i, i + 1, e as int) by {
                let r = 0..(this.sdim() as usize);
                assert(IteratorSpec::remaining(&r)[i] == i);
            }
            assert(deg_ok(this, other, d as int, e as int));
        }
        for i in 0..(this.dim()) + 1
            invariant
                this.wf(), other.wf(), img0 != 0,
                1 <= d <= this.ssize(), e != 0,
                m@.len() == this.ssize() + 1,
                m@[1] == img0, m@[d as int] == e,
                queue_ok(this, queue@, m@),
                forall|x: int| 1 <= x <= this.ssize() && #[trigger] m@[x] != 0 ==> done.contains(x) || in_queue(queue@, x) || x == d,
                done_ok(this, other, m@, done),
                agrees(this, other, m@, img0),
                ops_ok(this, other, m@, d as int, i as int),
                deg_ok(this, other, d as int, e as int),
                img0 <= other.ssize() ==> forall|x: int| 1 <= x <= this.ssize() ==> #[trigger] m@[x] <= other.ssize(),
        {
            proof { this.lemma_wf(); other.lemma_wf(); }
            let ghost mi = m@;
            let ghost qi = queue@;
            if let Some(di) = this.op(i, d) {
                if let Some(ei) = other.op(i, e) {
                    if m[di] == 0 {
                        proof { lemma_done_stable(this, other, m@, done, di as int, ei); }
                        m[di] = ei;
                        queue.push_back((di, ei));
                        proof {
                            assert(di != d);
                            assert(queue@[qi.len() as int].0 == di);
                            assert(in_queue(queue@, di as int));
                            assert forall|x: int| 1 <= x <= this.ssize() && #[trigger] m@[x] != 0 implies done.contains(x) || in_queue(queue@, x) || x == d by {
                                if x != di {
                                    assert(mi[x] != 0);
                                    if in_queue(qi, x) {
                                        let k = choose|k: int| 0 <= k < qi.len() && (#[trigger] qi[k]).0 == x;
                                        assert(queue@[k].0 == x);
                                    }
                                }
                            }
                            assert forall|k: int| 0 <= k < queue@.len() implies 1 <= (#[trigger] queue@[k]).0 <= this.ssize() && m@[queue@[k].0 as int] == queue@[k].1 && queue@[k].1 != 0 by {
                                if k < qi.len() { assert(queue@[k] == qi[k]); assert(mi[qi[k].0 as int] == qi[k].1); }
                            }
                            assert forall|phi: Seq<usize>, x: int| #![trigger is_morphism(this, other, phi, img0), m@[x]]
                                is_morphism(this, other, phi, img0) && 1 <= x <= this.ssize() && m@[x] != 0 implies phi[x] == m@[x] by {
                                if x == di {
                                    assert(phi[d as int] == mi[d as int]);
                                    assert(valid_at(this, other, phi, d as int));
                                    assert(op_ok(this, other, phi, d as int, i as int));
                                } else {
                                    assert(phi[x] == mi[x]);
                                }
                            }
                            assert forall|j: int| 0 <= j < i + 1 implies #[trigger] op_ok(this, other, m@, d as int, j) by {
                                if j < i {
                                    assert(op_ok(this, other, mi, d as int, j));
                                    if this.sop(j, d as int).is_some() && other.sop(j, e as int).is_some() {
                                        let t = this.sop(j, d as int).unwrap() as int;
                                        assert(mi[t] != 0);
                                    }
                                }
                            }
                        }
                    } else if m[di] != ei {
                        proof {
                            assert forall|phi: Seq<usize>| !#[trigger] is_morphism(this, other, phi, img0) by {
                                if is_morphism(this, other, phi, img0) {
                                    assert(phi[d as int] == m@[d as int]);
                                    assert(phi[di as int] == m@[di as int]);
                                    assert(valid_at(this, other, phi, d as int));
                                    assert(op_ok(this, other, phi, d as int, i as int));
                                }
                            }
                        }
                        return None;
                    } else {
                        proof {
                            assert forall|j: int| 0 <= j < i + 1 implies #[trigger] op_ok(this, other, m@, d as int, j) by { }
                        }
                    }
                } else {
                    proof { assert forall|j: int| 0 <= j < i + 1 implies #[trigger] op_ok(this, other, m@, d as int, j) by { } }
                }
            } else {
                proof { assert forall|j: int| 0 <= j < i + 1 implies #[trigger] op_ok(this, other, m@, d as int, j) by { } }
            }
        }
        proof {
            assert(valid_at(this, other, m@, d as int));
            done = done.insert(d as int);
            qg = queue@;
        }
    }

    proof {
        assert forall|x: int| 1 <= x <= this.ssize() && m@[x] != 0 implies #[trigger] valid_at(this, other, m@, x) by {
            if in_queue(queue@, x) { }
            assert(done.contains(x));
        }
    }

    Some(m)
}
//@ end

pub open spec fn partial_morphism<S: DSet, T: DSet>(this: &S, other: &T, m: Seq<usize>, img0: usize) -> bool {
    &&& m.len() == this.ssize() + 1
    &&& m[1] == img0
    &&& forall|d: int| 1 <= d <= this.ssize() && m[d] != 0 ==> #[trigger] valid_at(this, other, m, d)
}

// C04 "morphism search returns a valid morphism": for complete symbols of one dimension and a source that is connected from chamber 1,
// the map morphism returns assigns EVERY chamber (the assigned chambers contain chamber 1 and are closed under every operation), hence it
// is a morphism in the full sense
pub proof fn lemma_morphism_total<S: DSet, T: DSet>(this: &S, other: &T, m: Seq<usize>, img0: usize)
    requires this.wf(), other.wf(), base_complete(this), base_complete(other), this.sdim() == other.sdim(), connected_from_1(this),
        partial_morphism(this, other, m, img0), 1 <= img0 <= other.ssize(),
        forall|d: int| 1 <= d <= this.ssize() ==> #[trigger] m[d] <= other.ssize(),
    ensures forall|d: int| 1 <= d <= this.ssize() ==> #[trigger] m[d] != 0,
        is_morphism(this, other, m, img0),
{
    this.lemma_wf();
    assert forall|d: int| 1 <= d <= this.ssize() implies #[trigger] m[d] != 0 by {
        assert(rng(this, d as usize));
        let p = choose|p: Seq<int>| path_ok(this, p) && #[trigger] walk(this, p, 1) == d as usize;
        lemma_assigned_along(this, other, m, img0, p);
    }
    assert forall|d: int| 1 <= d <= this.ssize() implies #[trigger] valid_at(this, other, m, d) by { assert(m[d] != 0); }
}
proof fn lemma_assigned_along<S: DSet, T: DSet>(this: &S, other: &T, m: Seq<usize>, img0: usize, p: Seq<int>)
    requires this.wf(), other.wf(), base_complete(this), base_complete(other), this.sdim() == other.sdim(),
        partial_morphism(this, other, m, img0), 1 <= img0 <= other.ssize(), path_ok(this, p),
        forall|d: int| 1 <= d <= this.ssize() ==> #[trigger] m[d] <= other.ssize(),
    ensures rng(this, walk(this, p, 1)), m[walk(this, p, 1) as int] != 0
    decreases p.len()
{
    this.lemma_wf(); other.lemma_wf();
    if p.len() > 0 {
        let p0 = p.drop_last();
        assert(path_ok(this, p0)) by { assert forall|k: int| 0 <= k < p0.len() implies 0 <= #[trigger] p0[k] <= this.sdim() by { assert(p0[k] == p[k]); } }
        lemma_assigned_along(this, other, m, img0, p0);
        let x = walk(this, p0, 1);
        let i = p.last();
        assert(0 <= i <= this.sdim()) by { assert(p[p.len() - 1] == i); }
        assert(valid_at(this, other, m, x as int));
        assert(op_ok(this, other, m, x as int, i));
        assert(this.sop(i, x as int).is_some());
        assert(1 <= m[x as int] <= other.ssize());
        assert(other.sop(i, m[x as int] as int).is_some());
        lemma_img_rng(this, i, x);
    }
}


// C04 "the automorphism list is exactly the set of operation-commuting, degree-preserving self-BIJECTIONS": a morphism of a complete symbol
// that is connected from chamber 1 into itself is onto (its image contains the base image and, with its complement, is closed under every
// operation, so the indicator of the image is constant along every path from chamber 1) and hence one to one (pigeonhole)
pub open spec fn in_image(m: Seq<usize>, n: int, y: usize) -> bool { exists|x: int| 1 <= x <= n && #[trigger] m[x] == y }
pub open spec fn bijective_on(m: Seq<usize>, n: int) -> bool {
    &&& forall|x: int| 1 <= x <= n ==> 1 <= #[trigger] m[x] <= n
    &&& forall|y: usize| 1 <= y <= n ==> in_image(m, n, y)
    &&& forall|a: int, b: int| 1 <= a <= n && 1 <= b <= n && #[trigger] m[a] == #[trigger] m[b] ==> a == b
}

// a predicate that every operation preserves is constant along every path
proof fn lemma_const_along<S: DSet>(ds: &S, f: spec_fn(usize) -> bool, p: Seq<int>, x: usize)
    requires ds.wf(), base_complete(ds), path_ok(ds, p), rng(ds, x),
        forall|i: int, z: usize| #![trigger f(img(ds, i, z))] 0 <= i <= ds.sdim() && rng(ds, z) ==> f(img(ds, i, z)) == f(z),
    ensures f(walk(ds, p, x)) == f(x), rng(ds, walk(ds, p, x))
    decreases p.len()
{
    if p.len() > 0 {
        let p0 = p.drop_last();
        assert(path_ok(ds, p0)) by { assert forall|k: int| 0 <= k < p0.len() implies 0 <= #[trigger] p0[k] <= ds.sdim() by { assert(p0[k] == p[k]); } }
        lemma_const_along(ds, f, p0, x);
        assert(0 <= p[p.len() - 1] <= ds.sdim());
        lemma_img_rng(ds, p.last(), walk(ds, p0, x));
    }
}

pub proof fn lemma_self_morphism_bijective<S: DSet>(this: &S, m: Seq<usize>, img0: usize)
    requires this.wf(), base_complete(this), connected_from_1(this), is_morphism(this, this, m, img0), 1 <= img0 <= this.ssize(),
        forall|d: int| 1 <= d <= this.ssize() ==> 1 <= #[trigger] m[d] <= this.ssize(),
    ensures bijective_on(m, this.ssize())
{
    this.lemma_wf();
    let n = this.ssize();
    let f = |y: usize| in_image(m, n, y);
    // the image and its complement are closed under every operation
    assert forall|i: int, z: usize| #![trigger f(img(this, i, z))] 0 <= i <= this.sdim() && rng(this, z) implies f(img(this, i, z)) == f(z) by {
        lemma_img_rng(this, i, z);
        lemma_img_involution(this, i, z);
        let zi = img(this, i, z);
        if f(z) {
            let x = choose|x: int| 1 <= x <= n && #[trigger] m[x] == z;
            assert(valid_at(this, this, m, x));
            assert(op_ok(this, this, m, x, i));
            lemma_img_rng(this, i, x as usize);
            assert(m[img(this, i, x as usize) as int] == zi);
            assert(in_image(m, n, zi));
        }
        if f(zi) {
            let x = choose|x: int| 1 <= x <= n && #[trigger] m[x] == zi;
            assert(valid_at(this, this, m, x));
            assert(op_ok(this, this, m, x, i));
            lemma_img_rng(this, i, x as usize);
            assert(m[img(this, i, x as usize) as int] == img(this, i, zi));
            assert(in_image(m, n, z));
        }
    }
    assert(f(img0)) by { assert(m[1] == img0); }
    // onto: every chamber is walk(p, 1) for some path p, and so is img0
    assert forall|y: usize| 1 <= y <= n implies in_image(m, n, y) by {
        assert(rng(this, y) && rng(this, img0));
        let p = choose|p: Seq<int>| path_ok(this, p) && #[trigger] walk(this, p, 1) == y;
        let p0 = choose|p0: Seq<int>| path_ok(this, p0) && #[trigger] walk(this, p0, 1) == img0;
        lemma_const_along(this, f, p, 1);
        lemma_const_along(this, f, p0, 1);
        assert(f(y) == f(1usize) && f(img0) == f(1usize));
    }
    // one to one: otherwise n + 1 distinct chambers (one preimage of every chamber, and the second preimage) would fit into 1..=n
    assert forall|a: int, b: int| 1 <= a <= n && 1 <= b <= n && #[trigger] m[a] == #[trigger] m[b] implies a == b by {
        if a != b {
            let g = |y: int| choose|x: int| 1 <= x <= n && #[trigger] m[x] == y as usize;
            assert forall|y: int| 1 <= y <= n implies 1 <= #[trigger] g(y) <= n && m[g(y)] == y as usize by { assert(in_image(m, n, y as usize)); }
            let y0 = m[a] as int;
            let extra = if g(y0) == a { b } else { a };
            let s = Seq::new(n as nat, |k: int| g(k + 1)).push(extra);
            assert forall|k: int| 0 <= k < s.len() implies 1 <= #[trigger] s[k] <= n by { if k < n { assert(s[k] == g(k + 1)); } }
            assert forall|u: int, v: int| 0 <= u < v < s.len() implies s[u] != s[v] by {
                assert(s[u] == g(u + 1));
                if v < n { assert(s[v] == g(v + 1)); assert(m[g(u + 1)] == (u + 1) as usize && m[g(v + 1)] == (v + 1) as usize); }
                else { assert(s[v] == extra); assert(m[extra] == y0 as usize); assert(m[g(u + 1)] == (u + 1) as usize); if g(u + 1) == extra { assert(u + 1 == y0); } }
            }
            lemma_pigeon(s, n);
        }
    }
}

// the contract of morphism is what lemma_morphism_total needs: for connected complete symbols Some(m) is a morphism on ALL chambers (must verify)
fn witness_morphism_total<S: DSet, T: DSet>(a: &S, b: &T, img0: usize)
    requires a.wf(), b.wf(), base_complete(a), base_complete(b), a.sdim() == b.sdim(), connected_from_1(a), 1 <= img0 <= b.ssize()
{
    let r = morphism(a, b, img0);
    if let Some(m) = r {
        proof { lemma_morphism_total(a, b, m@, img0); }
        assert(is_morphism(a, b, m@, img0));
    }
}

// every image is a chamber, the base image included
pub open spec fn images_in_range<S: DSet>(this: &S, m: Seq<usize>) -> bool {
    1 <= m[1] <= this.ssize() && forall|d: int| 1 <= d <= this.ssize() ==> #[trigger] m[d] <= this.ssize()
}
// base image d is decided by the list: either some listed map sends chamber 1 to d, or no self-morphism does
pub open spec fn base_decided<S: DSet>(this: &S, result: Seq<Vec<usize>>, d: int) -> bool {
    (exists|k: int| 0 <= k < result.len() && (#[trigger] result[k])@[1] == d)
    || forall|phi: Seq<usize>| !#[trigger] is_morphism(this, this, phi, d as usize)
}

//@ begin src/dsets.rs :: trait DSet: Sized :: fn automorphisms | props=C04
//@ rw R11 /fn automorphisms\(&self\)/pub fn automorphisms<S: DSet>(this: &S)/
//@ rw R11 /^[ \t]*where Self: Sized\n//
//@ rw R11 /self\.morphism\(self, d\)/morphism(this, this, d)/
//@ rw R11 /\bself\b/this/
//@ rw R16 /-> Vec<Vec<usize>>/-> (result: Vec<Vec<usize>>)/
//@ rw R12 /let mut result = vec!\[\];/let mut result: Vec<Vec<usize>> = vec![];/
//@ rw R10 /for d in 1\.\.=this\.size\(\)$/for d in 1..(this.size()) + 1/
    pub fn automorphisms<S: DSet>(this: &S) -> (result: Vec<Vec<usize>>)
    requires this.wf()
    ensures
        // every listed map is a (partial) self-morphism ...
        forall|k: int| 0 <= k < result@.len() ==> partial_morphism(this, this, (#[trigger] result@[k])@, result@[k]@[1]) && images_in_range(this, result@[k]@),
        // ... and a base image d is missing from the list only if NO self-morphism maps chamber 1 to d
        forall|d: int| 1 <= d <= this.ssize() ==> #[trigger] base_decided(this, result@, d),
    {
        proof { this.lemma_wf(); }
        let mut result: Vec<Vec<usize>> = vec![];

        for d in 1..(this.size()) + 1
            invariant
                this.wf(), this.ssize() < usize::MAX,
                forall|k: int| 0 <= k < result@.len() ==> partial_morphism(this, this, (#[trigger] result@[k])@, result@[k]@[1]) && images_in_range(this, result@[k]@),
                forall|c: int| 1 <= c < d ==> #[trigger] base_decided(this, result@, c),
        {
            let ghost r0 = result@;
            if let Some(map) = morphism(this, this, d) {
                result.push(map);
                proof {
                    assert(result@[r0.len() as int]@[1] == d);
                    assert forall|c: int| 1 <= c < d + 1 implies #[trigger] base_decided(this, result@, c) by {
                        if c < d {
                            assert(base_decided(this, r0, c));
                            if exists|k: int| 0 <= k < r0.len() && (#[trigger] r0[k])@[1] == c {
                                let k = choose|k: int| 0 <= k < r0.len() && (#[trigger] r0[k])@[1] == c;
                                assert(result@[k] == r0[k]);
                            }
                        }
                    }
                    assert forall|k: int| 0 <= k < result@.len() implies partial_morphism(this, this, (#[trigger] result@[k])@, result@[k]@[1]) && images_in_range(this, result@[k]@) by {
                        if k < r0.len() { assert(result@[k] == r0[k]); }
                    }
                }
            }
        }

        result
    }
//@ end

// C04 "the automorphism list of a connected symbol is exactly the set of operation-commuting, degree-preserving self-bijections": for a
// complete symbol connected from chamber 1 every listed map is a morphism on ALL chambers and a bijection, and (base_decided + agrees:
// a morphism is determined by its base image) every such bijection is listed.  The chain of contracts and lemmas connects (must verify).
fn witness_automorphisms_are_bijections<S: DSet>(this: &S)
    requires this.wf(), base_complete(this), connected_from_1(this)
{
    let autos = automorphisms(this);
    proof {
        assert forall|k: int| 0 <= k < autos@.len() implies is_morphism(this, this, (#[trigger] autos@[k])@, autos@[k]@[1]) && bijective_on(autos@[k]@, this.ssize()) by {
            let m = autos@[k]@;
            assert(partial_morphism(this, this, m, m[1]) && images_in_range(this, m));
            lemma_morphism_total(this, this, m, m[1]);
            lemma_self_morphism_bijective(this, m, m[1]);
        }
    }
}

// ---------------------------------------------------------------------------------------------------------
// C05: derived symbols.  build_set is the engine of every cover constructor.
// A closure's contract is one-directional in Verus (op.ensures(args, r) ==> clause), so conditions on the argument
// closure are phrased with ensures-facts on the left of an implication.
// ---------------------------------------------------------------------------------------------------------
impl PartialDSet {
    pub open spec fn vop(&self, i: int, d: int) -> Option<usize> {
        if self.t(i, d) == 0 { None } else { Some(self.t(i, d) as usize) }
    }
}

pub open spec fn deterministic<F: Fn(usize, usize) -> Option<usize>>(op: F, size: usize, dim: usize) -> bool {
    forall|i: usize, d: usize, r1: Option<usize>, r2: Option<usize>|
        #![trigger op.ensures((i, d), r1), op.ensures((i, d), r2)]
        i <= dim && 1 <= d <= size && op.ensures((i, d), r1) && op.ensures((i, d), r2) ==> r1 == r2
}

pub open spec fn consistent<F: Fn(usize, usize) -> Option<usize>>(op: F, size: usize, dim: usize) -> bool {
    &&& forall|i: usize, d: usize, e: usize| #![trigger op.ensures((i, d), Some(e))]
            i <= dim && 1 <= d <= size && op.ensures((i, d), Some(e)) ==> 1 <= e <= size
    &&& forall|i: usize, d: usize, e: usize, r: Option<usize>| #![trigger op.ensures((i, d), Some(e)), op.ensures((i, e), r)]
            i <= dim && 1 <= d <= size && op.ensures((i, d), Some(e)) && op.ensures((i, e), r) ==> r == Some(d)
    &&& forall|i: usize, a: usize, b: usize, e: usize| #![trigger op.ensures((i, a), Some(e)), op.ensures((i, b), Some(e))]
            i <= dim && 1 <= a <= size && 1 <= b <= size && op.ensures((i, a), Some(e)) && op.ensures((i, b), Some(e)) ==> a == b
}

// an entry of the table is justified by an actual call at that chamber or at its partner
pub open spec fn justified<F: Fn(usize, usize) -> Option<usize>>(op: F, i: usize, c: usize, x: usize) -> bool {
    op.ensures((i, c), Some(x)) || op.ensures((i, x), Some(c))
}


//@ begin src/derived.rs :: - :: fn build_set | props=C05
//@ rw R16 /-> PartialDSet$/-> (dset: PartialDSet)/
//@ rw R10+R17 /for i in 0\.\.=dset\.dim\(\)$/for i in it: 0..(dset.dim()) + 1/
//@ rw R10+R17 /for d in 1\.\.=dset\.size\(\)$/for d in it2: 1..(dset.size()) + 1/
#[verifier::spinoff_prover]
pub fn build_set<F>(size: usize, dim: usize, op: F) -> (dset: PartialDSet)
    where F: Fn(usize, usize) -> Option<usize>
    requires size >= 1, dim >= 1, size * (dim + 1) <= usize::MAX, size < usize::MAX, dim < usize::MAX,
        forall|i: usize, d: usize| i <= dim && 1 <= d <= size ==> op.requires((i, d)),
        // op is a function, its values are chambers, and it is a partial involution (else `set` panics)
        deterministic(op, size, dim), consistent(op, size, dim),
    ensures dset.inv(), dset.size == size, dset.dim == dim,
        // the table is exactly what op returned, entry by entry (None <-> undefined)
        forall|i: usize, d: usize| i <= dim && 1 <= d <= size ==> op.ensures((i, d), #[trigger] dset.vop(i as int, d as int)),
{
    let mut dset = PartialDSet::new(size, dim);
    for i in it: 0..(dset.dim()) + 1
        invariant
            it.seq().len() == dim + 1,
            dset.inv(), dset.size == size, dset.dim == dim, dim < usize::MAX, size < usize::MAX,
            forall|i: usize, d: usize| i <= dim && 1 <= d <= size ==> op.requires((i, d)),
            deterministic(op, size, dim), consistent(op, size, dim),
            forall|j: usize, d: usize| j < i && 1 <= d <= size ==> op.ensures((j, d), #[trigger] dset.vop(j as int, d as int)),
            forall|j: int, d: int| i <= j <= dim && 1 <= d <= size ==> #[trigger] dset.t(j, d) == 0,
    {
        for d in it2: 1..(dset.size()) + 1
            invariant
                it2.seq().len() == size,
                dset.inv(), dset.size == size, dset.dim == dim, dim < usize::MAX, size < usize::MAX, i <= dim,
                forall|i: usize, d: usize| i <= dim && 1 <= d <= size ==> op.requires((i, d)),
                deterministic(op, size, dim), consistent(op, size, dim),
                forall|j: usize, c: usize| j < i && 1 <= c <= size ==> op.ensures((j, c), #[trigger] dset.vop(j as int, c as int)),
                forall|j: int, c: int| i < j <= dim && 1 <= c <= size ==> #[trigger] dset.t(j, c) == 0,
                forall|c: usize| 1 <= c < d ==> op.ensures((i, c), #[trigger] dset.vop(i as int, c as int)),
                forall|c: usize| 1 <= c <= size && #[trigger] dset.t(i as int, c as int) != 0 ==> justified(op, i, c, dset.t(i as int, c as int) as usize),
        {
            let ghost old_dset = dset;
            let ghost x0 = dset.t(i as int, d as int);
            if let Some(di) = op(i, d) {
                proof {
                    assert(op.ensures((i, d), Some(di)));
                    assert(1 <= di <= size);
                    if x0 != 0 {
                        // already set: by an earlier call at d (impossible order) or at the partner x0
                        assert(justified(op, i, d, x0 as usize));
                        if op.ensures((i, d), Some(x0 as usize)) { } else { assert(op.ensures((i, x0 as usize), Some(d))); }
                        assert(x0 == di);
                    }
                    let y0 = dset.t(i as int, di as int);
                    if y0 != 0 {
                        assert(justified(op, i, di, y0 as usize));
                        if op.ensures((i, di), Some(y0 as usize)) {
                            // consistent: ensures((i,d),Some(di)) && ensures((i,di), r) ==> r == Some(d)
                        } else {
                            assert(op.ensures((i, y0 as usize), Some(di)));
                            // wf: sop(i, y0) == di ; and entry (i, y0) = di is paired with d?  use involution of the table
                            assert(dset.t(i as int, y0) == di);
                        }
                        assert(y0 == d);
                    }
                }
                dset.set(i, d, di);
                proof {
                    assert forall|j: usize, c: usize| j < i && 1 <= c <= size implies op.ensures((j, c), #[trigger] dset.vop(j as int, c as int)) by {
                        assert(dset.t(j as int, c as int) == old_dset.t(j as int, c as int));
                        assert(op.ensures((j, c), old_dset.vop(j as int, c as int)));
                    }
                    assert forall|c: usize| 1 <= c <= size && #[trigger] dset.t(i as int, c as int) != 0 implies justified(op, i, c, dset.t(i as int, c as int) as usize) by {
                        if c != d && c != di { assert(dset.t(i as int, c as int) == old_dset.t(i as int, c as int)); }
                    }
                    assert forall|c: usize| 1 <= c < d + 1 implies op.ensures((i, c), #[trigger] dset.vop(i as int, c as int)) by {
                        if c == d { }
                        else if c == di {
                            // c < d was processed: its actual result was view_op = Some(old entry) = Some(d) now unchanged
                            assert(op.ensures((i, c), old_dset.vop(i as int, c as int)));
                            assert(old_dset.t(i as int, c as int) == 0 || old_dset.t(i as int, c as int) == d);
                            if old_dset.t(i as int, c as int) == 0 {
                                // c returned None earlier, but d now maps to c: contradiction with consistent
                                assert(op.ensures((i, c), None));
                            }
                        }
                        else {
                            assert(dset.t(i as int, c as int) == old_dset.t(i as int, c as int));
                            assert(op.ensures((i, c), old_dset.vop(i as int, c as int)));
                        }
                    }
                }
            } else {
                proof {
                    assert(op.ensures((i, d), None));
                    if x0 != 0 {
                        assert(justified(op, i, d, x0 as usize));
                        if op.ensures((i, d), Some(x0 as usize)) { } else { assert(op.ensures((i, x0 as usize), Some(d))); }
                        assert(false);
                    }
                    assert forall|c: usize| 1 <= c < d + 1 implies op.ensures((i, c), #[trigger] dset.vop(i as int, c as int)) by { }
                }
            }
        }
    }
    dset
}
//@ end

// ---- degrees written by build_sym_using_ms ----
// The closure `m` is visible to the verifier only as the relation m.ensures((i, d), result).  The postcondition is therefore
// stated for EVERY spec function mf that the closure's results obey and that is constant along the operations i and i+1
// (a degree is a property of the (i,i+1)-orbit): wherever mf(i, x) is Some(mv), the v-entry of the orbit of x is mv / r.
pub open spec fn m_obeys<F: Fn(usize, usize) -> Option<usize>>(m: &F, mf: spec_fn(int, int) -> Option<usize>, dim: int, size: int) -> bool {
    forall|i: usize, d: usize, r: Option<usize>| i < dim && 1 <= d <= size && #[trigger] m.ensures((i, d), r) ==> r == mf(i as int, d as int)
}
pub open spec fn m_class(ds: &SimpleDSet, mf: spec_fn(int, int) -> Option<usize>) -> bool {
    forall|i: int, x: int| 0 <= i < ds.dim && 1 <= x <= ds.size ==>
        mf(i, ds.t(i, x)) == #[trigger] mf(i, x) && mf(i, ds.t(i + 1, x)) == mf(i, x)
}
pub open spec fn m_hyp<F: Fn(usize, usize) -> Option<usize>>(m: &F, ds: &SimpleDSet, mf: spec_fn(int, int) -> Option<usize>) -> bool {
    m_obeys(m, mf, ds.dim as int, ds.size as int) && m_class(ds, mf)
}
// div: the closure prescribes m and the entry is m / r (build_sym_using_ms); !div: it prescribes v itself (build_sym_using_vs)
pub open spec fn deg_val(div: bool, mv: usize, r: usize) -> int { if div { mv as int / r as int } else { mv as int } }
pub open spec fn deg_at(oi: Seq<Vec<usize>>, rs: Seq<usize>, vs: Seq<usize>, mf: spec_fn(int, int) -> Option<usize>, div: bool, i: int, x: int) -> bool {
    mf(i, x).is_some() ==> vs[oix(oi, i, x)] == deg_val(div, mf(i, x).unwrap(), rs[oix(oi, i, x)])
}
pub open spec fn degs_upto(size: int, oi: Seq<Vec<usize>>, rs: Seq<usize>, vs: Seq<usize>, mf: spec_fn(int, int) -> Option<usize>, div: bool, upto: int) -> bool {
    forall|j: int, x: int| 0 <= j < upto && 1 <= x <= size ==> #[trigger] deg_at(oi, rs, vs, mf, div, j, x)
}
// x shares its (i,i+1)-orbit index with one of the first `upto` listed representatives
pub open spec fn idx_listed(oi: Seq<Vec<usize>>, i: int, reps: Seq<usize>, upto: int, x: int) -> bool {
    exists|k: int| 0 <= k < upto && k < reps.len() && oix(oi, i, (#[trigger] reps[k]) as int) == oix(oi, i, x)
}
pub open spec fn degs_listed(size: int, oi: Seq<Vec<usize>>, rs: Seq<usize>, vs: Seq<usize>, mf: spec_fn(int, int) -> Option<usize>, div: bool,
                             i: int, reps: Seq<usize>, k: int) -> bool {
    forall|x: int| 1 <= x <= size && idx_listed(oi, i, reps, k, x) ==> #[trigger] deg_at(oi, rs, vs, mf, div, i, x)
}
pub open spec fn all_listed(size: int, oi: Seq<Vec<usize>>, i: int, reps: Seq<usize>) -> bool {
    forall|x: int| 1 <= x <= size ==> #[trigger] idx_listed(oi, i, reps, reps.len() as int, x)
}

// orbit_reps_2d lists a representative of every orbit; in the symbol's own bookkeeping: of every orbit index
proof fn lemma_reps_cover_index(dsym: &PartialDSym, i: int, reps: Seq<usize>)
    requires dsym.inv(), 0 <= i < dsym.dset.dim,
        forall|x: int| 1 <= x <= dsym.dset.size ==> #[trigger] has_rep(dsym, i, i + 1, reps, x),
        forall|k: int| 0 <= k < reps.len() ==> 1 <= #[trigger] reps[k] <= dsym.dset.size,
    ensures all_listed(dsym.dset.size as int, dsym.orbit_index@, i, reps)
{
    let oi = dsym.orbit_index@;
    let f = |z: int| oix(oi, i, z);
    dsym.dset.lemma_inv_tbl();
    assert(orbit_fn(dsym, i, i + 1, f)) by {
        assert forall|x: int| 1 <= x <= dsym.ssize() implies
            ((#[trigger] dsym.sop(i, x)).is_some() ==> f(dsym.sop(i, x).unwrap() as int) == f(x))
            && ((#[trigger] dsym.sop(i + 1, x)).is_some() ==> f(dsym.sop(i + 1, x).unwrap() as int) == f(x)) by {
            lemma_oix_bound(&dsym.dset, oi, dsym.orbit_rs@, dsym.orbit_vs@, i, x);
            assert(1 <= dsym.dset.t(i, x) <= dsym.dset.size);
            assert(1 <= dsym.dset.t(i + 1, x) <= dsym.dset.size);
        }
    }
    assert forall|x: int| 1 <= x <= dsym.dset.size implies #[trigger] idx_listed(oi, i, reps, reps.len() as int, x) by {
        assert(has_rep(dsym, i, i + 1, reps, x));
        let k = choose|k: int| 0 <= k < reps.len() && #[trigger] same_ij(dsym, i, i + 1, reps[k] as int, x);
        assert(f(reps[k] as int) == f(x));
    }
}

pub open spec fn opt_code(o: Option<usize>) -> int { match o { Some(v) => v as int + 1, None => 0 } }

// the step of the inner loop of build_sym_using_ms: the v-entry of the orbit of d = reps[k] has been written (res == Some) or left
// alone because the closure returned None (res == None)
proof fn lemma_deg_step<F: Fn(usize, usize) -> Option<usize>>(m: &F, ds: &SimpleDSet, oi: Seq<Vec<usize>>, rs: Seq<usize>, vs0: Seq<usize>, vs1: Seq<usize>,
                        i: usize, reps: Seq<usize>, k: int, d: usize, res: Option<usize>, div: bool)
    requires sym_ok(ds, oi, rs, vs0), i < ds.dim, 0 <= k < reps.len(), reps[k] == d, 1 <= d <= ds.size,
        m.ensures((i, d), res),
        res.is_some() ==> vs1 == vs0.update(oix(oi, i as int, d as int), deg_val(div, res.unwrap(), rs[oix(oi, i as int, d as int)]) as usize),
        res.is_some() ==> deg_val(div, res.unwrap(), rs[oix(oi, i as int, d as int)]) <= usize::MAX,
        res.is_none() ==> vs1 == vs0,
        forall|mf: spec_fn(int, int) -> Option<usize>| #[trigger] m_hyp(m, ds, mf) ==>
            degs_upto(ds.size as int, oi, rs, vs0, mf, div, i as int) && degs_listed(ds.size as int, oi, rs, vs0, mf, div, i as int, reps, k),
    ensures
        forall|mf: spec_fn(int, int) -> Option<usize>| #[trigger] m_hyp(m, ds, mf) ==>
            degs_upto(ds.size as int, oi, rs, vs1, mf, div, i as int) && degs_listed(ds.size as int, oi, rs, vs1, mf, div, i as int, reps, k + 1),
{
    let kk = oix(oi, i as int, d as int);
    lemma_oix_bound(ds, oi, rs, vs0, i as int, d as int);
    assert forall|mf: spec_fn(int, int) -> Option<usize>| #[trigger] m_hyp(m, ds, mf) implies
            degs_upto(ds.size as int, oi, rs, vs1, mf, div, i as int) && degs_listed(ds.size as int, oi, rs, vs1, mf, div, i as int, reps, k + 1) by {
        assert(degs_upto(ds.size as int, oi, rs, vs0, mf, div, i as int));
        assert(degs_listed(ds.size as int, oi, rs, vs0, mf, div, i as int, reps, k));
        assert(mf(i as int, d as int) == res);
        assert forall|j: int, x: int| 0 <= j < i && 1 <= x <= ds.size implies #[trigger] deg_at(oi, rs, vs1, mf, div, j, x) by {
            assert(deg_at(oi, rs, vs0, mf, div, j, x));
            lemma_oix_bound(ds, oi, rs, vs0, j, x);
            assert(below(oi[j]@, oi[i as int]@, ds.size as int));
            reveal(below);
            assert(oi[j]@[x] < oi[i as int]@[d as int]);
        }
        assert forall|x: int| 1 <= x <= ds.size && idx_listed(oi, i as int, reps, k + 1, x) implies #[trigger] deg_at(oi, rs, vs1, mf, div, i as int, x) by {
            lemma_oix_bound(ds, oi, rs, vs0, i as int, x);
            if oix(oi, i as int, x) == kk {
                let f = |z: int| opt_code(mf(i as int, z));
                assert(sep_ok(ds, i as int, oi[i as int]@));
                lemma_same_index_const(ds, i as int, oi[i as int]@, x, d as int, f);
                assert(opt_code(mf(i as int, x)) == opt_code(mf(i as int, d as int)));
                assert(mf(i as int, x) == mf(i as int, d as int));
            } else {
                let k2 = choose|k2: int| 0 <= k2 < k + 1 && k2 < reps.len() && oix(oi, i as int, (#[trigger] reps[k2]) as int) == oix(oi, i as int, x);
                assert(k2 != k);
                assert(idx_listed(oi, i as int, reps, k, x));
                assert(deg_at(oi, rs, vs0, mf, div, i as int, x));
            }
        }
    }
}

// all representatives processed: the degrees of index i are complete
proof fn lemma_deg_close<F: Fn(usize, usize) -> Option<usize>>(m: &F, ds: &SimpleDSet, oi: Seq<Vec<usize>>, rs: Seq<usize>, vs: Seq<usize>, i: int, reps: Seq<usize>, div: bool)
    requires all_listed(ds.size as int, oi, i, reps),
        forall|mf: spec_fn(int, int) -> Option<usize>| #[trigger] m_hyp(m, ds, mf) ==>
            degs_upto(ds.size as int, oi, rs, vs, mf, div, i) && degs_listed(ds.size as int, oi, rs, vs, mf, div, i, reps, reps.len() as int),
    ensures
        forall|mf: spec_fn(int, int) -> Option<usize>| #[trigger] m_hyp(m, ds, mf) ==> degs_upto(ds.size as int, oi, rs, vs, mf, div, i + 1),
{
    assert forall|mf: spec_fn(int, int) -> Option<usize>| #[trigger] m_hyp(m, ds, mf) implies degs_upto(ds.size as int, oi, rs, vs, mf, div, i + 1) by {
        assert(degs_upto(ds.size as int, oi, rs, vs, mf, div, i));
        assert(degs_listed(ds.size as int, oi, rs, vs, mf, div, i, reps, reps.len() as int));
        assert forall|j: int, x: int| 0 <= j < i + 1 && 1 <= x <= ds.size implies #[trigger] deg_at(oi, rs, vs, mf, div, j, x) by {
            if j == i { assert(idx_listed(oi, i, reps, reps.len() as int, x)); } else { assert(deg_at(oi, rs, vs, mf, div, j, x)); }
        }
    }
}

//@ begin src/derived.rs :: - :: fn build_sym_using_ms | props=C05
//@ rw R16 /-> PartialDSym$/-> (res: PartialDSym)/
//@ rw R15 /let mut dsym: PartialDSym = dset\.into\(\);/let mut dsym: PartialDSym = PartialDSym::from_partial_dset(dset);/
//@ rw R14 /^([ \t]*)for d in (dsym\.orbit_reps_2d\(i, i \+ 1\))$/\1let __reps = \2;\n\1for d in it: __reps/
//@ rw R11 /dsym\.orbit_reps_2d\(i, i \+ 1\)/orbit_reps_2d(&dsym, i, i + 1)/
//@ rw R14 /^([ \t]*)for i in 0\.\.(dsym\.dim\(\))$/\1let __n = \2;\n\1for i in 0..__n/
#[verifier::spinoff_prover]
pub fn build_sym_using_ms<F>(dset: PartialDSet, m: F) -> (res: PartialDSym)
    where F: Fn(usize, usize) -> Option<usize>
    requires dset.inv(), dset.complete(),     // `dset.into()` asserts completeness
        forall|i: usize, d: usize| i < dset.dim && 1 <= d <= dset.size ==> m.requires((i, d)),
    // adding degrees keeps the operations: the result is a well-formed symbol on exactly the given table
    ensures res.inv(), res.dset.size == dset.size, res.dset.dim == dset.dim, res.dset.op@ == dset.op@,
        // C05 / C04 degrees: for every function mf describing the closure's results that is constant on (i,i+1)-orbits,
        // the v-entry of the orbit of x is mf(i, x) / r(i, i+1, x)   (so m = r * v is the prescribed degree whenever r divides it)
        forall|mf: spec_fn(int, int) -> Option<usize>| #[trigger] m_hyp(&m, &res.dset, mf) ==>
            degs_upto(res.dset.size as int, res.orbit_index@, res.orbit_rs@, res.orbit_vs@, mf, true, res.dset.dim as int),
{
    let ghost mc = m;
    let mut dsym: PartialDSym = PartialDSym::from_partial_dset(dset);
    let ghost ds0 = dsym.dset;
    let ghost oi0 = dsym.orbit_index@;
    let ghost rs0 = dsym.orbit_rs@;
    let __n = dsym.dim();
    for i in 0..__n
        invariant dsym.inv(), dsym.dset.size == dset.size, dsym.dset.dim == dset.dim, dsym.dset.op@ == dset.op@, __n == dset.dim,
            forall|i: usize, d: usize| i < dset.dim && 1 <= d <= dset.size ==> m.requires((i, d)),
            mc == m, dsym.dset == ds0, dsym.orbit_index@ == oi0, dsym.orbit_rs@ == rs0,
            forall|mf: spec_fn(int, int) -> Option<usize>| #[trigger] m_hyp(&mc, &ds0, mf) ==>
                degs_upto(ds0.size as int, oi0, rs0, dsym.orbit_vs@, mf, true, i as int),
    {
        let __reps = orbit_reps_2d(&dsym, i, i + 1);
        let ghost reps0 = __reps@;
        proof {
            lemma_reps_cover_index(&dsym, i as int, reps0);
            assert forall|mf: spec_fn(int, int) -> Option<usize>| #[trigger] m_hyp(&mc, &ds0, mf) implies
                degs_listed(ds0.size as int, oi0, rs0, dsym.orbit_vs@, mf, true, i as int, reps0, 0) by { }
            if reps0.len() == 0 { lemma_deg_close(&mc, &ds0, oi0, rs0, dsym.orbit_vs@, i as int, reps0, true); }
        }
        for d in it: __reps
            invariant dsym.inv(), dsym.dset.size == dset.size, dsym.dset.dim == dset.dim, dsym.dset.op@ == dset.op@, i < dset.dim,
                forall|i: usize, d: usize| i < dset.dim && 1 <= d <= dset.size ==> m.requires((i, d)),
                forall|k: int| 0 <= k < it.seq().len() ==> 1 <= #[trigger] it.seq()[k] <= dset.size,
                mc == m, dsym.dset == ds0, dsym.orbit_index@ == oi0, dsym.orbit_rs@ == rs0, it.seq() == reps0,
                all_listed(ds0.size as int, oi0, i as int, reps0),
                forall|mf: spec_fn(int, int) -> Option<usize>| #[trigger] m_hyp(&mc, &ds0, mf) ==>
                    degs_upto(ds0.size as int, oi0, rs0, dsym.orbit_vs@, mf, true, i as int)
                    && degs_listed(ds0.size as int, oi0, rs0, dsym.orbit_vs@, mf, true, i as int, reps0, it.index() as int),
                it.index() == it.seq().len() ==> (forall|mf: spec_fn(int, int) -> Option<usize>| #[trigger] m_hyp(&mc, &ds0, mf) ==>
                    degs_upto(ds0.size as int, oi0, rs0, dsym.orbit_vs@, mf, true, i + 1)),
        {
            let ghost k = it.index() as int;
            let ghost vs_b = dsym.orbit_vs@;
            let ghost mut res_m: Option<Option<usize>> = None;
            proof {
                assert(1 <= it.seq()[it.index() as int] <= dset.size);
                lemma_oix_bound(&dsym.dset, dsym.orbit_index@, dsym.orbit_rs@, dsym.orbit_vs@, i as int, d as int);
            }
            if let Some(r) = dsym.r(i, i + 1, d) {
                if let Some(m) = m(i, d) {
                    proof { assert(r * (m / r) <= m) by(nonlinear_arith) requires r >= 1, m >= 0; }
                    dsym.set_v(i, d, m / r);
                    proof {
                        res_m = Some(Some(m));
                        lemma_deg_step(&mc, &ds0, oi0, rs0, vs_b, dsym.orbit_vs@, i, reps0, k, d, Some(m), true);
                    }
                }
            }
            proof {
                if res_m.is_none() {
                    assert(mc.ensures((i, d), None));
                    lemma_deg_step(&mc, &ds0, oi0, rs0, vs_b, dsym.orbit_vs@, i, reps0, k, d, None, true);
                }
                if k + 1 == reps0.len() { lemma_deg_close(&mc, &ds0, oi0, rs0, dsym.orbit_vs@, i as int, reps0, true); }
            }
        }
    }
    dsym
}
//@ end

// the length of an (i,i+1)-orbit cycle is at most the number of chambers
proof fn lemma_rs_le_size(dset: &SimpleDSet, oi: Seq<Vec<usize>>, rs: Seq<usize>, vs: Seq<usize>, i: int, d: int)
    requires sym_ok(dset, oi, rs, vs), 0 <= i < dset.dim, 1 <= d <= dset.size
    ensures rs[oix(oi, i, d)] <= dset.size
{
    reveal(ret_all);
    reveal(ret_at);
    assert(ret_all(dset, i, oi[i]@, rs));
    let n = rs[oix(oi, i, d)] as nat;
    let p = inv2_of(dset, i);
    assert(p.ret(d, n));
    assert forall|k: nat| 0 < k <= (n - 1) as nat implies #[trigger] iter(dset, i, d, k) != d by { lemma_iter_bridge(dset, i, d, k); }
    lemma_steps_bound(dset, i, d, (n - 1) as nat);
}

// `v` never prescribes a degree whose product with an orbit length could overflow (orbit lengths are at most `size`)
pub open spec fn v_small<F: Fn(usize, usize) -> Option<usize>>(v: &F, dim: int, size: int) -> bool {
    forall|i: usize, d: usize, x: usize| i < dim && 1 <= d <= size && #[trigger] v.ensures((i, d), Some(x)) ==> x * size <= usize::MAX
}

//@ begin src/derived.rs :: - :: fn build_sym_using_vs | props=C02,C04,C05
//@ rw R16 /-> PartialDSym$/-> (res: PartialDSym)/
//@ rw R15 /let mut dsym: PartialDSym = dset\.into\(\);/let mut dsym: PartialDSym = PartialDSym::from_partial_dset(dset);/
//@ rw R14 /^([ \t]*)for d in (dsym\.orbit_reps_2d\(i, i \+ 1\))$/\1let __reps = \2;\n\1for d in it: __reps/
//@ rw R11 /dsym\.orbit_reps_2d\(i, i \+ 1\)/orbit_reps_2d(&dsym, i, i + 1)/
//@ rw R14 /^([ \t]*)for i in 0\.\.(dsym\.dim\(\))$/\1let __n = \2;\n\1for i in 0..__n/
#[verifier::spinoff_prover]
pub fn build_sym_using_vs<F>(dset: PartialDSet, v: F) -> (res: PartialDSym)
    where F: Fn(usize, usize) -> Option<usize>
    requires dset.inv(), dset.complete(),     // `dset.into()` asserts completeness
        forall|i: usize, d: usize| i < dset.dim && 1 <= d <= dset.size ==> v.requires((i, d)),
        v_small(&v, dset.dim as int, dset.size as int),
    ensures res.inv(), res.dset.size == dset.size, res.dset.dim == dset.dim, res.dset.op@ == dset.op@,
        // for every function vf describing the closure's results that is constant on (i,i+1)-orbits, the v-entry of the orbit
        // of x is vf(i, x)
        forall|vf: spec_fn(int, int) -> Option<usize>| #[trigger] m_hyp(&v, &res.dset, vf) ==>
            degs_upto(res.dset.size as int, res.orbit_index@, res.orbit_rs@, res.orbit_vs@, vf, false, res.dset.dim as int),
{
    let ghost mc = v;
    let mut dsym: PartialDSym = PartialDSym::from_partial_dset(dset);
    let ghost ds0 = dsym.dset;
    let ghost oi0 = dsym.orbit_index@;
    let ghost rs0 = dsym.orbit_rs@;
    let __n = dsym.dim();
    for i in 0..__n
        invariant dsym.inv(), dsym.dset.size == dset.size, dsym.dset.dim == dset.dim, dsym.dset.op@ == dset.op@, __n == dset.dim,
            forall|i: usize, d: usize| i < dset.dim && 1 <= d <= dset.size ==> v.requires((i, d)),
            v_small(&v, dset.dim as int, dset.size as int),
            mc == v, dsym.dset == ds0, dsym.orbit_index@ == oi0, dsym.orbit_rs@ == rs0,
            forall|mf: spec_fn(int, int) -> Option<usize>| #[trigger] m_hyp(&mc, &ds0, mf) ==>
                degs_upto(ds0.size as int, oi0, rs0, dsym.orbit_vs@, mf, false, i as int),
    {
        let __reps = orbit_reps_2d(&dsym, i, i + 1);
        let ghost reps0 = __reps@;
        proof {
            lemma_reps_cover_index(&dsym, i as int, reps0);
            assert forall|mf: spec_fn(int, int) -> Option<usize>| #[trigger] m_hyp(&mc, &ds0, mf) implies
                degs_listed(ds0.size as int, oi0, rs0, dsym.orbit_vs@, mf, false, i as int, reps0, 0) by { }
            if reps0.len() == 0 { lemma_deg_close(&mc, &ds0, oi0, rs0, dsym.orbit_vs@, i as int, reps0, false); }
        }
        for d in it: __reps
            invariant dsym.inv(), dsym.dset.size == dset.size, dsym.dset.dim == dset.dim, dsym.dset.op@ == dset.op@, i < dset.dim,
                forall|i: usize, d: usize| i < dset.dim && 1 <= d <= dset.size ==> v.requires((i, d)),
                v_small(&v, dset.dim as int, dset.size as int),
                forall|k: int| 0 <= k < it.seq().len() ==> 1 <= #[trigger] it.seq()[k] <= dset.size,
                mc == v, dsym.dset == ds0, dsym.orbit_index@ == oi0, dsym.orbit_rs@ == rs0, it.seq() == reps0,
                all_listed(ds0.size as int, oi0, i as int, reps0),
                forall|mf: spec_fn(int, int) -> Option<usize>| #[trigger] m_hyp(&mc, &ds0, mf) ==>
                    degs_upto(ds0.size as int, oi0, rs0, dsym.orbit_vs@, mf, false, i as int)
                    && degs_listed(ds0.size as int, oi0, rs0, dsym.orbit_vs@, mf, false, i as int, reps0, it.index() as int),
                it.index() == it.seq().len() ==> (forall|mf: spec_fn(int, int) -> Option<usize>| #[trigger] m_hyp(&mc, &ds0, mf) ==>
                    degs_upto(ds0.size as int, oi0, rs0, dsym.orbit_vs@, mf, false, i + 1)),
        {
            let ghost k = it.index() as int;
            let ghost vs_b = dsym.orbit_vs@;
            let ghost mut res_m: Option<Option<usize>> = None;
            proof {
                assert(1 <= it.seq()[it.index() as int] <= dset.size);
                lemma_oix_bound(&dsym.dset, dsym.orbit_index@, dsym.orbit_rs@, dsym.orbit_vs@, i as int, d as int);
                lemma_rs_le_size(&dsym.dset, dsym.orbit_index@, dsym.orbit_rs@, dsym.orbit_vs@, i as int, d as int);
            }
            if let Some(v) = v(i, d) {
                proof {
                    let r = dsym.orbit_rs@[oix(dsym.orbit_index@, i as int, d as int)];
                    assert(mc.ensures((i, d), Some(v)));
                    assert(v * dset.size <= usize::MAX);
                    assert(r * v <= usize::MAX) by(nonlinear_arith) requires r <= dset.size, v * dset.size <= usize::MAX, r >= 0, v >= 0;
                }
                dsym.set_v(i, d, v);
                proof {
                    res_m = Some(Some(v));
                    lemma_deg_step(&mc, &ds0, oi0, rs0, vs_b, dsym.orbit_vs@, i, reps0, k, d, Some(v), false);
                }
            }
            proof {
                if res_m.is_none() {
                    assert(mc.ensures((i, d), None));
                    lemma_deg_step(&mc, &ds0, oi0, rs0, vs_b, dsym.orbit_vs@, i, reps0, k, d, None, false);
                }
                if k + 1 == reps0.len() { lemma_deg_close(&mc, &ds0, oi0, rs0, dsym.orbit_vs@, i as int, reps0, false); }
            }
        }
    }
    dsym
}
//@ end

// C02 conversions: a plain D-set with the same operations ...
//@ begin src/derived.rs :: - :: fn as_dset | props=C02
//@ rw R16 /-> PartialDSet$/-> (res: PartialDSet)/
//@ rw R14 /^([ \t]*)build_set\(ds\.size\(\), ds\.dim\(\), \|i, d\| (.*)\)$/\1let __op = |i: usize, d: usize| -> (r: Option<usize>)\n\1{ \2 };\n\1let __r = build_set(ds.size(), ds.dim(), __op);\n\1__r/
pub fn as_dset<T: DSet>(ds: &T) -> (res: PartialDSet)
    requires ds.wf(), ds.ssize() * (ds.sdim() + 1) <= usize::MAX,
    ensures res.inv(), res.size == ds.ssize(), res.dim == ds.sdim(),
        forall|i: int, d: int| 0 <= i <= ds.sdim() && 1 <= d <= ds.ssize() ==> #[trigger] res.vop(i, d) == ds.sop(i, d),
{
    proof { ds.lemma_wf(); }
    let __op = |i: usize, d: usize| -> (r: Option<usize>)
        requires ds.wf()
        ensures r == ds.sop(i as int, d as int)
    { ds.op(i, d) };
    proof {
        assert(deterministic(__op, ds.ssize() as usize, ds.sdim() as usize));
        assert(consistent(__op, ds.ssize() as usize, ds.sdim() as usize)) by {
            assert forall|i: usize, d: usize, e: usize| #![trigger __op.ensures((i, d), Some(e))]
                i <= ds.sdim() && 1 <= d <= ds.ssize() && __op.ensures((i, d), Some(e)) implies 1 <= e <= ds.ssize() by {
                assert(ds.sop(i as int, d as int).is_some());
            }
            assert forall|i: usize, d: usize, e: usize, r: Option<usize>| #![trigger __op.ensures((i, d), Some(e)), __op.ensures((i, e), r)]
                i <= ds.sdim() && 1 <= d <= ds.ssize() && __op.ensures((i, d), Some(e)) && __op.ensures((i, e), r) implies r == Some(d) by {
                assert(ds.sop(i as int, d as int).is_some());
            }
            assert forall|i: usize, a: usize, b: usize, e: usize| #![trigger __op.ensures((i, a), Some(e)), __op.ensures((i, b), Some(e))]
                i <= ds.sdim() && 1 <= a <= ds.ssize() && 1 <= b <= ds.ssize() && __op.ensures((i, a), Some(e)) && __op.ensures((i, b), Some(e)) implies a == b by {
                assert(ds.sop(i as int, a as int).is_some());
                assert(ds.sop(i as int, b as int).is_some());
            }
        }
    }
    let __r = build_set(ds.size(), ds.dim(), __op);
    proof {
        assert forall|i: int, d: int| 0 <= i <= ds.sdim() && 1 <= d <= ds.ssize() implies #[trigger] __r.vop(i, d) == ds.sop(i, d) by {
            assert(__op.ensures((i as usize, d as usize), __r.vop(i as usize as int, d as usize as int)));
        }
    }
    __r
}
//@ end

// ... and a D-symbol with the same operations and all v = 1
//@ begin src/derived.rs :: - :: fn as_dsym | props=C02
//@ rw R16 /-> PartialDSym$/-> (res: PartialDSym)/
//@ rw R14 /^([ \t]*)build_sym_using_vs\(as_dset\(ds\), \|_, _\| (.*)\)$/\1let __s = as_dset(ds);\n\1let __v = |_i: usize, _d: usize| -> (r: Option<usize>)\n\1{ \2 };\n\1let __r = build_sym_using_vs(__s, __v);\n\1__r/
pub fn as_dsym<T: DSet>(ds: &T) -> (res: PartialDSym)
    requires ds.wf(), base_complete(ds), ds.ssize() * (ds.sdim() + 1) <= usize::MAX,
    ensures res.inv(), res.dset.size == ds.ssize(), res.dset.dim == ds.sdim(),
        forall|i: int, d: int| 0 <= i <= ds.sdim() && 1 <= d <= ds.ssize() ==> #[trigger] res.dset.t(i, d) == bop(ds, i, d),
        forall|i: int, d: int| 0 <= i < ds.sdim() && 1 <= d <= ds.ssize() ==> #[trigger] spec_v(&res.dset, res.orbit_index@, res.orbit_vs@, i, i + 1, d) == Some(1usize),
{
    proof { lemma_bop(ds); }
    let __s = as_dset(ds);
    proof {
        assert forall|i: int, d: int| 0 <= i <= __s.dim && 1 <= d <= __s.size implies #[trigger] tbl(__s.op@, __s.dim as int, i, d) != 0 by {
            assert(__s.vop(i, d) == ds.sop(i, d));
            assert(ds.sop(i, d).is_some());
        }
        assert(__s.complete());
    }
    let ghost s0 = __s;
    let __v = |_i: usize, _d: usize| -> (r: Option<usize>)
        ensures r == Some(1usize)
    { Some(1) };
    let ghost vg = __v;
    proof {
        assert(v_small(&__v, __s.dim as int, __s.size as int)) by {
            assert forall|i: usize, d: usize, x: usize| i < __s.dim && 1 <= d <= __s.size && #[trigger] __v.ensures((i, d), Some(x)) implies x * __s.size <= usize::MAX by { }
        }
    }
    let __r = build_sym_using_vs(__s, __v);
    proof {
        let vf = |i: int, d: int| Some(1usize);
        assert(m_hyp(&vg, &__r.dset, vf)) by {
            assert forall|i: usize, d: usize, r: Option<usize>| i < __r.dset.dim && 1 <= d <= __r.dset.size && #[trigger] vg.ensures((i, d), r)
                implies r == vf(i as int, d as int) by { }
        }
        assert(degs_upto(__r.dset.size as int, __r.orbit_index@, __r.orbit_rs@, __r.orbit_vs@, vf, false, __r.dset.dim as int));
        assert forall|i: int, d: int| 0 <= i < ds.sdim() && 1 <= d <= ds.ssize() implies #[trigger] spec_v(&__r.dset, __r.orbit_index@, __r.orbit_vs@, i, i + 1, d) == Some(1usize) by {
            assert(deg_at(__r.orbit_index@, __r.orbit_rs@, __r.orbit_vs@, vf, false, i, d));
        }
        assert forall|i: int, d: int| 0 <= i <= ds.sdim() && 1 <= d <= ds.ssize() implies #[trigger] __r.dset.t(i, d) == bop(ds, i, d) by {
            assert(__r.dset.t(i, d) == s0.t(i, d));
            assert(s0.vop(i, d) == ds.sop(i, d));
            assert(ds.sop(i, d).is_some());
        }
    }
    __r
}
//@ end

// ---- as_partial_dsym: the same symbol in the PartialDSym representation ----
// the branching numbers are small enough that r * v cannot overflow for any orbit length r <= size (degrees of real symbols are tiny)
pub open spec fn v_fits<T: DSym>(ds: &T) -> bool {
    forall|i: int, d: int| 0 <= i < ds.sdim() && 1 <= d <= ds.ssize() && (#[trigger] ds.sv(i, i + 1, d)).is_some() ==> ds.sv(i, i + 1, d).unwrap() * ds.ssize() <= usize::MAX
}
pub open spec fn base_v<T: DSym>(ds: &T) -> spec_fn(int, int) -> Option<usize> { |i: int, d: int| ds.sv(i, i + 1, d) }

// a closure that answers like ds.op is a deterministic, consistent operation table
proof fn lemma_op_closure<T: DSet, F: Fn(usize, usize) -> Option<usize>>(ds: &T, op: F)
    requires ds.wf(),
        forall|i: usize, d: usize, r: Option<usize>| #[trigger] op.ensures((i, d), r) ==> r == ds.sop(i as int, d as int),
    ensures deterministic(op, ds.ssize() as usize, ds.sdim() as usize), consistent(op, ds.ssize() as usize, ds.sdim() as usize)
{
    ds.lemma_wf();
    assert forall|i: usize, d: usize, e: usize| #![trigger op.ensures((i, d), Some(e))]
        i <= ds.sdim() && 1 <= d <= ds.ssize() && op.ensures((i, d), Some(e)) implies 1 <= e <= ds.ssize() by {
        assert(ds.sop(i as int, d as int).is_some());
    }
    assert forall|i: usize, d: usize, e: usize, r: Option<usize>| #![trigger op.ensures((i, d), Some(e)), op.ensures((i, e), r)]
        i <= ds.sdim() && 1 <= d <= ds.ssize() && op.ensures((i, d), Some(e)) && op.ensures((i, e), r) implies r == Some(d) by {
        assert(ds.sop(i as int, d as int).is_some());
    }
    assert forall|i: usize, a: usize, b: usize, e: usize| #![trigger op.ensures((i, a), Some(e)), op.ensures((i, b), Some(e))]
        i <= ds.sdim() && 1 <= a <= ds.ssize() && 1 <= b <= ds.ssize() && op.ensures((i, a), Some(e)) && op.ensures((i, b), Some(e)) implies a == b by {
        assert(ds.sop(i as int, a as int).is_some());
        assert(ds.sop(i as int, b as int).is_some());
    }
}

// same operations and same branching numbers give the same degrees (law m = r * v on both sides, equal orbit lengths)
proof fn lemma_copy_degrees<T: DSym>(ds: &T, c: &PartialDSym)
    requires ds.wf(), base_complete(ds), c.inv(), c.dset.size == ds.ssize(), c.dset.dim == ds.sdim(),
        forall|i: int, d: int| 0 <= i <= ds.sdim() && 1 <= d <= ds.ssize() ==> #[trigger] c.dset.t(i, d) == bop(ds, i, d),
        degs_upto(c.dset.size as int, c.orbit_index@, c.orbit_rs@, c.orbit_vs@, base_v(ds), false, c.dset.dim as int),
    ensures covers(c, ds, 1), cover_degrees(c, ds)
{
    let sz = ds.ssize();
    lemma_bop(ds);
    ds.lemma_wf();
    c.dset.lemma_inv_tbl();
    assert forall|d: int| 1 <= d <= sz implies #[trigger] src_of(d, sz) == d by { vstd::arithmetic::div_mod::lemma_small_mod((d - 1) as nat, sz as nat); }
    assert forall|i: int, d: int| 0 <= i <= ds.sdim() && 1 <= d <= 1 * sz implies ({
        let e = #[trigger] c.dset.t(i, d);
        1 <= e <= 1 * sz && src_of(e, sz) == bop(ds, i, src_of(d, sz))
    }) by { assert(1 <= bop(ds, i, d) <= sz); }
    assert(covers(c, ds, 1));
    assert(same_ops(&c.dset, ds)) by {
        assert forall|i: int, x: int| #[trigger] c.dset.sop(i, x) == ds.sop(i, x) by {
            if 0 <= i <= ds.sdim() && 1 <= x <= sz {
                assert(c.dset.t(i, x) == bop(ds, i, x));
                assert(ds.sop(i, x).is_some());
            } else {
                if ds.sop(i, x).is_some() { }
            }
        }
    }
    assert forall|i: int, d: int| 0 <= i < ds.sdim() && 1 <= d <= c.dset.size implies #[trigger] deg_preserved(c, ds, i, d) by {
        lemma_oix_bound(&c.dset, c.orbit_index@, c.orbit_rs@, c.orbit_vs@, i, d);
        let kk = oix(c.orbit_index@, i, d);
        let rc = c.orbit_rs@[kk];
        lemma_sym_ret_ij(&c.dset, c.orbit_index@, c.orbit_rs@, c.orbit_vs@, i, d as usize);
        lemma_ret_ij_same_ops(&c.dset, ds, i, i + 1, d as usize, rc as nat);
        ds.lemma_m_rv(i, d as usize, rc as nat);
        let x = ds.sv(i, i + 1, d).unwrap();
        assert(deg_at(c.orbit_index@, c.orbit_rs@, c.orbit_vs@, base_v(ds), false, i, d));
        assert(c.orbit_vs@[kk] == x);
        let mb = ds.sm(i, i + 1, d);
        assert(mb == Some((rc * x) as usize));
        assert(c.sm(i, i + 1, d) == mb);
        assert((rc * x) / (rc as int) == x) by(nonlinear_arith) requires rc >= 1, x >= 0;
    }
}

//@ begin src/derived.rs :: - :: fn as_partial_dsym | props=C02,C04,C05
//@ rw R16 /-> PartialDSym$/-> (res: PartialDSym)/
//@ rw R14 /^([ \t]*)let op = \|i, d\| (.*);$/\1let op = |i: usize, d: usize| -> (r: Option<usize>)\n\1{ \2 };/
//@ rw R14 /^([ \t]*)let v = \|i, d\| (.*);$/\1let v = |i: usize, d: usize| -> (r: Option<usize>)\n\1{ \2 };/
//@ rw R14 /^([ \t]*)build_sym_using_vs\(build_set\(ds\.size\(\), ds\.dim\(\), op\), v\)$/\1let __set = build_set(ds.size(), ds.dim(), op);\n\1let __r = build_sym_using_vs(__set, v);\n\1__r/
pub fn as_partial_dsym<T: DSym>(ds: &T) -> (res: PartialDSym)
    requires ds.wf(), base_complete(ds), ds.ssize() * (ds.sdim() + 1) <= usize::MAX, v_fits(ds),
    // C02/C05: a one-sheeted cover: same chambers, same operations, same branching numbers, same degrees
    ensures covers(&res, ds, 1), cover_degrees(&res, ds),
        forall|i: int, d: int| 0 <= i < ds.sdim() && 1 <= d <= ds.ssize() && ds.sv(i, i + 1, d).is_some() ==>
            #[trigger] spec_v(&res.dset, res.orbit_index@, res.orbit_vs@, i, i + 1, d) == ds.sv(i, i + 1, d),
{
    proof { lemma_bop(ds); }
    let op = |i: usize, d: usize| -> (r: Option<usize>)
        requires ds.wf()
        ensures r == ds.sop(i as int, d as int)
    { ds.op(i, d) };
    let v = |i: usize, d: usize| -> (r: Option<usize>)
        requires ds.wf(), i < ds.sdim(), ds.sdim() < usize::MAX
        ensures r == ds.sv(i as int, i + 1, d as int)
    { ds.v(i, i + 1, d) };
    let ghost vg = v;

    proof { lemma_op_closure(ds, op); }
    let __set = build_set(ds.size(), ds.dim(), op);
    proof {
        assert forall|i: int, d: int| 0 <= i <= __set.dim && 1 <= d <= __set.size implies #[trigger] tbl(__set.op@, __set.dim as int, i, d) != 0 by {
            assert(op.ensures((i as usize, d as usize), __set.vop(i as usize as int, d as usize as int)));
            assert(ds.sop(i, d).is_some());
        }
        assert(__set.complete());
        assert(v_small(&v, __set.dim as int, __set.size as int)) by {
            assert forall|i: usize, d: usize, x: usize| i < __set.dim && 1 <= d <= __set.size && #[trigger] v.ensures((i, d), Some(x)) implies x * __set.size <= usize::MAX by {
                assert(ds.sv(i as int, i + 1, d as int).is_some());
            }
        }
    }
    let ghost s0 = __set;
    let __r = build_sym_using_vs(__set, v);
    proof {
        assert forall|i: int, d: int| 0 <= i <= ds.sdim() && 1 <= d <= ds.ssize() implies #[trigger] __r.dset.t(i, d) == bop(ds, i, d) by {
            assert(__r.dset.t(i, d) == s0.t(i, d));
            assert(op.ensures((i as usize, d as usize), s0.vop(i as usize as int, d as usize as int)));
            assert(ds.sop(i, d).is_some());
        }
        let vf = base_v(ds);
        assert(m_hyp(&vg, &__r.dset, vf)) by {
            assert forall|i: usize, d: usize, r: Option<usize>| i < __r.dset.dim && 1 <= d <= __r.dset.size && #[trigger] vg.ensures((i, d), r)
                implies r == vf(i as int, d as int) by { }
            ds.lemma_v_orbit();
            assert forall|i: int, x: int| 0 <= i < __r.dset.dim && 1 <= x <= __r.dset.size implies
                vf(i, __r.dset.t(i, x)) == #[trigger] vf(i, x) && vf(i, __r.dset.t(i + 1, x)) == vf(i, x) by {
                assert(ds.sop(i, x).is_some() && ds.sop(i + 1, x).is_some());
                assert(__r.dset.t(i, x) == bop(ds, i, x));
                assert(__r.dset.t(i + 1, x) == bop(ds, i + 1, x));
            }
        }
        assert(degs_upto(__r.dset.size as int, __r.orbit_index@, __r.orbit_rs@, __r.orbit_vs@, vf, false, __r.dset.dim as int));
        lemma_copy_degrees(ds, &__r);
        assert forall|i: int, d: int| 0 <= i < ds.sdim() && 1 <= d <= ds.ssize() && ds.sv(i, i + 1, d).is_some() implies
            #[trigger] spec_v(&__r.dset, __r.orbit_index@, __r.orbit_vs@, i, i + 1, d) == ds.sv(i, i + 1, d) by {
            assert(deg_at(__r.orbit_index@, __r.orbit_rs@, __r.orbit_vs@, vf, false, i, d));
        }
    }
    __r
}
//@ end

// ---- arithmetic of the sheet numbering: d = sz*k + c, 1 <= c <= sz ----
pub open spec fn src_of(d: int, sz: int) -> int { (d - 1) % sz + 1 }
pub open spec fn sheet_of(d: int, sz: int) -> int { (d - src_of(d, sz)) / sz }

pub proof fn lemma_sheet(d: int, sz: int, n: int)
    requires sz >= 1, n >= 0, 1 <= d <= n * sz
    ensures 1 <= src_of(d, sz) <= sz, 0 <= sheet_of(d, sz) < n, d == sz * sheet_of(d, sz) + src_of(d, sz)
{
    let q = (d - 1) / sz;
    let r = (d - 1) % sz;
    lemma_fundamental_div_mod(d - 1, sz);
    lemma_mod_bound(d - 1, sz);
    assert(d - src_of(d, sz) == sz * q);
    lemma_div_multiples_vanish(q, sz);
    assert(sz * q == q * sz) by(nonlinear_arith);
    assert(sheet_of(d, sz) == q);
    assert(q >= 0) by(nonlinear_arith) requires d - 1 == sz * q + r, 0 <= r < sz, sz >= 1, d >= 1;
    assert(q < n) by(nonlinear_arith) requires d - 1 == sz * q + r, 0 <= r < sz, sz >= 1, d <= n * sz;
}

pub proof fn lemma_compose(k: int, c: int, sz: int)
    requires sz >= 1, k >= 0, 1 <= c <= sz
    ensures src_of(sz * k + c, sz) == c, sheet_of(sz * k + c, sz) == k
{
    let d = sz * k + c;
    assert(d - 1 == k * sz + (c - 1)) by(nonlinear_arith) requires d == sz * k + c;
    lemma_fundamental_div_mod_converse(d - 1, sz, k, c - 1);
    assert(d - src_of(d, sz) == k * sz) by(nonlinear_arith) requires d == sz * k + c, src_of(d, sz) == c;
    lemma_div_multiples_vanish(k, sz);
}



// the base of a cover is complete: every operation is defined on every chamber
pub open spec fn base_complete<T: DSet>(ds: &T) -> bool {
    forall|i: int, c: int| 0 <= i <= ds.sdim() && 1 <= c <= ds.ssize() ==> (#[trigger] ds.sop(i, c)).is_some()
}
pub open spec fn bop<T: DSet>(ds: &T, i: int, c: int) -> int { ds.sop(i, c).unwrap() as int }

proof fn lemma_bop<T: DSet>(ds: &T)
    requires ds.wf(), base_complete(ds)
    ensures 1 <= ds.ssize() < usize::MAX, 1 <= ds.sdim() < usize::MAX,
        forall|i: int, c: int| 0 <= i <= ds.sdim() && 1 <= c <= ds.ssize() ==>
            1 <= #[trigger] bop(ds, i, c) <= ds.ssize() && bop(ds, i, bop(ds, i, c)) == c && ds.sop(i, c) == Some(bop(ds, i, c) as usize),
{
    ds.lemma_wf();
    assert forall|i: int, c: int| 0 <= i <= ds.sdim() && 1 <= c <= ds.ssize() implies
            1 <= #[trigger] bop(ds, i, c) <= ds.ssize() && bop(ds, i, bop(ds, i, c)) == c && ds.sop(i, c) == Some(bop(ds, i, c) as usize) by {
        assert(ds.sop(i, c).is_some());
    }
}

pub open spec fn sm_ens<F: Fn(usize, usize, usize) -> usize>(sm: &F, k: usize, i: usize, c: usize, r: usize) -> bool {
    sm.ensures((k, i, c), r)
}
pub open spec fn sm_req<F: Fn(usize, usize, usize) -> usize>(sm: &F, k: usize, i: usize, c: usize) -> bool {
    sm.requires((k, i, c))
}
// requirements on the sheet map, as relations on the closure's ensures
pub open spec fn sm_callable<T: DSet, F: Fn(usize, usize, usize) -> usize>(ds: &T, sm: &F, n: int) -> bool {
    forall|k: usize, i: usize, c: usize| k < n && i <= ds.sdim() && 1 <= c <= ds.ssize() ==> #[trigger] sm.requires((k, i, c))
}
pub open spec fn sm_functional<T: DSet, F: Fn(usize, usize, usize) -> usize>(ds: &T, sm: &F, n: int) -> bool {
    forall|k: usize, i: usize, c: usize, a: usize, b: usize| #![trigger sm_ens(sm, k, i, c, a), sm_ens(sm, k, i, c, b)]
        k < n && i <= ds.sdim() && 1 <= c <= ds.ssize() && sm_ens(sm, k, i, c, a) && sm_ens(sm, k, i, c, b) ==> a == b && a < n
}
pub open spec fn sm_involutive<T: DSet, F: Fn(usize, usize, usize) -> usize>(ds: &T, sm: &F, n: int) -> bool {
    forall|k: usize, i: usize, c: usize, k2: usize, k3: usize| #![trigger sm_ens(sm, k, i, c, k2), sm_ens(sm, k2, i, bop(ds, i as int, c as int) as usize, k3)]
        k < n && i <= ds.sdim() && 1 <= c <= ds.ssize() && sm_ens(sm, k, i, c, k2)
            && sm_ens(sm, k2, i, bop(ds, i as int, c as int) as usize, k3) ==> k3 == k
}
pub open spec fn sm_injective<T: DSet, F: Fn(usize, usize, usize) -> usize>(ds: &T, sm: &F, n: int) -> bool {
    forall|ka: usize, kb: usize, i: usize, c: usize, k2: usize| #![trigger sm_ens(sm, ka, i, c, k2), sm_ens(sm, kb, i, c, k2)]
        ka < n && kb < n && i <= ds.sdim() && 1 <= c <= ds.ssize() && sm_ens(sm, ka, i, c, k2) && sm_ens(sm, kb, i, c, k2) ==> ka == kb
}

// what the closure `op` of cover() computes, as a relation
pub open spec fn cover_rel<T: DSet, F: Fn(usize, usize, usize) -> usize>(ds: &T, sm: &F, i: usize, d: usize, r: Option<usize>) -> bool {
    let sz = ds.ssize();
    let c = src_of(d as int, sz);
    let k = sheet_of(d as int, sz);
    exists|k2: usize| #[trigger] sm_ens(sm, k as usize, i, c as usize, k2) && r == Some((sz * k2 + bop(ds, i as int, c)) as usize)
}


// the projection of the cover onto its base, and the covering property (C05: "the projection of its chambers onto the base
// commutes with every operation")
pub open spec fn covers<T: DSet>(c: &PartialDSym, ds: &T, n: int) -> bool {
    &&& c.inv()
    &&& c.dset.size == n * ds.ssize()
    &&& c.dset.dim == ds.sdim()
    // complete, and op_i(projection d) == projection(op_i d) for every chamber d of the cover
    &&& forall|i: int, d: int| 0 <= i <= ds.sdim() && 1 <= d <= n * ds.ssize() ==> {
            let e = #[trigger] c.dset.t(i, d);
            1 <= e <= n * ds.ssize() && src_of(e, ds.ssize()) == bop(ds, i, src_of(d, ds.ssize()))
        }
}

// C05 "preserves every degree": the degree m(i,i+1) of a chamber d of the cover is r * (mb / r), where r is the length of the
// (i,i+1)-orbit of d IN THE COVER and mb the degree of the chamber below d in the base -- hence equal to mb whenever r divides mb
// (which it does for the covers built from coset tables of the fundamental group, whose relators include (s_i s_j)^m)
pub open spec fn deg_proj(c: &PartialDSym, mb: Option<usize>, i: int, d: int) -> bool {
    let r = c.orbit_rs@[oix(c.orbit_index@, i, d)];
    mb.is_some() ==> c.sm(i, i + 1, d) == Some((r * (mb.unwrap() / r)) as usize)
        && (mb.unwrap() as int % r as int == 0 ==> c.sm(i, i + 1, d) == mb)
}
pub open spec fn deg_preserved<T: DSet>(c: &PartialDSym, ds: &T, i: int, d: int) -> bool {
    deg_proj(c, ds.sm(i, i + 1, src_of(d, ds.ssize())), i, d)
}
// what build_sym_using_ms's postcondition says about one chamber, in terms of the symbol's degree function
proof fn lemma_deg_proj(c: &PartialDSym, mf: spec_fn(int, int) -> Option<usize>, i: int, d: int)
    requires c.inv(), 0 <= i < c.dset.dim, 1 <= d <= c.dset.size,
        deg_at(c.orbit_index@, c.orbit_rs@, c.orbit_vs@, mf, true, i, d),
    ensures deg_proj(c, mf(i, d), i, d)
{
    lemma_oix_bound(&c.dset, c.orbit_index@, c.orbit_rs@, c.orbit_vs@, i, d);
    let mb = mf(i, d);
    let kk = oix(c.orbit_index@, i, d);
    let r = c.orbit_rs@[kk];
    if mb.is_some() {
        let mv = mb.unwrap();
        assert(c.orbit_vs@[kk] == mv as int / r as int);
        assert(r * (mv / r) <= mv) by(nonlinear_arith) requires r >= 1, mv >= 0;
        if mv as int % r as int == 0 {
            lemma_fundamental_div_mod(mv as int, r as int);
        }
    }
}
pub open spec fn cover_degrees<T: DSet>(c: &PartialDSym, ds: &T) -> bool {
    forall|i: int, d: int| 0 <= i < ds.sdim() && 1 <= d <= c.dset.size ==> #[trigger] deg_preserved(c, ds, i, d)
}

// C05: "has the same number of preimages over every base chamber": the fibre of b is exactly { sz*k + b | 0 <= k < n }
pub proof fn lemma_fibres(sz: int, n: int, b: int)
    requires sz >= 1, n >= 1, 1 <= b <= sz
    ensures
        forall|k: int| 0 <= k < n ==> 1 <= #[trigger] (sz * k + b) <= n * sz && src_of(sz * k + b, sz) == b && sheet_of(sz * k + b, sz) == k,
        forall|d: int| 1 <= d <= n * sz && #[trigger] src_of(d, sz) == b ==> 0 <= sheet_of(d, sz) < n && d == sz * sheet_of(d, sz) + b,
{
    assert forall|k: int| 0 <= k < n implies 1 <= #[trigger] (sz * k + b) <= n * sz && src_of(sz * k + b, sz) == b && sheet_of(sz * k + b, sz) == k by {
        lemma_compose(k, b, sz);
        assert(sz * k + b <= n * sz) by(nonlinear_arith) requires k < n, 1 <= b <= sz, sz >= 1, k >= 0;
        assert(sz * k + b >= 1) by(nonlinear_arith) requires k >= 0, b >= 1, sz >= 1;
    }
    assert forall|d: int| 1 <= d <= n * sz && #[trigger] src_of(d, sz) == b implies 0 <= sheet_of(d, sz) < n && d == sz * sheet_of(d, sz) + b by {
        lemma_sheet(d, sz, n);
    }
}

pub open spec fn base_deg<T: DSet>(ds: &T) -> spec_fn(int, int) -> Option<usize> {
    |i: int, d: int| ds.sm(i, i + 1, src_of(d, ds.ssize()))
}

// the degree function of cover() is constant on the cover's orbits, because the projection commutes with the operations and base
// degrees are constant on base orbits (trait law lemma_m_orbit); so build_sym_using_ms's postcondition applies to it
proof fn lemma_cover_degrees<T: DSet, F: Fn(usize, usize) -> Option<usize>>(ds: &T, c: &PartialDSym, m: &F, n: int)
    requires ds.wf(), base_complete(ds), n >= 1, covers(c, ds, n),
        m_obeys(m, base_deg(ds), c.dset.dim as int, c.dset.size as int),
        forall|mf: spec_fn(int, int) -> Option<usize>| #[trigger] m_hyp(m, &c.dset, mf) ==>
            degs_upto(c.dset.size as int, c.orbit_index@, c.orbit_rs@, c.orbit_vs@, mf, true, c.dset.dim as int),
    ensures cover_degrees(c, ds)
{
    let mf = base_deg(ds);
    let sz = ds.ssize();
    lemma_bop(ds);
    ds.lemma_m_orbit();
    assert(m_class(&c.dset, mf)) by {
        assert forall|i: int, x: int| 0 <= i < c.dset.dim && 1 <= x <= c.dset.size implies
            mf(i, c.dset.t(i, x)) == #[trigger] mf(i, x) && mf(i, c.dset.t(i + 1, x)) == mf(i, x) by {
            lemma_sheet(x, sz, n);
            let b = src_of(x, sz);
            assert(ds.sop(i, b).is_some() && ds.sop(i + 1, b).is_some());
            assert(src_of(c.dset.t(i, x), sz) == bop(ds, i, b));
            assert(src_of(c.dset.t(i + 1, x), sz) == bop(ds, i + 1, b));
        }
    }
    assert(m_hyp(m, &c.dset, mf));
    assert(degs_upto(c.dset.size as int, c.orbit_index@, c.orbit_rs@, c.orbit_vs@, mf, true, c.dset.dim as int));
    assert forall|i: int, d: int| 0 <= i < ds.sdim() && 1 <= d <= c.dset.size implies #[trigger] deg_preserved(c, ds, i, d) by {
        assert(deg_at(c.orbit_index@, c.orbit_rs@, c.orbit_vs@, mf, true, i, d));
        lemma_deg_proj(c, mf, i, d);
    }
}

//@ begin src/derived.rs :: - :: fn cover | props=C05
//@ rw R16 /-> PartialDSym$/-> (res: PartialDSym)/
//@ rw R15 /T: DSym,/T: DSet,/
//@ rw R14 /^([ \t]*)let src = \|d: usize\| (.*);$/\1let src = |d: usize| -> (c: usize)\n\1{ \2 };/
//@ rw R14 /^([ \t]*)let op = \|i, d\| (.*)$/\1let op = |i: usize, d: usize| -> (r: Option<usize>)\n\1{\n\1\2/
//@ rw R14 /^([ \t]*)\.map\(\|di\| sz \* (sheet_map\(.*\)) \+ di\);$/\1.map(|di: usize| -> (e: usize)\n\1{\n\1let k2 = \2;\n\1sz * k2 + di\n\1})\n\1};/
//@ rw R14 /^([ \t]*)build_sym_using_ms\(\n[ \t]*(build_set\(.*\)),\n[ \t]*\|i, d\| (.*)\n[ \t]*\)$/\1let __set = \2;\n\1let __m = |i: usize, d: usize| -> (mm: Option<usize>)\n\1{ \3 };\n\1let __r = build_sym_using_ms(__set, __m);\n\1__r/
#[verifier::spinoff_prover]
pub fn cover<T, F>(ds: &T, nr_sheets: usize, sheet_map: F) -> (res: PartialDSym)
    where
        T: DSet,
        F: Fn(usize, usize, usize) -> usize
    requires ds.wf(), base_complete(ds),
        nr_sheets >= 1, nr_sheets * ds.ssize() * (ds.sdim() + 1) <= usize::MAX, nr_sheets * ds.ssize() < usize::MAX,
        // the sheet map is a function into 0..nr_sheets which, for every operation i, permutes the sheets over each i-edge consistently
        sm_callable(ds, &sheet_map, nr_sheets as int), sm_functional(ds, &sheet_map, nr_sheets as int),
        sm_involutive(ds, &sheet_map, nr_sheets as int), sm_injective(ds, &sheet_map, nr_sheets as int),
    // C05: the result is a well-formed complete symbol of nr_sheets * size chambers whose projection d |-> (d-1) % size + 1
    // onto the base commutes with every operation
    ensures covers(&res, ds, nr_sheets as int), cover_degrees(&res, ds),
{
    proof { lemma_bop(ds); }
    let sz = ds.size();
    let ghost n = nr_sheets as int;
    let src = |d: usize| -> (c: usize)
        requires d >= 1, sz >= 1
        ensures c == src_of(d as int, sz as int)
    { (d - 1) % sz + 1 };
    let op = |i: usize, d: usize| -> (r: Option<usize>)
        requires i <= ds.sdim(), 1 <= d <= n * sz, ds.wf(), base_complete(ds), sz == ds.ssize(), n >= 1, n * sz < usize::MAX,
            sm_callable(ds, &sheet_map, n), sm_functional(ds, &sheet_map, n),
            forall|x: usize| x >= 1 ==> #[trigger] src.requires((x,)),
            forall|x: usize, y: usize| #[trigger] src.ensures((x,), y) ==> y == src_of(x as int, sz as int),
        ensures cover_rel(ds, &sheet_map, i, d, r)
    {
        proof { lemma_bop(ds); lemma_sheet(d as int, sz as int, n); }
    ds.op(i, src(d))
        .map(|di: usize| -> (e: usize)
            requires 1 <= di <= sz, di == bop(ds, i as int, src_of(d as int, sz as int)), i <= ds.sdim(), 1 <= d <= n * sz, sz == ds.ssize(), sz >= 1, n * sz < usize::MAX,
                sm_callable(ds, &sheet_map, n), sm_functional(ds, &sheet_map, n),
                forall|x: usize| x >= 1 ==> #[trigger] src.requires((x,)),
                forall|x: usize, y: usize| #[trigger] src.ensures((x,), y) ==> y == src_of(x as int, sz as int),
            ensures exists|k2: usize| #[trigger] sm_ens(&sheet_map, sheet_of(d as int, sz as int) as usize, i, src_of(d as int, sz as int) as usize, k2)
                        && e == sz * k2 + di
        {
            proof { lemma_sheet(d as int, sz as int, n); }
        let k2 = sheet_map((d - src(d)) / sz, i, src(d));
            proof {
                assert(sm_ens(&sheet_map, sheet_of(d as int, sz as int) as usize, i, src_of(d as int, sz as int) as usize, k2));
                assert(k2 < n);
                assert(sz * k2 + di <= n * sz) by(nonlinear_arith) requires k2 < n, 1 <= di <= sz, sz >= 1;
            }
        sz * k2 + di
        })
        };

    proof {
        assert(deterministic(op, (nr_sheets * sz) as usize, ds.sdim() as usize)) by {
            assert forall|i: usize, d: usize, r1: Option<usize>, r2: Option<usize>|
                #![trigger op.ensures((i, d), r1), op.ensures((i, d), r2)]
                i <= ds.sdim() && 1 <= d <= n * sz && op.ensures((i, d), r1) && op.ensures((i, d), r2) implies r1 == r2 by {
                lemma_sheet(d as int, sz as int, n);
            }
        }
        assert(consistent(op, (nr_sheets * sz) as usize, ds.sdim() as usize)) by {
            assert forall|i: usize, d: usize, e: usize| #![trigger op.ensures((i, d), Some(e))]
                i <= ds.sdim() && 1 <= d <= n * sz && op.ensures((i, d), Some(e)) implies 1 <= e <= n * sz by {
                lemma_sheet(d as int, sz as int, n);
                let c = src_of(d as int, sz as int);
                let k = sheet_of(d as int, sz as int);
                let di = bop(ds, i as int, c);
                let k2 = choose|k2: usize| #[trigger] sm_ens(&sheet_map, k as usize, i, c as usize, k2) && Some(e) == Some((sz * k2 + di) as usize);
                assert(k2 < n);
                assert(sz * k2 + di <= n * sz) by(nonlinear_arith) requires k2 < n, 1 <= di <= sz, sz >= 1;
            }
            assert forall|i: usize, d: usize, e: usize, r: Option<usize>| #![trigger op.ensures((i, d), Some(e)), op.ensures((i, e), r)]
                i <= ds.sdim() && 1 <= d <= n * sz && op.ensures((i, d), Some(e)) && op.ensures((i, e), r) implies r == Some(d) by {
                lemma_sheet(d as int, sz as int, n);
                let c = src_of(d as int, sz as int);
                let k = sheet_of(d as int, sz as int);
                let di = bop(ds, i as int, c);
                let k2 = choose|k2: usize| #[trigger] sm_ens(&sheet_map, k as usize, i, c as usize, k2) && Some(e) == Some((sz * k2 + di) as usize);
                assert(k2 < n);
                assert(sz * k2 + di <= n * sz) by(nonlinear_arith) requires k2 < n, 1 <= di <= sz, sz >= 1;
                lemma_compose(k2 as int, di, sz as int);
                assert(e == sz * k2 + di);
                // unfold the second fact at (i, e)
                let k3 = choose|k3: usize| #[trigger] sm_ens(&sheet_map, sheet_of(e as int, sz as int) as usize, i, src_of(e as int, sz as int) as usize, k3)
                            && r == Some((sz * k3 + bop(ds, i as int, src_of(e as int, sz as int))) as usize);
                assert(sm_ens(&sheet_map, k2, i, di as usize, k3));
                assert(bop(ds, i as int, c) == di);
                assert(k3 == k);
                assert(bop(ds, i as int, di) == c);
            }
            assert forall|i: usize, a: usize, b: usize, e: usize| #![trigger op.ensures((i, a), Some(e)), op.ensures((i, b), Some(e))]
                i <= ds.sdim() && 1 <= a <= n * sz && 1 <= b <= n * sz && op.ensures((i, a), Some(e)) && op.ensures((i, b), Some(e)) implies a == b by {
                lemma_sheet(a as int, sz as int, n);
                lemma_sheet(b as int, sz as int, n);
                let ca = src_of(a as int, sz as int); let ka = sheet_of(a as int, sz as int); let da = bop(ds, i as int, ca);
                let cb = src_of(b as int, sz as int); let kb = sheet_of(b as int, sz as int); let db = bop(ds, i as int, cb);
                let k2a = choose|k2: usize| #[trigger] sm_ens(&sheet_map, ka as usize, i, ca as usize, k2) && Some(e) == Some((sz * k2 + da) as usize);
                let k2b = choose|k2: usize| #[trigger] sm_ens(&sheet_map, kb as usize, i, cb as usize, k2) && Some(e) == Some((sz * k2 + db) as usize);
                assert(k2a < n && k2b < n);
                assert(sz * k2a + da <= n * sz) by(nonlinear_arith) requires k2a < n, 1 <= da <= sz, sz >= 1;
                assert(sz * k2b + db <= n * sz) by(nonlinear_arith) requires k2b < n, 1 <= db <= sz, sz >= 1;
                lemma_compose(k2a as int, da, sz as int);
                lemma_compose(k2b as int, db, sz as int);
                assert(k2a == k2b && da == db);
                assert(bop(ds, i as int, da) == ca && bop(ds, i as int, db) == cb);
                assert(ca == cb);
                assert(ka == kb);
            }
        }
    }
    proof {
        assert(nr_sheets * sz >= 1) by(nonlinear_arith) requires nr_sheets >= 1, sz >= 1;
    }
    let __set = build_set(nr_sheets * sz, ds.dim(), op);
    proof {
        assert forall|i: usize, d: usize| i <= ds.sdim() && 1 <= d <= nr_sheets * ds.ssize() implies ({
            let e = #[trigger] __set.t(i as int, d as int);
            1 <= e <= nr_sheets * ds.ssize() && src_of(e, ds.ssize()) == bop(ds, i as int, src_of(d as int, ds.ssize()))
        }) by {
            lemma_sheet(d as int, sz as int, n);
            assert(op.ensures((i, d), __set.vop(i as int, d as int)));
            let c = src_of(d as int, sz as int);
            let k = sheet_of(d as int, sz as int);
            let di = bop(ds, i as int, c);
            assert(cover_rel(ds, &sheet_map, i, d, __set.vop(i as int, d as int)));
            let k2 = choose|k2: usize| #[trigger] sm_ens(&sheet_map, k as usize, i, c as usize, k2) && __set.vop(i as int, d as int) == Some((sz * k2 + di) as usize);
            assert(k2 < n);
            assert(sz * k2 + di <= n * sz) by(nonlinear_arith) requires k2 < n, 1 <= di <= sz, sz >= 1;
            lemma_compose(k2 as int, di, sz as int);
            assert(__set.t(i as int, d as int) != 0);
            assert(__set.t(i as int, d as int) as usize == (sz * k2 + di) as usize);
        }
        // the same, quantified over int
        assert forall|i: int, d: int| 0 <= i <= ds.sdim() && 1 <= d <= n * ds.ssize() implies ({
            let e = #[trigger] tbl(__set.op@, __set.dim as int, i, d);
            1 <= e <= n * ds.ssize() && src_of(e, ds.ssize()) == bop(ds, i, src_of(d, ds.ssize()))
        }) by {
            let iu = i as usize; let du = d as usize;
            assert(__set.t(iu as int, du as int) == tbl(__set.op@, __set.dim as int, i, d));
        }
        // complete: needed by build_sym_using_ms (`dset.into()` asserts it)
        assert forall|i: int, d: int| 0 <= i <= __set.dim && 1 <= d <= __set.size implies #[trigger] tbl(__set.op@, __set.dim as int, i, d) != 0 by {
            assert(__set.t(i as usize as int, d as usize as int) != 0);
        }
    }
    let ghost set_op = __set.op@;
    let ghost set_dim = __set.dim;
    let __m = |i: usize, d: usize| -> (mm: Option<usize>)
        requires ds.wf(), d >= 1, i < ds.sdim(), ds.sdim() < usize::MAX, ds.ssize() >= 1
        ensures mm == ds.sm(i as int, i + 1, src_of(d as int, ds.ssize()))
    { ds.m(i, i + 1, (d - 1) % ds.size() + 1) };
    let ghost mg = __m;
    let __r = build_sym_using_ms(__set, __m);
    proof {
        assert forall|i: int, d: int| 0 <= i <= ds.sdim() && 1 <= d <= n * ds.ssize() implies ({
            let e = #[trigger] __r.dset.t(i, d);
            1 <= e <= n * ds.ssize() && src_of(e, ds.ssize()) == bop(ds, i, src_of(d, ds.ssize()))
        }) by {
            assert(__r.dset.t(i, d) == tbl(set_op, set_dim as int, i, d));
        }
        // degrees: the closure computes the base degree of the chamber below
        assert(m_obeys(&mg, base_deg(ds), __r.dset.dim as int, __r.dset.size as int)) by {
            assert forall|i: usize, d: usize, r: Option<usize>| i < __r.dset.dim && 1 <= d <= __r.dset.size && #[trigger] mg.ensures((i, d), r)
                implies r == base_deg(ds)(i as int, d as int) by { }
        }
        lemma_cover_degrees(ds, &__r, &mg, n);
    }
    __r
}
//@ end

// ---------------------------------------------------------------------------------------------------------
// oriented_cover: the two-sheeted cover whose sheet map flips the sheet along edges that do not change orientation.
// NOT under contract (Traversal-based, outside the verifier): is_oriented, partial_orientation, as_partial_dsym.
// They are called through assumed free functions; the covering property proved below holds WHATEVER they return.
// ---------------------------------------------------------------------------------------------------------
//@ begin src/dsets.rs :: - :: enum Sign | props=C05
pub enum Sign {
    PLUS,
    MINUS,
    ZERO,
}
//@ end

// derived PartialEq / Copy (dropped with the derive attribute, R0)
impl vstd::std_specs::cmp::PartialEqSpecImpl for Sign {
    open spec fn obeys_eq_spec() -> bool { true }
    open spec fn eq_spec(&self, other: &Sign) -> bool { *self == *other }
}
impl PartialEq for Sign {
    #[verifier::external_body]
    fn eq(&self, other: &Self) -> (r: bool) { core::mem::discriminant(self) == core::mem::discriminant(other) }
}
impl Clone for Sign {
    #[verifier::external_body]
    fn clone(&self) -> (r: Self) ensures r == *self { match self { Sign::PLUS => Sign::PLUS, Sign::MINUS => Sign::MINUS, Sign::ZERO => Sign::ZERO } }
}
impl Copy for Sign {}

// C02 "weakly oriented": the test applied to one (index, chamber) against a given sign vector -- an i-edge between two different chambers
// that both carry a sign must carry different signs.  Default method no type overrides, emitted as a free function (R11).
pub open spec fn om_spec<S: DSet>(ds: &S, i: int, d: int, ori: Seq<Sign>) -> bool {
    match ds.sop(i, d) {
        Some(di) => di == d || ori[d] == Sign::ZERO || ori[di as int] != ori[d],
        None => true,
    }
}
//@ begin src/dsets.rs :: trait DSet: Sized :: fn orientations_match | props=C02,C05
//@ rw R11 /fn orientations_match\(&self, /pub fn orientations_match<S: DSet>(this: &S, /
//@ rw R11 /\bself\b/this/
//@ rw R16 /-> bool/-> (b: bool)/
//@ rw R2 /\bZERO\b/Sign::ZERO/
    pub fn orientations_match<S: DSet>(this: &S, i: usize, d: usize, ori: &Vec<Sign>) -> (b: bool)
    requires this.wf(), ori@.len() == this.ssize() + 1
    ensures b == om_spec(this, i as int, d as int, ori@)
    {
        proof { this.lemma_wf(); }
        if let Some(di) = this.op(i, d) {
            di == d || ori[d] == Sign::ZERO || ori[di] != ori[d]
        } else {
            true
        }
    }
//@ end

// partial_orientation (Traversal-based, outside the verifier): ASSUMED to return SOME sign vector that is a function of the D-set
pub uninterp spec fn po_spec<T: DSet>(ds: &T) -> Seq<Sign>;
#[verifier::external_body]
pub fn __partial_orientation<T: DSet>(ds: &T) -> (r: Vec<Sign>) requires ds.wf() ensures r@.len() == ds.ssize() + 1, r@ == po_spec(ds) { unimplemented!() }

pub open spec fn om_row<S: DSet>(ds: &S, i: int, ori: Seq<Sign>) -> bool {
    forall|d: int| 1 <= d <= ds.ssize() ==> #[trigger] om_spec(ds, i, d, ori)
}
// every edge passes the test against the partial orientation
pub open spec fn weakly_oriented<S: DSet>(ds: &S) -> bool {
    forall|i: int| 0 <= i <= ds.sdim() ==> #[trigger] om_row(ds, i, po_spec(ds))
}
//@ begin src/dsets.rs :: trait DSet: Sized :: fn is_weakly_oriented | props=C02,C05
//@ rw R11 /fn is_weakly_oriented\(&self\)/pub fn is_weakly_oriented<S: DSet>(this: &S)/
//@ rw R11 /\bself\b/this/
//@ rw R16 /-> bool/-> (r: bool)/
//@ rw R5 /this\.partial_orientation\(\)/__partial_orientation(this)/
//@ rw R11 /this\.orientations_match\(i, d, &ori\)/orientations_match(this, i, d, &ori)/
//@ rw R10+R14 /^([ \t]*)\(0\.\.=this\.dim\(\)\)\.all\(\|i\|\s*\(1\.\.=this\.size\(\)\)\.all\(\|d\|\s*(.*?)\n\s*\)\n\s*\)$/\1let __r = (0..(this.dim()) + 1).all(|i: usize| -> (b: bool)\n\1{\n\1let __b = (1..(this.size()) + 1).all(|d: usize| -> (c: bool)\n\1{ \2 }\n\1);\n\1__b\n\1});\n\1__r/s
    pub fn is_weakly_oriented<S: DSet>(this: &S) -> (r: bool)
    requires this.wf()
    ensures r == weakly_oriented(this)
    {
        proof { this.lemma_wf(); }
        let ori = __partial_orientation(this);

        let __r = (0..(this.dim()) + 1).all(|i: usize| -> (b: bool)
            requires i <= this.sdim(), this.wf(), this.ssize() < usize::MAX, ori@ == po_spec(this), ori@.len() == this.ssize() + 1
            ensures b == om_row(this, i as int, po_spec(this))
        {
        let __b = (1..(this.size()) + 1).all(|d: usize| -> (c: bool)
            requires this.wf(), ori@ == po_spec(this), ori@.len() == this.ssize() + 1
            ensures c == om_spec(this, i as int, d as int, po_spec(this))
        { orientations_match(this, i, d, &ori) }
        );
            proof {
                if __b {
                    assert forall|d: int| 1 <= d <= this.ssize() implies #[trigger] om_spec(this, i as int, d, po_spec(this)) by {
                        let rg = 1..((this.ssize() + 1) as usize);
                        assert(IteratorSpec::remaining(&rg)[d - 1] == d);
                    }
                }
            }
        __b
        });
        proof {
            if __r {
                assert forall|i: int| 0 <= i <= this.sdim() implies #[trigger] om_row(this, i, po_spec(this)) by {
                    let rg = 0..((this.sdim() + 1) as usize);
                    assert(IteratorSpec::remaining(&rg)[i] == i);
                }
            }
        }
        __r
    }
//@ end

// C02 "oriented": loopless and weakly oriented
//@ begin src/dsets.rs :: trait DSet: Sized :: fn is_oriented | props=C02,C05
//@ rw R11 /fn is_oriented\(&self\)/pub fn is_oriented<S: DSet>(this: &S)/
//@ rw R11 /\bself\b/this/
//@ rw R16 /-> bool/-> (r: bool)/
//@ rw R11 /this\.is_loopless\(\)/is_loopless(this)/
//@ rw R11 /this\.is_weakly_oriented\(\)/is_weakly_oriented(this)/
    pub fn is_oriented<S: DSet>(this: &S) -> (r: bool)
    requires this.wf()
    ensures r == (loop_free(this) && weakly_oriented(this))
    {
        is_loopless(this) && is_weakly_oriented(this)
    }
//@ end

proof fn lemma_xor1(k: usize)
    ensures (k ^ 1) ^ 1 == k, k < 2 ==> (k ^ 1) < 2, k ^ 1 != k
{
    assert((k ^ 1) ^ 1 == k) by(bit_vector);
    assert(k < 2 ==> (k ^ 1) < 2) by(bit_vector);
    assert(k ^ 1 != k) by(bit_vector);
}

proof fn lemma_xor1_inj(a: usize, b: usize)
    requires a ^ 1 == b ^ 1
    ensures a == b
{
    assert(a ^ 1 == b ^ 1 ==> a == b) by(bit_vector);
}

//@ begin src/derived.rs :: - :: fn oriented_cover | props=C05
//@ rw R16 /-> PartialDSym$/-> (res: PartialDSym)/
//@ rw R11 /ds\.is_oriented\(\)/is_oriented(ds)/
//@ rw R5 /ds\.partial_orientation\(\)/__partial_orientation(ds)/
//@ rw R14 /^([ \t]*)let sheet_map = \|k, i, d\| \{$/\1let sheet_map = |k: usize, i: usize, d: usize| -> (k2: usize)\n\1{/
pub fn oriented_cover<T: DSym>(ds: &T) -> (res: PartialDSym)
    requires ds.wf(), base_complete(ds), v_fits(ds),
        2 * ds.ssize() * (ds.sdim() + 1) <= usize::MAX, 2 * ds.ssize() < usize::MAX,
    // C05: either way the result covers the base, with one sheet or two, and has the degrees of the base
    ensures covers(&res, ds, 1) || covers(&res, ds, 2),
        cover_degrees(&res, ds),
{
    proof {
        lemma_bop(ds);
        assert(ds.ssize() * (ds.sdim() + 1) <= 2 * ds.ssize() * (ds.sdim() + 1)) by(nonlinear_arith) requires ds.ssize() >= 0, ds.sdim() >= 0;
    }
    if is_oriented(ds) {
        as_partial_dsym(ds)
    } else {
        let ori = __partial_orientation(ds);
        let sheet_map = |k: usize, i: usize, d: usize| -> (k2: usize)
            requires ds.wf(), base_complete(ds), i <= ds.sdim(), 1 <= d <= ds.ssize(), ori@.len() == ds.ssize() + 1,
            ensures k2 == (if ori@[d as int] == ori@[bop(ds, i as int, d as int)] { k ^ 1 } else { k })
        {
            proof { lemma_bop(ds); assert(1 <= bop(ds, i as int, d as int) <= ds.ssize()); }
            if ori[d] == ori[ds.op(i, d).unwrap()] { k ^ 1 } else { k }
        };
        proof {
            // the test `ori[d] == ori[op_i d]` is symmetric in d <-> op_i d, so flipping is an involution and injective
            assert(sm_functional(ds, &sheet_map, 2)) by {
                assert forall|k: usize, i: usize, c: usize, a: usize, b: usize| #![trigger sm_ens(&sheet_map, k, i, c, a), sm_ens(&sheet_map, k, i, c, b)]
                    k < 2 && i <= ds.sdim() && 1 <= c <= ds.ssize() && sm_ens(&sheet_map, k, i, c, a) && sm_ens(&sheet_map, k, i, c, b) implies a == b && a < 2 by {
                    lemma_xor1(k);
                }
            }
            assert(sm_involutive(ds, &sheet_map, 2)) by {
                assert forall|k: usize, i: usize, c: usize, k2: usize, k3: usize| #![trigger sm_ens(&sheet_map, k, i, c, k2), sm_ens(&sheet_map, k2, i, bop(ds, i as int, c as int) as usize, k3)]
                    k < 2 && i <= ds.sdim() && 1 <= c <= ds.ssize() && sm_ens(&sheet_map, k, i, c, k2)
                        && sm_ens(&sheet_map, k2, i, bop(ds, i as int, c as int) as usize, k3) implies k3 == k by {
                    lemma_xor1(k);
                    let c2 = bop(ds, i as int, c as int);
                    assert(bop(ds, i as int, c2) == c);
                }
            }
            assert(sm_injective(ds, &sheet_map, 2)) by {
                assert forall|ka: usize, kb: usize, i: usize, c: usize, k2: usize| #![trigger sm_ens(&sheet_map, ka, i, c, k2), sm_ens(&sheet_map, kb, i, c, k2)]
                    ka < 2 && kb < 2 && i <= ds.sdim() && 1 <= c <= ds.ssize() && sm_ens(&sheet_map, ka, i, c, k2) && sm_ens(&sheet_map, kb, i, c, k2) implies ka == kb by {
                    if ori@[c as int] == ori@[bop(ds, i as int, c as int)] { lemma_xor1_inj(ka, kb); }
                }
            }
            assert(sm_callable(ds, &sheet_map, 2));
        }
        cover(ds, 2, sheet_map)
    }
}
//@ end

// ---------------------------------------------------------------------------------------------------------
// C02: the default `DSet::r` (used by PartialDSet and SimpleDSet, which do not override it): "r(i,j,d) is the length of the orbit of d
// under the product of operations i and j", for every type that meets the DSet interface contract
// ---------------------------------------------------------------------------------------------------------
// one step of the product: operation i, then operation j
pub open spec fn step_ij<S: DSet>(ds: &S, i: int, j: int, x: Option<usize>) -> Option<usize> {
    match x { Some(e) => match ds.sop(i, e as int) { Some(ei) => ds.sop(j, ei as int), None => None }, None => None }
}
pub open spec fn iter_ij<S: DSet>(ds: &S, i: int, j: int, d: usize, k: nat) -> Option<usize>
    decreases k
{
    if k == 0 { Some(d) } else { step_ij(ds, i, j, iter_ij(ds, i, j, d, (k - 1) as nat)) }
}
// R5: `self.walk(e, [i, j])` is `[i, j].into_iter().fold(Some(e), |d, i| d.and_then(|d| self.op(i, d)))`: by its std semantics
#[verifier::external_body]
fn __walk2<S: DSet>(this: &S, e: usize, i: usize, j: usize) -> (r: Option<usize>)
    requires this.wf()
    ensures r == step_ij(this, i as int, j as int, Some(e))
{ unimplemented!() }

proof fn lemma_iter_ij_range<S: DSet>(ds: &S, i: int, j: int, d: usize, k: nat)
    requires ds.wf(), 1 <= d <= ds.ssize(), iter_ij(ds, i, j, d, k).is_some()
    ensures 1 <= iter_ij(ds, i, j, d, k).unwrap() <= ds.ssize()
{
    ds.lemma_wf();
    if k > 0 {
        let x = iter_ij(ds, i, j, d, (k - 1) as nat);
        assert(ds.sop(j, ds.sop(i, x.unwrap() as int).unwrap() as int).is_some());
    }
}

// the step is injective where it is defined (both operations are involutions)
proof fn lemma_step_ij_injective<S: DSet>(ds: &S, i: int, j: int, x: usize, y: usize)
    requires ds.wf(), step_ij(ds, i, j, Some(x)).is_some(), step_ij(ds, i, j, Some(x)) == step_ij(ds, i, j, Some(y))
    ensures x == y
{
    ds.lemma_wf();
    let xi = ds.sop(i, x as int).unwrap(); let yi = ds.sop(i, y as int).unwrap();
    assert(ds.sop(j, xi as int).is_some() && ds.sop(j, yi as int).is_some());
    assert(ds.sop(j, ds.sop(j, xi as int).unwrap() as int) == Some(xi));
    assert(ds.sop(j, ds.sop(j, yi as int).unwrap() as int) == Some(yi));
    assert(ds.sop(i, xi as int) == Some(x)); assert(ds.sop(i, yi as int) == Some(y));
}

proof fn lemma_iter_ij_cancel<S: DSet>(ds: &S, i: int, j: int, d: usize, a: nat, b: nat)
    requires ds.wf(), a <= b, iter_ij(ds, i, j, d, b).is_some(), iter_ij(ds, i, j, d, a) == iter_ij(ds, i, j, d, b)
    ensures iter_ij(ds, i, j, d, (b - a) as nat) == Some(d)
    decreases a
{
    if a > 0 {
        let xa = iter_ij(ds, i, j, d, (a - 1) as nat); let xb = iter_ij(ds, i, j, d, (b - 1) as nat);
        assert(xa.is_some() && xb.is_some());
        lemma_step_ij_injective(ds, i, j, xa.unwrap(), xb.unwrap());
        lemma_iter_ij_cancel(ds, i, j, d, (a - 1) as nat, (b - 1) as nat);
    }
}

// as long as the walk has not returned to d it visits pairwise different chambers: at most size - 1 steps
proof fn lemma_r_bound<S: DSet>(ds: &S, i: int, j: int, d: usize, n: nat)
    requires ds.wf(),
        forall|k: nat| 0 < k <= n ==> #[trigger] iter_ij(ds, i, j, d, k).is_some() && iter_ij(ds, i, j, d, k) != Some(d),
    ensures n + 1 <= ds.ssize()
{
    ds.lemma_wf();
    if n == 0 { return; }
    // one step is defined, so d is a chamber
    assert(iter_ij(ds, i, j, d, 1).is_some());
    assert(iter_ij(ds, i, j, d, 0) == Some(d));
    assert(ds.sop(i, d as int).is_some());
    let s = Seq::new(n + 1, |k: int| iter_ij(ds, i, j, d, k as nat).unwrap() as int);
    assert forall|k: int| 0 <= k < s.len() implies 1 <= #[trigger] s[k] <= ds.ssize() by {
        if k > 0 { assert(iter_ij(ds, i, j, d, k as nat).is_some()); }
        lemma_iter_ij_range(ds, i, j, d, k as nat);
    }
    assert forall|a: int, b: int| 0 <= a < b < s.len() implies s[a] != s[b] by {
        if s[a] == s[b] {
            assert(iter_ij(ds, i, j, d, b as nat).is_some());
            if a > 0 { assert(iter_ij(ds, i, j, d, a as nat).is_some()); }
            lemma_iter_ij_cancel(ds, i, j, d, a as nat, b as nat);
            assert(iter_ij(ds, i, j, d, (b - a) as nat) != Some(d));
        }
    }
    lemma_pigeon(s, ds.ssize());
}

//@ begin src/dsets.rs :: trait DSet: Sized :: fn r | props=C02
//@ rw R11 /fn r\(&self, i: usize, j: usize, d: usize\)/pub fn r<S: DSet>(this: &S, i: usize, j: usize, d: usize)/
//@ rw R11 /\bself\b/this/
//@ rw R16 /-> Option<usize>/-> (res: Option<usize>)/
//@ rw R12 /let mut r = 0;/let mut r: usize = 0;/
//@ rw R5 /this\.walk\(e, \[i, j\]\)/__walk2(this, e, i, j)/
#[verifier::spinoff_prover]
#[verifier::exec_allows_no_decreases_clause]
    pub fn r<S: DSet>(this: &S, i: usize, j: usize, d: usize) -> (res: Option<usize>)
    requires this.wf()
    ensures
        // out-of-range arguments give None rather than a panic
        (i > this.sdim() || j > this.sdim() || d < 1 || d > this.ssize()) ==> res.is_none(),
        // Some(r): r is the least positive number of steps of (operation i, then operation j) that leads from d back to d
        res.is_some() ==> res.unwrap() >= 1 && iter_ij(this, i as int, j as int, d, res.unwrap() as nat) == Some(d)
            && forall|k: nat| 0 < k < res.unwrap() ==> #[trigger] iter_ij(this, i as int, j as int, d, k).is_some() && iter_ij(this, i as int, j as int, d, k) != Some(d),
        // None for arguments in range: the walk leaves the defined part of the operations
        res.is_none() && i <= this.sdim() && j <= this.sdim() && 1 <= d <= this.ssize() ==> exists|k: nat| #[trigger] iter_ij(this, i as int, j as int, d, k).is_none(),
    {
        proof { this.lemma_wf(); }
        if i > this.dim() || j > this.dim() || d < 1 || d > this.size() {
            None
        } else {
            let mut e = d;
            let mut r: usize = 0;

            loop
                invariant this.wf(),
                    iter_ij(this, i as int, j as int, d, r as nat) == Some(e),
                    forall|k: nat| 0 < k <= r ==> #[trigger] iter_ij(this, i as int, j as int, d, k).is_some() && iter_ij(this, i as int, j as int, d, k) != Some(d),
            {
                if let Some(c) = __walk2(this, e, i, j) {
                    proof { this.lemma_wf(); assert(iter_ij(this, i as int, j as int, d, (r + 1) as nat) == Some(c)); lemma_r_bound(this, i as int, j as int, d, r as nat); }
                    e = c;
                    r += 1;
                    if e == d {
                        return Some(r);
                    }
                } else {
                    proof { assert(iter_ij(this, i as int, j as int, d, (r + 1) as nat).is_none()); }
                    return None;
                }
            }
        }
    }
//@ end

// ---------------------------------------------------------------------------------------------------------
// C04: fold / is_minimal (congruence closure over the union-find).
// Partition<usize> is imported from unit `partitions` (assumed HERE, proved THERE; clause lists compared mechanically).
// ---------------------------------------------------------------------------------------------------------
pub open spec fn united_u(r0: spec_fn(usize) -> usize, r1: spec_fn(usize) -> usize, a: usize, b: usize) -> bool {
    &&& forall|z: usize| #[trigger] r1(z) == (if r0(z) == r0(a) || r0(z) == r0(b) { r1(a) } else { r0(z) })
    &&& r1(a) == r1(b)
    &&& (r1(a) == r0(a) || r1(a) == r0(b))
}

#[verifier::external_body]
pub struct Partition { _p: usize }

impl Partition {
    pub uninterp spec fn erep(&self, x: usize) -> usize;

    //@@ import partitions :: impl<T> Partition<T> where T: Clone + Eq + Hash::new
    #[verifier::external_body]
    pub fn new() -> (r: Self)
        ensures forall|x: usize| #[trigger] r.erep(x) == x
    { unimplemented!() }

    //@@ import partitions :: impl<T> Partition<T> where T: Clone + Eq + Hash::find
    #[verifier::external_body]
    pub fn find(&self, x: &usize) -> (r: usize)
        ensures r == self.erep(*x), self.erep(r) == r
    { unimplemented!() }

    //@@ import partitions :: impl<T> Partition<T> where T: Clone + Eq + Hash::unite
    #[verifier::external_body]
    pub fn unite(&mut self, x: &usize, y: &usize)
        ensures united_u(|z: usize| old(self).erep(z), |z: usize| final(self).erep(z), *x, *y)
    { unimplemented!() }

    //@@ import partitions :: impl<T> Clone for Partition<T> where T: Clone::clone
    #[verifier::external_body]
    pub fn clone(&self) -> (r: Self)
        ensures forall|x: usize| #[trigger] r.erep(x) == self.erep(x)
    { unimplemented!() }
}

pub assume_specification<T, const N: usize>[<VecDeque<T> as From<[T; N]>>::from](a: [T; N]) -> (r: VecDeque<T>)
    ensures r@ == a@;

pub open spec fn repf(p: &Partition) -> spec_fn(usize) -> usize { |z: usize| p.erep(z) }
pub open spec fn same_r(r: spec_fn(usize) -> usize, x: usize, y: usize) -> bool { r(x) == r(y) }
pub open spec fn rng<S: DSet>(ds: &S, x: usize) -> bool { 1 <= x <= ds.ssize() }
pub open spec fn img<S: DSet>(ds: &S, i: int, x: usize) -> usize { ds.sop(i, x as int).unwrap() }

// equal degrees m(i, i+1) for all i: what degrees_match tests
pub open spec fn deg_eq<S: DSet>(ds: &S, x: usize, y: usize) -> bool {
    forall|i: int| 0 <= i < ds.sdim() ==> #[trigger] ds.sm(i, i + 1, x as int) == ds.sm(i, i + 1, y as int)
}

pub open spec fn cong_at<S: DSet>(ds: &S, r: spec_fn(usize) -> usize, x: usize, y: usize) -> bool {
    forall|i: int| 0 <= i <= ds.sdim() ==> r(#[trigger] img(ds, i, x)) == r(img(ds, i, y))
}

// the equivalence "same r-value" is compatible with every operation ...
pub open spec fn congruence<S: DSet>(ds: &S, r: spec_fn(usize) -> usize) -> bool {
    forall|x: usize, y: usize| rng(ds, x) && rng(ds, y) && #[trigger] same_r(r, x, y) ==> cong_at(ds, r, x, y)
}

// ... and identifies only chambers with equal degrees
pub open spec fn homogeneous<S: DSet>(ds: &S, r: spec_fn(usize) -> usize) -> bool {
    forall|x: usize, y: usize| rng(ds, x) && rng(ds, y) && #[trigger] same_r(r, x, y) ==> deg_eq(ds, x, y)
}

// representatives of chambers are chambers
pub open spec fn range_closed<S: DSet>(ds: &S, r: spec_fn(usize) -> usize) -> bool { forall|x: usize| rng(ds, x) ==> rng(ds, #[trigger] r(x)) }
pub open spec fn refines<S: DSet>(ds: &S, r0: spec_fn(usize) -> usize, r: spec_fn(usize) -> usize) -> bool {
    forall|x: usize, y: usize| rng(ds, x) && rng(ds, y) && #[trigger] same_r(r0, x, y) ==> r(x) == r(y)
}

// a degree-respecting congruence above r0 that identifies d and e
pub open spec fn good<S: DSet>(ds: &S, q: spec_fn(usize) -> usize, r0: spec_fn(usize) -> usize, d: usize, e: usize) -> bool {
    congruence(ds, q) && homogeneous(ds, q) && q(d) == q(e) && refines(ds, r0, q)
}

// connectivity generated over the base equivalence r0 by a history of identified pairs
pub open spec fn conn_from(r0: spec_fn(usize) -> usize, h: Seq<(usize, usize)>, x: usize, y: usize) -> bool
    decreases h.len()
{
    if h.len() == 0 { r0(x) == r0(y) }
    else {
        let p = h.drop_last();
        let a = h.last().0;
        let b = h.last().1;
        conn_from(r0, p, x, y) || (conn_from(r0, p, x, a) && conn_from(r0, p, y, b)) || (conn_from(r0, p, x, b) && conn_from(r0, p, y, a))
    }
}

pub open spec fn tracks_from(r0: spec_fn(usize) -> usize, r: spec_fn(usize) -> usize, h: Seq<(usize, usize)>) -> bool {
    forall|x: usize, y: usize| #[trigger] same_r(r, x, y) <==> conn_from(r0, h, x, y)
}

proof fn lemma_track_step(r0: spec_fn(usize) -> usize, ra: spec_fn(usize) -> usize, rb: spec_fn(usize) -> usize, h: Seq<(usize, usize)>, a: usize, b: usize)
    requires tracks_from(r0, ra, h), united_u(ra, rb, a, b)
    ensures tracks_from(r0, rb, h.push((a, b)))
{
    let h2 = h.push((a, b));
    assert(h2.drop_last() =~= h);
    assert(h2.last() == (a, b));
    assert forall|x: usize, y: usize| #[trigger] same_r(rb, x, y) <==> conn_from(r0, h2, x, y) by {
        assert(same_r(ra, x, y) <==> conn_from(r0, h, x, y));
        assert(same_r(ra, x, a) <==> conn_from(r0, h, x, a));
        assert(same_r(ra, y, b) <==> conn_from(r0, h, y, b));
        assert(same_r(ra, x, b) <==> conn_from(r0, h, x, b));
        assert(same_r(ra, y, a) <==> conn_from(r0, h, y, a));
        assert(rb(x) == (if ra(x) == ra(a) || ra(x) == ra(b) { rb(a) } else { ra(x) }));
        assert(rb(y) == (if ra(y) == ra(a) || ra(y) == ra(b) { rb(a) } else { ra(y) }));
    }
}

pub open spec fn links_ok<S: DSet>(ds: &S, rf: spec_fn(usize) -> usize, h: Seq<(usize, usize)>) -> bool {
    forall|k: int| 0 <= k < h.len() ==> rng(ds, (#[trigger] h[k]).0) && rng(ds, h[k].1) && cong_at(ds, rf, h[k].0, h[k].1) && deg_eq(ds, h[k].0, h[k].1)
}

proof fn lemma_img_rng<S: DSet>(ds: &S, i: int, x: usize)
    requires ds.wf(), base_complete(ds), rng(ds, x), 0 <= i <= ds.sdim()
    ensures rng(ds, img(ds, i, x)), ds.sop(i, x as int) == Some(img(ds, i, x))
{
    lemma_bop(ds);
    assert(1 <= bop(ds, i, x as int) <= ds.ssize());
}

// x ~ y in the closure  ==>  their images under every operation are identified by rf, provided the images of every generating
// pair are (induction over the history)
proof fn lemma_conn_cong<S: DSet>(ds: &S, r0: spec_fn(usize) -> usize, rf: spec_fn(usize) -> usize, h: Seq<(usize, usize)>, x: usize, y: usize)
    requires ds.wf(), base_complete(ds), congruence(ds, r0), refines(ds, r0, rf), links_ok(ds, rf, h), rng(ds, x), rng(ds, y), conn_from(r0, h, x, y)
    ensures cong_at(ds, rf, x, y)
    decreases h.len()
{
    if h.len() == 0 {
        assert(same_r(r0, x, y));
        assert(cong_at(ds, r0, x, y));
        assert forall|i: int| 0 <= i <= ds.sdim() implies rf(#[trigger] img(ds, i, x)) == rf(img(ds, i, y)) by {
            assert(r0(img(ds, i, x)) == r0(img(ds, i, y)));
            lemma_img_rng(ds, i, x); lemma_img_rng(ds, i, y);
            assert(same_r(r0, img(ds, i, x), img(ds, i, y)));
        }
    } else {
        let p = h.drop_last();
        let a = h.last().0;
        let b = h.last().1;
        assert(h[h.len() - 1] == (a, b));
        assert(rng(ds, a) && rng(ds, b) && cong_at(ds, rf, a, b));
        assert(links_ok(ds, rf, p)) by { assert forall|k: int| 0 <= k < p.len() implies rng(ds, (#[trigger] p[k]).0) && rng(ds, p[k].1) && cong_at(ds, rf, p[k].0, p[k].1) && deg_eq(ds, p[k].0, p[k].1) by { assert(p[k] == h[k]); } }
        if conn_from(r0, p, x, y) {
            lemma_conn_cong(ds, r0, rf, p, x, y);
        } else if conn_from(r0, p, x, a) && conn_from(r0, p, y, b) {
            lemma_conn_cong(ds, r0, rf, p, x, a);
            lemma_conn_cong(ds, r0, rf, p, y, b);
            assert forall|i: int| 0 <= i <= ds.sdim() implies rf(#[trigger] img(ds, i, x)) == rf(img(ds, i, y)) by {
                assert(rf(img(ds, i, x)) == rf(img(ds, i, a)));
                assert(rf(img(ds, i, y)) == rf(img(ds, i, b)));
                assert(rf(img(ds, i, a)) == rf(img(ds, i, b)));
            }
        } else {
            lemma_conn_cong(ds, r0, rf, p, x, b);
            lemma_conn_cong(ds, r0, rf, p, y, a);
            assert forall|i: int| 0 <= i <= ds.sdim() implies rf(#[trigger] img(ds, i, x)) == rf(img(ds, i, y)) by {
                assert(rf(img(ds, i, x)) == rf(img(ds, i, b)));
                assert(rf(img(ds, i, y)) == rf(img(ds, i, a)));
                assert(rf(img(ds, i, a)) == rf(img(ds, i, b)));
            }
        }
    }
}

proof fn lemma_conn_homog<S: DSet>(ds: &S, r0: spec_fn(usize) -> usize, rf: spec_fn(usize) -> usize, h: Seq<(usize, usize)>, x: usize, y: usize)
    requires homogeneous(ds, r0), links_ok(ds, rf, h), rng(ds, x), rng(ds, y), conn_from(r0, h, x, y)
    ensures deg_eq(ds, x, y)
    decreases h.len()
{
    if h.len() == 0 {
        assert(same_r(r0, x, y));
    } else {
        let p = h.drop_last();
        let a = h.last().0;
        let b = h.last().1;
        assert(h[h.len() - 1] == (a, b));
        assert(rng(ds, a) && rng(ds, b) && deg_eq(ds, a, b));
        assert(links_ok(ds, rf, p)) by { assert forall|k: int| 0 <= k < p.len() implies rng(ds, (#[trigger] p[k]).0) && rng(ds, p[k].1) && cong_at(ds, rf, p[k].0, p[k].1) && deg_eq(ds, p[k].0, p[k].1) by { assert(p[k] == h[k]); } }
        if conn_from(r0, p, x, y) {
            lemma_conn_homog(ds, r0, rf, p, x, y);
        } else if conn_from(r0, p, x, a) && conn_from(r0, p, y, b) {
            lemma_conn_homog(ds, r0, rf, p, x, a);
            lemma_conn_homog(ds, r0, rf, p, y, b);
            assert forall|i: int| 0 <= i < ds.sdim() implies #[trigger] ds.sm(i, i + 1, x as int) == ds.sm(i, i + 1, y as int) by {
                assert(ds.sm(i, i + 1, x as int) == ds.sm(i, i + 1, a as int));
                assert(ds.sm(i, i + 1, y as int) == ds.sm(i, i + 1, b as int));
                assert(ds.sm(i, i + 1, a as int) == ds.sm(i, i + 1, b as int));
            }
        } else {
            lemma_conn_homog(ds, r0, rf, p, x, b);
            lemma_conn_homog(ds, r0, rf, p, y, a);
            assert forall|i: int| 0 <= i < ds.sdim() implies #[trigger] ds.sm(i, i + 1, x as int) == ds.sm(i, i + 1, y as int) by {
                assert(ds.sm(i, i + 1, x as int) == ds.sm(i, i + 1, b as int));
                assert(ds.sm(i, i + 1, y as int) == ds.sm(i, i + 1, a as int));
                assert(ds.sm(i, i + 1, a as int) == ds.sm(i, i + 1, b as int));
            }
        }
    }
}

pub open spec fn in_q(q: Seq<(usize, usize)>, x: usize, y: usize) -> bool {
    exists|k: int| 0 <= k < q.len() && #[trigger] q[k] == (x, y)
}

// every listed pair consists of chambers with matching degrees
pub open spec fn pairs_ok<S: DSet>(ds: &S, s: Seq<(usize, usize)>) -> bool {
    forall|k: int| 0 <= k < s.len() ==> rng(ds, (#[trigger] s[k]).0) && rng(ds, s[k].1) && deg_eq(ds, s[k].0, s[k].1)
}

pub open spec fn q_ident(q: spec_fn(usize) -> usize, s: Seq<(usize, usize)>) -> bool {
    forall|k: int| 0 <= k < s.len() ==> q((#[trigger] s[k]).0) == q(s[k].1)
}

// the i-images of the pair (x, y) are already identified, or waiting in the queue
pub open spec fn coq<S: DSet>(ds: &S, rf: spec_fn(usize) -> usize, queue: Seq<(usize, usize)>, x: usize, y: usize, i: int) -> bool {
    same_r(rf, img(ds, i, x), img(ds, i, y)) || in_q(queue, img(ds, i, x), img(ds, i, y))
}

// ... for every pair of the history (for the last one only for the operations below `upto`); `extra` is the pair just taken from the queue
pub open spec fn closed_or_queued<S: DSet>(ds: &S, rf: spec_fn(usize) -> usize, queue: Seq<(usize, usize)>, h: Seq<(usize, usize)>, upto: int, extra: Option<(usize, usize)>) -> bool {
    forall|k: int, j: int| 0 <= k < h.len() && 0 <= j <= ds.sdim() && (k < h.len() - 1 || j < upto) ==>
        #[trigger] coq(ds, rf, queue, h[k].0, h[k].1, j) || extra == Some((img(ds, j, h[k].0), img(ds, j, h[k].1)))
}

// every degree-respecting congruence above r0 that identifies d0 and e0 also identifies every pair seen so far (completeness)
pub open spec fn complete_inv<S: DSet>(ds: &S, r0: spec_fn(usize) -> usize, d0: usize, e0: usize, h: Seq<(usize, usize)>, queue: Seq<(usize, usize)>) -> bool {
    forall|q: spec_fn(usize) -> usize| #[trigger] good(ds, q, r0, d0, e0) ==> q_ident(q, h) && q_ident(q, queue)
}

pub open spec fn is_tail(qb: Seq<(usize, usize)>, qa: Seq<(usize, usize)>) -> bool {
    qb.len() > 0 && qa.len() == qb.len() - 1 && forall|t: int| 0 <= t < qa.len() ==> #[trigger] qa[t] == qb[t + 1]
}

proof fn lemma_conn_base(r0: spec_fn(usize) -> usize, h: Seq<(usize, usize)>, x: usize, y: usize)
    requires r0(x) == r0(y)
    ensures conn_from(r0, h, x, y)
    decreases h.len()
{
    if h.len() > 0 { lemma_conn_base(r0, h.drop_last(), x, y); }
}

proof fn lemma_pop<S: DSet>(ds: &S, rf: spec_fn(usize) -> usize, qb: Seq<(usize, usize)>, qa: Seq<(usize, usize)>, h: Seq<(usize, usize)>, d: usize, e: usize)
    requires is_tail(qb, qa), qb[0] == (d, e), closed_or_queued(ds, rf, qb, h, ds.sdim() + 1, None)
    ensures closed_or_queued(ds, rf, qa, h, ds.sdim() + 1, Some((d, e)))
{
    assert forall|k: int, j: int| 0 <= k < h.len() && 0 <= j <= ds.sdim() implies
        #[trigger] coq(ds, rf, qa, h[k].0, h[k].1, j) || Some((d, e)) == Some((img(ds, j, h[k].0), img(ds, j, h[k].1))) by {
        let x = img(ds, j, h[k].0);
        let y = img(ds, j, h[k].1);
        assert(coq(ds, rf, qb, h[k].0, h[k].1, j));
        if !same_r(rf, x, y) {
            let t = choose|t: int| 0 <= t < qb.len() && #[trigger] qb[t] == (x, y);
            if t > 0 { assert(qa[t - 1] == qb[t]); assert(in_q(qa, x, y)); }
        }
    }
}

// the popped pair was already identified: nothing changes
proof fn lemma_skip<S: DSet>(ds: &S, rf: spec_fn(usize) -> usize, qa: Seq<(usize, usize)>, h: Seq<(usize, usize)>, d: usize, e: usize)
    requires closed_or_queued(ds, rf, qa, h, ds.sdim() + 1, Some((d, e))), rf(d) == rf(e)
    ensures closed_or_queued(ds, rf, qa, h, ds.sdim() + 1, None)
{
    assert forall|k: int, j: int| 0 <= k < h.len() && 0 <= j <= ds.sdim() implies #[trigger] coq(ds, rf, qa, h[k].0, h[k].1, j) by {
        assert(coq(ds, rf, qa, h[k].0, h[k].1, j) || Some((d, e)) == Some((img(ds, j, h[k].0), img(ds, j, h[k].1))));
    }
}

// the popped pair is united and appended to the history
proof fn lemma_unite_step<S: DSet>(ds: &S, ra: spec_fn(usize) -> usize, rb: spec_fn(usize) -> usize, qa: Seq<(usize, usize)>, h: Seq<(usize, usize)>, d: usize, e: usize)
    requires closed_or_queued(ds, ra, qa, h, ds.sdim() + 1, Some((d, e))), united_u(ra, rb, d, e)
    ensures closed_or_queued(ds, rb, qa, h.push((d, e)), 0, None)
{
    let h2 = h.push((d, e));
    assert forall|k: int, j: int| 0 <= k < h2.len() - 1 && 0 <= j <= ds.sdim() implies #[trigger] coq(ds, rb, qa, h2[k].0, h2[k].1, j) by {
        assert(h2[k] == h[k]);
        let x = img(ds, j, h[k].0);
        let y = img(ds, j, h[k].1);
        assert(coq(ds, ra, qa, h[k].0, h[k].1, j) || Some((d, e)) == Some((x, y)));
        assert(rb(x) == (if ra(x) == ra(d) || ra(x) == ra(e) { rb(d) } else { ra(x) }));
        assert(rb(y) == (if ra(y) == ra(d) || ra(y) == ra(e) { rb(d) } else { ra(y) }));
        assert(rb(d) == (if ra(d) == ra(d) || ra(d) == ra(e) { rb(d) } else { ra(d) }));
        assert(rb(e) == (if ra(e) == ra(d) || ra(e) == ra(e) { rb(d) } else { ra(e) }));
    }
}

proof fn lemma_queue_push<S: DSet>(ds: &S, rf: spec_fn(usize) -> usize, qi: Seq<(usize, usize)>, h: Seq<(usize, usize)>, i: int, d: usize, e: usize)
    requires h.len() > 0, h.last() == (d, e), 0 <= i <= ds.sdim(), closed_or_queued(ds, rf, qi, h, i, None)
    ensures closed_or_queued(ds, rf, qi.push((img(ds, i, d), img(ds, i, e))), h, i + 1, None)
{
    let qn = qi.push((img(ds, i, d), img(ds, i, e)));
    assert forall|k: int, j: int| 0 <= k < h.len() && 0 <= j <= ds.sdim() && (k < h.len() - 1 || j < i + 1) implies #[trigger] coq(ds, rf, qn, h[k].0, h[k].1, j) by {
        let x = img(ds, j, h[k].0);
        let y = img(ds, j, h[k].1);
        if k == h.len() - 1 && j == i {
            assert(qn[qi.len() as int] == (x, y));
            assert(in_q(qn, x, y));
        } else {
            assert(coq(ds, rf, qi, h[k].0, h[k].1, j));
            if !same_r(rf, x, y) {
                let t = choose|t: int| 0 <= t < qi.len() && #[trigger] qi[t] == (x, y);
                assert(qn[t] == (x, y));
                assert(in_q(qn, x, y));
            }
        }
    }
}

proof fn lemma_ci_pop<S: DSet>(ds: &S, r0: spec_fn(usize) -> usize, d0: usize, e0: usize, h: Seq<(usize, usize)>, qb: Seq<(usize, usize)>, qa: Seq<(usize, usize)>, d: usize, e: usize)
    requires is_tail(qb, qa), qb[0] == (d, e), complete_inv(ds, r0, d0, e0, h, qb)
    ensures complete_inv(ds, r0, d0, e0, h, qa), complete_inv(ds, r0, d0, e0, h.push((d, e)), qa)
{
    let h2 = h.push((d, e));
    assert forall|q: spec_fn(usize) -> usize| #[trigger] good(ds, q, r0, d0, e0) implies q_ident(q, h) && q_ident(q, qa) && q_ident(q, h2) by {
        assert(q_ident(q, qb));
        assert(q(qb[0].0) == q(qb[0].1));
        assert forall|k: int| 0 <= k < qa.len() implies q((#[trigger] qa[k]).0) == q(qa[k].1) by { assert(qa[k] == qb[k + 1]); }
        assert forall|k: int| 0 <= k < h2.len() implies q((#[trigger] h2[k]).0) == q(h2[k].1) by { if k < h.len() { assert(h2[k] == h[k]); } }
    }
}

// a degree-respecting congruence that identifies (d, e) identifies their images, which therefore have equal degrees
proof fn lemma_good_images<S: DSet>(ds: &S, r0: spec_fn(usize) -> usize, d0: usize, e0: usize, q: spec_fn(usize) -> usize, d: usize, e: usize, i: int)
    requires ds.wf(), base_complete(ds), good(ds, q, r0, d0, e0), q(d) == q(e), rng(ds, d), rng(ds, e), 0 <= i <= ds.sdim()
    ensures q(img(ds, i, d)) == q(img(ds, i, e)), deg_eq(ds, img(ds, i, d), img(ds, i, e))
{
    assert(same_r(q, d, e));
    assert(cong_at(ds, q, d, e));
    lemma_img_rng(ds, i, d);
    lemma_img_rng(ds, i, e);
    assert(same_r(q, img(ds, i, d), img(ds, i, e)));
}

proof fn lemma_ci_push<S: DSet>(ds: &S, r0: spec_fn(usize) -> usize, d0: usize, e0: usize, h: Seq<(usize, usize)>, qi: Seq<(usize, usize)>, d: usize, e: usize, i: int)
    requires ds.wf(), base_complete(ds), h.len() > 0, h.last() == (d, e), rng(ds, d), rng(ds, e), 0 <= i <= ds.sdim(), complete_inv(ds, r0, d0, e0, h, qi)
    ensures complete_inv(ds, r0, d0, e0, h, qi.push((img(ds, i, d), img(ds, i, e))))
{
    let qn = qi.push((img(ds, i, d), img(ds, i, e)));
    assert forall|q: spec_fn(usize) -> usize| #[trigger] good(ds, q, r0, d0, e0) implies q_ident(q, qn) by {
        assert(q_ident(q, h));
        assert(q(h[h.len() - 1].0) == q(h[h.len() - 1].1));
        lemma_good_images(ds, r0, d0, e0, q, d, e, i);
        assert forall|k: int| 0 <= k < qn.len() implies q((#[trigger] qn[k]).0) == q(qn[k].1) by { if k < qi.len() { assert(qn[k] == qi[k]); } }
    }
}

// images with different degrees: no degree-respecting congruence can identify d0 and e0
proof fn lemma_ci_none<S: DSet>(ds: &S, r0: spec_fn(usize) -> usize, d0: usize, e0: usize, h: Seq<(usize, usize)>, qi: Seq<(usize, usize)>, d: usize, e: usize, i: int)
    requires ds.wf(), base_complete(ds), h.len() > 0, h.last() == (d, e), rng(ds, d), rng(ds, e), 0 <= i <= ds.sdim(), complete_inv(ds, r0, d0, e0, h, qi),
        !deg_eq(ds, img(ds, i, d), img(ds, i, e))
    ensures forall|q: spec_fn(usize) -> usize| !#[trigger] good(ds, q, r0, d0, e0)
{
    assert forall|q: spec_fn(usize) -> usize| !#[trigger] good(ds, q, r0, d0, e0) by {
        if good(ds, q, r0, d0, e0) {
            assert(q_ident(q, h));
            assert(q(h[h.len() - 1].0) == q(h[h.len() - 1].1));
            lemma_good_images(ds, r0, d0, e0, q, d, e, i);
        }
    }
}

// when the queue has run empty, the partition is a degree-respecting congruence
proof fn lemma_fold_result<S: DSet>(ds: &S, r0: spec_fn(usize) -> usize, rf: spec_fn(usize) -> usize, h: Seq<(usize, usize)>, d0: usize, e0: usize)
    requires ds.wf(), base_complete(ds), congruence(ds, r0), homogeneous(ds, r0), tracks_from(r0, rf, h), pairs_ok(ds, h),
        closed_or_queued(ds, rf, Seq::<(usize, usize)>::empty(), h, ds.sdim() + 1, None), conn_from(r0, h, d0, e0)
    ensures good(ds, rf, r0, d0, e0)
{
    let emp = Seq::<(usize, usize)>::empty();
    assert forall|x: usize, y: usize| #[trigger] same_r(r0, x, y) implies rf(x) == rf(y) by {
        lemma_conn_base(r0, h, x, y);
        assert(same_r(rf, x, y) <==> conn_from(r0, h, x, y));
    }
    assert(refines(ds, r0, rf));
    assert forall|k: int| 0 <= k < h.len() implies rng(ds, (#[trigger] h[k]).0) && rng(ds, h[k].1) && cong_at(ds, rf, h[k].0, h[k].1) && deg_eq(ds, h[k].0, h[k].1) by {
        assert forall|j: int| 0 <= j <= ds.sdim() implies rf(#[trigger] img(ds, j, h[k].0)) == rf(img(ds, j, h[k].1)) by {
            assert(coq(ds, rf, emp, h[k].0, h[k].1, j));
        }
    }
    assert(links_ok(ds, rf, h));
    assert forall|x: usize, y: usize| rng(ds, x) && rng(ds, y) && #[trigger] same_r(rf, x, y) implies cong_at(ds, rf, x, y) && deg_eq(ds, x, y) by {
        assert(same_r(rf, x, y) <==> conn_from(r0, h, x, y));
        lemma_conn_cong(ds, r0, rf, h, x, y);
        lemma_conn_homog(ds, r0, rf, h, x, y);
    }
    assert(same_r(rf, d0, e0) <==> conn_from(r0, h, d0, e0));
}

pub open spec fn id_r() -> spec_fn(usize) -> usize { |z: usize| z }

// C04: some degree-respecting congruence identifies chamber 1 with chamber d (the symbol has a quotient merging the two)
pub open spec fn foldable<S: DSet>(ds: &S, d: usize) -> bool {
    exists|q: spec_fn(usize) -> usize| #[trigger] good(ds, q, id_r(), 1, d)
}

//@ begin src/dsets.rs :: trait DSet: Sized :: fn fold | props=C04
//@ rw R4 /Partition<usize>/Partition/
//@ rw R11 /fn fold\(&self, p0: &Partition, d: usize, e: usize\)/pub fn fold<S: DSet>(this: &S, p0: &Partition, d: usize, e: usize)/
//@ rw R11 /\bself\b/this/
//@ rw R16 /-> Option<Partition>/-> (res: Option<Partition>)/
//@ rw R10 /for i in 0\.\.=this\.dim\(\)$/for i in 0..(this.dim()) + 1/
#[verifier::spinoff_prover]
#[verifier::loop_isolation(false)]
#[verifier::allow_complex_invariants]
#[verifier::exec_allows_no_decreases_clause]
    pub fn fold<S: DSet>(this: &S, p0: &Partition, d: usize, e: usize)
        -> (res: Option<Partition>)
    requires this.wf(), base_complete(this), rng(this, d), rng(this, e),
        // p0 is itself a degree-respecting congruence (is_minimal starts from the identity, minimal_image from earlier results)
        congruence(this, repf(p0)), homogeneous(this, repf(p0)),
    ensures
        // Some(p): p is a degree-respecting congruence above p0 that identifies d and e
        res.is_some() ==> good(this, repf(&res.unwrap()), repf(p0), d, e),
        res.is_some() && range_closed(this, repf(p0)) ==> range_closed(this, repf(&res.unwrap())),
        // None: no such congruence exists at all
        res.is_none() ==> forall|q: spec_fn(usize) -> usize| !#[trigger] good(this, q, repf(p0), d, e),
    {
        proof { this.lemma_wf(); lemma_bop(this); }
        let ghost r0 = repf(p0);
        let ghost d0 = d;
        let ghost e0 = e;
        if d == 0 || e == 0 || !this.degrees_match(d, e) {
            proof {
                assert forall|q: spec_fn(usize) -> usize| !#[trigger] good(this, q, r0, d0, e0) by {
                    if good(this, q, r0, d0, e0) { assert(same_r(q, d0, e0)); }
                }
            }
            None
        } else {
            let mut queue = VecDeque::from([(d, e)]);
            let mut p = p0.clone();
            let ghost mut h: Seq<(usize, usize)> = Seq::empty();
            let ghost mut qg: Seq<(usize, usize)> = queue@;
            proof {
                assert(queue@[0] == (d0, e0));
                assert(in_q(queue@, d0, e0));
                assert(tracks_from(r0, repf(&p), h));
                if range_closed(this, r0) {
                    let rp = repf(&p);
                    assert forall|x: usize| rng(this, x) implies rng(this, #[trigger] rp(x)) by { assert(rp(x) == r0(x)); }
                }
                assert(complete_inv(this, r0, d0, e0, h, queue@)) by {
                    assert forall|q: spec_fn(usize) -> usize| #[trigger] good(this, q, r0, d0, e0) implies q_ident(q, h) && q_ident(q, queue@) by { }
                }
            }

            while let Some((d, e)) = queue.pop_front()
                invariant
                    this.wf(), base_complete(this), rng(this, d0), rng(this, e0),
                    r0 == repf(p0), congruence(this, r0), homogeneous(this, r0),
                    tracks_from(r0, repf(&p), h),
                    pairs_ok(this, h), pairs_ok(this, queue@),
                    closed_or_queued(this, repf(&p), queue@, h, this.sdim() + 1, None),
                    complete_inv(this, r0, d0, e0, h, queue@),
                    conn_from(r0, h, d0, e0) || in_q(queue@, d0, e0),
                    qg == queue@,
                    range_closed(this, r0) ==> range_closed(this, repf(&p)),
                ensures
                    queue@.len() == 0,
            {
                proof {
                    this.lemma_wf(); lemma_bop(this);
                    assert(qg[0] == (d, e));
                    assert(is_tail(qg, queue@));
                    lemma_pop(this, repf(&p), qg, queue@, h, d, e);
                    lemma_ci_pop(this, r0, d0, e0, h, qg, queue@, d, e);
                    assert(pairs_ok(this, queue@)) by { assert forall|k: int| 0 <= k < queue@.len() implies rng(this, (#[trigger] queue@[k]).0) && rng(this, queue@[k].1) && deg_eq(this, queue@[k].0, queue@[k].1) by { assert(queue@[k] == qg[k + 1]); } }
                    assert(conn_from(r0, h, d0, e0) || in_q(queue@, d0, e0) || (d0, e0) == (d, e)) by {
                        if !conn_from(r0, h, d0, e0) {
                            let t = choose|t: int| 0 <= t < qg.len() && #[trigger] qg[t] == (d0, e0);
                            if t > 0 { assert(queue@[t - 1] == qg[t]); }
                        }
                    }
                }
                proof {
                    // the pair is already identified: the `if` below is skipped and nothing changes
                    if repf(&p)(d) == repf(&p)(e) {
                        lemma_skip(this, repf(&p), queue@, h, d, e);
                        if (d0, e0) == (d, e) { assert(same_r(repf(&p), d, e) <==> conn_from(r0, h, d, e)); }
                    }
                }
                if p.find(&d) != p.find(&e) {
                    let ghost ra = repf(&p);
                    let ghost hb = h;
                    p.unite(&d, &e);
                    proof {
                        h = hb.push((d, e));
                        assert(united_u(ra, repf(&p), d, e));
                        lemma_track_step(r0, ra, repf(&p), hb, d, e);
                        if range_closed(this, r0) {
                            let rb = repf(&p);
                            assert forall|x: usize| rng(this, x) implies rng(this, #[trigger] rb(x)) by {
                                assert(rb(x) == (if ra(x) == ra(d) || ra(x) == ra(e) { rb(d) } else { ra(x) }));
                                assert(rng(this, ra(x)) && rng(this, ra(d)) && rng(this, ra(e)));
                            }
                        }
                        lemma_unite_step(this, ra, repf(&p), queue@, hb, d, e);
                        assert(h.drop_last() =~= hb);
                        assert(pairs_ok(this, h)) by { assert forall|k: int| 0 <= k < h.len() implies rng(this, (#[trigger] h[k]).0) && rng(this, h[k].1) && deg_eq(this, h[k].0, h[k].1) by { if k < hb.len() { assert(h[k] == hb[k]); } } }
                        assert(conn_from(r0, h, d0, e0) || in_q(queue@, d0, e0)) by {
                            if (d0, e0) == (d, e) { lemma_conn_base(r0, hb, d, d); lemma_conn_base(r0, hb, e, e); }
                        }
                    }

                    for i in 0..(this.dim()) + 1
                        invariant
                            this.wf(), base_complete(this), rng(this, d0), rng(this, e0), rng(this, d), rng(this, e),
                            r0 == repf(p0), congruence(this, r0), homogeneous(this, r0),
                            h.len() > 0, h.last() == (d, e),
                            tracks_from(r0, repf(&p), h),
                            pairs_ok(this, h), pairs_ok(this, queue@),
                            range_closed(this, r0) ==> range_closed(this, repf(&p)),
                            closed_or_queued(this, repf(&p), queue@, h, i as int, None),
                            complete_inv(this, r0, d0, e0, h, queue@),
                            conn_from(r0, h, d0, e0) || in_q(queue@, d0, e0),
                    {
                        proof { this.lemma_wf(); lemma_bop(this); lemma_img_rng(this, i as int, d); lemma_img_rng(this, i as int, e); }
                        let ghost qi = queue@;
                        if let Some(di) = this.op(i, d) {
                            if let Some(ei) = this.op(i, e) {
                                if this.degrees_match(di, ei) {
                                    queue.push_back((di, ei));
                                    proof {
                                        lemma_queue_push(this, repf(&p), qi, h, i as int, d, e);
                                        lemma_ci_push(this, r0, d0, e0, h, qi, d, e, i as int);
                                        assert(pairs_ok(this, queue@)) by { assert forall|k: int| 0 <= k < queue@.len() implies rng(this, (#[trigger] queue@[k]).0) && rng(this, queue@[k].1) && deg_eq(this, queue@[k].0, queue@[k].1) by { if k < qi.len() { assert(queue@[k] == qi[k]); } } }
                                        if in_q(qi, d0, e0) {
                                            let t = choose|t: int| 0 <= t < qi.len() && #[trigger] qi[t] == (d0, e0);
                                            assert(queue@[t] == (d0, e0));
                                        }
                                    }
                                } else {
                                    proof { lemma_ci_none(this, r0, d0, e0, h, qi, d, e, i as int); }
                                    return None;
                                }
                            }
                        }
                    }
                }
                proof { qg = queue@; }
            }

            proof {
                assert(queue@ =~= Seq::<(usize, usize)>::empty());
                lemma_fold_result(this, r0, repf(&p), h, d0, e0);
            }
            Some(p)
        }
    }
//@ end

// ---- C04: "the minimality test is true exactly when the coarsest degree-respecting congruence is the identity" (connected symbols)
pub open spec fn path_ok<S: DSet>(ds: &S, p: Seq<int>) -> bool { forall|k: int| 0 <= k < p.len() ==> 0 <= #[trigger] p[k] <= ds.sdim() }
pub open spec fn walk<S: DSet>(ds: &S, p: Seq<int>, x: usize) -> usize
    decreases p.len()
{
    if p.len() == 0 { x } else { img(ds, p.last(), walk(ds, p.drop_last(), x)) }
}
// every chamber is reached from chamber 1 by a sequence of operations
pub open spec fn connected_from_1<S: DSet>(ds: &S) -> bool {
    forall|y: usize| rng(ds, y) ==> exists|p: Seq<int>| path_ok(ds, p) && #[trigger] walk(ds, p, 1) == y
}
// the only degree-respecting congruence is the identity
pub open spec fn only_trivial_congruence<S: DSet>(ds: &S) -> bool {
    forall|q: spec_fn(usize) -> usize, x: usize, y: usize| congruence(ds, q) && homogeneous(ds, q) && rng(ds, x) && rng(ds, y) && #[trigger] same_r(q, x, y) ==> x == y
}

proof fn lemma_walk_rng<S: DSet>(ds: &S, p: Seq<int>, x: usize)
    requires ds.wf(), base_complete(ds), path_ok(ds, p), rng(ds, x)
    ensures rng(ds, walk(ds, p, x))
    decreases p.len()
{
    if p.len() > 0 {
        lemma_walk_rng(ds, p.drop_last(), x);
        assert(0 <= p[p.len() - 1] <= ds.sdim());
        lemma_img_rng(ds, p.last(), walk(ds, p.drop_last(), x));
    }
}

proof fn lemma_img_involution<S: DSet>(ds: &S, i: int, x: usize)
    requires ds.wf(), base_complete(ds), rng(ds, x), 0 <= i <= ds.sdim()
    ensures img(ds, i, img(ds, i, x)) == x, rng(ds, img(ds, i, x))
{
    lemma_bop(ds);
    assert(1 <= bop(ds, i, x as int) <= ds.ssize() && bop(ds, i, bop(ds, i, x as int)) == x);
}

// a congruence that identifies two different chambers pulls back, along a path from chamber 1, to one that identifies chamber 1 with another chamber
proof fn lemma_pull_back<S: DSet>(ds: &S, q: spec_fn(usize) -> usize, p: Seq<int>, y: usize) -> (z: usize)
    requires ds.wf(), base_complete(ds), congruence(ds, q), path_ok(ds, p), rng(ds, y), q(walk(ds, p, 1)) == q(y)
    ensures rng(ds, z), q(1) == q(z), z == 1 ==> y == walk(ds, p, 1), walk(ds, p, z) == y
    decreases p.len()
{
    lemma_bop(ds);
    if p.len() == 0 {
        y
    } else {
        let p1 = p.drop_last();
        let i = p.last();
        assert(0 <= p[p.len() - 1] <= ds.sdim());
        let x1 = walk(ds, p1, 1);
        assert(path_ok(ds, p1)) by { assert forall|k: int| 0 <= k < p1.len() implies 0 <= #[trigger] p1[k] <= ds.sdim() by { assert(p1[k] == p[k]); } }
        lemma_walk_rng(ds, p1, 1);
        let x = img(ds, i, x1);
        lemma_img_involution(ds, i, x1);
        let y1 = img(ds, i, y);
        lemma_img_involution(ds, i, y);
        assert(same_r(q, x, y));
        assert(cong_at(ds, q, x, y));
        assert(q(img(ds, i, x)) == q(img(ds, i, y)));
        let z = lemma_pull_back(ds, q, p1, y1);
        assert(img(ds, i, y1) == y);
        if z == 1 {
            assert(y1 == x1);
        }
        assert(walk(ds, p, z) == img(ds, i, walk(ds, p1, z)));
        z
    }
}

proof fn lemma_minimal_iff_only_trivial<S: DSet>(ds: &S)
    requires ds.wf(), base_complete(ds), connected_from_1(ds)
    ensures (forall|d: usize| 2 <= d <= ds.ssize() ==> !#[trigger] foldable(ds, d)) <==> only_trivial_congruence(ds)
{
    lemma_bop(ds);
    if forall|d: usize| 2 <= d <= ds.ssize() ==> !#[trigger] foldable(ds, d) {
        assert forall|q: spec_fn(usize) -> usize, x: usize, y: usize| congruence(ds, q) && homogeneous(ds, q) && rng(ds, x) && rng(ds, y) && #[trigger] same_r(q, x, y) implies x == y by {
            if x != y {
                let p = choose|p: Seq<int>| path_ok(ds, p) && #[trigger] walk(ds, p, 1) == x;
                let z = lemma_pull_back(ds, q, p, y);
                assert(z != 1);
                assert(refines(ds, id_r(), q));
                assert(good(ds, q, id_r(), 1, z));
                assert(foldable(ds, z));
            }
        }
    }
    if only_trivial_congruence(ds) {
        assert forall|d: usize| 2 <= d <= ds.ssize() implies !#[trigger] foldable(ds, d) by {
            if foldable(ds, d) {
                let q = choose|q: spec_fn(usize) -> usize| #[trigger] good(ds, q, id_r(), 1, d);
                assert(same_r(q, 1, d));
            }
        }
    }
}

//@ begin src/dsets.rs :: trait DSet: Sized :: fn is_minimal | props=C04
//@ rw R11 /fn is_minimal\(&self\)/pub fn is_minimal<S: DSet>(this: &S)/
//@ rw R11 /\bself\b/this/
//@ rw R11 /this\.fold\(/fold(this, /
//@ rw R16 /-> bool/-> (b: bool)/
//@ rw R10 /\(2\.\.=this\.size\(\)\)/(2..(this.size()) + 1)/
//@ rw R14 /^([ \t]*)(\(2\.\.\(this\.size\(\)\) \+ 1\)\.all\()\|d\| (.*)\.is_none\(\)\)$/\1let __b = \2|d: usize| -> (c: bool)\n\1{\n\1    let __f = \3;\n\1    __f.is_none()\n\1});\n\1__b/
#[verifier::spinoff_prover]
    pub fn is_minimal<S: DSet>(this: &S) -> (b: bool)
    requires this.wf(), base_complete(this)
    // true exactly when no chamber other than 1 itself can be merged with chamber 1 by a degree-respecting congruence
    ensures b == (forall|d: usize| 2 <= d <= this.ssize() ==> !#[trigger] foldable(this, d)),
        // C04 "the minimality test is true exactly when [the number of classes of the coarsest degree-respecting congruence] equals the
        // symbol's size", i.e. when the only such congruence is the identity (for a symbol every chamber of which is reached from chamber 1)
        connected_from_1(this) ==> b == only_trivial_congruence(this),
    {
        proof { this.lemma_wf(); lemma_bop(this); }
        let p = Partition::new();
        proof {
            assert forall|x: usize, y: usize| rng(this, x) && rng(this, y) && #[trigger] same_r(repf(&p), x, y) implies cong_at(this, repf(&p), x, y) && deg_eq(this, x, y) by { }
        }
        let __b = (2..(this.size()) + 1).all(|d: usize| -> (c: bool)
            requires 2 <= d <= this.ssize(), this.wf(), base_complete(this), congruence(this, repf(&p)), homogeneous(this, repf(&p)),
                forall|z: usize| #[trigger] p.erep(z) == z
            ensures c == !foldable(this, d)
        {
            let __f = fold(this, &p, 1, d);
            proof {
                assert forall|q: spec_fn(usize) -> usize| #[trigger] good(this, q, repf(&p), 1, d) <==> good(this, q, id_r(), 1, d) by {
                    assert(refines(this, repf(&p), q));
                    assert(refines(this, id_r(), q));
                }
                if __f.is_some() {
                    assert(good(this, repf(&__f.unwrap()), repf(&p), 1, d));
                    assert(good(this, repf(&__f.unwrap()), id_r(), 1, d));
                    assert(foldable(this, d));
                } else {
                    assert forall|q: spec_fn(usize) -> usize| !#[trigger] good(this, q, id_r(), 1, d) by {
                        assert(!good(this, q, repf(&p), 1, d));
                    }
                    assert(!foldable(this, d));
                }
            }
            __f.is_none()
        });
        proof {
            if __b {
                assert forall|d: usize| 2 <= d <= this.ssize() implies !#[trigger] foldable(this, d) by {
                    let rg = 2..((this.ssize() + 1) as usize);
                    assert(IteratorSpec::remaining(&rg)[d - 2] == d);
                }
            }
            if connected_from_1(this) { lemma_minimal_iff_only_trivial(this); }
        }
        __b
    }
//@ end

// ---------------------------------------------------------------------------------------------------------
// C04: the join of two degree-respecting congruences is one (needed for "coarsest"): x and y are joined when a chain of chambers leads
// from x to y in which consecutive chambers are identified by q or by r
// ---------------------------------------------------------------------------------------------------------
pub open spec fn jlink<S: DSet>(ds: &S, q: spec_fn(usize) -> usize, r: spec_fn(usize) -> usize, z: usize, y: usize) -> bool {
    rng(ds, z) && rng(ds, y) && (q(z) == q(y) || r(z) == r(y))
}
pub open spec fn jchain<S: DSet>(ds: &S, q: spec_fn(usize) -> usize, r: spec_fn(usize) -> usize, x: usize, y: usize, n: nat) -> bool
    decreases n
{
    if n == 0 { x == y } else { exists|z: usize| jchain(ds, q, r, x, z, (n - 1) as nat) && #[trigger] jlink(ds, q, r, z, y) }
}
pub open spec fn joined<S: DSet>(ds: &S, q: spec_fn(usize) -> usize, r: spec_fn(usize) -> usize, x: usize, y: usize) -> bool {
    exists|n: nat| #[trigger] jchain(ds, q, r, x, y, n)
}
pub open spec fn jleast<S: DSet>(ds: &S, q: spec_fn(usize) -> usize, r: spec_fn(usize) -> usize, x: usize, y: usize) -> bool {
    joined(ds, q, r, x, y) && forall|y2: usize| #[trigger] joined(ds, q, r, x, y2) ==> y <= y2
}
// representative function of the join: the least chamber joined to x
pub open spec fn jrep<S: DSet>(ds: &S, q: spec_fn(usize) -> usize, r: spec_fn(usize) -> usize) -> spec_fn(usize) -> usize {
    |x: usize| choose|y: usize| jleast(ds, q, r, x, y)
}

proof fn lemma_jchain_rng<S: DSet>(ds: &S, q: spec_fn(usize) -> usize, r: spec_fn(usize) -> usize, x: usize, y: usize, n: nat)
    requires jchain(ds, q, r, x, y, n), rng(ds, x)
    ensures rng(ds, y)
{
    if n > 0 { let z = choose|z: usize| jchain(ds, q, r, x, z, (n - 1) as nat) && #[trigger] jlink(ds, q, r, z, y); }
}

// prepend a link
proof fn lemma_jchain_cons<S: DSet>(ds: &S, q: spec_fn(usize) -> usize, r: spec_fn(usize) -> usize, x: usize, z: usize, y: usize, n: nat)
    requires jlink(ds, q, r, x, z), jchain(ds, q, r, z, y, n)
    ensures jchain(ds, q, r, x, y, n + 1)
    decreases n
{
    if n == 0 {
        assert(jchain(ds, q, r, x, x, 0));
        assert(jlink(ds, q, r, x, y));
    } else {
        let w = choose|w: usize| jchain(ds, q, r, z, w, (n - 1) as nat) && #[trigger] jlink(ds, q, r, w, y);
        lemma_jchain_cons(ds, q, r, x, z, w, (n - 1) as nat);
        assert(jchain(ds, q, r, x, w, n) && jlink(ds, q, r, w, y));
    }
}

proof fn lemma_jchain_sym<S: DSet>(ds: &S, q: spec_fn(usize) -> usize, r: spec_fn(usize) -> usize, x: usize, y: usize, n: nat)
    requires jchain(ds, q, r, x, y, n)
    ensures jchain(ds, q, r, y, x, n)
    decreases n
{
    if n > 0 {
        let z = choose|z: usize| jchain(ds, q, r, x, z, (n - 1) as nat) && #[trigger] jlink(ds, q, r, z, y);
        lemma_jchain_sym(ds, q, r, x, z, (n - 1) as nat);
        assert(jlink(ds, q, r, y, z));
        lemma_jchain_cons(ds, q, r, y, z, x, (n - 1) as nat);
    }
}

proof fn lemma_jchain_trans<S: DSet>(ds: &S, q: spec_fn(usize) -> usize, r: spec_fn(usize) -> usize, x: usize, y: usize, z: usize, n: nat, m: nat)
    requires jchain(ds, q, r, x, y, n), jchain(ds, q, r, y, z, m)
    ensures jchain(ds, q, r, x, z, n + m)
    decreases m
{
    if m > 0 {
        let w = choose|w: usize| jchain(ds, q, r, y, w, (m - 1) as nat) && #[trigger] jlink(ds, q, r, w, z);
        lemma_jchain_trans(ds, q, r, x, y, w, n, (m - 1) as nat);
        assert(jchain(ds, q, r, x, w, (n + m - 1) as nat) && jlink(ds, q, r, w, z));
    }
}

proof fn lemma_joined_equiv<S: DSet>(ds: &S, q: spec_fn(usize) -> usize, r: spec_fn(usize) -> usize, x: usize, y: usize, z: usize)
    ensures joined(ds, q, r, x, x),
        joined(ds, q, r, x, y) ==> joined(ds, q, r, y, x),
        joined(ds, q, r, x, y) && joined(ds, q, r, y, z) ==> joined(ds, q, r, x, z),
{
    assert(jchain(ds, q, r, x, x, 0));
    if joined(ds, q, r, x, y) {
        let n = choose|n: nat| #[trigger] jchain(ds, q, r, x, y, n);
        lemma_jchain_sym(ds, q, r, x, y, n);
        if joined(ds, q, r, y, z) {
            let m = choose|m: nat| #[trigger] jchain(ds, q, r, y, z, m);
            lemma_jchain_trans(ds, q, r, x, y, z, n, m);
        }
    }
}

// well-ordering: a non-empty set of numbers has a least element
proof fn lemma_least<S: DSet>(ds: &S, q: spec_fn(usize) -> usize, r: spec_fn(usize) -> usize, x: usize, w: usize)
    requires joined(ds, q, r, x, w)
    ensures exists|y: usize| jleast(ds, q, r, x, y)
    decreases w
{
    if exists|w2: usize| w2 < w && #[trigger] joined(ds, q, r, x, w2) {
        let w2 = choose|w2: usize| w2 < w && #[trigger] joined(ds, q, r, x, w2);
        lemma_least(ds, q, r, x, w2);
    } else {
        assert(jleast(ds, q, r, x, w));
    }
}

// same representative <==> joined
proof fn lemma_jrep<S: DSet>(ds: &S, q: spec_fn(usize) -> usize, r: spec_fn(usize) -> usize, x: usize, y: usize)
    ensures (jrep(ds, q, r)(x) == jrep(ds, q, r)(y)) <==> joined(ds, q, r, x, y), joined(ds, q, r, x, jrep(ds, q, r)(x))
{
    lemma_joined_equiv(ds, q, r, x, x, x); lemma_joined_equiv(ds, q, r, y, y, y);
    lemma_least(ds, q, r, x, x); lemma_least(ds, q, r, y, y);
    let mx = jrep(ds, q, r)(x); let my = jrep(ds, q, r)(y);
    assert(jleast(ds, q, r, x, mx) && jleast(ds, q, r, y, my));
    if joined(ds, q, r, x, y) {
        lemma_joined_equiv(ds, q, r, x, y, my);
        lemma_joined_equiv(ds, q, r, x, y, y);
        lemma_joined_equiv(ds, q, r, y, x, mx);
        assert(joined(ds, q, r, x, my) && joined(ds, q, r, y, mx));
    }
    if mx == my {
        lemma_joined_equiv(ds, q, r, y, my, my);
        lemma_joined_equiv(ds, q, r, x, mx, y);
    }
}

// chains are carried along every operation, and keep the degrees
proof fn lemma_jchain_cong<S: DSet>(ds: &S, q: spec_fn(usize) -> usize, r: spec_fn(usize) -> usize, x: usize, y: usize, n: nat, i: int)
    requires ds.wf(), base_complete(ds), congruence(ds, q), congruence(ds, r), homogeneous(ds, q), homogeneous(ds, r),
        rng(ds, x), jchain(ds, q, r, x, y, n), 0 <= i <= ds.sdim()
    ensures jchain(ds, q, r, img(ds, i, x), img(ds, i, y), n), deg_eq(ds, x, y), rng(ds, y)
    decreases n
{
    lemma_img_rng(ds, i, x);
    if n > 0 {
        let z = choose|z: usize| jchain(ds, q, r, x, z, (n - 1) as nat) && #[trigger] jlink(ds, q, r, z, y);
        lemma_jchain_cong(ds, q, r, x, z, (n - 1) as nat, i);
        lemma_img_rng(ds, i, z); lemma_img_rng(ds, i, y);
        if q(z) == q(y) { assert(same_r(q, z, y)); assert(cong_at(ds, q, z, y)); } else { assert(same_r(r, z, y)); assert(cong_at(ds, r, z, y)); }
        assert(jlink(ds, q, r, img(ds, i, z), img(ds, i, y)));
        assert forall|k: int| 0 <= k < ds.sdim() implies #[trigger] ds.sm(k, k + 1, x as int) == ds.sm(k, k + 1, y as int) by {
            assert(ds.sm(k, k + 1, x as int) == ds.sm(k, k + 1, z as int));
            assert(ds.sm(k, k + 1, z as int) == ds.sm(k, k + 1, y as int));
        }
    }
}

// THE JOIN IS A DEGREE-RESPECTING CONGRUENCE above both
proof fn lemma_join_good<S: DSet>(ds: &S, q: spec_fn(usize) -> usize, r: spec_fn(usize) -> usize)
    requires ds.wf(), base_complete(ds), congruence(ds, q), congruence(ds, r), homogeneous(ds, q), homogeneous(ds, r)
    ensures congruence(ds, jrep(ds, q, r)), homogeneous(ds, jrep(ds, q, r)), refines(ds, q, jrep(ds, q, r)), refines(ds, r, jrep(ds, q, r))
{
    let j = jrep(ds, q, r);
    ds.lemma_wf();
    assert forall|x: usize, y: usize| rng(ds, x) && rng(ds, y) && #[trigger] same_r(j, x, y) implies cong_at(ds, j, x, y) && deg_eq(ds, x, y) by {
        lemma_jrep(ds, q, r, x, y);
        let n = choose|n: nat| #[trigger] jchain(ds, q, r, x, y, n);
        lemma_jchain_cong(ds, q, r, x, y, n, 0);
        assert forall|i: int| 0 <= i <= ds.sdim() implies j(#[trigger] img(ds, i, x)) == j(img(ds, i, y)) by {
            lemma_jchain_cong(ds, q, r, x, y, n, i);
            lemma_jrep(ds, q, r, img(ds, i, x), img(ds, i, y));
        }
    }
    assert forall|x: usize, y: usize| rng(ds, x) && rng(ds, y) && #[trigger] same_r(q, x, y) implies j(x) == j(y) by {
        assert(jchain(ds, q, r, x, x, 0)); assert(jlink(ds, q, r, x, y)); assert(jchain(ds, q, r, x, y, 1));
        lemma_jrep(ds, q, r, x, y);
    }
    assert forall|x: usize, y: usize| rng(ds, x) && rng(ds, y) && #[trigger] same_r(r, x, y) implies j(x) == j(y) by {
        assert(jchain(ds, q, r, x, x, 0)); assert(jlink(ds, q, r, x, y)); assert(jchain(ds, q, r, x, y, 1));
        lemma_jrep(ds, q, r, x, y);
    }
}

// ---------------------------------------------------------------------------------------------------------
// C04: minimal_image -- "a symbol onto which the input maps by a chamber map that commutes with all operations", whose fibres are
// the classes of a degree-respecting congruence.  (That this congruence is the COARSEST one, and the degrees of the image, are decided
// by the bounded stand-in only.)
// ---------------------------------------------------------------------------------------------------------
// q is a degree-respecting congruence
pub open spec fn dr<S: DSet>(ds: &S, q: spec_fn(usize) -> usize) -> bool { congruence(ds, q) && homogeneous(ds, q) }
// whatever any degree-respecting congruence merges with chamber 1 among the chambers below `upto`, acc merges too
pub open spec fn below1<S: DSet>(ds: &S, acc: spec_fn(usize) -> usize, upto: int) -> bool {
    forall|q: spec_fn(usize) -> usize, d: usize| #![trigger dr(ds, q), same_r(q, 1, d)] dr(ds, q) && 2 <= d < upto && d <= ds.ssize() && same_r(q, 1, d) ==> acc(1) == acc(d)
}
// acc is the coarsest degree-respecting congruence: every other one refines it
pub open spec fn coarsest<S: DSet>(ds: &S, acc: spec_fn(usize) -> usize) -> bool {
    forall|q: spec_fn(usize) -> usize, x: usize, y: usize| #![trigger dr(ds, q), same_r(q, x, y)] dr(ds, q) && rng(ds, x) && rng(ds, y) && same_r(q, x, y) ==> acc(x) == acc(y)
}
pub open spec fn mi_inv<S: DSet>(ds: &S, acc: &Partition, upto: int) -> bool {
    congruence(ds, repf(acc)) && homogeneous(ds, repf(acc)) && range_closed(ds, repf(acc)) && below1(ds, repf(acc), upto)
}

proof fn lemma_walk_cong<S: DSet>(ds: &S, r: spec_fn(usize) -> usize, p: Seq<int>, a: usize, b: usize)
    requires ds.wf(), base_complete(ds), congruence(ds, r), path_ok(ds, p), rng(ds, a), rng(ds, b), r(a) == r(b)
    ensures r(walk(ds, p, a)) == r(walk(ds, p, b)), rng(ds, walk(ds, p, a)), rng(ds, walk(ds, p, b))
    decreases p.len()
{
    if p.len() > 0 {
        let p1 = p.drop_last();
        assert(path_ok(ds, p1)) by { assert forall|k: int| 0 <= k < p1.len() implies 0 <= #[trigger] p1[k] <= ds.sdim() by { assert(p1[k] == p[k]); } }
        lemma_walk_cong(ds, r, p1, a, b);
        let a1 = walk(ds, p1, a); let b1 = walk(ds, p1, b);
        assert(0 <= p[p.len() - 1] <= ds.sdim());
        assert(same_r(r, a1, b1));
        assert(cong_at(ds, r, a1, b1));
        lemma_img_rng(ds, p.last(), a1); lemma_img_rng(ds, p.last(), b1);
        assert(r(img(ds, p.last(), a1)) == r(img(ds, p.last(), b1)));
    }
}

// for a symbol connected from chamber 1: merging with chamber 1 everything any congruence merges with chamber 1 makes a congruence coarsest
proof fn lemma_coarsest<S: DSet>(ds: &S, acc: spec_fn(usize) -> usize)
    requires ds.wf(), base_complete(ds), connected_from_1(ds), congruence(ds, acc), below1(ds, acc, ds.ssize() + 1)
    ensures coarsest(ds, acc)
{
    lemma_bop(ds);
    assert forall|q: spec_fn(usize) -> usize, x: usize, y: usize| #![trigger dr(ds, q), same_r(q, x, y)] dr(ds, q) && rng(ds, x) && rng(ds, y) && same_r(q, x, y) implies acc(x) == acc(y) by {
        let p = choose|p: Seq<int>| path_ok(ds, p) && #[trigger] walk(ds, p, 1) == x;
        let z = lemma_pull_back(ds, q, p, y);
        if z != 1 {
            assert(same_r(q, 1, z));
            assert(acc(1) == acc(z));
            lemma_walk_cong(ds, acc, p, 1, z);
        }
    }
}

// one step of minimal_image's fold over the chambers: the closure re-establishes the invariant one chamber further
proof fn lemma_mi_step<S: DSet>(ds: &S, p: &Partition, d: usize, f: Option<Partition>)
    requires ds.wf(), base_complete(ds), 2 <= d <= ds.ssize(), mi_inv(ds, p, d as int),
        f.is_some() ==> good(ds, repf(&f.unwrap()), repf(p), 1, d),
        f.is_some() ==> range_closed(ds, repf(&f.unwrap())),
        f.is_none() ==> forall|q: spec_fn(usize) -> usize| !#[trigger] good(ds, q, repf(p), 1, d),
    ensures mi_inv(ds, if f.is_some() { &f.unwrap() } else { p }, d + 1)
{
    let r = repf(p);
    if f.is_some() {
        let r2 = repf(&f.unwrap());
        assert forall|q: spec_fn(usize) -> usize, d2: usize| #![trigger dr(ds, q), same_r(q, 1, d2)] dr(ds, q) && 2 <= d2 < d + 1 && d2 <= ds.ssize() && same_r(q, 1, d2) implies r2(1) == r2(d2) by {
            if d2 < d { assert(r(1) == r(d2)); assert(same_r(r, 1, d2)); assert(rng(ds, 1) && rng(ds, d2)); }
        }
    } else {
        assert forall|q: spec_fn(usize) -> usize, d2: usize| #![trigger dr(ds, q), same_r(q, 1, d2)] dr(ds, q) && 2 <= d2 < d + 1 && d2 <= ds.ssize() && same_r(q, 1, d2) implies r(1) == r(d2) by {
            if d2 == d {
                // the join of q and the accumulated congruence would be a congruence above it that merges 1 and d: fold would have found it
                lemma_join_good(ds, q, r);
                let j = jrep(ds, q, r);
                assert(rng(ds, 1) && rng(ds, d));
                assert(j(1) == j(d));
                assert(good(ds, j, r, 1, d));
            }
        }
    }
}
// R5: `(lo..=hi).fold(init, f)` by its std semantics, in the form of an invariant rule (inv holds for init, every call of f on an
// accumulator satisfying inv is allowed and re-establishes inv: then inv holds for the result)
#[verifier::external_body]
fn __fold_partitions<S: DSet, F: Fn(Partition, usize) -> Partition>(Ghost(ds): Ghost<&S>, lo: usize, hi: usize, init: Partition, f: F) -> (r: Partition)
    requires lo <= hi + 1, mi_inv(ds, &init, lo as int),
        forall|acc: Partition, d: usize| lo <= d <= hi && mi_inv(ds, &acc, d as int) ==> #[trigger] f.requires((acc, d)),
        forall|acc: Partition, d: usize, out: Partition| lo <= d <= hi && mi_inv(ds, &acc, d as int) && #[trigger] f.ensures((acc, d), out) ==> mi_inv(ds, &out, d + 1),
    ensures mi_inv(ds, &r, hi + 1)
{ (lo..=hi).fold(init, f) }

// f is a quotient map of ds onto res: onto, commutes with every operation, and its fibres are the classes of a degree-respecting congruence
pub open spec fn quotient_map<S: DSet>(ds: &S, res: &PartialDSym, f: Seq<usize>) -> bool {
    &&& f.len() == ds.ssize() + 1 && res.dset.dim == ds.sdim()
    &&& forall|d: int| 1 <= d <= ds.ssize() ==> 1 <= #[trigger] f[d] <= res.dset.size
    &&& forall|k: int| #[trigger] is_image(res, k) ==> exists|d: int| 1 <= d <= ds.ssize() && #[trigger] f[d] == k
    &&& forall|i: int, d: int| 0 <= i <= ds.sdim() && 1 <= d <= ds.ssize() ==> #[trigger] res.dset.t(i, f[d] as int) == f[bop(ds, i, d)]
    &&& forall|x: usize, y: usize| rng(ds, x) && rng(ds, y) && #[trigger] f[x as int] == #[trigger] f[y as int] ==> deg_eq(ds, x, y)
}

pub open spec fn is_image(res: &PartialDSym, k: int) -> bool { 1 <= k <= res.dset.size }
// no degree-respecting congruence of ds separates less than f does: f is the quotient by the coarsest one
pub open spec fn smallest_quotient<S: DSet>(ds: &S, f: Seq<usize>) -> bool {
    forall|q: spec_fn(usize) -> usize, x: usize, y: usize| #![trigger dr(ds, q), same_r(q, x, y)] dr(ds, q) && rng(ds, x) && rng(ds, y) && same_r(q, x, y) ==> f[x as int] == f[y as int]
}
// C04: f maps ds onto res commuting with every operation, with the classes of a degree-respecting congruence as fibres; for a symbol
// connected from chamber 1 it is the coarsest one, so that res is the smallest quotient of that kind
pub open spec fn mi_post<S: DSet>(ds: &S, res: &PartialDSym, f: Seq<usize>) -> bool {
    quotient_map(ds, res, f) && mi_degrees(ds, res, f) && (connected_from_1(ds) ==> smallest_quotient(ds, f))
}
// degrees of the image: m(i,i+1) of the image of d is r * (m_ds(d) / r) with r the orbit length in the image, hence m_ds(d) whenever
// r divides it
pub open spec fn mi_degrees<S: DSet>(ds: &S, res: &PartialDSym, f: Seq<usize>) -> bool {
    forall|i: int, d: int| 0 <= i < ds.sdim() && 1 <= d <= ds.ssize() ==> #[trigger] deg_proj(res, ds.sm(i, i + 1, d), i, f[d] as int)
}
pub open spec fn mi_deg<S: DSet>(ds: &S, i2s: Seq<usize>) -> spec_fn(int, int) -> Option<usize> {
    |i: int, k: int| ds.sm(i, i + 1, i2s[k] as int)
}
proof fn lemma_mi_degrees<S: DSet, F: Fn(usize, usize) -> Option<usize>>(ds: &S, c: &PartialDSym, m: &F, f: Seq<usize>, i2s: Seq<usize>)
    requires ds.wf(), base_complete(ds), c.inv(), quotient_map(ds, c, f),
        forall|k: int| 1 <= k <= c.dset.size ==> 1 <= #[trigger] i2s[k] <= ds.ssize() && f[i2s[k] as int] == k,
        m_obeys(m, mi_deg(ds, i2s), c.dset.dim as int, c.dset.size as int),
        forall|mf: spec_fn(int, int) -> Option<usize>| #[trigger] m_hyp(m, &c.dset, mf) ==>
            degs_upto(c.dset.size as int, c.orbit_index@, c.orbit_rs@, c.orbit_vs@, mf, true, c.dset.dim as int),
    ensures mi_degrees(ds, c, f)
{
    let mf = mi_deg(ds, i2s);
    lemma_bop(ds);
    ds.lemma_m_orbit();
    assert(m_class(&c.dset, mf)) by {
        assert forall|i: int, k: int| 0 <= i < c.dset.dim && 1 <= k <= c.dset.size implies
            mf(i, c.dset.t(i, k)) == #[trigger] mf(i, k) && mf(i, c.dset.t(i + 1, k)) == mf(i, k) by {
            let x = i2s[k] as int;
            assert(f[x] == k);
            assert(ds.sop(i, x).is_some() && ds.sop(i + 1, x).is_some());
            let x1 = bop(ds, i, x);
            let k1 = c.dset.t(i, k);
            assert(c.dset.t(i, f[x] as int) == f[x1]);
            let y1 = i2s[k1] as int;
            assert(1 <= f[x1] <= c.dset.size);
            assert(f[y1] == f[x1]);
            assert(rng(ds, y1 as usize) && rng(ds, x1 as usize));
            assert(deg_eq(ds, y1 as usize, x1 as usize));
            assert(ds.sm(i, i + 1, y1) == ds.sm(i, i + 1, x1));
            let x2 = bop(ds, i + 1, x);
            let k2 = c.dset.t(i + 1, k);
            assert(c.dset.t(i + 1, f[x] as int) == f[x2]);
            let y2 = i2s[k2] as int;
            assert(1 <= f[x2] <= c.dset.size);
            assert(f[y2] == f[x2]);
            assert(rng(ds, y2 as usize) && rng(ds, x2 as usize));
            assert(deg_eq(ds, y2 as usize, x2 as usize));
            assert(ds.sm(i, i + 1, y2) == ds.sm(i, i + 1, x2));
        }
    }
    assert(m_hyp(m, &c.dset, mf));
    assert(degs_upto(c.dset.size as int, c.orbit_index@, c.orbit_rs@, c.orbit_vs@, mf, true, c.dset.dim as int));
    assert forall|i: int, d: int| 0 <= i < ds.sdim() && 1 <= d <= ds.ssize() implies #[trigger] deg_proj(c, ds.sm(i, i + 1, d), i, f[d] as int) by {
        let k = f[d] as int;
        assert(1 <= k <= c.dset.size);
        assert(deg_at(c.orbit_index@, c.orbit_rs@, c.orbit_vs@, mf, true, i, k));
        lemma_deg_proj(c, mf, i, k);
        let y = i2s[k] as int;
        assert(f[y] == f[d]);
        assert(rng(ds, y as usize) && rng(ds, d as usize));
        assert(deg_eq(ds, y as usize, d as usize));
    }
}
// the numbering loop of minimal_image: classes are numbered 1, 2, ... in the order of their first members
pub open spec fn mi_numbering<S: DSet>(ds: &S, p: &Partition, s2i: Seq<usize>, i2s: Seq<usize>, next: int, upto: int) -> bool {
    &&& s2i.len() == ds.ssize() + 1 && i2s.len() == ds.ssize() + 1 && 1 <= next <= upto
    // an assigned chamber has the number of its class, whose representative is recorded
    &&& forall|e: int| 1 <= e <= ds.ssize() && #[trigger] s2i[e] != 0 ==> 1 <= s2i[e] < next && i2s[s2i[e] as int] == p.erep(e as usize)
    // every number in use belongs to a representative that carries it
    &&& forall|k: int| 1 <= k < next ==> 1 <= #[trigger] i2s[k] <= ds.ssize() && p.erep(i2s[k]) == i2s[k] && s2i[i2s[k] as int] == k
    // the chambers below `upto` are assigned
    &&& forall|j: int| 1 <= j < upto ==> #[trigger] s2i[j] != 0 && s2i[p.erep(j as usize) as int] == s2i[j]
}

// the image of d' under operation i leads back: op'(i, op'(i, d')) == d' in the quotient numbering
proof fn lemma_mi_back<S: DSet>(ds: &S, p: &Partition, f: Seq<usize>, i2s: Seq<usize>, nn: int, i: int, d: int)
    requires ds.wf(), base_complete(ds), congruence(ds, repf(p)), mi_numbering(ds, p, f, i2s, nn + 1, ds.ssize() + 1), 0 <= i <= ds.sdim(), 1 <= d <= nn
    ensures ({
        let e = f[bop(ds, i, i2s[d] as int)] as int;
        1 <= e <= nn && f[bop(ds, i, i2s[e] as int)] == d
    })
{
    lemma_bop(ds);
    let x = i2s[d] as int;
    assert(1 <= x <= ds.ssize() && f[x] == d);
    let y = bop(ds, i, x);
    assert(1 <= y <= ds.ssize() && bop(ds, i, y) == x);
    assert(f[y] != 0);
    let e = f[y] as int;
    let y2 = i2s[e] as int;          // the representative of y
    assert(y2 == p.erep(y as usize));
    assert(1 <= y2 <= ds.ssize() && p.erep(y2 as usize) == y2);
    assert(same_r(repf(p), y2 as usize, y as usize));
    assert(cong_at(ds, repf(p), y2 as usize, y as usize));
    assert(img(ds, i, y2 as usize) == bop(ds, i, y2));
    assert(img(ds, i, y as usize) == bop(ds, i, y));
    let z = bop(ds, i, y2);
    assert(1 <= z <= ds.ssize());
    assert(p.erep(z as usize) == p.erep(x as usize));
    assert(f[p.erep(z as usize) as int] == f[z]);
    assert(f[p.erep(x as usize) as int] == f[x]);
}

// the numbering commutes with every operation
proof fn lemma_mi_commutes<S: DSet>(ds: &S, p: &Partition, f: Seq<usize>, i2s: Seq<usize>, nn: int, i: int, d: int)
    requires ds.wf(), base_complete(ds), congruence(ds, repf(p)), mi_numbering(ds, p, f, i2s, nn + 1, ds.ssize() + 1), 0 <= i <= ds.sdim(), 1 <= d <= ds.ssize()
    ensures 1 <= f[d] <= nn, f[bop(ds, i, i2s[f[d] as int] as int)] == f[bop(ds, i, d)]
{
    lemma_bop(ds);
    assert(f[d] != 0);
    let d2 = i2s[f[d] as int] as int;      // the representative of d
    assert(d2 == p.erep(d as usize));
    assert(1 <= d2 <= ds.ssize() && p.erep(d2 as usize) == d2);
    assert(same_r(repf(p), d2 as usize, d as usize));
    assert(cong_at(ds, repf(p), d2 as usize, d as usize));
    assert(img(ds, i, d2 as usize) == bop(ds, i, d2));
    assert(img(ds, i, d as usize) == bop(ds, i, d));
    let z2 = bop(ds, i, d2); let z = bop(ds, i, d);
    assert(1 <= z2 <= ds.ssize() && 1 <= z <= ds.ssize());
    assert(f[p.erep(z2 as usize) as int] == f[z2]);
    assert(f[p.erep(z as usize) as int] == f[z]);
}

//@ begin src/derived.rs :: - :: fn minimal_image | props=C04
//@ rw R16 /-> PartialDSym$/-> (res: PartialDSym)/
//@ rw R11 /ds\.is_minimal\(\)/is_minimal(ds)/
//@ rw R14 /^([ \t]*)as_partial_dsym\(ds\)$/\1let __c = as_partial_dsym(ds);\n\1__c/
//@ rw R5+R14 /^([ \t]*)let p = \(2\.\.=ds\.size\(\)\)\n[ \t]*\.fold\(Partition::new\(\), \|p, d\| ds\.fold\(&p, 1, d\)\.unwrap_or\(p\)\);/\1let __init = Partition::new();\n\1let p = __fold_partitions::<T, _>(Ghost(ds), 2, ds.size(), __init, |p: Partition, d: usize| -> (q: Partition)\n\1{\n\1    let __f = fold(ds, &p, 1, d);\n\1    __f.unwrap_or(p)\n\1});/
//@ rw R12 /let mut next = 1;/let mut next: usize = 1;/
//@ rw R10 /for d in 1\.\.=ds\.size\(\)$/for d in 1..(ds.size()) + 1/
//@ rw R14 /^([ \t]*)build_sym_using_ms\(\n[ \t]*build_set\(\n[ \t]*next - 1,\n[ \t]*ds\.dim\(\),\n[ \t]*\|i, d\| ds\.op\(i, img2src\[d\]\)\.map\(\|e\| src2img\[e\]\)\n[ \t]*\),\n[ \t]*\|i, d\| (.*)\n[ \t]*\)$/\1let __op = |i: usize, d: usize| -> (r: Option<usize>)\n\1{\n\1    ds.op(i, img2src[d]).map(|e: usize| -> (x: usize)\n\1    { src2img[e] })\n\1};\n\1let __set = build_set(next - 1, ds.dim(), __op);\n\1let __m = |i: usize, d: usize| -> (mm: Option<usize>)\n\1{ \2 };\n\1let __r = build_sym_using_ms(__set, __m);\n\1__r/
#[verifier::spinoff_prover]
pub fn minimal_image<T: DSym>(ds: &T) -> (res: PartialDSym)
    requires ds.wf(), base_complete(ds), ds.ssize() * (ds.sdim() + 1) <= usize::MAX, v_fits(ds),
    ensures res.inv(), exists|f: Seq<usize>| mi_post(ds, &res, f),
{
    proof { ds.lemma_wf(); lemma_bop(ds); }
    if is_minimal(ds) {
        let __c = as_partial_dsym(ds);
        proof {
            // a one-sheeted cover: the identity is the quotient map
            let f = Seq::new((ds.ssize() + 1) as nat, |d: int| d as usize);
            assert forall|d: int| 1 <= d <= ds.ssize() implies #[trigger] src_of(d, ds.ssize()) == d by { vstd::arithmetic::div_mod::lemma_small_mod((d - 1) as nat, ds.ssize() as nat); }
            assert forall|i: int, d: int| 0 <= i <= ds.sdim() && 1 <= d <= ds.ssize() implies #[trigger] __c.dset.t(i, f[d] as int) == f[bop(ds, i, d)] by {
                let e = __c.dset.t(i, d);
                assert(1 <= e <= ds.ssize() && src_of(e, ds.ssize()) == bop(ds, i, src_of(d, ds.ssize())));
                assert(1 <= bop(ds, i, d) <= ds.ssize());
            }
            assert forall|k: int| #[trigger] is_image(&__c, k) implies exists|d: int| 1 <= d <= ds.ssize() && #[trigger] f[d] == k by { assert(f[k] == k); }
            assert(quotient_map(ds, &__c, f));
            assert forall|i: int, d: int| 0 <= i < ds.sdim() && 1 <= d <= ds.ssize() implies #[trigger] deg_proj(&__c, ds.sm(i, i + 1, d), i, f[d] as int) by {
                assert(deg_preserved(&__c, ds, i, d));
            }
            if connected_from_1(ds) {
                assert(only_trivial_congruence(ds));
                assert forall|q: spec_fn(usize) -> usize, x: usize, y: usize| #![trigger dr(ds, q), same_r(q, x, y)] dr(ds, q) && rng(ds, x) && rng(ds, y) && same_r(q, x, y) implies f[x as int] == f[y as int] by { }
                assert(smallest_quotient(ds, f));
            }
            assert(mi_post(ds, &__c, f));
        }
        __c
    } else {
        let __init = Partition::new();
        proof {
            let r = repf(&__init);
            assert forall|x: usize, y: usize| rng(ds, x) && rng(ds, y) && #[trigger] same_r(r, x, y) implies cong_at(ds, r, x, y) && deg_eq(ds, x, y) by { }
            assert forall|x: usize| rng(ds, x) implies rng(ds, #[trigger] r(x)) by { }
            assert(below1(ds, r, 2));
            assert(mi_inv(ds, &__init, 2));
        }
        let p = __fold_partitions::<T, _>(Ghost(ds), 2, ds.size(), __init, |p: Partition, d: usize| -> (q: Partition)
            requires ds.wf(), base_complete(ds), 2 <= d <= ds.ssize(), mi_inv(ds, &p, d as int)
            ensures mi_inv(ds, &q, d + 1)
        {
            let __f = fold(ds, &p, 1, d);
            proof { lemma_mi_step(ds, &p, d, __f); }
            __f.unwrap_or(p)
        });

        let mut src2img = vec![0; ds.size() + 1];
        let mut img2src = vec![0; ds.size() + 1];
        let mut next: usize = 1;
        for d in 1..(ds.size()) + 1
            invariant ds.wf(), base_complete(ds), mi_inv(ds, &p, ds.ssize() + 1),
                mi_numbering(ds, &p, src2img@, img2src@, next as int, d as int),
        {
            let ghost s0 = src2img@;
            let ghost i0 = img2src@;
            let ghost n0 = next as int;
            let e = p.find(&d);
            proof {
                let r = repf(&p);
                assert(rng(ds, d));
                assert(rng(ds, r(d)));
                assert(1 <= e <= ds.ssize());
            }
            if src2img[e] == 0 {
                src2img[e] = next;
                img2src[next] = e;
                next += 1;
            }
            src2img[d] = src2img[e];
            proof {
                let s1 = src2img@; let i1 = img2src@; let n1 = next as int;
                let k = s1[e as int] as int;
                assert(s1[d as int] == k && k != 0);
                if s0[e as int] == 0 { assert(k == n0 && n1 == n0 + 1 && i1[n0] == e); } else { assert(k == s0[e as int] && n1 == n0 && i1 == i0); assert(i0[k] == p.erep(e)); }
                assert forall|x: int| 1 <= x <= ds.ssize() && #[trigger] s1[x] != 0 implies 1 <= s1[x] < n1 && i1[s1[x] as int] == p.erep(x as usize) by {
                    if x == d as int || x == e as int { }
                    else { assert(s1[x] == s0[x]); assert(1 <= s0[x] < n0); assert(i1[s0[x] as int] == i0[s0[x] as int]); }
                }
                assert forall|kk: int| 1 <= kk < n1 implies 1 <= #[trigger] i1[kk] <= ds.ssize() && p.erep(i1[kk]) == i1[kk] && s1[i1[kk] as int] == kk by {
                    if kk < n0 {
                        assert(i1[kk] == i0[kk]);
                        assert(s0[i0[kk] as int] == kk);
                        if i0[kk] == d && d != e { assert(p.erep(d) == d); }
                    }
                }
                assert forall|j: int| 1 <= j < d + 1 implies #[trigger] s1[j] != 0 && s1[p.erep(j as usize) as int] == s1[j] by {
                    if j < d as int {
                        assert(s0[j] != 0 && s0[p.erep(j as usize) as int] == s0[j]);
                        let pj = p.erep(j as usize) as int;
                        assert(rng(ds, j as usize)); assert(rng(ds, repf(&p)(j as usize)));
                        if pj == d as int && d != e { assert(s0[pj] != 0); assert(i0[s0[pj] as int] == p.erep(pj as usize)); assert(p.erep(i0[s0[pj] as int]) == i0[s0[pj] as int]); }
                    }
                }
            }
        }

        let ghost f = src2img@;
        let ghost nn = (next - 1) as int;
        proof {
            assert(f[1] != 0);
            assert(nn >= 1);
            assert(nn <= ds.ssize());
            assert(nn * (ds.sdim() + 1) <= ds.ssize() * (ds.sdim() + 1)) by(nonlinear_arith) requires nn <= ds.ssize(), ds.sdim() >= 0;
        }

        let __op = |i: usize, d: usize| -> (r: Option<usize>)
            requires i <= ds.sdim(), 1 <= d <= nn, ds.wf(), base_complete(ds),
                mi_numbering(ds, &p, src2img@, img2src@, nn + 1, ds.ssize() + 1),
            ensures r == Some(src2img@[bop(ds, i as int, img2src@[d as int] as int)])
        {
            proof { lemma_bop(ds); assert(1 <= img2src@[d as int] <= ds.ssize()); assert(1 <= bop(ds, i as int, img2src@[d as int] as int) <= ds.ssize()); }
            ds.op(i, img2src[d]).map(|e: usize| -> (x: usize)
                requires 1 <= e <= ds.ssize(), src2img@.len() == ds.ssize() + 1
                ensures x == src2img@[e as int]
            { src2img[e] })
        };
        proof {
            let i2s = img2src@;
            assert(deterministic(__op, nn as usize, ds.sdim() as usize));
            assert(consistent(__op, nn as usize, ds.sdim() as usize)) by {
                assert forall|i: usize, d: usize, e: usize| #![trigger __op.ensures((i, d), Some(e))]
                    i <= ds.sdim() && 1 <= d <= nn && __op.ensures((i, d), Some(e)) implies 1 <= e <= nn by {
                    let y = bop(ds, i as int, i2s[d as int] as int);
                    assert(1 <= i2s[d as int] <= ds.ssize());
                    assert(1 <= y <= ds.ssize());
                    assert(f[y] != 0);
                }
                assert forall|i: usize, d: usize, e: usize, r: Option<usize>| #![trigger __op.ensures((i, d), Some(e)), __op.ensures((i, e), r)]
                    i <= ds.sdim() && 1 <= d <= nn && __op.ensures((i, d), Some(e)) && __op.ensures((i, e), r) implies r == Some(d) by {
                    lemma_mi_back(ds, &p, f, i2s, nn, i as int, d as int);
                }
                assert forall|i: usize, a: usize, b: usize, e: usize| #![trigger __op.ensures((i, a), Some(e)), __op.ensures((i, b), Some(e))]
                    i <= ds.sdim() && 1 <= a <= nn && 1 <= b <= nn && __op.ensures((i, a), Some(e)) && __op.ensures((i, b), Some(e)) implies a == b by {
                    lemma_mi_back(ds, &p, f, i2s, nn, i as int, a as int);
                    lemma_mi_back(ds, &p, f, i2s, nn, i as int, b as int);
                }
            }
        }
        let __set = build_set(next - 1, ds.dim(), __op);
        proof {
            assert forall|i: int, d: int| 0 <= i <= ds.sdim() && 1 <= d <= nn implies #[trigger] __set.t(i, d) == f[bop(ds, i, img2src@[d] as int)] && __set.t(i, d) != 0 by {
                assert(__op.ensures((i as usize, d as usize), __set.vop(i, d)));
                let y = bop(ds, i, img2src@[d] as int);
                assert(1 <= img2src@[d] <= ds.ssize());
                assert(1 <= y <= ds.ssize());
                assert(f[y] != 0);
            }
            assert forall|i: int, d: int| 0 <= i <= __set.dim && 1 <= d <= __set.size implies #[trigger] tbl(__set.op@, __set.dim as int, i, d) != 0 by {
                assert(__set.t(i, d) != 0);
            }
            assert(__set.complete());
        }
        let __m = |i: usize, d: usize| -> (mm: Option<usize>)
            requires i < ds.sdim(), 1 <= d <= nn, ds.wf(), mi_numbering(ds, &p, src2img@, img2src@, nn + 1, ds.ssize() + 1),
            ensures mm == ds.sm(i as int, i + 1, img2src@[d as int] as int)
        { ds.m(i, i + 1, img2src[d]) };
        let ghost mg = __m;
        let __r = build_sym_using_ms(__set, __m);
        proof {
            let i2s = img2src@;
            assert forall|i: int, d: int| 0 <= i <= ds.sdim() && 1 <= d <= ds.ssize() implies #[trigger] __r.dset.t(i, f[d] as int) == f[bop(ds, i, d)] by {
                lemma_mi_commutes(ds, &p, f, i2s, nn, i, d);
                assert(__r.dset.t(i, f[d] as int) == __set.t(i, f[d] as int));
            }
            assert forall|k: int| #[trigger] is_image(&__r, k) implies exists|d: int| 1 <= d <= ds.ssize() && #[trigger] f[d] == k by {
                assert(f[i2s[k] as int] == k);
            }
            assert forall|x: usize, y: usize| rng(ds, x) && rng(ds, y) && #[trigger] f[x as int] == #[trigger] f[y as int] implies deg_eq(ds, x, y) by {
                assert(f[x as int] != 0 && f[y as int] != 0);
                assert(i2s[f[x as int] as int] == p.erep(x) && i2s[f[y as int] as int] == p.erep(y));
                assert(same_r(repf(&p), x, y));
            }
            assert(quotient_map(ds, &__r, f));
            assert(m_obeys(&mg, mi_deg(ds, i2s), __r.dset.dim as int, __r.dset.size as int)) by {
                assert forall|i: usize, d: usize, r: Option<usize>| i < __r.dset.dim && 1 <= d <= __r.dset.size && #[trigger] mg.ensures((i, d), r)
                    implies r == mi_deg(ds, i2s)(i as int, d as int) by { }
            }
            lemma_mi_degrees(ds, &__r, &mg, f, i2s);
            if connected_from_1(ds) {
                lemma_coarsest(ds, repf(&p));
                assert forall|q: spec_fn(usize) -> usize, x: usize, y: usize| #![trigger dr(ds, q), same_r(q, x, y)] dr(ds, q) && rng(ds, x) && rng(ds, y) && same_r(q, x, y) implies f[x as int] == f[y as int] by {
                    assert(p.erep(x) == p.erep(y));
                    assert(f[p.erep(x) as int] == f[x as int] && f[p.erep(y) as int] == f[y as int]);
                }
                assert(smallest_quotient(ds, f));
            }
            assert(mi_post(ds, &__r, f));
        }
        __r
    }
}
//@ end

// =====================================================================================================
// vacuity guards: canary_* MUST FAIL, witness_* must verify
// =====================================================================================================
proof fn canary_connected_is_satisfiable(ds: &SimpleDSet)
    requires ds.inv(), ds.size == 1, ds.dim == 2, base_complete(ds), connected_from_1(ds)
    ensures false
{}

fn canary_is_minimal_contract<S: DSet>(ds: &S)
    requires ds.wf(), base_complete(ds), connected_from_1(ds)
    ensures false
{
    let b = is_minimal(ds);
}

fn canary_fold_contract<S: DSet>(ds: &S, p: &Partition)
    requires ds.wf(), base_complete(ds), ds.ssize() >= 2, congruence(ds, repf(p)), homogeneous(ds, repf(p))
    ensures false
{
    let r = fold(ds, p, 1, 2);
}

fn canary_default_r_contract<S: DSet>(ds: &S)
    requires ds.wf()
    ensures false
{
    let x = r(ds, 0, 1, 1);
}

fn canary_minimal_image_contract<S: DSym>(ds: &S)
    requires ds.wf(), base_complete(ds), connected_from_1(ds), ds.ssize() * (ds.sdim() + 1) <= usize::MAX, v_fits(ds)
    ensures false
{
    let r = minimal_image(ds);
}

proof fn canary_join_is_satisfiable<S: DSet>(ds: &S, q: spec_fn(usize) -> usize, r: spec_fn(usize) -> usize)
    requires ds.wf(), base_complete(ds), dr(ds, q), dr(ds, r), ds.ssize() >= 2, jrep(ds, q, r)(1) == jrep(ds, q, r)(2)
    ensures false
{}

proof fn canary_partial_dset_invariant_is_satisfiable(ds: PartialDSet)
    requires ds.inv(), ds.size == 2, ds.dim == 2, ds.t(0, 1) == 2
    ensures false
{}

proof fn canary_symbol_invariant_is_satisfiable(ds: PartialDSym)
    requires ds.inv(), ds.dset.size == 1, ds.dset.dim == 2, ds.orbit_rs@.len() == 2
    ensures false
{}

fn canary_morphism_contract<S: DSet>(a: &S)
    requires a.wf()
    ensures false
{
    let r = morphism(a, a, 1);
}

fn canary_from_str_contract(s: &str)
    ensures false
{
    let r = PartialDSym::from_str(s);
}

fn canary_cover_contract<T: DSym>(ds: &T)
    requires ds.wf(), base_complete(ds), v_fits(ds), 2 * ds.ssize() * (ds.sdim() + 1) <= usize::MAX, 2 * ds.ssize() < usize::MAX,
    ensures false
{
    let r = oriented_cover(ds);
}

fn witness_calls()
{
    let mut ds = PartialDSet::new(2, 2);
    ds.set(0, 1, 2);
    let c = ds.is_complete();
    let r = PartialDSym::from_str("<1.1:1:1,1,1:3,3>");
    match r {
        Ok(sym) => {
            let a = sym.r(0, 1, 1);
            let b = sym.m(0, 2, 7);
            let autos = automorphisms(&sym);
        },
        Err(_) => {},
    }
}
} // verus!
fn main() {}
