//@ unit free_words
//@ props C10
#![feature(panic_internals)]
#![feature(sized_hierarchy)]
use vstd::prelude::*;
use vstd::std_specs::iter::*;
use vstd::std_specs::ops::*;
use vstd::std_specs::cmp::*;
use vstd::std_specs::core::IndexSpecImpl;
use std::cmp::Ordering;
use std::collections::BTreeSet;
use std::ops::{Index, Mul, MulAssign};
verus! {

// =====================================================================================================
// trusted std specifications that vstd lacks (dependencies, not /repo code)
// =====================================================================================================
pub assume_specification<T, F: FnOnce(T) -> bool>[Option::<T>::is_some_and](o: Option<T>, f: F) -> (r: bool)
    requires o.is_some() ==> f.requires((o.unwrap(),)),
    ensures o.is_some() ==> f.ensures((o.unwrap(),), r),
           o.is_none() ==> !r,
;

pub open spec fn emod(a: int, n: int) -> int { a % n }

pub assume_specification[isize::rem_euclid](a: isize, n: isize) -> (r: isize)
    requires n != 0, !(a == isize::MIN && n == -1),
    ensures r == emod(a as int, if n < 0 { -(n as int) } else { n as int }), 0 <= r,
;

// Rust guarantees that no allocation exceeds isize::MAX bytes, hence a Vec<isize> has at most isize::MAX / 8 elements
#[verifier::external_body]
pub proof fn axiom_vec_len_isize(v: &Vec<isize>)
    ensures v@.len() <= isize::MAX / 8
{}

// =====================================================================================================
// specification layer: free reduction, order, candidates
// =====================================================================================================
pub open spec fn neg_eq(x: isize, y: isize) -> bool { x as int == -(y as int) }

pub open spec fn step(buf: Seq<isize>, x: isize) -> Seq<isize> {
    if buf.len() > 0 && neg_eq(x, buf.last()) { buf.drop_last() }
    else if x != 0 { buf.push(x) }
    else { buf }
}

pub open spec fn reduce_from(buf: Seq<isize>, s: Seq<isize>) -> Seq<isize>
    decreases s.len()
{
    if s.len() == 0 { buf } else { reduce_from(step(buf, s[0]), s.drop_first()) }
}

pub open spec fn reduce(s: Seq<isize>) -> Seq<isize> { reduce_from(Seq::empty(), s) }

pub open spec fn letters_ok(s: Seq<isize>) -> bool {
    forall|k: int| 0 <= k < s.len() ==> #[trigger] s[k] > isize::MIN
}

// freely reduced: no zero letter, no adjacent inverse pair (and every letter negatable)
pub open spec fn reduced(s: Seq<isize>) -> bool {
    &&& forall|k: int| 0 <= k < s.len() ==> #[trigger] s[k] != 0 && s[k] > isize::MIN
    &&& forall|k: int| 0 <= k < s.len() - 1 ==> !neg_eq(#[trigger] s[k + 1], s[k])
}

pub open spec fn neg_rev(s: Seq<isize>) -> Seq<isize> {
    Seq::new(s.len(), |k: int| (-(s[s.len() - 1 - k] as int)) as isize)
}

// the group product on reduced words
pub open spec fn gmul(a: Seq<isize>, b: Seq<isize>) -> Seq<isize> { reduce(a + b) }

// ---------- lemmas about reduce (about the contracts, not the code) ----------
proof fn lemma_step_reduced(buf: Seq<isize>, x: isize)
    requires reduced(buf), x > isize::MIN
    ensures reduced(step(buf, x))
{
    let r = step(buf, x);
    if buf.len() > 0 && neg_eq(x, buf.last()) {
        assert forall|k: int| 0 <= k < r.len() implies #[trigger] r[k] != 0 && r[k] > isize::MIN by { assert(r[k] == buf[k]); }
        assert forall|k: int| 0 <= k < r.len() - 1 implies !neg_eq(#[trigger] r[k + 1], r[k]) by { assert(r[k+1] == buf[k+1]); assert(r[k] == buf[k]); }
    } else if x != 0 {
        assert forall|k: int| 0 <= k < r.len() implies #[trigger] r[k] != 0 && r[k] > isize::MIN by { if k < buf.len() { assert(r[k] == buf[k]); } }
        assert forall|k: int| 0 <= k < r.len() - 1 implies !neg_eq(#[trigger] r[k + 1], r[k]) by {
            if k + 1 < buf.len() { assert(r[k+1] == buf[k+1]); assert(r[k] == buf[k]); }
            else { assert(r[k+1] == x); assert(r[k] == buf.last()); }
        }
    }
}

proof fn lemma_letters_drop_first(s: Seq<isize>)
    requires letters_ok(s), s.len() > 0
    ensures letters_ok(s.drop_first()), s[0] > isize::MIN
{
    assert forall|k: int| 0 <= k < s.drop_first().len() implies #[trigger] s.drop_first()[k] > isize::MIN by { assert(s.drop_first()[k] == s[k + 1]); }
}

proof fn lemma_reduce_from_reduced(buf: Seq<isize>, s: Seq<isize>)
    requires reduced(buf), letters_ok(s)
    ensures reduced(reduce_from(buf, s))
    decreases s.len()
{
    if s.len() > 0 {
        lemma_letters_drop_first(s);
        lemma_step_reduced(buf, s[0]);
        lemma_reduce_from_reduced(step(buf, s[0]), s.drop_first());
    }
}

pub proof fn lemma_reduce_reduced(s: Seq<isize>)
    requires letters_ok(s)
    ensures reduced(reduce(s))
{
    lemma_reduce_from_reduced(Seq::empty(), s);
}

// reduce_from(buf, s) == buf + s when buf + s is reduced
proof fn lemma_reduce_from_id(buf: Seq<isize>, s: Seq<isize>)
    requires reduced(buf + s)
    ensures reduce_from(buf, s) == buf + s
    decreases s.len()
{
    if s.len() == 0 {
        assert(buf + s =~= buf);
    } else {
        let x = s[0];
        let t = buf + s;
        assert(t[buf.len() as int] == x);
        assert(x != 0);
        if buf.len() > 0 {
            assert(t[buf.len() - 1] == buf.last());
            assert(!neg_eq(t[(buf.len() - 1) + 1], t[buf.len() - 1]));
        }
        assert(step(buf, x) == buf.push(x));
        assert(buf.push(x) + s.drop_first() =~= buf + s);
        lemma_reduce_from_id(buf.push(x), s.drop_first());
    }
}

// a reduced word is a fixed point of reduce: equality of values is equality in the free group
pub proof fn lemma_reduce_id(s: Seq<isize>)
    requires reduced(s)
    ensures reduce(s) == s
{
    assert(Seq::<isize>::empty() + s =~= s);
    lemma_reduce_from_id(Seq::empty(), s);
}

proof fn lemma_reduce_from_concat(buf: Seq<isize>, a: Seq<isize>, b: Seq<isize>)
    ensures reduce_from(buf, a + b) == reduce_from(reduce_from(buf, a), b)
    decreases a.len()
{
    if a.len() == 0 {
        assert(a + b =~= b);
    } else {
        assert((a + b)[0] == a[0]);
        assert((a + b).drop_first() =~= a.drop_first() + b);
        lemma_reduce_from_concat(step(buf, a[0]), a.drop_first(), b);
    }
}

proof fn lemma_reduce_prefix(buf: Seq<isize>, s: Seq<isize>)
    requires reduced(buf)
    ensures reduce_from(buf, s) == reduce(buf + s)
{
    lemma_reduce_from_concat(Seq::empty(), buf, s);
    assert(Seq::<isize>::empty() + buf =~= buf);
    lemma_reduce_from_id(Seq::empty(), buf);
}

proof fn lemma_letters_concat(a: Seq<isize>, b: Seq<isize>)
    requires letters_ok(a), letters_ok(b)
    ensures letters_ok(a + b)
{
    assert forall|k: int| 0 <= k < (a + b).len() implies #[trigger] (a + b)[k] > isize::MIN by {
        if k < a.len() { assert((a + b)[k] == a[k]); } else { assert((a + b)[k] == b[k - a.len()]); }
    }
}

pub proof fn lemma_reduced_letters(a: Seq<isize>)
    requires reduced(a)
    ensures letters_ok(a)
{}

// left idempotence
proof fn lemma_reduce_idem_concat(a: Seq<isize>, b: Seq<isize>)
    requires letters_ok(a)
    ensures reduce(reduce(a) + b) == reduce(a + b)
{
    lemma_reduce_from_reduced(Seq::empty(), a);
    lemma_reduce_prefix(reduce(a), b);
    lemma_reduce_from_concat(Seq::empty(), a, b);
}

proof fn lemma_reduce_from_push(buf: Seq<isize>, c: Seq<isize>, x: isize)
    ensures reduce_from(buf, c.push(x)) == step(reduce_from(buf, c), x)
{
    assert(c.push(x) =~= c + seq![x]);
    lemma_reduce_from_concat(buf, c, seq![x]);
    let u = reduce_from(buf, c);
    assert(seq![x].drop_first() =~= Seq::<isize>::empty());
    assert(reduce_from(u, seq![x]) == reduce_from(step(u, seq![x][0]), seq![x].drop_first()));
}

proof fn lemma_step_cancel(u: Seq<isize>, y: isize)
    requires reduced(u), y != 0, y > isize::MIN
    ensures step(step(u, y), (-y) as isize) == u
{
    let ny = (-y) as isize;
    if u.len() > 0 && neg_eq(y, u.last()) {
        let v = u.drop_last();
        assert(step(u, y) == v);
        assert(ny == u.last());
        if v.len() > 0 && neg_eq(ny, v.last()) {
            assert(u[u.len() - 2] == v.last());
            assert(!neg_eq(u[(u.len() - 2) + 1], u[u.len() - 2]));
            assert(false);
        }
        assert(u[u.len() - 1] != 0);
        assert(step(v, ny) == v.push(ny));
        assert(v.push(ny) =~= u);
    } else {
        assert(step(u, y) == u.push(y));
        assert(u.push(y).last() == y);
        assert(neg_eq(ny, y));
        assert(u.push(y).drop_last() =~= u);
    }
}

proof fn lemma_step_commutes(buf: Seq<isize>, c: Seq<isize>, x: isize)
    requires reduced(buf), reduced(c), x > isize::MIN
    ensures reduce_from(buf, step(c, x)) == step(reduce_from(buf, c), x)
{
    if c.len() > 0 && neg_eq(x, c.last()) {
        let y = c.last();
        let c0 = c.drop_last();
        assert(c0.push(y) =~= c);
        lemma_reduce_from_push(buf, c0, y);
        let u = reduce_from(buf, c0);
        assert(letters_ok(c0)) by { assert forall|k: int| 0 <= k < c0.len() implies #[trigger] c0[k] > isize::MIN by { assert(c0[k] == c[k]); } }
        lemma_reduce_from_reduced(buf, c0);
        assert(c[c.len() - 1] != 0);
        assert(x == (-y) as isize);
        lemma_step_cancel(u, y);
    } else if x != 0 {
        lemma_reduce_from_push(buf, c, x);
    } else {
        lemma_reduce_from_reduced(buf, c);
        let u = reduce_from(buf, c);
        if u.len() > 0 { assert(u[u.len() - 1] != 0); }
    }
}

// right idempotence, generalised over the prefix
proof fn lemma_reduce_right(buf: Seq<isize>, b: Seq<isize>)
    requires reduced(buf), letters_ok(b)
    ensures reduce_from(buf, b) == reduce_from(buf, reduce(b))
    decreases b.len()
{
    if b.len() == 0 {
    } else {
        let b0 = b.drop_last();
        let x = b.last();
        assert(b0.push(x) =~= b);
        assert(letters_ok(b0)) by { assert forall|k: int| 0 <= k < b0.len() implies #[trigger] b0[k] > isize::MIN by { assert(b0[k] == b[k]); } }
        lemma_reduce_right(buf, b0);
        lemma_reduce_from_push(buf, b0, x);
        lemma_reduce_from_push(Seq::empty(), b0, x);
        lemma_reduce_from_reduced(Seq::empty(), b0);
        assert(x == b[b.len() - 1]);
        lemma_step_commutes(buf, reduce(b0), x);
    }
}

// ---------- group axioms for gmul on reduced words (C10: "the group axioms hold") ----------
pub proof fn lemma_group_assoc(a: Seq<isize>, b: Seq<isize>, c: Seq<isize>)
    requires letters_ok(a), letters_ok(b), letters_ok(c)
    ensures gmul(gmul(a, b), c) == gmul(a, gmul(b, c))
{
    lemma_letters_concat(a, b);
    lemma_letters_concat(b, c);
    lemma_reduce_idem_concat(a + b, c);
    lemma_reduce_from_concat(Seq::empty(), a, reduce(b + c));
    lemma_reduce_from_concat(Seq::empty(), a, b + c);
    lemma_reduce_from_reduced(Seq::empty(), a);
    lemma_reduce_right(reduce(a), b + c);
    assert(a + (b + c) =~= (a + b) + c);
}

pub proof fn lemma_group_identity(a: Seq<isize>)
    requires reduced(a)
    ensures gmul(a, Seq::empty()) == a, gmul(Seq::empty(), a) == a
{
    assert(a + Seq::<isize>::empty() =~= a);
    assert(Seq::<isize>::empty() + a =~= a);
    lemma_reduce_id(a);
}

proof fn lemma_neg_rev_push(a: Seq<isize>, x: isize)
    requires x > isize::MIN
    ensures neg_rev(a.push(x)) =~= seq![(-x) as isize] + neg_rev(a)
{
    let l = neg_rev(a.push(x));
    let r = seq![(-x) as isize] + neg_rev(a);
    assert(l.len() == r.len());
    assert forall|k: int| 0 <= k < l.len() implies l[k] == r[k] by {
        if k == 0 { assert(a.push(x)[a.len() as int] == x); }
        else { assert(a.push(x)[a.len() - k] == a[a.len() - k]); assert(r[k] == neg_rev(a)[k - 1]); }
    }
}

// a * a^-1 == 1, from any reduced prefix state: reduce_from(buf, a + neg_rev(a)) == buf when buf + a is reduced
proof fn lemma_cancel_from(buf: Seq<isize>, a: Seq<isize>)
    requires reduced(buf + a)
    ensures reduce_from(buf, a + neg_rev(a)) == buf
    decreases a.len()
{
    if a.len() == 0 {
        assert(a + neg_rev(a) =~= Seq::<isize>::empty());
    } else {
        let a0 = a.drop_last();
        let x = a.last();
        let t = buf + a;
        assert(t[t.len() - 1] == x);
        assert(x != 0 && x > isize::MIN);
        assert(a0.push(x) =~= a);
        lemma_neg_rev_push(a0, x);
        let nx = (-x) as isize;
        // a + neg_rev(a) == a0 + [x, -x] + neg_rev(a0)
        assert(a + neg_rev(a) =~= (a + seq![nx]) + neg_rev(a0));
        lemma_reduce_from_concat(buf, a + seq![nx], neg_rev(a0));
        lemma_reduce_from_concat(buf, a, seq![nx]);
        lemma_reduce_from_id(buf, a);
        // step(buf + a, -x) == buf + a0
        assert(seq![nx].drop_first() =~= Seq::<isize>::empty());
        assert(reduce_from(buf + a, seq![nx]) == reduce_from(step(buf + a, seq![nx][0]), seq![nx].drop_first()));
        assert(neg_eq(nx, (buf + a).last()));
        assert((buf + a).drop_last() =~= buf + a0);
        assert(reduce_from(buf, a + seq![nx]) == buf + a0);
        assert(reduced(buf + a0)) by {
            let u = buf + a0;
            assert forall|k: int| 0 <= k < u.len() implies #[trigger] u[k] != 0 && u[k] > isize::MIN by { assert(u[k] == t[k]); }
            assert forall|k: int| 0 <= k < u.len() - 1 implies !neg_eq(#[trigger] u[k + 1], u[k]) by { assert(u[k + 1] == t[k + 1]); assert(u[k] == t[k]); }
        }
        lemma_reduce_from_concat(buf + a0, Seq::empty(), neg_rev(a0));
        // reduce_from(buf + a0, neg_rev(a0)) : use reduce_from(buf, a0 + neg_rev(a0)) == buf and concat
        lemma_cancel_from(buf, a0);
        lemma_reduce_from_concat(buf, a0, neg_rev(a0));
        lemma_reduce_from_id(buf, a0);
    }
}

pub proof fn lemma_group_inverse(a: Seq<isize>)
    requires reduced(a)
    ensures gmul(a, neg_rev(a)) == Seq::<isize>::empty(), letters_ok(neg_rev(a))
{
    assert(Seq::<isize>::empty() + a =~= a);
    lemma_cancel_from(Seq::empty(), a);
}

// ---------- order ----------
// letter order of the code: positive letters first (by value), then negative letters by magnitude
pub open spec fn letter_lt(x: isize, y: isize) -> bool {
    if x > 0 && y > 0 { x < y } else { y < x }
}

pub open spec fn word_cmp(a: Seq<isize>, b: Seq<isize>) -> Ordering
    decreases a.len()
{
    if a.len() == 0 || b.len() == 0 {
        if a.len() < b.len() { Ordering::Less } else if a.len() > b.len() { Ordering::Greater } else { Ordering::Equal }
    } else if a[0] != b[0] {
        if letter_lt(a[0], b[0]) { Ordering::Less } else { Ordering::Greater }
    } else {
        word_cmp(a.drop_first(), b.drop_first())
    }
}

pub open spec fn rev_ord(o: Ordering) -> Ordering {
    match o { Ordering::Less => Ordering::Greater, Ordering::Greater => Ordering::Less, Ordering::Equal => Ordering::Equal }
}

pub open spec fn nz(s: Seq<isize>) -> bool { forall|k: int| 0 <= k < s.len() ==> #[trigger] s[k] != 0 }
pub open spec fn lt(a: Seq<isize>, b: Seq<isize>) -> bool { word_cmp(a, b) == Ordering::Less }

proof fn lemma_letter_total(x: isize, y: isize)
    requires x != 0, y != 0, x != y
    ensures letter_lt(x, y) != letter_lt(y, x)
{}

proof fn lemma_letter_trans(x: isize, y: isize, z: isize)
    requires x != 0, y != 0, z != 0, letter_lt(x, y), letter_lt(y, z)
    ensures letter_lt(x, z)
{}

proof fn lemma_nz_drop_first(a: Seq<isize>)
    requires nz(a), a.len() > 0
    ensures nz(a.drop_first()), a[0] != 0
{
    assert forall|k: int| 0 <= k < a.drop_first().len() implies #[trigger] a.drop_first()[k] != 0 by { assert(a.drop_first()[k] == a[k + 1]); }
}

// compatible with equality
pub proof fn lemma_cmp_equal(a: Seq<isize>, b: Seq<isize>)
    ensures (word_cmp(a, b) == Ordering::Equal) <==> a == b
    decreases a.len()
{
    if a.len() == 0 || b.len() == 0 {
        if a.len() == b.len() { assert(a =~= b); }
    } else if a[0] != b[0] {
    } else {
        lemma_cmp_equal(a.drop_first(), b.drop_first());
        if a.drop_first() == b.drop_first() { assert(a =~= seq![a[0]] + a.drop_first()); assert(b =~= seq![b[0]] + b.drop_first()); }
    }
}

// total and antisymmetric
pub proof fn lemma_cmp_antisym(a: Seq<isize>, b: Seq<isize>)
    requires nz(a), nz(b)
    ensures word_cmp(b, a) == rev_ord(word_cmp(a, b))
    decreases a.len()
{
    if a.len() == 0 || b.len() == 0 {
    } else if a[0] != b[0] {
        lemma_nz_drop_first(a); lemma_nz_drop_first(b);
        lemma_letter_total(a[0], b[0]);
    } else {
        lemma_nz_drop_first(a); lemma_nz_drop_first(b);
        lemma_cmp_antisym(a.drop_first(), b.drop_first());
    }
}

// transitive
pub proof fn lemma_cmp_trans(a: Seq<isize>, b: Seq<isize>, c: Seq<isize>)
    requires nz(a), nz(b), nz(c), lt(a, b), lt(b, c)
    ensures lt(a, c)
    decreases a.len()
{
    if a.len() == 0 {
    } else if b.len() == 0 || c.len() == 0 {
    } else {
        lemma_nz_drop_first(a); lemma_nz_drop_first(b); lemma_nz_drop_first(c);
        if a[0] != b[0] {
            if b[0] != c[0] { lemma_letter_trans(a[0], b[0], c[0]); lemma_letter_total(a[0], c[0]); if a[0] == c[0] { lemma_letter_total(a[0], b[0]); } }
            else { }
        } else if b[0] != c[0] {
        } else {
            lemma_cmp_trans(a.drop_first(), b.drop_first(), c.drop_first());
        }
    }
}

// the three facts together: a strict total order compatible with equality (on words without zero letters)
pub proof fn lemma_order(a: Seq<isize>, b: Seq<isize>, c: Seq<isize>)
    requires nz(a), nz(b), nz(c)
    ensures !lt(a, a), lt(a, b) && lt(b, c) ==> lt(a, c), !lt(a, b) && !lt(b, a) ==> a == b, lt(a, b) ==> !lt(b, a)
{
    lemma_cmp_equal(a, a);
    if lt(a, b) && lt(b, c) { lemma_cmp_trans(a, b, c); }
    lemma_cmp_antisym(a, b);
    lemma_cmp_equal(a, b);
}

proof fn lemma_cmp_prefix(a: Seq<isize>, b: Seq<isize>, k: int)
    requires 0 <= k <= a.len(), k <= b.len(), forall|j: int| 0 <= j < k ==> a[j] == b[j]
    ensures word_cmp(a, b) == word_cmp(a.skip(k), b.skip(k))
    decreases k
{
    if k == 0 { assert(a.skip(0) =~= a); assert(b.skip(0) =~= b); }
    else {
        lemma_cmp_prefix(a.drop_first(), b.drop_first(), k - 1);
        assert(a.drop_first().skip(k - 1) =~= a.skip(k));
        assert(b.drop_first().skip(k - 1) =~= b.skip(k));
    }
}

// ---------- rotation candidates ----------
pub open spec fn rot(s: Seq<isize>, k: int) -> Seq<isize> { reduce(s.skip(k) + s.take(k)) }
pub open spec fn inv_w(s: Seq<isize>) -> Seq<isize> { reduce(neg_rev(s)) }

// candidate set of the relator representative: all rotations and their inverses
pub open spec fn is_perm(fw: Seq<isize>, u: Seq<isize>) -> bool {
    exists|k: int| 0 <= k < fw.len() && (#[trigger] rot(fw, k) == u || inv_w(rot(fw, k)) == u)
}

proof fn lemma_neg_rev_letters(a: Seq<isize>)
    requires letters_ok(a)
    ensures letters_ok(neg_rev(a))
{
    assert forall|k: int| 0 <= k < neg_rev(a).len() implies #[trigger] neg_rev(a)[k] > isize::MIN by {
        assert(a[a.len() - 1 - k] > isize::MIN);
    }
}

pub proof fn lemma_rot_nz(s: Seq<isize>, k: int)
    requires reduced(s), 0 <= k <= s.len()
    ensures reduced(rot(s, k)), reduced(inv_w(rot(s, k))), nz(rot(s, k)), nz(inv_w(rot(s, k)))
{
    assert(letters_ok(s.skip(k)));
    assert(letters_ok(s.take(k)));
    lemma_letters_concat(s.skip(k), s.take(k));
    lemma_reduce_reduced(s.skip(k) + s.take(k));
    lemma_neg_rev_letters(rot(s, k));
    lemma_reduce_reduced(neg_rev(rot(s, k)));
}

// ---------- powers ----------
pub open spec fn gpow_nat(acc: Seq<isize>, s: Seq<isize>, n: nat) -> Seq<isize>
    decreases n
{
    if n == 0 { acc } else { gpow_nat(gmul(acc, s), s, (n - 1) as nat) }
}
pub open spec fn gpow(s: Seq<isize>, m: int) -> Seq<isize> {
    if m < 0 { gpow_nat(Seq::empty(), inv_w(s), (-m) as nat) } else { gpow_nat(Seq::empty(), s, m as nat) }
}

// =====================================================================================================
// executable code: every region below is cut from /repo/src/fpgroups/free_words.rs on every run
// =====================================================================================================

// R5 helpers: std iterator expressions that vstd does not model, with their std semantics as assumed contracts.
// The rewrite rule only fires on exactly the expression text quoted in each comment.

// `std::iter::empty().chain(w.iter().skip(i)).chain(w.iter().take(i)).cloned()`
#[verifier::external_body]
fn __skip_take_chain(w: &Vec<isize>, i: usize) -> (r: std::vec::IntoIter<isize>)
    ensures IteratorSpec::remaining(&r) == w@.skip(i as int) + w@.take(i as int),
{
    std::iter::empty().chain(w.iter().skip(i)).chain(w.iter().take(i)).cloned().collect::<Vec<isize>>().into_iter()
}

// `(lo..hi).fold(init, f)` for a closure that multiplies by a fixed word
#[verifier::external_body]
fn __fold_range<F: Fn(FreeWord, isize) -> FreeWord>(lo: isize, hi: isize, init: FreeWord, f: F, Ghost(base): Ghost<Seq<isize>>) -> (r: FreeWord)
    requires
        forall|a: FreeWord, k: isize| #[trigger] f.requires((a, k)),
        forall|a: FreeWord, k: isize, b: FreeWord| #[trigger] f.ensures((a, k), b) ==> b@ == gmul(a@, base),
    ensures r@ == gpow_nat(init@, base, if hi >= lo { (hi - lo) as nat } else { 0 }),
{
    (lo..hi).fold(init, f)
}

//@ begin src/fpgroups/free_words.rs :: - :: fn normalized
//@ rw R3 /I: IntoIterator<Item=isize>/I: Iterator<Item=isize>/
//@ rw R16 /-> Vec<isize>/-> (r: Vec<isize>)/
//@ rw R17 /for x in w\.into_iter\(\)/for x in it: w.into_iter()/
//@ rw R14 /is_some_and\(\|y\| (.*)\) \{$/is_some_and(|y: &isize| -> (b: bool) requires *y > isize::MIN ensures b == neg_eq(x, *y) { \1 }) {/
#[verifier::exec_allows_no_decreases_clause]
fn normalized<I>(w: I) -> (r: Vec<isize>) where I: Iterator<Item=isize>
    requires forall|j: I| #[trigger] j.obeys_prophetic_iter_laws(), letters_ok(w.remaining()),
    ensures r@ == reduce(w.remaining()), w.will_return_none(),
{
    proof { assert(w.remaining().skip(0) =~= w.remaining()); }
    let mut buffer = Vec::with_capacity(32);

    for x in it: w.into_iter()
        invariant
            letters_ok(buffer@), letters_ok(it.seq()),
            forall|j: I| #[trigger] j.obeys_prophetic_iter_laws(),
            it.seq() == w.remaining(),
            0 <= it.index() <= it.seq().len(),
            reduce_from(buffer@, it.seq().skip(it.index() as int)) == reduce(w.remaining()),
    {
        proof {
            assert(x == it.seq()[it.index() as int]);
            let rest = it.seq().skip(it.index() as int);
            assert(rest[0] == x);
            assert(rest.drop_first() == it.seq().skip(it.index() + 1));
        }
        if buffer.last().is_some_and(|y: &isize| -> (b: bool) requires *y > isize::MIN ensures b == neg_eq(x, *y) { x == -y }) {
            buffer.pop();
        } else if x != 0 {
            buffer.push(x);
        }
    }

    proof { assert(w.remaining().skip(w.remaining().len() as int) =~= Seq::<isize>::empty()); }
    buffer
}
//@ end

//@ begin src/fpgroups/free_words.rs :: - :: struct FreeWord
pub struct FreeWord {
    w: Vec<isize>
}
//@ end

impl FreeWord {
    // C10: every FreeWord value is freely reduced.  The field is private to this file and the file has no
    // `unsafe`, so once every function below verifies no unreduced FreeWord can exist anywhere in the crate.
    #[verifier::type_invariant]
    spec fn inv(self) -> bool { reduced(self.w@) }

    pub closed spec fn view(&self) -> Seq<isize> { self.w@ }

    // derived Clone (dropped with the derive attribute, R0): an owned copy with the same letters
    #[verifier::external_body]
    pub fn clone(&self) -> (r: Self)
        ensures r@ == self@
    { FreeWord { w: self.w.clone() } }

    //@ begin src/fpgroups/free_words.rs :: impl FreeWord :: fn new
    //@ rw R3 /I: IntoIterator<Item=isize>/I: Iterator<Item=isize>/
    //@ rw R16 /-> Self/-> (r: Self)/
    pub fn new<I>(w: I) -> (r: Self) where I: Iterator<Item=isize>
        requires forall|j: I| #[trigger] j.obeys_prophetic_iter_laws(), letters_ok(w.remaining()),
        ensures r@ == reduce(w.remaining()), w.will_return_none(),
    {
        proof { lemma_reduce_reduced(w.remaining()); }
        Self { w: normalized(w) }
    }
    //@ end

    //@ begin src/fpgroups/free_words.rs :: impl FreeWord :: fn empty
    //@ rw R3 /Self::new\(\[\]\)/Self::new(Vec::<isize>::new().into_iter())/
    //@ rw R16 /-> Self/-> (r: Self)/
    pub fn empty() -> (r: Self)
        ensures r@ == Seq::<isize>::empty()
    {
        Self::new(Vec::<isize>::new().into_iter())
    }
    //@ end

    //@ begin src/fpgroups/free_words.rs :: impl FreeWord :: fn len
    //@ rw R16 /-> usize/-> (r: usize)/
    pub fn len(&self) -> (r: usize)
        ensures r == self@.len()
    {
        self.w.len()
    }
    //@ end

    //@ begin src/fpgroups/free_words.rs :: impl FreeWord :: fn inverse
    //@ rw R16 /-> Self/-> (r: Self)/
    //@ rw R14 /^([ \t]*)Self::new\((.*\.map\()\|x\| (.*)\)\)$/\1let __it = \2|x: &isize| -> (y: isize) requires *x > isize::MIN ensures y == -(*x as int) { \3 });\n\1let __r = Self::new(__it);\n\1__r/
    pub fn inverse(&self) -> (r: Self)
        ensures r@ == inv_w(self@)
    {
        proof { use_type_invariant(self); }
        let __it = self.w.iter().rev().map(|x: &isize| -> (y: isize) requires *x > isize::MIN ensures y == -(*x as int) { -x });
        let ghost __g = __it;
        let __r = Self::new(__it);
        proof {
            assert(IteratorSpec::will_return_none(&__g));
            assert(IteratorSpec::remaining(&__g) =~= neg_rev(self.w@));
        }
        __r
    }
    //@ end

    //@ begin src/fpgroups/free_words.rs :: impl FreeWord :: fn raised_to
    //@ rw R16 /-> Self/-> (r: Self)/
    //@ rw R5 /\(0\.\.m\)\.fold\(FreeWord::empty\(\), \|a, _\| (.*)\)$/__fold_range(0, m, FreeWord::empty(), |a: FreeWord, _k: isize| -> (b: FreeWord) ensures b@ == gmul(a@, self@) { \1 }, Ghost(self@))/
    pub fn raised_to(&self, m: isize) -> (r: Self)
        requires m > isize::MIN
        ensures r@ == gpow(self@, m as int)
        decreases (if m < 0 { 1int } else { 0int })
    {
        if m < 0 {
            self.inverse().raised_to(-m)
        } else {
            __fold_range(0, m, FreeWord::empty(), |a: FreeWord, _k: isize| -> (b: FreeWord) ensures b@ == gmul(a@, self@) { a * self }, Ghost(self@))
        }
    }
    //@ end

    //@ begin src/fpgroups/free_words.rs :: impl FreeWord :: fn commutator
    //@ rw R16 /-> Self/-> (r: Self)/
    //@ rw R9 /^([ \t]*)self \* other \* /\1Mul::mul(self, other) * /
    pub fn commutator(&self, other: &FreeWord) -> (r: Self)
        ensures r@ == gmul(gmul(gmul(self@, other@), inv_w(self@)), inv_w(other@))
    {
        Mul::mul(self, other) * self.inverse() * other.inverse()
    }
    //@ end

    //@ begin src/fpgroups/free_words.rs :: impl FreeWord :: fn rotated
    //@ rw R16 /-> Self/-> (r: Self)/
    //@ rw R5 /std::iter::empty\(\)\s*\.chain\(self\.w\.iter\(\)\.skip\(i\)\)\s*\.chain\(self\.w\.iter\(\)\.take\(i\)\)\s*\.cloned\(\);/__skip_take_chain(&self.w, i);/s
    pub fn rotated(&self, i: isize) -> (r: Self)
        ensures
            self@.len() == 0 ==> r@ == self@,
            self@.len() > 0 ==> r@ == rot(self@, emod(i as int, self@.len() as int)),
    {
        proof { use_type_invariant(self); axiom_vec_len_isize(&self.w); }
        if self.w.is_empty() {
            return self.clone();
        }

        let n = self.w.len() as isize;
        let i = i.rem_euclid(n) as usize;
        proof {
            assert(0 <= emod(i as int, n as int) < n) by (nonlinear_arith) requires n > 0;
            lemma_letters_concat(self.w@.skip(i as int), self.w@.take(i as int));
        }

        let r = __skip_take_chain(&self.w, i);

        Self::new(r)
    }
    //@ end
}

//@ begin src/fpgroups/free_words.rs :: - :: fn mul
//@ rw R16 /-> Vec<isize>/-> (r: Vec<isize>)/
// R5: the body is one std iterator expression (chain / cloned / collect) that vstd does not model
#[verifier::external_body]
fn mul(lhs: &[isize], rhs: &[isize]) -> (r: Vec<isize>)
    ensures r@ == lhs@ + rhs@
{
    lhs.iter().chain(rhs.iter()).cloned().collect()
}
//@ end

impl MulSpecImpl<&FreeWord> for &FreeWord {
    open spec fn obeys_mul_spec() -> bool { false }
    open spec fn mul_req(self, rhs: &FreeWord) -> bool { true }
    open spec fn mul_spec(self, rhs: &FreeWord) -> FreeWord { arbitrary() }
}

impl Mul<&FreeWord> for &FreeWord {
    type Output = FreeWord;

    //@ begin src/fpgroups/free_words.rs :: impl Mul<&FreeWord> for &FreeWord :: fn mul
    //@ rw R16 /-> Self::Output/-> (r: Self::Output)/
    //@ rw R3 /FreeWord::new\((.*)\)$/FreeWord::new((\1).into_iter())/
    fn mul(self, rhs: &FreeWord) -> (r: Self::Output)
        ensures r@ == gmul(self@, rhs@)
    {
        proof {
            use_type_invariant(self); use_type_invariant(rhs);
            lemma_letters_concat(self.w@, rhs.w@);
        }
        FreeWord::new((mul(&self.w, &rhs.w)).into_iter())
    }
    //@ end
}

impl MulSpecImpl<FreeWord> for &FreeWord {
    open spec fn obeys_mul_spec() -> bool { false }
    open spec fn mul_req(self, rhs: FreeWord) -> bool { true }
    open spec fn mul_spec(self, rhs: FreeWord) -> FreeWord { arbitrary() }
}

impl Mul<FreeWord> for &FreeWord {
    type Output = FreeWord;

    //@ begin src/fpgroups/free_words.rs :: impl Mul<FreeWord> for &FreeWord :: fn mul
    //@ rw R16 /-> Self::Output/-> (r: Self::Output)/
    //@ rw R9 /^([ \t]*)self \* &rhs$/\1Mul::mul(self, &rhs)/
    fn mul(self, rhs: FreeWord) -> (r: Self::Output)
        ensures r@ == gmul(self@, rhs@)
    {
        Mul::mul(self, &rhs)
    }
    //@ end
}

impl MulSpecImpl<&FreeWord> for FreeWord {
    open spec fn obeys_mul_spec() -> bool { false }
    open spec fn mul_req(self, rhs: &FreeWord) -> bool { true }
    open spec fn mul_spec(self, rhs: &FreeWord) -> FreeWord { arbitrary() }
}

impl Mul<&FreeWord> for FreeWord {
    type Output = FreeWord;

    //@ begin src/fpgroups/free_words.rs :: impl Mul<&FreeWord> for FreeWord :: fn mul
    //@ rw R16 /-> Self::Output/-> (r: Self::Output)/
    //@ rw R9 /^([ \t]*)&self \* rhs$/\1Mul::mul(&self, rhs)/
    fn mul(self, rhs: &FreeWord) -> (r: Self::Output)
        ensures r@ == gmul(self@, rhs@)
    {
        Mul::mul(&self, rhs)
    }
    //@ end
}

impl MulSpecImpl<FreeWord> for FreeWord {
    open spec fn obeys_mul_spec() -> bool { false }
    open spec fn mul_req(self, rhs: FreeWord) -> bool { true }
    open spec fn mul_spec(self, rhs: FreeWord) -> FreeWord { arbitrary() }
}

impl Mul<FreeWord> for FreeWord {
    type Output = FreeWord;

    //@ begin src/fpgroups/free_words.rs :: impl Mul<FreeWord> for FreeWord :: fn mul
    //@ rw R16 /-> Self::Output/-> (r: Self::Output)/
    //@ rw R9 /^([ \t]*)&self \* &rhs$/\1Mul::mul(&self, &rhs)/
    fn mul(self, rhs: FreeWord) -> (r: Self::Output)
        ensures r@ == gmul(self@, rhs@)
    {
        Mul::mul(&self, &rhs)
    }
    //@ end
}

impl MulSpecImpl<isize> for &FreeWord {
    open spec fn obeys_mul_spec() -> bool { false }
    open spec fn mul_req(self, rhs: isize) -> bool { rhs > isize::MIN }
    open spec fn mul_spec(self, rhs: isize) -> FreeWord { arbitrary() }
}

impl Mul<isize> for &FreeWord {
    type Output = FreeWord;

    //@ begin src/fpgroups/free_words.rs :: impl Mul<isize> for &FreeWord :: fn mul
    //@ rw R16 /-> Self::Output/-> (r: Self::Output)/
    //@ rw R3 /FreeWord::new\((.*)\)$/FreeWord::new((\1).into_iter())/
    fn mul(self, rhs: isize) -> (r: Self::Output)
        ensures r@ == gmul(self@, seq![rhs]), r@ == step(self@, rhs)
    {
        proof {
            use_type_invariant(self);
            lemma_letters_concat(self.w@, seq![rhs]);
            assert((&[rhs])@ =~= seq![rhs]);
            lemma_reduce_id(self.w@);
            assert(self.w@ + seq![rhs] =~= self.w@.push(rhs));
            lemma_reduce_from_push(Seq::empty(), self.w@, rhs);
        }
        FreeWord::new((mul(&self.w, &[rhs])).into_iter())
    }
    //@ end
}

impl MulSpecImpl<isize> for FreeWord {
    open spec fn obeys_mul_spec() -> bool { false }
    open spec fn mul_req(self, rhs: isize) -> bool { rhs > isize::MIN }
    open spec fn mul_spec(self, rhs: isize) -> FreeWord { arbitrary() }
}

impl Mul<isize> for FreeWord {
    type Output = FreeWord;

    //@ begin src/fpgroups/free_words.rs :: impl Mul<isize> for FreeWord :: fn mul
    //@ rw R16 /-> Self::Output/-> (r: Self::Output)/
    //@ rw R3 /FreeWord::new\((.*)\)$/FreeWord::new((\1).into_iter())/
    fn mul(self, rhs: isize) -> (r: Self::Output)
        ensures r@ == gmul(self@, seq![rhs]), r@ == step(self@, rhs)
    {
        proof {
            use_type_invariant(&self);
            lemma_letters_concat(self.w@, seq![rhs]);
            assert((&[rhs])@ =~= seq![rhs]);
            lemma_reduce_id(self.w@);
            assert(self.w@ + seq![rhs] =~= self.w@.push(rhs));
            lemma_reduce_from_push(Seq::empty(), self.w@, rhs);
        }
        FreeWord::new((mul(&self.w, &[rhs])).into_iter())
    }
    //@ end
}

impl MulAssignSpecImpl<&FreeWord> for FreeWord {
    open spec fn obeys_mul_assign_spec() -> bool { false }
    open spec fn mul_assign_req(&self, rhs: &FreeWord) -> bool { true }
    open spec fn mul_assign_spec(&self, rhs: &FreeWord) -> &FreeWord { arbitrary() }
}

impl MulAssign<&FreeWord> for FreeWord {
    //@ begin src/fpgroups/free_words.rs :: impl MulAssign<&FreeWord> for FreeWord :: fn mul_assign
    //@ rw R3 /normalized\((.*)\);$/normalized((\1).into_iter());/
    fn mul_assign(&mut self, rhs: &FreeWord)
        ensures final(self)@ == gmul(old(self)@, rhs@)
    {
        proof {
            use_type_invariant(&*self); use_type_invariant(rhs);
            lemma_letters_concat(self.w@, rhs.w@);
            lemma_reduce_reduced(self.w@ + rhs.w@);
        }
        self.w = normalized((mul(&self.w, &rhs.w)).into_iter());
    }
    //@ end
}

// derived PartialEq / Eq (dropped with the derive attribute, R0): structural equality of the letter vectors
impl PartialEqSpecImpl for FreeWord {
    open spec fn obeys_eq_spec() -> bool { true }
    open spec fn eq_spec(&self, other: &FreeWord) -> bool { self@ == other@ }
}
impl PartialEq for FreeWord {
    #[verifier::external_body]
    fn eq(&self, other: &Self) -> (r: bool) { self.w == other.w }
}
impl Eq for FreeWord {}

impl PartialOrdSpecImpl for FreeWord {
    open spec fn obeys_partial_cmp_spec() -> bool { true }
    open spec fn partial_cmp_spec(&self, other: &FreeWord) -> Option<Ordering> { Some(word_cmp(self@, other@)) }
}

impl PartialOrd for FreeWord {
    //@ begin src/fpgroups/free_words.rs :: impl PartialOrd for FreeWord :: fn partial_cmp
    //@ rw R16 /-> Option<Ordering>/-> (r: Option<Ordering>)/
    fn partial_cmp(&self, other: &Self) -> (r: Option<Ordering>)
    {
        Some(self.cmp(&other))
    }
    //@ end
}

impl OrdSpecImpl for FreeWord {
    open spec fn obeys_cmp_spec() -> bool { true }
    open spec fn cmp_spec(&self, other: &FreeWord) -> Ordering { word_cmp(self@, other@) }
}

impl Ord for FreeWord {
    //@ begin src/fpgroups/free_words.rs :: impl Ord for FreeWord :: fn cmp
    //@ rw R16 /-> Ordering/-> (r: Ordering)/
    fn cmp(&self, other: &Self) -> (r: Ordering)
    {
        for i in 0..(self.w.len().min(other.w.len()))
            invariant forall|j: int| 0 <= j < i ==> self.w@[j] == other.w@[j]
        {
            let x = self.w[i];
            let y = other.w[i];

            if x != y {
                proof {
                    lemma_cmp_prefix(self.w@, other.w@, i as int);
                    assert(self.w@.skip(i as int)[0] == x);
                    assert(other.w@.skip(i as int)[0] == y);
                }
                if x > 0 && y > 0 {
                    return x.cmp(&y);
                } else {
                    return y.cmp(&x);
                }
            }
        }

        proof {
            let n = if self.w@.len() <= other.w@.len() { self.w@.len() as int } else { other.w@.len() as int };
            lemma_cmp_prefix(self.w@, other.w@, n);
        }
        self.w.len().cmp(&other.w.len())
    }
    //@ end
}

pub proof fn lemma_reduced_nz(s: Seq<isize>)
    requires reduced(s)
    ensures nz(s)
{}

//@ begin src/fpgroups/free_words.rs :: - :: fn relator_representative
//@ rw R16 /-> FreeWord$/-> (best: FreeWord)/
pub fn relator_representative(fw: &FreeWord) -> (best: FreeWord)
    ensures
        fw@.len() == 0 ==> best@ == fw@,
        // the result is one of the candidates (a rotation of fw or the inverse of one) ...
        fw@.len() > 0 ==> (best@ == fw@ || is_perm(fw@, best@)),
        // ... and no candidate is smaller: it is the least element of the candidate set
        forall|k: int| 0 <= k < fw@.len() ==> !lt(#[trigger] rot(fw@, k), best@) && !lt(inv_w(rot(fw@, k)), best@),
        !lt(fw@, best@),
        // in one predicate (the form lemma_representative_invariant consumes: the representative depends on the candidate SET only)
        fw@.len() > 0 ==> least_cand(fw@, best@),
{
    proof { axiom_vec_len_isize(&fw.w); }
    if fw.w.len() == 0 {
        proof { lemma_cmp_equal(fw@, fw@); }
        fw.clone()
    } else {
        let mut best = fw.clone();
        proof { lemma_cmp_equal(fw@, fw@); }

        for i in 0..fw.w.len()
            invariant
                fw@.len() > 0, fw@.len() <= isize::MAX, fw@.len() == fw.w@.len(),
                best@ == fw@ || is_perm(fw@, best@),
                !lt(fw@, best@),
                forall|k: int| 0 <= k < i ==> !lt(#[trigger] rot(fw@, k), best@) && !lt(inv_w(rot(fw@, k)), best@),
        {
            let ghost b0 = best@;
            let w = fw.rotated(i as isize);
            let winv = w.inverse();
            proof {
                assert(emod(i as int, fw@.len() as int) == i) by (nonlinear_arith) requires 0 <= i < fw@.len();
                use_type_invariant(&w); use_type_invariant(&winv); use_type_invariant(&best); use_type_invariant(fw);
            }
            if winv < best {
                best = winv;
            }
            if w < best {
                best = w;
            }
            proof {
                let r = rot(fw@, i as int);
                let ri = inv_w(r);
                lemma_order(best@, b0, b0); lemma_order(b0, best@, b0);
                lemma_order(best@, r, b0); lemma_order(r, best@, b0);
                lemma_order(best@, ri, b0); lemma_order(ri, best@, b0);
                lemma_order(ri, b0, r); lemma_order(r, ri, b0);
                lemma_order(ri, r, best@);
                lemma_order(r, ri, best@);
                assert(!lt(r, best@));
                assert(!lt(ri, best@));
                assert(!lt(b0, best@));
                assert forall|k: int| 0 <= k < i + 1 implies !lt(#[trigger] rot(fw@, k), best@) && !lt(inv_w(rot(fw@, k)), best@) by {
                    if k < i {
                        lemma_rot_nz(fw@, k);
                        lemma_order(rot(fw@, k), best@, b0);
                        lemma_order(inv_w(rot(fw@, k)), best@, b0);
                    }
                }
                lemma_order(fw@, best@, b0);
                if best@ != b0 { assert(rot(fw@, i as int) == best@ || inv_w(rot(fw@, i as int)) == best@); }
            }
        }
        proof {
            use_type_invariant(fw);
            if best@ == fw@ { assert(fw@.skip(0) + fw@.take(0) =~= fw@); lemma_reduce_id(fw@); assert(rot(fw@, 0) == best@); }
            assert forall|c: Seq<isize>| #[trigger] is_perm(fw@, c) implies !lt(c, best@) by {
                let k = choose|k: int| 0 <= k < fw@.len() && (#[trigger] rot(fw@, k) == c || inv_w(rot(fw@, k)) == c);
            }
        }
        best
    }
}
//@ end

// vstd's BTreeSet specifications are guarded by its *closed* predicate laws_cmp::obeys_cmp::<Key>() (Eq/PartialOrd/Ord are
// consistent and form a total order).  It cannot be unfolded for a user type, so it is assumed here; its mathematical
// content for FreeWord is what lemma_order / lemma_cmp_equal / lemma_cmp_antisym prove about word_cmp, which is the
// cmp_spec the real `cmp` body is verified against.
#[verifier::external_body]
pub proof fn axiom_obeys_cmp<T: Ord>()   // generic only to keep the mention of FreeWord's trait impls out of this item (a direct
    ensures vstd::laws_cmp::obeys_cmp::<T>()   // mention changes how Verus orders `impl Ord for FreeWord`); it is instantiated at FreeWord only
{}

pub assume_specification<T: Ord, const N: usize>[<BTreeSet<T> as From<[T; N]>>::from](a: [T; N]) -> (r: BTreeSet<T>)
    ensures vstd::laws_cmp::obeys_cmp::<T>() ==> r@ == a@.to_set(),
;

// all letters are generators or inverse generators of a group with b generators (what the coset table needs of a relator)
pub open spec fn within(s: Seq<isize>, b: int) -> bool { forall|k: int| 0 <= k < s.len() ==> -b <= #[trigger] s[k] <= b }

proof fn lemma_reduce_from_within(buf: Seq<isize>, s: Seq<isize>, b: int)
    requires within(buf, b), within(s, b)
    ensures within(reduce_from(buf, s), b)
    decreases s.len()
{
    if s.len() > 0 {
        let nb = step(buf, s[0]);
        assert(within(nb, b)) by {
            assert(-b <= s[0] <= b);
            assert forall|k: int| 0 <= k < nb.len() implies -b <= #[trigger] nb[k] <= b by { if k < buf.len() { assert(-b <= buf[k] <= b); } }
        }
        assert(within(s.drop_first(), b)) by { assert forall|k: int| 0 <= k < s.drop_first().len() implies -b <= #[trigger] s.drop_first()[k] <= b by { assert(s.drop_first()[k] == s[k + 1]); } }
        lemma_reduce_from_within(nb, s.drop_first(), b);
    }
}

proof fn lemma_is_perm_within(fw: Seq<isize>, u: Seq<isize>, b: int)
    requires is_perm(fw, u), within(fw, b), letters_ok(fw)
    ensures within(u, b)
{
    let k = choose|k: int| 0 <= k < fw.len() && (#[trigger] rot(fw, k) == u || inv_w(rot(fw, k)) == u);
    let raw = fw.skip(k) + fw.take(k);
    assert(within(raw, b)) by { assert forall|j: int| 0 <= j < raw.len() implies -b <= #[trigger] raw[j] <= b by { if j < fw.len() - k { assert(raw[j] == fw[k + j]); } else { assert(raw[j] == fw[j - (fw.len() - k)]); } } }
    assert(within(Seq::<isize>::empty(), b));
    lemma_reduce_from_within(Seq::empty(), raw, b);
    let r = rot(fw, k);
    assert(letters_ok(raw)) by { assert forall|j: int| 0 <= j < raw.len() implies #[trigger] raw[j] > isize::MIN by { if j < fw.len() - k { assert(raw[j] == fw[k + j]); } else { assert(raw[j] == fw[j - (fw.len() - k)]); } } }
    lemma_reduce_reduced(raw);
    assert(within(neg_rev(r), b)) by { assert forall|j: int| 0 <= j < neg_rev(r).len() implies -b <= #[trigger] neg_rev(r)[j] <= b by { assert(-b <= r[r.len() - 1 - j] <= b); assert(r[r.len() - 1 - j] > isize::MIN); } }
    lemma_reduce_from_within(Seq::empty(), neg_rev(r), b);
}

// ---------- models: actions of the generators on points (for unit `cosets`: a relator that acts trivially in a model does so in all its
// rotations and inverses; spec functions copied verbatim there) ----------
pub open spec fn m1(act: spec_fn(int, int) -> int, n: int) -> bool {
    forall|x: int, g: int| g != 0 && -n <= g <= n ==> #[trigger] act(act(x, g), -g) == x
}
pub open spec fn act_word(act: spec_fn(int, int) -> int, x: int, w: Seq<isize>) -> int
    decreases w.len()
{
    if w.len() == 0 { x } else { act(act_word(act, x, w.drop_last()), w.last() as int) }
}
pub open spec fn triv(act: spec_fn(int, int) -> int, w: Seq<isize>) -> bool { forall|x: int| #[trigger] act_word(act, x, w) == x }
// letters are generators or inverse generators of a group with n generators
pub open spec fn gens_in(s: Seq<isize>, n: int) -> bool { forall|k: int| 0 <= k < s.len() ==> #[trigger] s[k] != 0 && -n <= s[k] <= n && s[k] > isize::MIN }

proof fn lemma_aw_concat(act: spec_fn(int, int) -> int, x: int, u: Seq<isize>, v: Seq<isize>)
    ensures act_word(act, x, u + v) == act_word(act, act_word(act, x, u), v)
    decreases v.len()
{
    if v.len() == 0 { assert(u + v =~= u); }
    else {
        assert((u + v).drop_last() =~= u + v.drop_last());
        assert((u + v).last() == v.last());
        lemma_aw_concat(act, x, u, v.drop_last());
    }
}

proof fn lemma_aw_single(act: spec_fn(int, int) -> int, x: int, g: isize)
    ensures act_word(act, x, seq![g]) == act(x, g as int)
{
    let s1 = seq![g];
    assert(s1.len() == 1 && s1.last() == g);
    assert(s1.drop_last() =~= Seq::<isize>::empty());
    assert(act_word(act, x, s1.drop_last()) == x);
}

// acting by a word and then by its formal inverse leads back
proof fn lemma_aw_inv(act: spec_fn(int, int) -> int, n: int, x: int, v: Seq<isize>)
    requires m1(act, n), gens_in(v, n)
    ensures act_word(act, act_word(act, x, v), neg_rev(v)) == x
    decreases v.len()
{
    if v.len() > 0 {
        let v0 = v.drop_last();
        let g = v.last();
        let iv = neg_rev(v);
        assert(v[v.len() - 1] != 0 && -n <= v[v.len() - 1] <= n && v[v.len() - 1] > isize::MIN);
        let ng = (-(g as int)) as isize;
        assert(iv =~= seq![ng] + neg_rev(v0)) by {
            assert(iv.len() == v.len());
            assert forall|k: int| 0 <= k < iv.len() implies iv[k] == (seq![ng] + neg_rev(v0))[k] by {
                if k > 0 { assert(neg_rev(v0)[k - 1] == (-(v0[v0.len() - 1 - (k - 1)] as int)) as isize); assert(v0[v0.len() - k] == v[v.len() - 1 - k]); }
            }
        }
        let y = act_word(act, x, v);
        lemma_aw_concat(act, y, seq![ng], neg_rev(v0));
        lemma_aw_single(act, y, ng);
        assert(act(act(act_word(act, x, v0), g as int), -(g as int)) == act_word(act, x, v0));
        assert(gens_in(v0, n)) by { assert forall|j: int| 0 <= j < v0.len() implies #[trigger] v0[j] != 0 && -n <= v0[j] <= n && v0[j] > isize::MIN by { assert(v0[j] == v[j]); } }
        lemma_aw_inv(act, n, x, v0);
    }
}

proof fn lemma_neg_rev_gens(v: Seq<isize>, n: int)
    requires gens_in(v, n)
    ensures gens_in(neg_rev(v), n), neg_rev(neg_rev(v)) == v
{
    assert forall|k: int| 0 <= k < neg_rev(v).len() implies #[trigger] neg_rev(v)[k] != 0 && -n <= neg_rev(v)[k] <= n && neg_rev(v)[k] > isize::MIN by {
        assert(v[v.len() - 1 - k] != 0 && -n <= v[v.len() - 1 - k] <= n && v[v.len() - 1 - k] > isize::MIN);
    }
    assert forall|k: int| 0 <= k < v.len() implies neg_rev(neg_rev(v))[k] == v[k] by { assert(v[k] > isize::MIN); }
    assert(neg_rev(neg_rev(v)) =~= v);
}

// a word that acts trivially everywhere does so after rotation ...
proof fn lemma_triv_rotation(act: spec_fn(int, int) -> int, n: int, fw: Seq<isize>, k: int)
    requires m1(act, n), gens_in(fw, n), triv(act, fw), 0 <= k <= fw.len()
    ensures triv(act, fw.skip(k) + fw.take(k)), gens_in(fw.skip(k) + fw.take(k), n)
{
    let v = fw.take(k); let t = fw.skip(k);
    assert(fw =~= v + t);
    assert(gens_in(v, n)) by { assert forall|j: int| 0 <= j < v.len() implies #[trigger] v[j] != 0 && -n <= v[j] <= n && v[j] > isize::MIN by { assert(v[j] == fw[j]); } }
    assert(gens_in(t + v, n)) by { assert forall|j: int| 0 <= j < (t + v).len() implies #[trigger] (t + v)[j] != 0 && -n <= (t + v)[j] <= n && (t + v)[j] > isize::MIN by {
        if j < t.len() { assert((t + v)[j] == fw[k + j]); } else { assert((t + v)[j] == fw[j - t.len()]); } } }
    assert forall|x: int| #[trigger] act_word(act, x, t + v) == x by {
        lemma_neg_rev_gens(v, n);
        let z = act_word(act, x, neg_rev(v));
        lemma_aw_inv(act, n, x, neg_rev(v));          // z . v == x
        assert(act_word(act, z, v) == x);
        assert(act_word(act, z, v + t) == z);
        lemma_aw_concat(act, z, v, t);                 // (z . v) . t == z
        lemma_aw_concat(act, x, t, v);                 // x . (t v) == (x . t) . v == z . v == x
    }
}

// ... after inversion ...
proof fn lemma_triv_inverse(act: spec_fn(int, int) -> int, n: int, w: Seq<isize>)
    requires m1(act, n), gens_in(w, n), triv(act, w)
    ensures triv(act, neg_rev(w)), gens_in(neg_rev(w), n)
{
    lemma_neg_rev_gens(w, n);
    assert forall|x: int| #[trigger] act_word(act, x, neg_rev(w)) == x by {
        lemma_aw_inv(act, n, x, w);
        assert(act_word(act, x, w) == x);
    }
}

// ... and after free reduction (cancelling g g^-1 does not change the action)
proof fn lemma_aw_reduce_from(act: spec_fn(int, int) -> int, n: int, x: int, buf: Seq<isize>, s: Seq<isize>)
    requires m1(act, n), gens_in(buf, n), gens_in(s, n)
    ensures act_word(act, x, reduce_from(buf, s)) == act_word(act, act_word(act, x, buf), s), gens_in(reduce_from(buf, s), n)
    decreases s.len()
{
    if s.len() > 0 {
        let g = s[0];
        let rest = s.drop_first();
        let nb = step(buf, g);
        assert(s[0] != 0 && -n <= s[0] <= n && s[0] > isize::MIN);
        assert(gens_in(rest, n)) by { assert forall|j: int| 0 <= j < rest.len() implies #[trigger] rest[j] != 0 && -n <= rest[j] <= n && rest[j] > isize::MIN by { assert(rest[j] == s[j + 1]); } }
        // one step: x . step(buf, g) == (x . buf) . g
        if buf.len() > 0 && neg_eq(g, buf.last()) {
            let b0 = buf.drop_last();
            assert(nb == b0);
            assert(buf[buf.len() - 1] != 0 && -n <= buf[buf.len() - 1] <= n && buf[buf.len() - 1] > isize::MIN);
            assert(act(act(act_word(act, x, b0), buf.last() as int), -(buf.last() as int)) == act_word(act, x, b0));
            assert(g as int == -(buf.last() as int));
            assert(gens_in(nb, n)) by { assert forall|j: int| 0 <= j < nb.len() implies #[trigger] nb[j] != 0 && -n <= nb[j] <= n && nb[j] > isize::MIN by { assert(nb[j] == buf[j]); } }
        } else {
            assert(nb == buf.push(g));
            assert(nb.drop_last() =~= buf);
            assert(gens_in(nb, n)) by { assert forall|j: int| 0 <= j < nb.len() implies #[trigger] nb[j] != 0 && -n <= nb[j] <= n && nb[j] > isize::MIN by { if j < buf.len() { assert(nb[j] == buf[j]); } } }
        }
        assert(act_word(act, x, nb) == act(act_word(act, x, buf), g as int));
        lemma_aw_reduce_from(act, n, x, nb, rest);
        assert(s =~= seq![g] + rest);
        lemma_aw_concat(act, act_word(act, x, buf), seq![g], rest);
        lemma_aw_single(act, act_word(act, x, buf), g);
    }
}

// every candidate of the relator representative acts trivially where the word does
proof fn lemma_perm_triv(act: spec_fn(int, int) -> int, n: int, fw: Seq<isize>, u: Seq<isize>)
    requires m1(act, n), reduced(fw), within(fw, n), triv(act, fw), is_perm(fw, u)
    ensures triv(act, u)
{
    assert(gens_in(fw, n)) by { assert forall|j: int| 0 <= j < fw.len() implies #[trigger] fw[j] != 0 && -n <= fw[j] <= n && fw[j] > isize::MIN by { } }
    let k = choose|k: int| 0 <= k < fw.len() && (#[trigger] rot(fw, k) == u || inv_w(rot(fw, k)) == u);
    let raw = fw.skip(k) + fw.take(k);
    lemma_triv_rotation(act, n, fw, k);
    let e = Seq::<isize>::empty();
    assert(gens_in(e, n));
    let r = rot(fw, k);
    assert forall|x: int| #[trigger] act_word(act, x, r) == x by { lemma_aw_reduce_from(act, n, x, e, raw); }
    lemma_aw_reduce_from(act, n, 0, e, raw);
    lemma_triv_inverse(act, n, r);
    let ri = inv_w(r);
    assert forall|x: int| #[trigger] act_word(act, x, ri) == x by { lemma_aw_reduce_from(act, n, x, e, neg_rev(r)); }
}

pub open spec fn has_view(s: Set<FreeWord>, v: Seq<isize>) -> bool { exists|u: FreeWord| #[trigger] s.contains(u) && u@ == v }

//@ begin src/fpgroups/free_words.rs :: - :: fn relator_permutations
//@ rw R16 /-> BTreeSet<FreeWord>/-> (result: BTreeSet<FreeWord>)/
//@ rw R14 /^([ \t]*)BTreeSet::from\(\[fw\.clone\(\)\]\)$/\1let __c = fw.clone();\n\1let __a = [__c];\n\1BTreeSet::from(__a)/
//@ rw R14 /^([ \t]*)result\.insert\((.*)\);$/\1let __wi = \2;\n\1result.insert(__wi);/1
pub fn relator_permutations(fw: &FreeWord) -> (result: BTreeSet<FreeWord>)
    ensures
        // every member is a candidate ...
        forall|u: FreeWord| #[trigger] result@.contains(u) ==> (if fw@.len() == 0 { u@ == fw@ } else { is_perm(fw@, u@) }),
        // ... and every candidate is a member: the set is exactly the rotations and their inverses
        fw@.len() == 0 ==> has_view(result@, fw@),
        forall|k: int| 0 <= k < fw@.len() ==> has_view(result@, #[trigger] rot(fw@, k)) && has_view(result@, inv_w(rot(fw@, k))),
        // in the form unit `cosets` imports: the word itself is a member, and members use no letter beyond those of the word
        has_view(result@, fw@),
        forall|u: FreeWord, b: int| #![trigger result@.contains(u), within(fw@, b)] result@.contains(u) && within(fw@, b) ==> within(u@, b),
        forall|act: spec_fn(int, int) -> int, n: int, u: FreeWord| #![trigger m1(act, n), result@.contains(u)] m1(act, n) && within(fw@, n) && triv(act, fw@) && result@.contains(u) ==> triv(act, u@),
{
    proof { axiom_vec_len_isize(&fw.w); axiom_obeys_cmp::<FreeWord>(); use_type_invariant(fw); }
    if fw.w.len() == 0 {
        let __c = fw.clone();
        let __a = [__c];
        proof { assert(__a@.to_set().contains(__a@[0])); assert(forall|u: FreeWord| __a@.to_set().contains(u) ==> u == __a@[0]); }
        BTreeSet::from(__a)
    } else {
        let mut result = BTreeSet::from([]);
        proof { assert(forall|u: FreeWord| !result@.contains(u)); }

        for i in 0..fw.w.len()
            invariant
                fw@.len() > 0, fw@.len() <= isize::MAX, fw@.len() == fw.w@.len(),
                forall|u: FreeWord| #[trigger] result@.contains(u) ==> is_perm(fw@, u@),
                forall|k: int| 0 <= k < i ==> has_view(result@, #[trigger] rot(fw@, k)) && has_view(result@, inv_w(rot(fw@, k))),
                vstd::laws_cmp::obeys_cmp::<FreeWord>(),
        {
            let w = fw.rotated(i as isize);
            proof {
                assert(emod(i as int, fw@.len() as int) == i) by (nonlinear_arith) requires 0 <= i < fw@.len();
                assert(rot(fw@, i as int) == w@);
            }
            let __wi = w.inverse();
            let ghost gw = w; let ghost gwi = __wi; let ghost r0 = result@;
            result.insert(__wi);
            result.insert(w);
            proof {
                assert(result@.contains(gw) && result@.contains(gwi));
                assert forall|k: int| 0 <= k < i + 1 implies has_view(result@, #[trigger] rot(fw@, k)) && has_view(result@, inv_w(rot(fw@, k))) by {
                    if k < i {
                        let u1 = choose|u: FreeWord| #[trigger] r0.contains(u) && u@ == rot(fw@, k);
                        let u2 = choose|u: FreeWord| #[trigger] r0.contains(u) && u@ == inv_w(rot(fw@, k));
                        assert(result@.contains(u1)); assert(result@.contains(u2));
                    }
                }
            }
        }
        proof {
            assert(fw@.skip(0) + fw@.take(0) =~= fw@); lemma_reduce_id(fw@);
            assert(has_view(result@, rot(fw@, 0)));
            assert forall|u: FreeWord, b: int| #![trigger result@.contains(u), within(fw@, b)] result@.contains(u) && within(fw@, b) implies within(u@, b) by {
                lemma_is_perm_within(fw@, u@, b);
            }
            assert forall|act: spec_fn(int, int) -> int, n: int, u: FreeWord| #![trigger m1(act, n), result@.contains(u)] m1(act, n) && within(fw@, n) && triv(act, fw@) && result@.contains(u) implies triv(act, u@) by {
                lemma_perm_triv(act, n, fw@, u@);
            }
        }
        result
    }
}
//@ end

impl IndexSpecImpl<usize> for FreeWord {
    open spec fn index_req(&self, index: &usize) -> bool { *index < self@.len() }
}

impl Index<usize> for FreeWord {
    type Output = isize;

    //@ begin src/fpgroups/free_words.rs :: impl Index<usize> for FreeWord :: fn index
    //@ rw R16 /-> &Self::Output/-> (r: &Self::Output)/
    fn index(&self, index: usize) -> (r: &Self::Output)
        ensures *r == self@[index as int]
    {
        &self.w[index]
    }
    //@ end
}

// =====================================================================================================
// C10: "the relator representative is identical for every rotation and inversion of a cyclically reduced word"
// =====================================================================================================
pub open spec fn raw_rot(s: Seq<isize>, k: int) -> Seq<isize> { s.skip(k) + s.take(k) }
pub open spec fn cyc_reduced(s: Seq<isize>) -> bool { reduced(s) && s.len() > 0 && !neg_eq(s[0], s.last()) }
// b is the least candidate of fw (what relator_representative returns)
pub open spec fn least_cand(fw: Seq<isize>, b: Seq<isize>) -> bool {
    is_perm(fw, b) && forall|c: Seq<isize>| #[trigger] is_perm(fw, c) ==> !lt(c, b)
}

proof fn lemma_raw_rot_index(s: Seq<isize>, k: int, j: int)
    requires 0 <= k <= s.len(), 0 <= j < s.len()
    ensures raw_rot(s, k).len() == s.len(), raw_rot(s, k)[j] == (if j < s.len() - k { s[k + j] } else { s[j - (s.len() - k)] })
{}

proof fn lemma_raw_rot_reduced(s: Seq<isize>, k: int)
    requires cyc_reduced(s), 0 <= k < s.len()
    ensures cyc_reduced(raw_rot(s, k)), rot(s, k) == raw_rot(s, k)
{
    let n = s.len() as int;
    let r = raw_rot(s, k);
    assert forall|j: int| 0 <= j < r.len() implies #[trigger] r[j] != 0 && r[j] > isize::MIN by { lemma_raw_rot_index(s, k, j); }
    assert forall|j: int| 0 <= j < r.len() - 1 implies !neg_eq(#[trigger] r[j + 1], r[j]) by {
        lemma_raw_rot_index(s, k, j); lemma_raw_rot_index(s, k, j + 1);
        if j + 1 < n - k { assert(!neg_eq(s[(k + j) + 1], s[k + j])); }
        else if j < n - k { assert(j == n - k - 1); assert(s.last() == s[n - 1]); }
        else { assert(!neg_eq(s[(j - (n - k)) + 1], s[j - (n - k)])); }
    }
    lemma_raw_rot_index(s, k, 0); lemma_raw_rot_index(s, k, n - 1);
    assert(r.last() == r[n - 1]);
    if k == 0 { assert(s.last() == s[n - 1]); } else { assert(!neg_eq(s[(k - 1) + 1], s[k - 1])); }
    lemma_reduce_id(r);
}

proof fn lemma_rot_rot(s: Seq<isize>, k: int, i: int)
    requires 0 <= k < s.len(), 0 <= i < s.len()
    ensures raw_rot(raw_rot(s, k), i) == raw_rot(s, if k + i < s.len() { k + i } else { k + i - s.len() })
{
    let n = s.len() as int;
    let m = if k + i < n { k + i } else { k + i - n };
    let a = raw_rot(raw_rot(s, k), i);
    let b = raw_rot(s, m);
    assert(a.len() == b.len());
    assert forall|j: int| 0 <= j < n implies a[j] == b[j] by {
        lemma_raw_rot_index(raw_rot(s, k), i, j);
        lemma_raw_rot_index(s, m, j);
        if j < n - i { lemma_raw_rot_index(s, k, i + j); } else { lemma_raw_rot_index(s, k, j - (n - i)); }
    }
    assert(a =~= b);
}

proof fn lemma_neg_rev_rot(s: Seq<isize>, k: int)
    requires 0 <= k < s.len()
    ensures neg_rev(raw_rot(s, k)) == raw_rot(neg_rev(s), if k == 0 { 0 } else { s.len() - k })
{
    let n = s.len() as int;
    let m = if k == 0 { 0 } else { n - k };
    let a = neg_rev(raw_rot(s, k));
    let b = raw_rot(neg_rev(s), m);
    assert(a.len() == b.len());
    assert forall|j: int| 0 <= j < n implies a[j] == b[j] by {
        lemma_raw_rot_index(s, k, n - 1 - j);
        lemma_raw_rot_index(neg_rev(s), m, j);
    }
    assert(a =~= b);
}

proof fn lemma_neg_rev_cyc(s: Seq<isize>)
    requires cyc_reduced(s)
    ensures cyc_reduced(neg_rev(s)), inv_w(s) == neg_rev(s), neg_rev(neg_rev(s)) == s
{
    let n = s.len() as int;
    let r = neg_rev(s);
    assert forall|j: int| 0 <= j < r.len() implies #[trigger] r[j] != 0 && r[j] > isize::MIN by { assert(s[n - 1 - j] != 0 && s[n - 1 - j] > isize::MIN); }
    assert forall|j: int| 0 <= j < r.len() - 1 implies !neg_eq(#[trigger] r[j + 1], r[j]) by {
        assert(!neg_eq(s[(n - 2 - j) + 1], s[n - 2 - j]));
        assert(s[n - 2 - j] > isize::MIN && s[n - 1 - j] > isize::MIN);
    }
    assert(s.last() == s[n - 1]); assert(r.last() == r[n - 1]);
    assert(s[0] > isize::MIN && s[n - 1] > isize::MIN);
    lemma_reduce_id(r);
    assert forall|j: int| 0 <= j < n implies neg_rev(r)[j] == s[j] by { assert(s[j] > isize::MIN); }
    assert(neg_rev(r) =~= s);
}

// the candidate set of a rotation is the candidate set of the word
proof fn lemma_cands_of_rotation(u: Seq<isize>, k: int, c: Seq<isize>)
    requires cyc_reduced(u), 0 <= k < u.len()
    ensures is_perm(rot(u, k), c) <==> is_perm(u, c)
{
    let n = u.len() as int;
    let v = rot(u, k);
    lemma_raw_rot_reduced(u, k);
    assert(v.len() == n);
    if is_perm(v, c) {
        let i = choose|i: int| 0 <= i < v.len() && (#[trigger] rot(v, i) == c || inv_w(rot(v, i)) == c);
        lemma_raw_rot_reduced(v, i);
        lemma_rot_rot(u, k, i);
        let m = if k + i < n { k + i } else { k + i - n };
        lemma_raw_rot_reduced(u, m);
        assert(rot(v, i) == rot(u, m));
    }
    if is_perm(u, c) {
        let j = choose|j: int| 0 <= j < u.len() && (#[trigger] rot(u, j) == c || inv_w(rot(u, j)) == c);
        let i = if j >= k { j - k } else { j - k + n };
        lemma_raw_rot_reduced(v, i);
        lemma_rot_rot(u, k, i);
        lemma_raw_rot_reduced(u, j);
        assert(rot(v, i) == rot(u, j));
    }
}

// the candidate set of the inverse is the candidate set of the word
proof fn lemma_cands_of_inverse(u: Seq<isize>, c: Seq<isize>)
    requires cyc_reduced(u)
    ensures is_perm(inv_w(u), c) <==> is_perm(u, c)
{
    let n = u.len() as int;
    lemma_neg_rev_cyc(u);
    let v = neg_rev(u);
    assert(v.len() == n);
    if is_perm(v, c) {
        let i = choose|i: int| 0 <= i < v.len() && (#[trigger] rot(v, i) == c || inv_w(rot(v, i)) == c);
        let m = if i == 0 { 0 } else { n - i };
        lemma_raw_rot_reduced(v, i);
        lemma_raw_rot_reduced(u, m);
        lemma_neg_rev_rot(u, m);
        lemma_neg_rev_cyc(raw_rot(u, m));
        // rot(v, i) == neg_rev(rot(u, m)) == inv_w(rot(u, m));  inv_w(rot(v, i)) == rot(u, m)
        assert(rot(v, i) == inv_w(rot(u, m)));
        assert(inv_w(rot(v, i)) == rot(u, m));
    }
    if is_perm(u, c) {
        let j = choose|j: int| 0 <= j < u.len() && (#[trigger] rot(u, j) == c || inv_w(rot(u, j)) == c);
        let i = if j == 0 { 0 } else { n - j };
        lemma_raw_rot_reduced(v, i);
        lemma_raw_rot_reduced(u, j);
        lemma_neg_rev_rot(u, j);
        lemma_neg_rev_cyc(raw_rot(u, j));
        assert(rot(v, i) == inv_w(rot(u, j)));
        assert(inv_w(rot(v, i)) == rot(u, j));
    }
}

// two words with the same candidate set have the same least candidate (the order is a strict total order)
proof fn lemma_least_unique(u: Seq<isize>, v: Seq<isize>, bu: Seq<isize>, bv: Seq<isize>)
    requires reduced(u), reduced(v), least_cand(u, bu), least_cand(v, bv), forall|c: Seq<isize>| is_perm(v, c) <==> is_perm(u, c)
    ensures bu == bv
{
    let ku = choose|k: int| 0 <= k < u.len() && (#[trigger] rot(u, k) == bu || inv_w(rot(u, k)) == bu);
    let kv = choose|k: int| 0 <= k < v.len() && (#[trigger] rot(v, k) == bv || inv_w(rot(v, k)) == bv);
    lemma_rot_nz(u, ku); lemma_rot_nz(v, kv);
    assert(is_perm(v, bu)); assert(is_perm(u, bv));
    lemma_order(bu, bv, bu);
}

// THE C10 CLAUSE: for a cyclically reduced word, every rotation and the inverse have the same relator representative
pub proof fn lemma_representative_invariant(u: Seq<isize>, k: int, bu: Seq<isize>, brot: Seq<isize>, binv: Seq<isize>)
    requires cyc_reduced(u), 0 <= k < u.len(), least_cand(u, bu), least_cand(rot(u, k), brot), least_cand(inv_w(u), binv)
    ensures brot == bu, binv == bu
{
    lemma_raw_rot_reduced(u, k);
    lemma_neg_rev_cyc(u);
    assert forall|c: Seq<isize>| is_perm(rot(u, k), c) <==> is_perm(u, c) by { lemma_cands_of_rotation(u, k, c); }
    assert forall|c: Seq<isize>| is_perm(inv_w(u), c) <==> is_perm(u, c) by { lemma_cands_of_inverse(u, c); }
    lemma_least_unique(u, rot(u, k), bu, brot);
    lemma_least_unique(u, inv_w(u), bu, binv);
}

// =====================================================================================================
// vacuity guards: each canary_* MUST FAIL (it asserts false behind a precondition / invariant that has to be
// satisfiable); each witness_* must verify (it calls a contracted function on a literal input)
// =====================================================================================================
proof fn canary_cyc_reduced_is_satisfiable(s: Seq<isize>)
    requires cyc_reduced(s), s.len() == 3, s[0] == 1, s[1] == 2, s[2] == 1
    ensures false
{}

proof fn canary_least_cand_is_satisfiable(u: Seq<isize>, b: Seq<isize>)
    requires cyc_reduced(u), least_cand(u, b), u.len() == 2
    ensures false
{}

proof fn canary_reduced_is_satisfiable(s: Seq<isize>)
    requires reduced(s), s.len() == 3, s[0] == 1, s[1] == 2, s[2] == -1
    ensures false
{}

proof fn canary_type_invariant_is_satisfiable(w: FreeWord)
    requires w@.len() == 2
    ensures false
{}

fn canary_mul_contract(a: &FreeWord, b: &FreeWord)
    ensures false
{
    let c = Mul::mul(a, b);
}

fn witness_calls()
{
    let a = FreeWord::new(vec![1isize, -1, 2].into_iter());
    let b = FreeWord::new(vec![3isize].into_iter());
    let c = Mul::mul(&a, &b);
    let d = c.inverse();
    let e = d.rotated(1);
    let f = e.raised_to(-2);
    let g = relator_representative(&f);
    let h = a.commutator(&b);
    let o = a.cmp(&b);
}

} // verus!
fn main() {}
