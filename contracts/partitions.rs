//@ unit partitions
//@ props C20
use vstd::prelude::*;
verus! {

// ---------- abstract forest semantics (spec only) ----------
pub open spec fn in_range(p: Seq<usize>) -> bool {
    forall|i: int| 0 <= i < p.len() ==> 0 <= #[trigger] p[i] < p.len()
}

// n-fold parent of x; elements outside the table are their own parent
pub open spec fn up(p: Seq<usize>, x: int, n: nat) -> int
    decreases n
{
    if n == 0 { x } else if 0 <= x < p.len() { up(p, p[x] as int, (n - 1) as nat) } else { x }
}

pub open spec fn is_root(p: Seq<usize>, r: int) -> bool {
    !(0 <= r < p.len()) || p[r] == r
}

pub open spec fn reaches(p: Seq<usize>, x: int, r: int) -> bool {
    is_root(p, r) && exists|n: nat| up(p, x, n) == r
}

pub open spec fn has_root(p: Seq<usize>, x: int) -> bool {
    exists|r: int| reaches(p, x, r)
}

pub open spec fn acyclic(p: Seq<usize>) -> bool {
    forall|x: int| 0 <= x < p.len() ==> #[trigger] has_root(p, x)
}

pub open spec fn rep(p: Seq<usize>, x: int) -> int {
    if 0 <= x < p.len() { choose|r: int| reaches(p, x, r) } else { x }
}

proof fn lemma_up_root(p: Seq<usize>, r: int, n: nat)
    requires is_root(p, r)
    ensures up(p, r, n) == r
    decreases n
{
    if n > 0 && 0 <= r < p.len() { lemma_up_root(p, r, (n - 1) as nat); }
}

proof fn lemma_up_add(p: Seq<usize>, x: int, a: nat, b: nat)
    ensures up(p, up(p, x, a), b) == up(p, x, a + b)
    decreases a
{
    if a == 0 {
    } else if 0 <= x < p.len() {
        lemma_up_add(p, p[x] as int, (a - 1) as nat, b);
    } else {
        lemma_up_root(p, x, b);
    }
}

proof fn lemma_reaches_unique(p: Seq<usize>, x: int, r1: int, r2: int)
    requires reaches(p, x, r1), reaches(p, x, r2)
    ensures r1 == r2
{
    let n1 = choose|n: nat| up(p, x, n) == r1;
    let n2 = choose|n: nat| up(p, x, n) == r2;
    lemma_up_add(p, x, n1, n2);
    lemma_up_add(p, x, n2, n1);
    lemma_up_root(p, r1, n2);
    lemma_up_root(p, r2, n1);
}

proof fn lemma_rep_props(p: Seq<usize>, x: int)
    requires acyclic(p), 0 <= x < p.len(), in_range(p)
    ensures reaches(p, x, rep(p, x)), 0 <= rep(p, x) < p.len()
{
    assert(has_root(p, x));
    let r = choose|r: int| reaches(p, x, r);
    let n = choose|n: nat| up(p, x, n) == r;
    lemma_up_in_range(p, x, n);
}

proof fn lemma_up_in_range(p: Seq<usize>, x: int, n: nat)
    requires in_range(p), 0 <= x < p.len()
    ensures 0 <= up(p, x, n) < p.len()
    decreases n
{
    if n > 0 { lemma_up_in_range(p, p[x] as int, (n - 1) as nat); }
}

proof fn lemma_rep_step(p: Seq<usize>, x: int)
    requires acyclic(p), in_range(p), 0 <= x < p.len()
    ensures rep(p, p[x] as int) == rep(p, x)
{
    lemma_rep_props(p, x);
    lemma_rep_props(p, p[x] as int);
    let r = rep(p, x);
    let n = choose|n: nat| up(p, x, n) == r;
    if n == 0 {
        // x is root, p[x]==x
    } else {
        assert(up(p, p[x] as int, (n - 1) as nat) == r);
        assert(reaches(p, p[x] as int, r));
        lemma_reaches_unique(p, p[x] as int, r, rep(p, p[x] as int));
    }
}


// redirect a non-root t to its own representative (path compression step)
proof fn lemma_compress(p: Seq<usize>, t: int, z: int, n: nat)
    requires in_range(p), acyclic(p), 0 <= t < p.len(), 0 <= z < p.len(),
        up(p, z, n) == rep(p, z),
    ensures reaches(p.update(t, rep(p, t) as usize), z, rep(p, z))
    decreases n
{
    let q = rep(p, t);
    let p2 = p.update(t, q as usize);
    lemma_rep_props(p, t);
    lemma_rep_props(p, z);
    let r = rep(p, z);
    assert(is_root(p2, r)) by {
        if r == t { assert(up(p, t, 0) == t); assert(reaches(p, t, t)); lemma_reaches_unique(p, t, t, q); }
    }
    if z == t {
        assert(up(p2, z, 1) == up(p2, q, 0));
        assert(up(p2, z, 1) == q);
    } else if p[z] == z {
        assert(up(p, z, 0) == z); assert(reaches(p, z, z)); lemma_reaches_unique(p, z, z, r);
        assert(up(p2, z, 0) == z);
    } else {
        if n == 0 { assert(false); }
        lemma_rep_step(p, z);
        lemma_compress(p, t, p[z] as int, (n - 1) as nat);
        let m = choose|m: nat| up(p2, p[z] as int, m) == r;
        assert(up(p2, z, m + 1) == r);
    }
}



pub open spec fn good(p2: Seq<usize>, p: Seq<usize>, z: int) -> bool { reaches(p2, z, rep(p, z)) }

proof fn lemma_rep_is(p: Seq<usize>, x: int, r: int)
    requires in_range(p), acyclic(p), 0 <= x < p.len(), reaches(p, x, r)
    ensures rep(p, x) == r
{
    lemma_rep_props(p, x);
    lemma_reaches_unique(p, x, r, rep(p, x));
}

proof fn lemma_push_up(p: Seq<usize>, z: int, n: nat)
    requires in_range(p), 0 <= z < p.len(), p.len() < usize::MAX
    ensures up(p.push(p.len() as usize), z, n) == up(p, z, n)
    decreases n
{
    let p2 = p.push(p.len() as usize);
    if n > 0 {
        assert(p2[z] == p[z]);
        lemma_push_up(p, p[z] as int, (n - 1) as nat);
    }
}

proof fn lemma_push(p: Seq<usize>)
    requires in_range(p), acyclic(p), p.len() < usize::MAX
    ensures in_range(p.push(p.len() as usize)), acyclic(p.push(p.len() as usize)),
        forall|x: int| rep(p.push(p.len() as usize), x) == rep(p, x)
{
    let n0 = p.len() as int;
    let p2 = p.push(n0 as usize);
    assert(in_range(p2)) by {
        assert forall|i: int| 0 <= i < p2.len() implies 0 <= #[trigger] p2[i] < p2.len() by {
            if i < n0 { assert(p2[i] == p[i]); }
        }
    }
    assert forall|z: int| 0 <= z < p2.len() implies #[trigger] good(p2, p, z) by {
        if z < n0 {
            lemma_rep_props(p, z);
            let r = rep(p, z);
            let n = choose|n: nat| up(p, z, n) == r;
            lemma_push_up(p, z, n);
            assert(p2[r] == p[r]);
            assert(reaches(p2, z, r));
        } else {
            assert(up(p2, z, 0) == z);
            assert(p2[z] == z);
            assert(reaches(p2, z, z));
        }
    }
    assert forall|z: int| 0 <= z < p2.len() implies #[trigger] has_root(p2, z) by { assert(good(p2, p, z)); }
    assert(acyclic(p2));
    assert forall|x: int| rep(p2, x) == rep(p, x) by {
        if 0 <= x < p2.len() { assert(good(p2, p, x)); lemma_rep_is(p2, x, rep(p, x)); }
    }
}

proof fn lemma_compress_all(p: Seq<usize>, t: int)
    requires in_range(p), acyclic(p), 0 <= t < p.len()
    ensures in_range(p.update(t, rep(p, t) as usize)), acyclic(p.update(t, rep(p, t) as usize)),
        forall|x: int| rep(p.update(t, rep(p, t) as usize), x) == rep(p, x)
{
    lemma_rep_props(p, t);
    let p2 = p.update(t, rep(p, t) as usize);
    assert(in_range(p2));
    assert forall|z: int| 0 <= z < p2.len() implies #[trigger] good(p2, p, z) by {
        lemma_rep_props(p, z);
        let n = choose|n: nat| up(p, z, n) == rep(p, z);
        lemma_compress(p, t, z, n);
    }
    assert forall|z: int| 0 <= z < p2.len() implies #[trigger] has_root(p2, z) by { assert(good(p2, p, z)); }
    assert forall|x: int| rep(p2, x) == rep(p, x) by {
        if 0 <= x < p2.len() { assert(good(p2, p, x)); lemma_rep_is(p2, x, rep(p, x)); }
    }
}

proof fn lemma_root_rep(p: Seq<usize>, r: int)
    requires in_range(p), acyclic(p), 0 <= r < p.len(), p[r] == r
    ensures rep(p, r) == r
{
    assert(up(p, r, 0) == r);
    assert(reaches(p, r, r));
    lemma_rep_is(p, r, r);
}



// linking root x under root y
proof fn lemma_link_one(p: Seq<usize>, x: int, y: int, z: int, n: nat)
    requires in_range(p), acyclic(p), 0 <= x < p.len(), 0 <= y < p.len(), x != y, p[x] == x, p[y] == y,
        0 <= z < p.len(), up(p, z, n) == rep(p, z),
    ensures reaches(p.update(x, y as usize), z, if rep(p, z) == x { y } else { rep(p, z) })
    decreases n
{
    let p2 = p.update(x, y as usize);
    lemma_rep_props(p, z);
    let r = rep(p, z);
    if z == x {
        lemma_root_rep(p, x);
        assert(up(p2, y, 0) == y);
        assert(up(p2, z, 1) == y);
        assert(is_root(p2, y));
    } else if p[z] == z {
        lemma_root_rep(p, z);
        assert(up(p2, z, 0) == z);
        assert(is_root(p2, z));
    } else {
        if n == 0 { assert(false); }
        lemma_rep_step(p, z);
        lemma_link_one(p, x, y, p[z] as int, (n - 1) as nat);
        let tgt = if r == x { y } else { r };
        let m = choose|m: nat| up(p2, p[z] as int, m) == tgt;
        assert(p2[z] == p[z]);
        assert(up(p2, z, m + 1) == tgt);
    }
}

proof fn lemma_link(p: Seq<usize>, x: int, y: int)
    requires in_range(p), acyclic(p), 0 <= x < p.len(), 0 <= y < p.len(), x != y, p[x] == x, p[y] == y,
    ensures in_range(p.update(x, y as usize)), acyclic(p.update(x, y as usize)),
        forall|z: int| rep(p.update(x, y as usize), z) == (if rep(p, z) == x { y } else { rep(p, z) })
{
    let p2 = p.update(x, y as usize);
    assert(in_range(p2));
    assert forall|z: int| 0 <= z < p2.len() implies #[trigger] good2(p2, p, x, y, z) by {
        lemma_rep_props(p, z);
        let n = choose|n: nat| up(p, z, n) == rep(p, z);
        lemma_link_one(p, x, y, z, n);
    }
    assert forall|z: int| 0 <= z < p2.len() implies #[trigger] has_root(p2, z) by { assert(good2(p2, p, x, y, z)); }
    assert forall|z: int| rep(p2, z) == (if rep(p, z) == x { y } else { rep(p, z) }) by {
        if 0 <= z < p2.len() {
            assert(good2(p2, p, x, y, z));
            lemma_rep_is(p2, z, if rep(p, z) == x { y } else { rep(p, z) });
        } else {
            // outside the table: rep is z itself; z != x since x is inside
        }
    }
}

pub open spec fn good2(p2: Seq<usize>, p: Seq<usize>, x: int, y: int, z: int) -> bool {
    reaches(p2, z, if rep(p, z) == x { y } else { rep(p, z) })
}


// ---- overflow safety of `rank[x] = rx + 1`: sum of ranks <= number of non-roots (aux, not part of the partition semantics)
pub open spec fn total(r: Seq<usize>) -> int decreases r.len() {
    if r.len() == 0 { 0 } else { total(r.drop_last()) + r.last() }
}
pub open spec fn nonroots(p: Seq<usize>) -> int decreases p.len() {
    if p.len() == 0 { 0 } else { nonroots(p.drop_last()) + (if p.last() != p.len() - 1 { 1int } else { 0int }) }
}
proof fn lemma_total_update(r: Seq<usize>, k: int, v: usize)
    requires 0 <= k < r.len()
    ensures total(r.update(k, v)) == total(r) - r[k] + v
    decreases r.len()
{
    let r2 = r.update(k, v);
    if k == r.len() - 1 {
        assert(r2.drop_last() =~= r.drop_last());
    } else {
        assert(r2.drop_last() =~= r.drop_last().update(k, v));
        lemma_total_update(r.drop_last(), k, v);
    }
}
proof fn lemma_total_ge(r: Seq<usize>, k: int)
    requires 0 <= k < r.len()
    ensures total(r) >= r[k], total(r) >= 0
    decreases r.len()
{
    lemma_total_nonneg(r.drop_last());
    if k < r.len() - 1 { lemma_total_ge(r.drop_last(), k); }
}
proof fn lemma_total_nonneg(r: Seq<usize>)
    ensures total(r) >= 0
    decreases r.len()
{
    if r.len() > 0 { lemma_total_nonneg(r.drop_last()); }
}
proof fn lemma_nonroots_update(p: Seq<usize>, k: int, v: usize)
    requires 0 <= k < p.len()
    ensures nonroots(p.update(k, v)) == nonroots(p) - (if p[k] != k { 1int } else { 0int }) + (if v != k { 1int } else { 0int })
    decreases p.len()
{
    let p2 = p.update(k, v);
    if k == p.len() - 1 {
        assert(p2.drop_last() =~= p.drop_last());
    } else {
        assert(p2.drop_last() =~= p.drop_last().update(k, v));
        lemma_nonroots_update(p.drop_last(), k, v);
    }
}
proof fn lemma_nonroots_bound(p: Seq<usize>)
    ensures 0 <= nonroots(p) <= p.len()
    decreases p.len()
{
    if p.len() > 0 { lemma_nonroots_bound(p.drop_last()); }
}
proof fn lemma_nonroots_root(p: Seq<usize>, x: int)
    requires 0 <= x < p.len(), p[x] == x
    ensures nonroots(p) <= p.len() - 1
    decreases p.len()
{
    if x == p.len() - 1 { lemma_nonroots_bound(p.drop_last()); }
    else { lemma_nonroots_root(p.drop_last(), x); }
}
proof fn lemma_push_counts(p: Seq<usize>, r: Seq<usize>)
    requires p.len() < usize::MAX
    ensures nonroots(p.push(p.len() as usize)) == nonroots(p), total(r.push(0)) == total(r)
{
    assert(p.push(p.len() as usize).drop_last() =~= p);
    assert(r.push(0).drop_last() =~= r);
}

// ---------------- exec code: extracted from /repo/src/util/partitions.rs on every run ----------------
//@ begin src/util/partitions.rs :: - :: struct IntPartitionImpl
struct IntPartitionImpl {
    rank: Vec<usize>,
    parent: Vec<usize>,
}
//@ end

impl IntPartitionImpl {
    spec fn wf(&self) -> bool {
        &&& self.rank@.len() == self.parent@.len()
        &&& in_range(self.parent@)
        &&& acyclic(self.parent@)
        &&& total(self.rank@) <= nonroots(self.parent@)
        &&& self.parent@.len() <= usize::MAX
    }

    spec fn srep(&self, x: int) -> int { rep(self.parent@, x) }

    //@ begin src/util/partitions.rs :: impl IntPartitionImpl :: fn new
    //@ rw R16 /-> Self/-> (r: Self)/
    fn new() -> (r: Self)
        ensures r.wf(), r.parent@.len() == 0
    {
        IntPartitionImpl { rank: vec![], parent: vec![] }
    }
    //@ end

    //@ begin src/util/partitions.rs :: impl IntPartitionImpl :: fn root_index
    //@ rw R16 /-> usize/-> (r: usize)/
    //@ rw R10 /for i in (.*)\.\.=a$/for i in it: \1..(a) + 1/
    #[verifier::exec_allows_no_decreases_clause]
    fn root_index(&mut self, a: usize) -> (r: usize)
        requires old(self).wf(), a < usize::MAX
        ensures final(self).wf(),
            r == old(self).srep(a as int),
            forall|x: int| final(self).srep(x) == old(self).srep(x),
            final(self).parent@.len() > a,
            final(self).parent@.len() >= old(self).parent@.len(),
    {
        let mut x = a;
        let mut root = x;

        for i in it: self.parent.len()..(a) + 1
            invariant
                self.wf(),
                forall|x: int| self.srep(x) == old(self).srep(x),
                self.parent@.len() >= old(self).parent@.len(),
                a < usize::MAX,
                self.parent@.len() == self.rank@.len(),
                it.seq().len() == (if old(self).parent@.len() <= a { a + 1 - old(self).parent@.len() } else { 0 }),
                self.parent@.len() == old(self).parent@.len() + it.index(),
                0 <= it.index() <= it.seq().len(),
        {
            proof { lemma_push(self.parent@); lemma_push_counts(self.parent@, self.rank@); }
            self.parent.push(i);
            self.rank.push(0);
        }

        while self.parent[root] != root
            invariant self.wf(), root < self.parent@.len(), a < self.parent@.len(),
                self.parent@.len() >= old(self).parent@.len(),
                self.srep(root as int) == self.srep(a as int),
                forall|x: int| self.srep(x) == old(self).srep(x),
        {
            proof { lemma_rep_step(self.parent@, root as int); }
            root = self.parent[root];
        }
        proof { lemma_root_rep(self.parent@, root as int); }

        while x != root
            invariant self.wf(), root < self.parent@.len(), x < self.parent@.len(), a < self.parent@.len(),
                self.parent@.len() >= old(self).parent@.len(),
                self.srep(x as int) == root, self.parent@[root as int] == root,
                root == old(self).srep(a as int),
                forall|x: int| self.srep(x) == old(self).srep(x),
        {
            proof { lemma_rep_step(self.parent@, x as int); lemma_compress_all(self.parent@, x as int);
                    lemma_nonroots_update(self.parent@, x as int, root); }
            let t = x;
            x = self.parent[x];
            self.parent[t] = root;
        }

        root
    }
    //@ end

    //@ begin src/util/partitions.rs :: impl IntPartitionImpl :: fn find
    //@ rw R16 /-> usize/-> (r: usize)/
    //@ rw R14 /^([ \t]*)(self\.root_index\(a\))$/\1let __r = \2;\n\1__r/
    fn find(&mut self, a: usize) -> (r: usize)
        requires old(self).wf(), a < usize::MAX
        ensures final(self).wf(), r == old(self).srep(a as int),
            forall|x: int| final(self).srep(x) == old(self).srep(x),
            final(self).srep(r as int) == r,
    {
        let __r = self.root_index(a);
        proof { lemma_rep_props(self.parent@, a as int); lemma_root_rep(self.parent@, __r as int); }
        __r
    }
    //@ end

    //@ begin src/util/partitions.rs :: impl IntPartitionImpl :: fn unite
    fn unite(&mut self, a: usize, b: usize)
        requires old(self).wf(), a < usize::MAX, b < usize::MAX,
        ensures final(self).wf(),
            forall|z: int| #![trigger final(self).srep(z)] final(self).srep(z) ==
                (if old(self).srep(z) == old(self).srep(a as int) || old(self).srep(z) == old(self).srep(b as int)
                 { final(self).srep(a as int) } else { old(self).srep(z) }),
            final(self).srep(a as int) == final(self).srep(b as int),
            final(self).srep(a as int) == old(self).srep(a as int) || final(self).srep(a as int) == old(self).srep(b as int),
    {
        let x = self.root_index(a);
        let y = self.root_index(b);
        proof {
            lemma_rep_props(self.parent@, a as int);
            lemma_rep_props(self.parent@, b as int);
        }

        if x != y {
            let rx = self.rank[x];
            let ry = self.rank[y];

            if rx < ry {
                proof { lemma_link(self.parent@, x as int, y as int); lemma_nonroots_update(self.parent@, x as int, y); }
                self.parent[x] = y;
            } else {
                if rx == ry {
                    proof {
                        lemma_total_ge(self.rank@, x as int);
                        lemma_nonroots_root(self.parent@, x as int);
                        assert(rx + 1 <= self.parent@.len());
                        lemma_total_update(self.rank@, x as int, (rx + 1) as usize);
                    }
                    self.rank[x] = rx + 1;
                }
                proof { lemma_link(self.parent@, y as int, x as int); lemma_nonroots_update(self.parent@, y as int, x); }
                self.parent[y] = x;
            }
        }
    }
    //@ end
}

} // verus!
fn main() {}
