//@ unit partitions
//@ props C20
//@@ aux self\.rank\[\w+\] = 
use vstd::prelude::*;
use std::cell::UnsafeCell;
use std::collections::HashMap;
verus! {

// ---------- abstract forest semantics (spec only) ----------
pub open spec fn in_range(p: Seq<usize>) -> bool {
    forall|i: int| 0 <= i < p.len() ==> 0 <= #[trigger] p[i] < p.len()
}

// n-fold parent of x; elements outside the table are their own parent
pub open spec fn up(p: Seq<usize>, x: int, n: nat) -> int
    decreases n
{
    if n == 0 { x } else if 0 <= x < p.len() { up(p, p[x] as int, (n - 1) as nat) } else { x }
}

pub open spec fn is_root(p: Seq<usize>, r: int) -> bool {
    !(0 <= r < p.len()) || p[r] == r
}

pub open spec fn reaches(p: Seq<usize>, x: int, r: int) -> bool {
    is_root(p, r) && exists|n: nat| up(p, x, n) == r
}

pub open spec fn has_root(p: Seq<usize>, x: int) -> bool {
    exists|r: int| reaches(p, x, r)
}

pub open spec fn acyclic(p: Seq<usize>) -> bool {
    forall|x: int| 0 <= x < p.len() ==> #[trigger] has_root(p, x)
}

pub open spec fn rep(p: Seq<usize>, x: int) -> int {
    if 0 <= x < p.len() { choose|r: int| reaches(p, x, r) } else { x }
}

proof fn lemma_up_root(p: Seq<usize>, r: int, n: nat)
    requires is_root(p, r)
    ensures up(p, r, n) == r
    decreases n
{
    if n > 0 && 0 <= r < p.len() { lemma_up_root(p, r, (n - 1) as nat); }
}

proof fn lemma_up_add(p: Seq<usize>, x: int, a: nat, b: nat)
    ensures up(p, up(p, x, a), b) == up(p, x, a + b)
    decreases a
{
    if a == 0 {
    } else if 0 <= x < p.len() {
        lemma_up_add(p, p[x] as int, (a - 1) as nat, b);
    } else {
        lemma_up_root(p, x, b);
    }
}

proof fn lemma_reaches_unique(p: Seq<usize>, x: int, r1: int, r2: int)
    requires reaches(p, x, r1), reaches(p, x, r2)
    ensures r1 == r2
{
    let n1 = choose|n: nat| up(p, x, n) == r1;
    let n2 = choose|n: nat| up(p, x, n) == r2;
    lemma_up_add(p, x, n1, n2);
    lemma_up_add(p, x, n2, n1);
    lemma_up_root(p, r1, n2);
    lemma_up_root(p, r2, n1);
}

proof fn lemma_rep_props(p: Seq<usize>, x: int)
    requires acyclic(p), 0 <= x < p.len(), in_range(p)
    ensures reaches(p, x, rep(p, x)), 0 <= rep(p, x) < p.len()
{
    assert(has_root(p, x));
    let r = choose|r: int| reaches(p, x, r);
    let n = choose|n: nat| up(p, x, n) == r;
    lemma_up_in_range(p, x, n);
}

proof fn lemma_up_in_range(p: Seq<usize>, x: int, n: nat)
    requires in_range(p), 0 <= x < p.len()
    ensures 0 <= up(p, x, n) < p.len()
    decreases n
{
    if n > 0 { lemma_up_in_range(p, p[x] as int, (n - 1) as nat); }
}

proof fn lemma_rep_step(p: Seq<usize>, x: int)
    requires acyclic(p), in_range(p), 0 <= x < p.len()
    ensures rep(p, p[x] as int) == rep(p, x)
{
    lemma_rep_props(p, x);
    lemma_rep_props(p, p[x] as int);
    let r = rep(p, x);
    let n = choose|n: nat| up(p, x, n) == r;
    if n == 0 {
        // x is root, p[x]==x
    } else {
        assert(up(p, p[x] as int, (n - 1) as nat) == r);
        assert(reaches(p, p[x] as int, r));
        lemma_reaches_unique(p, p[x] as int, r, rep(p, p[x] as int));
    }
}


// redirect a non-root t to its own representative (path compression step)
proof fn lemma_compress(p: Seq<usize>, t: int, z: int, n: nat)
    requires in_range(p), acyclic(p), 0 <= t < p.len(), 0 <= z < p.len(),
        up(p, z, n) == rep(p, z),
    ensures reaches(p.update(t, rep(p, t) as usize), z, rep(p, z))
    decreases n
{
    let q = rep(p, t);
    let p2 = p.update(t, q as usize);
    lemma_rep_props(p, t);
    lemma_rep_props(p, z);
    let r = rep(p, z);
    assert(is_root(p2, r)) by {
        if r == t { assert(up(p, t, 0) == t); assert(reaches(p, t, t)); lemma_reaches_unique(p, t, t, q); }
    }
    if z == t {
        assert(up(p2, z, 1) == up(p2, q, 0));
        assert(up(p2, z, 1) == q);
    } else if p[z] == z {
        assert(up(p, z, 0) == z); assert(reaches(p, z, z)); lemma_reaches_unique(p, z, z, r);
        assert(up(p2, z, 0) == z);
    } else {
        if n == 0 { assert(false); }
        lemma_rep_step(p, z);
        lemma_compress(p, t, p[z] as int, (n - 1) as nat);
        let m = choose|m: nat| up(p2, p[z] as int, m) == r;
        assert(up(p2, z, m + 1) == r);
    }
}



pub open spec fn good(p2: Seq<usize>, p: Seq<usize>, z: int) -> bool { reaches(p2, z, rep(p, z)) }

proof fn lemma_rep_is(p: Seq<usize>, x: int, r: int)
    requires in_range(p), acyclic(p), 0 <= x < p.len(), reaches(p, x, r)
    ensures rep(p, x) == r
{
    lemma_rep_props(p, x);
    lemma_reaches_unique(p, x, r, rep(p, x));
}

proof fn lemma_push_up(p: Seq<usize>, z: int, n: nat)
    requires in_range(p), 0 <= z < p.len(), p.len() < usize::MAX
    ensures up(p.push(p.len() as usize), z, n) == up(p, z, n)
    decreases n
{
    let p2 = p.push(p.len() as usize);
    if n > 0 {
        assert(p2[z] == p[z]);
        lemma_push_up(p, p[z] as int, (n - 1) as nat);
    }
}

proof fn lemma_push(p: Seq<usize>)
    requires in_range(p), acyclic(p), p.len() < usize::MAX
    ensures in_range(p.push(p.len() as usize)), acyclic(p.push(p.len() as usize)),
        forall|x: int| rep(p.push(p.len() as usize), x) == rep(p, x)
{
    let n0 = p.len() as int;
    let p2 = p.push(n0 as usize);
    assert(in_range(p2)) by {
        assert forall|i: int| 0 <= i < p2.len() implies 0 <= #[trigger] p2[i] < p2.len() by {
            if i < n0 { assert(p2[i] == p[i]); }
        }
    }
    assert forall|z: int| 0 <= z < p2.len() implies #[trigger] good(p2, p, z) by {
        if z < n0 {
            lemma_rep_props(p, z);
            let r = rep(p, z);
            let n = choose|n: nat| up(p, z, n) == r;
            lemma_push_up(p, z, n);
            assert(p2[r] == p[r]);
            assert(reaches(p2, z, r));
        } else {
            assert(up(p2, z, 0) == z);
            assert(p2[z] == z);
            assert(reaches(p2, z, z));
        }
    }
    assert forall|z: int| 0 <= z < p2.len() implies #[trigger] has_root(p2, z) by { assert(good(p2, p, z)); }
    assert(acyclic(p2));
    assert forall|x: int| rep(p2, x) == rep(p, x) by {
        if 0 <= x < p2.len() { assert(good(p2, p, x)); lemma_rep_is(p2, x, rep(p, x)); }
    }
}

proof fn lemma_compress_all(p: Seq<usize>, t: int)
    requires in_range(p), acyclic(p), 0 <= t < p.len()
    ensures in_range(p.update(t, rep(p, t) as usize)), acyclic(p.update(t, rep(p, t) as usize)),
        forall|x: int| rep(p.update(t, rep(p, t) as usize), x) == rep(p, x)
{
    lemma_rep_props(p, t);
    let p2 = p.update(t, rep(p, t) as usize);
    assert(in_range(p2));
    assert forall|z: int| 0 <= z < p2.len() implies #[trigger] good(p2, p, z) by {
        lemma_rep_props(p, z);
        let n = choose|n: nat| up(p, z, n) == rep(p, z);
        lemma_compress(p, t, z, n);
    }
    assert forall|z: int| 0 <= z < p2.len() implies #[trigger] has_root(p2, z) by { assert(good(p2, p, z)); }
    assert forall|x: int| rep(p2, x) == rep(p, x) by {
        if 0 <= x < p2.len() { assert(good(p2, p, x)); lemma_rep_is(p2, x, rep(p, x)); }
    }
}

proof fn lemma_root_rep(p: Seq<usize>, r: int)
    requires in_range(p), acyclic(p), 0 <= r < p.len(), p[r] == r
    ensures rep(p, r) == r
{
    assert(up(p, r, 0) == r);
    assert(reaches(p, r, r));
    lemma_rep_is(p, r, r);
}



// linking root x under root y
proof fn lemma_link_one(p: Seq<usize>, x: int, y: int, z: int, n: nat)
    requires in_range(p), acyclic(p), 0 <= x < p.len(), 0 <= y < p.len(), x != y, p[x] == x, p[y] == y,
        0 <= z < p.len(), up(p, z, n) == rep(p, z),
    ensures reaches(p.update(x, y as usize), z, if rep(p, z) == x { y } else { rep(p, z) })
    decreases n
{
    let p2 = p.update(x, y as usize);
    lemma_rep_props(p, z);
    let r = rep(p, z);
    if z == x {
        lemma_root_rep(p, x);
        assert(up(p2, y, 0) == y);
        assert(up(p2, z, 1) == y);
        assert(is_root(p2, y));
    } else if p[z] == z {
        lemma_root_rep(p, z);
        assert(up(p2, z, 0) == z);
        assert(is_root(p2, z));
    } else {
        if n == 0 { assert(false); }
        lemma_rep_step(p, z);
        lemma_link_one(p, x, y, p[z] as int, (n - 1) as nat);
        let tgt = if r == x { y } else { r };
        let m = choose|m: nat| up(p2, p[z] as int, m) == tgt;
        assert(p2[z] == p[z]);
        assert(up(p2, z, m + 1) == tgt);
    }
}

proof fn lemma_link(p: Seq<usize>, x: int, y: int)
    requires in_range(p), acyclic(p), 0 <= x < p.len(), 0 <= y < p.len(), x != y, p[x] == x, p[y] == y,
    ensures in_range(p.update(x, y as usize)), acyclic(p.update(x, y as usize)),
        forall|z: int| rep(p.update(x, y as usize), z) == (if rep(p, z) == x { y } else { rep(p, z) })
{
    let p2 = p.update(x, y as usize);
    assert(in_range(p2));
    assert forall|z: int| 0 <= z < p2.len() implies #[trigger] good2(p2, p, x, y, z) by {
        lemma_rep_props(p, z);
        let n = choose|n: nat| up(p, z, n) == rep(p, z);
        lemma_link_one(p, x, y, z, n);
    }
    assert forall|z: int| 0 <= z < p2.len() implies #[trigger] has_root(p2, z) by { assert(good2(p2, p, x, y, z)); }
    assert forall|z: int| rep(p2, z) == (if rep(p, z) == x { y } else { rep(p, z) }) by {
        if 0 <= z < p2.len() {
            assert(good2(p2, p, x, y, z));
            lemma_rep_is(p2, z, if rep(p, z) == x { y } else { rep(p, z) });
        } else {
            // outside the table: rep is z itself; z != x since x is inside
        }
    }
}

pub open spec fn good2(p2: Seq<usize>, p: Seq<usize>, x: int, y: int, z: int) -> bool {
    reaches(p2, z, if rep(p, z) == x { y } else { rep(p, z) })
}


// ---- overflow safety of `rank[x] = rx + 1`: sum of ranks <= number of non-roots (aux, not part of the partition semantics)
pub open spec fn total(r: Seq<usize>) -> int decreases r.len() {
    if r.len() == 0 { 0 } else { total(r.drop_last()) + r.last() }
}
pub open spec fn nonroots(p: Seq<usize>) -> int decreases p.len() {
    if p.len() == 0 { 0 } else { nonroots(p.drop_last()) + (if p.last() != p.len() - 1 { 1int } else { 0int }) }
}
proof fn lemma_total_update(r: Seq<usize>, k: int, v: usize)
    requires 0 <= k < r.len()
    ensures total(r.update(k, v)) == total(r) - r[k] + v
    decreases r.len()
{
    let r2 = r.update(k, v);
    if k == r.len() - 1 {
        assert(r2.drop_last() =~= r.drop_last());
    } else {
        assert(r2.drop_last() =~= r.drop_last().update(k, v));
        lemma_total_update(r.drop_last(), k, v);
    }
}
proof fn lemma_total_ge(r: Seq<usize>, k: int)
    requires 0 <= k < r.len()
    ensures total(r) >= r[k], total(r) >= 0
    decreases r.len()
{
    lemma_total_nonneg(r.drop_last());
    if k < r.len() - 1 { lemma_total_ge(r.drop_last(), k); }
}
proof fn lemma_total_nonneg(r: Seq<usize>)
    ensures total(r) >= 0
    decreases r.len()
{
    if r.len() > 0 { lemma_total_nonneg(r.drop_last()); }
}
proof fn lemma_nonroots_update(p: Seq<usize>, k: int, v: usize)
    requires 0 <= k < p.len()
    ensures nonroots(p.update(k, v)) == nonroots(p) - (if p[k] != k { 1int } else { 0int }) + (if v != k { 1int } else { 0int })
    decreases p.len()
{
    let p2 = p.update(k, v);
    if k == p.len() - 1 {
        assert(p2.drop_last() =~= p.drop_last());
    } else {
        assert(p2.drop_last() =~= p.drop_last().update(k, v));
        lemma_nonroots_update(p.drop_last(), k, v);
    }
}
proof fn lemma_nonroots_bound(p: Seq<usize>)
    ensures 0 <= nonroots(p) <= p.len()
    decreases p.len()
{
    if p.len() > 0 { lemma_nonroots_bound(p.drop_last()); }
}
proof fn lemma_nonroots_root(p: Seq<usize>, x: int)
    requires 0 <= x < p.len(), p[x] == x
    ensures nonroots(p) <= p.len() - 1
    decreases p.len()
{
    if x == p.len() - 1 { lemma_nonroots_bound(p.drop_last()); }
    else { lemma_nonroots_root(p.drop_last(), x); }
}
proof fn lemma_push_counts(p: Seq<usize>, r: Seq<usize>)
    requires p.len() < usize::MAX
    ensures nonroots(p.push(p.len() as usize)) == nonroots(p), total(r.push(0)) == total(r)
{
    assert(p.push(p.len() as usize).drop_last() =~= p);
    assert(r.push(0).drop_last() =~= r);
}

// ---------------- exec code: extracted from /repo/src/util/partitions.rs on every run ----------------
//@ begin src/util/partitions.rs :: - :: struct IntPartitionImpl
//@ rw R0 /^struct /pub struct /
//@ rw R0 /^([ \t]+)(\w+): /\1pub \2: /
pub struct IntPartitionImpl {
    pub rank: Vec<usize>,
    pub parent: Vec<usize>,
}
//@ end

// derived Clone (dropped with the derive attribute, R0): field-wise copy
impl Clone for IntPartitionImpl {
    #[verifier::external_body]
    fn clone(&self) -> (r: Self)
        ensures r.parent@ == self.parent@, r.rank@ == self.rank@
    { IntPartitionImpl { rank: self.rank.clone(), parent: self.parent.clone() } }
}

impl IntPartitionImpl {
    pub open spec fn wf(&self) -> bool {
        &&& self.rank@.len() == self.parent@.len()
        &&& in_range(self.parent@)
        &&& acyclic(self.parent@)
        &&& self.parent@.len() <= usize::MAX
    }

    // auxiliary: bounds the ranks so that `rank[x] = rx + 1` cannot overflow.  It protects a machine-arithmetic corner only and
    // is NOT part of the partition semantics: obligations that mention it are tagged `aux` (a failure of only those is UNDECIDED)
    pub open spec fn rank_ok(&self) -> bool { total(self.rank@) <= nonroots(self.parent@) }

    pub open spec fn srep(&self, x: int) -> int { rep(self.parent@, x) }

    //@ begin src/util/partitions.rs :: impl IntPartitionImpl :: fn new
    //@ rw R16 /-> Self/-> (r: Self)/
    fn new() -> (r: Self)
        ensures r.wf(), r.parent@.len() == 0,
            r.rank_ok(), // aux
    {
        IntPartitionImpl { rank: vec![], parent: vec![] }
    }
    //@ end

    //@ begin src/util/partitions.rs :: impl IntPartitionImpl :: fn root_index
    //@ rw R16 /-> usize/-> (r: usize)/
    //@ rw R10 /for i in (.*)\.\.=a$/for i in it: \1..(a) + 1/
    #[verifier::exec_allows_no_decreases_clause]
    fn root_index(&mut self, a: usize) -> (r: usize)
        requires old(self).wf(), a < usize::MAX
        ensures final(self).wf(),
            r == old(self).srep(a as int),
            forall|x: int| final(self).srep(x) == old(self).srep(x),
            final(self).parent@.len() > a,
            final(self).parent@.len() >= old(self).parent@.len(),
            old(self).rank_ok() ==> final(self).rank_ok(), // aux
    {
        let mut x = a;
        let mut root = x;

        for i in it: self.parent.len()..(a) + 1
            invariant
                self.wf(),
                old(self).rank_ok() ==> self.rank_ok(), // aux
                forall|x: int| self.srep(x) == old(self).srep(x),
                self.parent@.len() >= old(self).parent@.len(),
                a < usize::MAX,
                self.parent@.len() == self.rank@.len(),
                it.seq().len() == (if old(self).parent@.len() <= a { a + 1 - old(self).parent@.len() } else { 0 }),
                self.parent@.len() == old(self).parent@.len() + it.index(),
                0 <= it.index() <= it.seq().len(),
        {
            proof { lemma_push(self.parent@); lemma_push_counts(self.parent@, self.rank@); }
            self.parent.push(i);
            self.rank.push(0);
        }

        while self.parent[root] != root
            invariant self.wf(), root < self.parent@.len(), a < self.parent@.len(),
                old(self).rank_ok() ==> self.rank_ok(), // aux
                self.parent@.len() >= old(self).parent@.len(),
                self.srep(root as int) == self.srep(a as int),
                forall|x: int| self.srep(x) == old(self).srep(x),
        {
            proof { lemma_rep_step(self.parent@, root as int); }
            root = self.parent[root];
        }
        proof { lemma_root_rep(self.parent@, root as int); }

        while x != root
            invariant self.wf(), root < self.parent@.len(), x < self.parent@.len(), a < self.parent@.len(),
                old(self).rank_ok() ==> self.rank_ok(), // aux
                self.parent@.len() >= old(self).parent@.len(),
                self.srep(x as int) == root, self.parent@[root as int] == root,
                root == old(self).srep(a as int),
                forall|x: int| self.srep(x) == old(self).srep(x),
        {
            proof { lemma_rep_step(self.parent@, x as int); lemma_compress_all(self.parent@, x as int);
                    lemma_nonroots_update(self.parent@, x as int, root); }
            let t = x;
            x = self.parent[x];
            self.parent[t] = root;
        }

        root
    }
    //@ end

    //@ begin src/util/partitions.rs :: impl IntPartitionImpl :: fn find
    //@ rw R16 /-> usize/-> (r: usize)/
    //@ rw R14 /^([ \t]*)(self\.root_index\(a\))$/\1let __r = \2;\n\1__r/
    fn find(&mut self, a: usize) -> (r: usize)
        requires old(self).wf(), a < usize::MAX
        ensures final(self).wf(), r == old(self).srep(a as int),
            forall|x: int| final(self).srep(x) == old(self).srep(x),
            final(self).srep(r as int) == r,
            old(self).rank_ok() ==> final(self).rank_ok(), // aux
    {
        let __r = self.root_index(a);
        proof { lemma_rep_props(self.parent@, a as int); lemma_root_rep(self.parent@, __r as int); }
        __r
    }
    //@ end

    //@ begin src/util/partitions.rs :: impl IntPartitionImpl :: fn unite
    fn unite(&mut self, a: usize, b: usize)
        requires old(self).wf(), a < usize::MAX, b < usize::MAX,
            old(self).rank_ok(), // aux
        ensures final(self).wf(),
            final(self).rank_ok(), // aux
            forall|z: int| #![trigger final(self).srep(z)] final(self).srep(z) ==
                (if old(self).srep(z) == old(self).srep(a as int) || old(self).srep(z) == old(self).srep(b as int)
                 { final(self).srep(a as int) } else { old(self).srep(z) }),
            final(self).srep(a as int) == final(self).srep(b as int),
            final(self).srep(a as int) == old(self).srep(a as int) || final(self).srep(a as int) == old(self).srep(b as int),
    {
        let x = self.root_index(a);
        let y = self.root_index(b);
        proof {
            lemma_rep_props(self.parent@, a as int);
            lemma_rep_props(self.parent@, b as int);
        }

        if x != y {
            proof {
                // either link direction keeps the partition semantics: both lemmas are made available up front so that the proof
                // does not depend on which root the rank heuristic picks
                lemma_link(self.parent@, x as int, y as int);
                lemma_link(self.parent@, y as int, x as int);
                lemma_nonroots_update(self.parent@, x as int, y);
                lemma_nonroots_update(self.parent@, y as int, x);
            }
            let rx = self.rank[x];
            let ry = self.rank[y];

            if rx < ry {
                self.parent[x] = y;
            } else {
                if rx == ry {
                    proof {
                        lemma_total_ge(self.rank@, x as int);
                        lemma_nonroots_root(self.parent@, x as int);
                        assert(rx + 1 <= self.parent@.len());
                        lemma_total_update(self.rank@, x as int, (rx + 1) as usize);
                    }
                    self.rank[x] = rx + 1;
                }
                self.parent[y] = x;
            }
        }
    }
    //@ end
}


// =====================================================================================================
// C20 as a statement about histories: "two elements have the same representative exactly when they are connected by
// the unions applied to that instance"
// =====================================================================================================
// connectivity generated by a history of unions (a, b), oldest first
pub open spec fn conn(h: Seq<(int, int)>, x: int, y: int) -> bool
    decreases h.len()
{
    if h.len() == 0 { x == y }
    else {
        let p = h.drop_last();
        let a = h.last().0;
        let b = h.last().1;
        conn(p, x, y) || (conn(p, x, a) && conn(p, y, b)) || (conn(p, x, b) && conn(p, y, a))
    }
}

// the postcondition of unite, as a relation between the representative functions before and after
pub open spec fn united(r0: spec_fn(int) -> int, r1: spec_fn(int) -> int, a: int, b: int) -> bool {
    &&& forall|z: int| #[trigger] r1(z) == (if r0(z) == r0(a) || r0(z) == r0(b) { r1(a) } else { r0(z) })
    &&& r1(a) == r1(b)
    &&& (r1(a) == r0(a) || r1(a) == r0(b))
}

pub open spec fn tracks(r: spec_fn(int) -> int, h: Seq<(int, int)>) -> bool {
    forall|x: int, y: int| (#[trigger] r(x) == #[trigger] r(y)) <==> conn(h, x, y)
}

// one unite step is one unfolding of conn; find / classes / clone leave the representative function (hence conn) alone.
// By induction over the history: after ANY sequence of operations, same representative <==> connected by the unions applied.
pub proof fn lemma_history_step(r0: spec_fn(int) -> int, r1: spec_fn(int) -> int, h: Seq<(int, int)>, a: int, b: int)
    requires tracks(r0, h), united(r0, r1, a, b)
    ensures tracks(r1, h.push((a, b)))
{
    let h2 = h.push((a, b));
    assert(h2.drop_last() =~= h);
    assert(h2.last() == (a, b));
    assert forall|x: int, y: int| (#[trigger] r1(x) == #[trigger] r1(y)) <==> conn(h2, x, y) by {
        assert(conn(h, x, y) <==> r0(x) == r0(y));
        assert(conn(h, x, a) <==> r0(x) == r0(a));
        assert(conn(h, y, b) <==> r0(y) == r0(b));
        assert(conn(h, x, b) <==> r0(x) == r0(b));
        assert(conn(h, y, a) <==> r0(y) == r0(a));
        assert(r1(x) == (if r0(x) == r0(a) || r0(x) == r0(b) { r1(a) } else { r0(x) }));
        assert(r1(y) == (if r0(y) == r0(a) || r0(y) == r0(b) { r1(a) } else { r0(y) }));
    }
}

pub proof fn lemma_history_start(r: spec_fn(int) -> int)
    requires forall|x: int| #[trigger] r(x) == x
    ensures tracks(r, Seq::empty())
{}

// IntPartitionImpl::unite establishes `united` (so the lemma applies to the real code)
proof fn lemma_unite_is_united(p0: IntPartitionImpl, p1: IntPartitionImpl, a: int, b: int)
    requires
        forall|z: int| #![trigger p1.srep(z)] p1.srep(z) ==
            (if p0.srep(z) == p0.srep(a) || p0.srep(z) == p0.srep(b) { p1.srep(a) } else { p0.srep(z) }),
        p1.srep(a) == p1.srep(b),
        p1.srep(a) == p0.srep(a) || p1.srep(a) == p0.srep(b),
    ensures united(|z: int| p0.srep(z), |z: int| p1.srep(z), a, b)
{
    let r0 = |z: int| p0.srep(z);
    let r1 = |z: int| p1.srep(z);
    assert forall|z: int| #[trigger] r1(z) == (if r0(z) == r0(a) || r0(z) == r0(b) { r1(a) } else { r0(z) }) by {
        assert(r1(z) == p1.srep(z));
    }
}

// =====================================================================================================
// IntPartition: the public wrapper.  `_impl: UnsafeCell<IntPartitionImpl>` lets `find(&self)` compress paths through a shared
// reference; unsafe aliasing is outside Verus, so the three one-line delegations are emitted external_body with the contract
// of the wrapped method proved above (R6).  The abstract state is the representative function, which find does not change.
// =====================================================================================================
#[verifier::external_body]
//@ begin src/util/partitions.rs :: - :: struct IntPartition
pub struct IntPartition {
    _impl: UnsafeCell<IntPartitionImpl>,
}
//@ end

impl IntPartition {
    pub uninterp spec fn rep(&self, x: int) -> int;

    //@ begin src/util/partitions.rs :: impl IntPartition :: fn new
    //@ rw R16 /-> Self/-> (r: Self)/
    #[verifier::external_body]
    pub fn new() -> (r: Self)
        ensures forall|x: int| #[trigger] r.rep(x) == x
    {
        IntPartition { _impl: UnsafeCell::new(IntPartitionImpl::new())}
    }
    //@ end

    //@ begin src/util/partitions.rs :: impl IntPartition :: fn find
    //@ rw R16 /-> usize/-> (r: usize)/
    #[verifier::external_body]
    pub fn find(&self, x: usize) -> (r: usize)
        requires x < usize::MAX
        ensures r == self.rep(x as int), self.rep(r as int) == r
    {
        unsafe { (*self._impl.get()).find(x) }
    }
    //@ end

    //@ begin src/util/partitions.rs :: impl IntPartition :: fn unite
    #[verifier::external_body]
    pub fn unite(&mut self, x: usize, y: usize)
        requires x < usize::MAX, y < usize::MAX
        ensures united(|z: int| old(self).rep(z), |z: int| final(self).rep(z), x as int, y as int)
    {
        unsafe { (*self._impl.get()).unite(x, y) };
    }
    //@ end
}

// the elements of s whose representative is r, in order
pub open spec fn sel(p: &IntPartition, s: Seq<usize>, r: int) -> Seq<usize>
    decreases s.len()
{
    if s.len() == 0 { Seq::empty() }
    else {
        let t = sel(p, s.drop_last(), r);
        if p.rep(s.last() as int) == r { t.push(s.last()) } else { t }
    }
}

proof fn lemma_sel_push(p: &IntPartition, s: Seq<usize>, x: usize, r: int)
    ensures sel(p, s.push(x), r) == (if p.rep(x as int) == r { sel(p, s, r).push(x) } else { sel(p, s, r) })
{
    assert(s.push(x).drop_last() =~= s);
}

proof fn lemma_sel_none(p: &IntPartition, s: Seq<usize>, r: int)
    requires forall|j: int| 0 <= j < s.len() ==> p.rep(#[trigger] s[j] as int) != r
    ensures sel(p, s, r) == Seq::<usize>::empty()
    decreases s.len()
{
    if s.len() > 0 {
        assert forall|j: int| 0 <= j < s.drop_last().len() implies p.rep(#[trigger] s.drop_last()[j] as int) != r by { assert(s.drop_last()[j] == s[j]); }
        lemma_sel_none(p, s.drop_last(), r);
        assert(p.rep(s[s.len() - 1] as int) != r);
    }
}

// what `classes` returns for the first n queried elements
pub open spec fn classes_ok(p: &IntPartition, elms: Seq<usize>, n: int, cs: Seq<Vec<usize>>, firsts: Seq<int>) -> bool {
    &&& firsts.len() == cs.len()
    // class k is non-empty and is exactly the queried elements with its representative, in query order ...
    &&& forall|k: int| 0 <= k < cs.len() ==> (#[trigger] cs[k])@.len() > 0 && cs[k]@ == sel(p, elms.take(n), p.rep(cs[k]@[0] as int))
    // ... classes have pairwise different representatives ...
    &&& forall|k: int, l: int| 0 <= k < l < cs.len() ==> p.rep((#[trigger] cs[k])@[0] as int) != p.rep((#[trigger] cs[l])@[0] as int)
    // ... every queried element is in some class ...
    &&& forall|j: int| 0 <= j < n ==> exists|k: int| 0 <= k < cs.len() && p.rep((#[trigger] cs[k])@[0] as int) == p.rep(#[trigger] elms[j] as int)
    // ... and classes are listed in first-occurrence order: class k starts with elms[firsts[k]], firsts strictly increasing
    &&& forall|k: int| 0 <= k < cs.len() ==> 0 <= #[trigger] firsts[k] < n && cs[k]@[0] == elms[firsts[k]]
    &&& forall|k: int, l: int| 0 <= k < l < cs.len() ==> #[trigger] firsts[k] < #[trigger] firsts[l]
}

impl IntPartition {
    //@ begin src/util/partitions.rs :: impl IntPartition :: fn classes
    //@ rw R16 /-> Vec<Vec<usize>>/-> (classes: Vec<Vec<usize>>)/
    //@ rw R12 /let mut class_for_rep = HashMap::new\(\);/let mut class_for_rep: HashMap<usize, usize> = HashMap::new();/
    //@ rw R12 /let mut classes = vec!\[\];/let mut classes: Vec<Vec<usize>> = vec![];/
    //@ rw R2 /^([ \t]*)for &e in elms$/\1for __e in it: elms/
    //@ rw R2 /^([ \t]*)let rep = self\.find\(e\);/\1let e = *__e;\n\1let rep = self.find(e);/
    pub fn classes(&self, elms: &[usize]) -> (classes: Vec<Vec<usize>>)
        requires forall|j: int| 0 <= j < elms@.len() ==> #[trigger] elms@[j] < usize::MAX
        // C20: "The class listing partitions the queried elements accordingly, in first-occurrence order"
        ensures exists|firsts: Seq<int>| classes_ok(self, elms@, elms@.len() as int, classes@, firsts)
    {
        let mut class_for_rep: HashMap<usize, usize> = HashMap::new();
        let mut classes: Vec<Vec<usize>> = vec![];
        let ghost mut firsts: Seq<int> = Seq::empty();
        proof { assert(elms@.take(0) =~= Seq::<usize>::empty()); }

        for __e in it: elms
            invariant
                it.seq().len() == elms@.len(), 0 <= it.index() <= elms@.len(),
                forall|j: int| 0 <= j < elms@.len() ==> *(#[trigger] it.seq()[j]) == elms@[j],
                forall|j: int| 0 <= j < elms@.len() ==> #[trigger] elms@[j] < usize::MAX,
                classes_ok(self, elms@, it.index() as int, classes@, firsts),
                // the map is exactly: representative of class k -> k
                forall|r: usize| #[trigger] class_for_rep@.contains_key(r) ==>
                    class_for_rep@[r] < classes@.len() && self.rep(classes@[class_for_rep@[r] as int]@[0] as int) == r,
                forall|k: int| 0 <= k < classes@.len() ==>
                    class_for_rep@.contains_key(self.rep((#[trigger] classes@[k])@[0] as int) as usize),
        {
            let e = *__e;
            let rep = self.find(e);
            let ghost n = it.index() as int;
            let ghost cs0 = classes@;
            proof {
                assert(*it.seq()[n] == elms@[n]);
                assert(e == elms@[n]);
                assert(elms@.take(n + 1) =~= elms@.take(n).push(e));
                assert forall|k: int| 0 <= k < cs0.len() implies
                    sel(self, elms@.take(n + 1), self.rep(cs0[k]@[0] as int)) ==
                        (if self.rep(e as int) == self.rep(cs0[k]@[0] as int) { cs0[k]@.push(e) } else { cs0[k]@ }) by {
                    lemma_sel_push(self, elms@.take(n), e, self.rep(cs0[k]@[0] as int));
                }
            }
            if let Some(cl) = class_for_rep.get(&rep) {
                let ghost c = *cl as int;
                let class: &mut Vec<_> = &mut classes[*cl];
                class.push(e.clone());
                proof {
                    assert(classes@[c]@ == cs0[c]@.push(e));
                    assert forall|k: int| 0 <= k < classes@.len() && k != c implies classes@[k] == cs0[k] by {}
                    assert(classes@[c]@[0] == cs0[c]@[0]);
                    assert forall|k: int| 0 <= k < classes@.len() implies (#[trigger] classes@[k])@.len() > 0
                        && classes@[k]@ == sel(self, elms@.take(n + 1), self.rep(classes@[k]@[0] as int)) by {
                        if k != c { assert(classes@[k] == cs0[k]); assert(self.rep(cs0[k]@[0] as int) != self.rep(cs0[c]@[0] as int)); }
                    }
                    assert forall|j: int| 0 <= j < n + 1 implies exists|k: int| 0 <= k < classes@.len() && self.rep((#[trigger] classes@[k])@[0] as int) == self.rep(#[trigger] elms@[j] as int) by {
                        if j < n {
                            let k = choose|k: int| 0 <= k < cs0.len() && self.rep((#[trigger] cs0[k])@[0] as int) == self.rep(elms@[j] as int);
                            assert(classes@[k]@[0] == cs0[k]@[0]);
                        } else {
                            assert(self.rep(classes@[c]@[0] as int) == self.rep(elms@[j] as int));
                        }
                    }
                    assert forall|k: int| 0 <= k < classes@.len() implies 0 <= #[trigger] firsts[k] < n + 1 && classes@[k]@[0] == elms@[firsts[k]] by {
                        assert(classes@[k]@[0] == cs0[k]@[0]);
                    }
                    assert forall|k: int, l: int| 0 <= k < l < classes@.len() implies self.rep((#[trigger] classes@[k])@[0] as int) != self.rep((#[trigger] classes@[l])@[0] as int) by {
                        assert(classes@[k]@[0] == cs0[k]@[0]); assert(classes@[l]@[0] == cs0[l]@[0]);
                    }
                    assert forall|r: usize| #[trigger] class_for_rep@.contains_key(r) implies
                        class_for_rep@[r] < classes@.len() && self.rep(classes@[class_for_rep@[r] as int]@[0] as int) == r by {
                        assert(classes@[class_for_rep@[r] as int]@[0] == cs0[class_for_rep@[r] as int]@[0]);
                    }
                    assert forall|k: int| 0 <= k < classes@.len() implies
                        class_for_rep@.contains_key(self.rep((#[trigger] classes@[k])@[0] as int) as usize) by {
                        assert(classes@[k]@[0] == cs0[k]@[0]);
                    }
                }
            } else {
                proof {
                    // no existing class has this representative, so no earlier element has it
                    assert forall|k: int| 0 <= k < cs0.len() implies self.rep((#[trigger] cs0[k])@[0] as int) != rep by {
                        assert(class_for_rep@.contains_key(self.rep(cs0[k]@[0] as int) as usize));
                    }
                    assert forall|j: int| 0 <= j < elms@.take(n).len() implies self.rep(#[trigger] elms@.take(n)[j] as int) != rep by {
                        let k = choose|k: int| 0 <= k < cs0.len() && self.rep((#[trigger] cs0[k])@[0] as int) == self.rep(elms@[j] as int);
                    }
                    lemma_sel_none(self, elms@.take(n), rep as int);
                    lemma_sel_push(self, elms@.take(n), e, rep as int);
                }
                class_for_rep.insert(rep, classes.len());
                classes.push(vec![e.clone()]);
                proof {
                    firsts = firsts.push(n);
                    let c = cs0.len() as int;
                    assert(classes@[c]@ =~= seq![e]);
                    assert forall|k: int| 0 <= k < c implies classes@[k] == cs0[k] by {}
                    assert forall|k: int| 0 <= k < classes@.len() implies (#[trigger] classes@[k])@.len() > 0
                        && classes@[k]@ == sel(self, elms@.take(n + 1), self.rep(classes@[k]@[0] as int)) by {
                        if k < c { assert(classes@[k] == cs0[k]); }
                        else { assert(Seq::<usize>::empty().push(e) =~= seq![e]); }
                    }
                    assert forall|j: int| 0 <= j < n + 1 implies exists|k: int| 0 <= k < classes@.len() && self.rep((#[trigger] classes@[k])@[0] as int) == self.rep(#[trigger] elms@[j] as int) by {
                        if j < n {
                            let k = choose|k: int| 0 <= k < cs0.len() && self.rep((#[trigger] cs0[k])@[0] as int) == self.rep(elms@[j] as int);
                            assert(classes@[k] == cs0[k]);
                        } else {
                            assert(self.rep(classes@[c]@[0] as int) == self.rep(elms@[j] as int));
                        }
                    }
                    assert forall|k: int| 0 <= k < classes@.len() implies 0 <= #[trigger] firsts[k] < n + 1 && classes@[k]@[0] == elms@[firsts[k]] by {
                        if k < c { assert(classes@[k] == cs0[k]); }
                    }
                    assert forall|k: int, l: int| 0 <= k < l < classes@.len() implies #[trigger] firsts[k] < #[trigger] firsts[l] by {}
                    assert forall|k: int, l: int| 0 <= k < l < classes@.len() implies self.rep((#[trigger] classes@[k])@[0] as int) != self.rep((#[trigger] classes@[l])@[0] as int) by {
                        assert(classes@[k] == cs0[k]);
                        if l < c { assert(classes@[l] == cs0[l]); }
                    }
                    assert forall|r: usize| #[trigger] class_for_rep@.contains_key(r) implies
                        class_for_rep@[r] < classes@.len() && self.rep(classes@[class_for_rep@[r] as int]@[0] as int) == r by {
                        if r != rep { assert(classes@[class_for_rep@[r] as int] == cs0[class_for_rep@[r] as int]); }
                    }
                    assert forall|k: int| 0 <= k < classes@.len() implies
                        class_for_rep@.contains_key(self.rep((#[trigger] classes@[k])@[0] as int) as usize) by {
                        if k < c { assert(classes@[k] == cs0[k]); }
                    }
                }
            }
        }

        proof { assert(elms@.take(elms@.len() as int) =~= elms@); }
        classes
    }
    //@ end
}

impl Clone for IntPartition {
    //@ begin src/util/partitions.rs :: impl Clone for IntPartition :: fn clone
    //@ rw R16 /-> Self/-> (r: Self)/
    // C20 "a clone evolves independently of its original in both directions": the clone is a separately owned value with the
    // same representative function at the time of cloning; afterwards each value changes only through its own `&mut` (Rust ownership)
    #[verifier::external_body]
    fn clone(&self) -> (r: Self)
        ensures forall|x: int| #[trigger] r.rep(x) == self.rep(x)
    {
        Self {
            _impl: UnsafeCell::new(unsafe { (*self._impl.get()).clone() })
        }
    }
    //@ end
}

// =====================================================================================================
// PartitionImpl<T> / Partition<T>: the same forest behind a HashMap index.  R4: verified at T = usize, the only instantiation in
// the crate (dsets.rs fold, derived.rs minimal_image); other T need vstd's obeys_key_model::<T>(), an assumption about T, not
// about this code.  The rewrite replaces the type parameter T by usize textually.
// =====================================================================================================
//@ begin src/util/partitions.rs :: - :: struct PartitionImpl
//@ rw R4 /struct PartitionImpl<T>/pub struct PartitionImpl/
//@ rw R4 /\bT\b/usize/
//@ rw R0 /^([ \t]+)(\w+): /\1pub \2: /
pub struct PartitionImpl {
    pub index: HashMap<usize, usize>,
    pub elements: Vec<usize>,
    pub rank: Vec<usize>,
    pub parent: Vec<usize>,
}
//@ end

// derived Clone (R0)
impl Clone for PartitionImpl {
    #[verifier::external_body]
    fn clone(&self) -> (r: Self)
        ensures r.index@ == self.index@, r.elements@ == self.elements@, r.parent@ == self.parent@, r.rank@ == self.rank@
    { PartitionImpl { index: self.index.clone(), elements: self.elements.clone(), rank: self.rank.clone(), parent: self.parent.clone() } }
}

impl PartitionImpl {
    pub open spec fn wf(&self) -> bool {
        &&& self.elements@.len() == self.parent@.len()
        &&& self.rank@.len() == self.parent@.len()
        &&& in_range(self.parent@)
        &&& acyclic(self.parent@)
        &&& self.parent@.len() <= usize::MAX
        // index and elements are mutually inverse: element a sits in slot index[a]
        &&& forall|a: usize| #[trigger] self.index@.contains_key(a) ==> self.index@[a] < self.elements@.len() && self.elements@[self.index@[a] as int] == a
        &&& forall|i: int| 0 <= i < self.elements@.len() ==> self.index@.contains_key(#[trigger] self.elements@[i]) && self.index@[self.elements@[i]] == i
    }
    pub open spec fn rank_ok(&self) -> bool { total(self.rank@) <= nonroots(self.parent@) }

    // the representative ELEMENT of element a (elements never seen are their own class)
    pub open spec fn erep(&self, a: usize) -> usize {
        if self.index@.contains_key(a) { self.elements@[rep(self.parent@, self.index@[a] as int)] } else { a }
    }

    proof fn lemma_slots(&self, a: usize)
        requires self.wf(), self.index@.contains_key(a)
        ensures 0 <= rep(self.parent@, self.index@[a] as int) < self.parent@.len(),
            self.index@.contains_key(self.erep(a)), self.index@[self.erep(a)] == rep(self.parent@, self.index@[a] as int),
    {
        lemma_rep_props(self.parent@, self.index@[a] as int);
    }

    // two indexed elements have the same representative element iff their slots have the same root
    proof fn lemma_erep_eq(&self, a: usize, b: usize)
        requires self.wf(), self.index@.contains_key(a), self.index@.contains_key(b)
        ensures (self.erep(a) == self.erep(b)) <==> (rep(self.parent@, self.index@[a] as int) == rep(self.parent@, self.index@[b] as int))
    {
        self.lemma_slots(a); self.lemma_slots(b);
    }

    //@ begin src/util/partitions.rs :: impl<T> PartitionImpl<T> where T: Clone + Eq + Hash :: fn new
    //@ rw R16 /-> Self/-> (r: Self)/
    fn new() -> (r: Self)
        ensures r.wf(), r.parent@.len() == 0, forall|a: usize| #[trigger] r.erep(a) == a,
            r.rank_ok(), // aux
    {
        broadcast use vstd::std_specs::hash::group_hash_axioms;
        PartitionImpl {
            index: HashMap::new(),
            elements: vec![],
            rank: vec![],
            parent: vec![],
        }
    }
    //@ end

    //@ begin src/util/partitions.rs :: impl<T> PartitionImpl<T> where T: Clone + Eq + Hash :: fn get_index
    //@ rw R4 /\bT\b/usize/
    //@ rw R16 /-> usize/-> (r: usize)/
    fn get_index(&mut self, a: &usize) -> (r: usize)
        requires old(self).wf(), old(self).parent@.len() < usize::MAX
        ensures final(self).wf(), final(self).index@.contains_key(*a), r == final(self).index@[*a], r < final(self).parent@.len(),
            forall|z: usize| #[trigger] final(self).erep(z) == old(self).erep(z),
            forall|z: usize| old(self).index@.contains_key(z) ==> #[trigger] final(self).index@.contains_key(z) && final(self).index@[z] == old(self).index@[z],
            final(self).parent@.len() >= old(self).parent@.len(), final(self).parent@.len() <= old(self).parent@.len() + 1,
            forall|i: int| 0 <= i < old(self).parent@.len() ==> #[trigger] final(self).parent@[i] == old(self).parent@[i],
            old(self).rank_ok() ==> final(self).rank_ok(), // aux
    {
        broadcast use vstd::std_specs::hash::group_hash_axioms;
        if let Some(x) = self.index.get(a) {
            *x
        } else {
            proof { lemma_push(self.parent@); lemma_push_counts(self.parent@, self.rank@); }
            let i = self.elements.len();
            self.index.insert(a.clone(), i);
            self.elements.push(a.clone());
            self.rank.push(0);
            self.parent.push(i);
            proof {
                let p0 = old(self).parent@;
                assert(self.parent@ == p0.push(i));
                assert forall|z: usize| #[trigger] self.erep(z) == old(self).erep(z) by {
                    if z == *a {
                        lemma_root_rep(self.parent@, i as int);
                    } else if old(self).index@.contains_key(z) {
                        let k = old(self).index@[z] as int;
                        lemma_rep_props(p0, k);
                        assert(rep(self.parent@, k) == rep(p0, k));
                        assert(self.elements@[rep(p0, k)] == old(self).elements@[rep(p0, k)]);
                    }
                }
                assert forall|k: int| 0 <= k < self.elements@.len() implies self.index@.contains_key(#[trigger] self.elements@[k]) && self.index@[self.elements@[k]] == k by {
                    if k < i { assert(self.elements@[k] == old(self).elements@[k]); assert(old(self).index@.contains_key(old(self).elements@[k])); }
                }
            }
            i
        }
    }
    //@ end

    //@ begin src/util/partitions.rs :: impl<T> PartitionImpl<T> where T: Clone + Eq + Hash :: fn root_index
    //@ rw R4 /\bT\b/usize/
    //@ rw R16 /-> usize/-> (r: usize)/
    #[verifier::exec_allows_no_decreases_clause]
    fn root_index(&mut self, a: &usize) -> (r: usize)
        requires old(self).wf(), old(self).parent@.len() < usize::MAX
        ensures final(self).wf(), final(self).index@.contains_key(*a),
            r < final(self).parent@.len(), final(self).parent@[r as int] == r,
            r == rep(final(self).parent@, final(self).index@[*a] as int),
            final(self).elements@[r as int] == old(self).erep(*a),
            forall|z: usize| #[trigger] final(self).erep(z) == old(self).erep(z),
            forall|z: usize| old(self).index@.contains_key(z) ==> #[trigger] final(self).index@.contains_key(z) && final(self).index@[z] == old(self).index@[z],
            final(self).parent@.len() >= old(self).parent@.len(), final(self).parent@.len() <= old(self).parent@.len() + 1,
            // roots stay roots
            forall|i: int| 0 <= i < old(self).parent@.len() && old(self).parent@[i] == i ==> #[trigger] final(self).parent@[i] == i,
            old(self).rank_ok() ==> final(self).rank_ok(), // aux
    {
        let mut x = self.get_index(a);
        let mut root = x;
        let ghost s1 = *self;
        let ghost ia = x as int;

        while self.parent[root] != root
            invariant self.wf(), root < self.parent@.len(), x < self.parent@.len(),
                self.index@ == s1.index@, self.elements@ == s1.elements@, self.parent@ == s1.parent@, self.rank@ == s1.rank@,
                rep(self.parent@, root as int) == rep(self.parent@, ia),
        {
            proof { lemma_rep_step(self.parent@, root as int); }
            root = self.parent[root];
        }
        proof { lemma_root_rep(self.parent@, root as int); }

        while x != root
            invariant self.wf(), root < self.parent@.len(), x < self.parent@.len(),
                self.index@ == s1.index@, self.elements@ == s1.elements@, self.parent@.len() == s1.parent@.len(),
                s1.rank_ok() ==> self.rank_ok(), // aux
                rep(self.parent@, x as int) == root, self.parent@[root as int] == root,
                root == rep(s1.parent@, ia),
                forall|k: int| rep(self.parent@, k) == rep(s1.parent@, k),
                forall|i: int| 0 <= i < s1.parent@.len() && s1.parent@[i] == i ==> #[trigger] self.parent@[i] == i,
        {
            proof { lemma_rep_step(self.parent@, x as int); lemma_compress_all(self.parent@, x as int);
                    lemma_nonroots_update(self.parent@, x as int, root);
                    if self.parent@[x as int] == x { lemma_root_rep(self.parent@, x as int); } }
            let t = x;
            x = self.parent[x];
            self.parent[t] = root;
        }

        proof {
            assert forall|z: usize| #[trigger] self.erep(z) == old(self).erep(z) by {
                assert(s1.erep(z) == old(self).erep(z));
            }
            assert(s1.erep(*a) == s1.elements@[rep(s1.parent@, ia)]);
        }
        root
    }
    //@ end

    //@ begin src/util/partitions.rs :: impl<T> PartitionImpl<T> where T: Clone + Eq + Hash :: fn find
    //@ rw R4 /\bT\b/usize/
    //@ rw R16 /-> usize$/-> (r: usize)/
    fn find(&mut self, a: &usize) -> (r: usize)
        requires old(self).wf(), old(self).parent@.len() < usize::MAX
        // C20: the representative of a; finding changes no class; "a representative is a member of its class" (its own representative)
        ensures final(self).wf(), r == old(self).erep(*a),
            forall|z: usize| #[trigger] final(self).erep(z) == old(self).erep(z),
            final(self).erep(r) == r,
            old(self).rank_ok() ==> final(self).rank_ok(), // aux
    {
        let root = self.root_index(a);
        proof {
            assert(self.index@.contains_key(self.elements@[root as int]));
            lemma_root_rep(self.parent@, root as int);
        }
        self.elements[root].clone()
    }
    //@ end

    //@ begin src/util/partitions.rs :: impl<T> PartitionImpl<T> where T: Clone + Eq + Hash :: fn unite
    //@ rw R4 /\bT\b/usize/
    fn unite(&mut self, a: &usize, b: &usize)
        requires old(self).wf(), old(self).parent@.len() < usize::MAX - 1,
            old(self).rank_ok(), // aux
        // C20: exactly the classes of a and b are merged, every other class keeps its representative
        ensures final(self).wf(),
            final(self).rank_ok(), // aux
            forall|z: usize| #![trigger final(self).erep(z)] final(self).erep(z) ==
                (if old(self).erep(z) == old(self).erep(*a) || old(self).erep(z) == old(self).erep(*b)
                 { final(self).erep(*a) } else { old(self).erep(z) }),
            final(self).erep(*a) == final(self).erep(*b),
            final(self).erep(*a) == old(self).erep(*a) || final(self).erep(*a) == old(self).erep(*b),
            final(self).parent@.len() <= old(self).parent@.len() + 2,
    {
        let x = self.root_index(a);
        let ghost sa = *self;
        let y = self.root_index(b);
        let ghost s2 = *self;
        proof {
            // x is still the root of a's slot
            assert(s2.index@.contains_key(*a) && s2.index@[*a] == sa.index@[*a]);
            assert(s2.parent@[x as int] == x);
            s2.lemma_slots(*a);
            assert(s2.erep(*a) == sa.erep(*a));
            lemma_root_rep(s2.parent@, x as int);
            assert(s2.index@[s2.elements@[x as int]] == x);
            assert(sa.elements@[x as int] == s2.elements@[x as int]) by {
                // elements only grow
                assert(s2.index@.contains_key(sa.elements@[x as int]));
                assert(s2.index@[sa.elements@[x as int]] == sa.index@[sa.elements@[x as int]]);
            }
            assert(rep(s2.parent@, s2.index@[*a] as int) == x);
        }

        if x != y {
            proof {
                lemma_link(self.parent@, x as int, y as int);
                lemma_link(self.parent@, y as int, x as int);
                lemma_nonroots_update(self.parent@, x as int, y);
                lemma_nonroots_update(self.parent@, y as int, x);
            }
            let rx = self.rank[x];
            let ry = self.rank[y];

            if rx < ry {
                self.parent[x] = y;
            } else {
                if rx == ry {
                    proof {
                        lemma_total_ge(self.rank@, x as int);
                        lemma_nonroots_root(self.parent@, x as int);
                        assert(rx + 1 <= self.parent@.len());
                        lemma_total_update(self.rank@, x as int, (rx + 1) as usize);
                    }
                    self.rank[x] = rx + 1;
                }
                self.parent[y] = x;
            }
        }
        proof {
            // translate the statement about slots into the statement about elements
            let w = if x == y { x as int } else { rep(self.parent@, x as int) };
            assert forall|z: usize| #![trigger self.erep(z)] self.erep(z) ==
                (if old(self).erep(z) == old(self).erep(*a) || old(self).erep(z) == old(self).erep(*b)
                 { self.erep(*a) } else { old(self).erep(z) }) by {
                assert(s2.erep(z) == old(self).erep(z));
                assert(s2.erep(*a) == old(self).erep(*a));
                assert(s2.erep(*b) == old(self).erep(*b));
                if s2.index@.contains_key(z) {
                    s2.lemma_slots(z); s2.lemma_slots(*a); s2.lemma_slots(*b);
                    s2.lemma_erep_eq(z, *a); s2.lemma_erep_eq(z, *b);
                    lemma_rep_props(s2.parent@, s2.index@[z] as int);
                } else {
                    // z was never seen: it is its own class, and differs from every indexed element
                    s2.lemma_slots(*a); s2.lemma_slots(*b);
                }
            }
            s2.lemma_slots(*a); s2.lemma_slots(*b);
        }
    }
    //@ end
}


// Partition<T>: R6 wrapper as for IntPartition (abstract state: the representative function on elements)
pub open spec fn united_u(r0: spec_fn(usize) -> usize, r1: spec_fn(usize) -> usize, a: usize, b: usize) -> bool {
    &&& forall|z: usize| #[trigger] r1(z) == (if r0(z) == r0(a) || r0(z) == r0(b) { r1(a) } else { r0(z) })
    &&& r1(a) == r1(b)
    &&& (r1(a) == r0(a) || r1(a) == r0(b))
}

#[verifier::external_body]
//@ begin src/util/partitions.rs :: - :: struct Partition
//@ rw R4 /struct Partition<T>/struct Partition/
//@ rw R4 /PartitionImpl<T>/PartitionImpl/
pub struct Partition {
    _impl: UnsafeCell<PartitionImpl>,
}
//@ end

impl Partition {
    pub uninterp spec fn erep(&self, x: usize) -> usize;

    //@ begin src/util/partitions.rs :: impl<T> Partition<T> where T: Clone + Eq + Hash :: fn new
    //@ rw R16 /-> Self/-> (r: Self)/
    #[verifier::external_body]
    pub fn new() -> (r: Self)
        ensures forall|x: usize| #[trigger] r.erep(x) == x
    {
        Partition { _impl: UnsafeCell::new(PartitionImpl::new())}
    }
    //@ end

    //@ begin src/util/partitions.rs :: impl<T> Partition<T> where T: Clone + Eq + Hash :: fn find
    //@ rw R4 /\bT\b/usize/
    //@ rw R16 /-> usize$/-> (r: usize)/
    #[verifier::external_body]
    pub fn find(&self, x: &usize) -> (r: usize)
        ensures r == self.erep(*x), self.erep(r) == r
    {
        unsafe { (*self._impl.get()).find(x) }
    }
    //@ end

    //@ begin src/util/partitions.rs :: impl<T> Partition<T> where T: Clone + Eq + Hash :: fn unite
    //@ rw R4 /\bT\b/usize/
    #[verifier::external_body]
    pub fn unite(&mut self, x: &usize, y: &usize)
        ensures united_u(|z: usize| old(self).erep(z), |z: usize| final(self).erep(z), *x, *y)
    {
        unsafe { (*self._impl.get()).unite(x, y) };
    }
    //@ end
}

// the elements of s whose representative is r, in order
pub open spec fn sel2(p: &Partition, s: Seq<usize>, r: usize) -> Seq<usize>
    decreases s.len()
{
    if s.len() == 0 { Seq::empty() }
    else {
        let t = sel2(p, s.drop_last(), r);
        if p.erep(s.last()) == r { t.push(s.last()) } else { t }
    }
}

proof fn lemma_sel2_push(p: &Partition, s: Seq<usize>, x: usize, r: usize)
    ensures sel2(p, s.push(x), r) == (if p.erep(x) == r { sel2(p, s, r).push(x) } else { sel2(p, s, r) })
{
    assert(s.push(x).drop_last() =~= s);
}

proof fn lemma_sel2_none(p: &Partition, s: Seq<usize>, r: usize)
    requires forall|j: int| 0 <= j < s.len() ==> p.erep(#[trigger] s[j]) != r
    ensures sel2(p, s, r) == Seq::<usize>::empty()
    decreases s.len()
{
    if s.len() > 0 {
        assert forall|j: int| 0 <= j < s.drop_last().len() implies p.erep(#[trigger] s.drop_last()[j]) != r by { assert(s.drop_last()[j] == s[j]); }
        lemma_sel2_none(p, s.drop_last(), r);
        assert(p.erep(s[s.len() - 1]) != r);
    }
}

// what `classes` returns for the first n queried elements
pub open spec fn classes2_ok(p: &Partition, elms: Seq<usize>, n: int, cs: Seq<Vec<usize>>, firsts: Seq<int>) -> bool {
    &&& firsts.len() == cs.len()
    // class k is non-empty and is exactly the queried elements with its representative, in query order ...
    &&& forall|k: int| 0 <= k < cs.len() ==> (#[trigger] cs[k])@.len() > 0 && cs[k]@ == sel2(p, elms.take(n), p.erep(cs[k]@[0]))
    // ... classes have pairwise different representatives ...
    &&& forall|k: int, l: int| 0 <= k < l < cs.len() ==> p.erep((#[trigger] cs[k])@[0]) != p.erep((#[trigger] cs[l])@[0])
    // ... every queried element is in some class ...
    &&& forall|j: int| 0 <= j < n ==> exists|k: int| 0 <= k < cs.len() && p.erep((#[trigger] cs[k])@[0]) == p.erep(#[trigger] elms[j])
    // ... and classes are listed in first-occurrence order: class k starts with elms[firsts[k]], firsts strictly increasing
    &&& forall|k: int| 0 <= k < cs.len() ==> 0 <= #[trigger] firsts[k] < n && cs[k]@[0] == elms[firsts[k]]
    &&& forall|k: int, l: int| 0 <= k < l < cs.len() ==> #[trigger] firsts[k] < #[trigger] firsts[l]
}

impl Partition {
    //@ begin src/util/partitions.rs :: impl<T> Partition<T> where T: Clone + Eq + Hash :: fn classes
    //@ rw R4 /\bT\b/usize/
    //@ rw R16 /-> Vec<Vec<usize>>/-> (classes: Vec<Vec<usize>>)/
    //@ rw R12 /let mut class_for_rep = HashMap::new\(\);/let mut class_for_rep: HashMap<usize, usize> = HashMap::new();/
    //@ rw R12 /let mut classes = vec!\[\];/let mut classes: Vec<Vec<usize>> = vec![];/
    //@ rw R17 /^([ \t]*)for e in elms$/\1for e in it: elms/
    pub fn classes(&self, elms: &[usize]) -> (classes: Vec<Vec<usize>>)
                // C20: "The class listing partitions the queried elements accordingly, in first-occurrence order"
        ensures exists|firsts: Seq<int>| classes2_ok(self, elms@, elms@.len() as int, classes@, firsts)
    {
        let mut class_for_rep: HashMap<usize, usize> = HashMap::new();
        let mut classes: Vec<Vec<usize>> = vec![];
        let ghost mut firsts: Seq<int> = Seq::empty();
        proof { assert(elms@.take(0) =~= Seq::<usize>::empty()); }

        for e in it: elms
            invariant
                it.seq().len() == elms@.len(), 0 <= it.index() <= elms@.len(),
                forall|j: int| 0 <= j < elms@.len() ==> *(#[trigger] it.seq()[j]) == elms@[j],
                classes2_ok(self, elms@, it.index() as int, classes@, firsts),
                // the map is exactly: representative of class k -> k
                forall|r: usize| #[trigger] class_for_rep@.contains_key(r) ==>
                    class_for_rep@[r] < classes@.len() && self.erep(classes@[class_for_rep@[r] as int]@[0]) == r,
                forall|k: int| 0 <= k < classes@.len() ==>
                    class_for_rep@.contains_key(self.erep((#[trigger] classes@[k])@[0]) as usize),
        {
            let ghost ev = *e;
            let rep = self.find(e);
            let ghost n = it.index() as int;
            let ghost cs0 = classes@;
            proof {
                assert(*it.seq()[n] == elms@[n]);
                assert(ev == elms@[n]);
                assert(elms@.take(n + 1) =~= elms@.take(n).push(ev));
                assert forall|k: int| 0 <= k < cs0.len() implies
                    sel2(self, elms@.take(n + 1), self.erep(cs0[k]@[0])) ==
                        (if self.erep(ev) == self.erep(cs0[k]@[0]) { cs0[k]@.push(ev) } else { cs0[k]@ }) by {
                    lemma_sel2_push(self, elms@.take(n), ev, self.erep(cs0[k]@[0]));
                }
            }
            if let Some(cl) = class_for_rep.get(&rep) {
                let ghost c = *cl as int;
                let class: &mut Vec<_> = &mut classes[*cl];
                class.push(e.clone());
                proof {
                    assert(classes@[c]@ == cs0[c]@.push(ev));
                    assert forall|k: int| 0 <= k < classes@.len() && k != c implies classes@[k] == cs0[k] by {}
                    assert(classes@[c]@[0] == cs0[c]@[0]);
                    assert forall|k: int| 0 <= k < classes@.len() implies (#[trigger] classes@[k])@.len() > 0
                        && classes@[k]@ == sel2(self, elms@.take(n + 1), self.erep(classes@[k]@[0])) by {
                        if k != c { assert(classes@[k] == cs0[k]); assert(self.erep(cs0[k]@[0]) != self.erep(cs0[c]@[0])); }
                    }
                    assert forall|j: int| 0 <= j < n + 1 implies exists|k: int| 0 <= k < classes@.len() && self.erep((#[trigger] classes@[k])@[0]) == self.erep(#[trigger] elms@[j]) by {
                        if j < n {
                            let k = choose|k: int| 0 <= k < cs0.len() && self.erep((#[trigger] cs0[k])@[0]) == self.erep(elms@[j]);
                            assert(classes@[k]@[0] == cs0[k]@[0]);
                        } else {
                            assert(self.erep(classes@[c]@[0]) == self.erep(elms@[j]));
                        }
                    }
                    assert forall|k: int| 0 <= k < classes@.len() implies 0 <= #[trigger] firsts[k] < n + 1 && classes@[k]@[0] == elms@[firsts[k]] by {
                        assert(classes@[k]@[0] == cs0[k]@[0]);
                    }
                    assert forall|k: int, l: int| 0 <= k < l < classes@.len() implies self.erep((#[trigger] classes@[k])@[0]) != self.erep((#[trigger] classes@[l])@[0]) by {
                        assert(classes@[k]@[0] == cs0[k]@[0]); assert(classes@[l]@[0] == cs0[l]@[0]);
                    }
                    assert forall|r: usize| #[trigger] class_for_rep@.contains_key(r) implies
                        class_for_rep@[r] < classes@.len() && self.erep(classes@[class_for_rep@[r] as int]@[0]) == r by {
                        assert(classes@[class_for_rep@[r] as int]@[0] == cs0[class_for_rep@[r] as int]@[0]);
                    }
                    assert forall|k: int| 0 <= k < classes@.len() implies
                        class_for_rep@.contains_key(self.erep((#[trigger] classes@[k])@[0]) as usize) by {
                        assert(classes@[k]@[0] == cs0[k]@[0]);
                    }
                }
            } else {
                proof {
                    // no existing class has this representative, so no earlier element has it
                    assert forall|k: int| 0 <= k < cs0.len() implies self.erep((#[trigger] cs0[k])@[0]) != rep by {
                        assert(class_for_rep@.contains_key(self.erep(cs0[k]@[0]) as usize));
                    }
                    assert forall|j: int| 0 <= j < elms@.take(n).len() implies self.erep(#[trigger] elms@.take(n)[j]) != rep by {
                        let k = choose|k: int| 0 <= k < cs0.len() && self.erep((#[trigger] cs0[k])@[0]) == self.erep(elms@[j]);
                    }
                    lemma_sel2_none(self, elms@.take(n), rep);
                    lemma_sel2_push(self, elms@.take(n), ev, rep);
                }
                class_for_rep.insert(rep, classes.len());
                classes.push(vec![e.clone()]);
                proof {
                    firsts = firsts.push(n);
                    let c = cs0.len() as int;
                    assert(classes@[c]@ =~= seq![ev]);
                    assert forall|k: int| 0 <= k < c implies classes@[k] == cs0[k] by {}
                    assert forall|k: int| 0 <= k < classes@.len() implies (#[trigger] classes@[k])@.len() > 0
                        && classes@[k]@ == sel2(self, elms@.take(n + 1), self.erep(classes@[k]@[0])) by {
                        if k < c { assert(classes@[k] == cs0[k]); }
                        else { assert(Seq::<usize>::empty().push(ev) =~= seq![ev]); }
                    }
                    assert forall|j: int| 0 <= j < n + 1 implies exists|k: int| 0 <= k < classes@.len() && self.erep((#[trigger] classes@[k])@[0]) == self.erep(#[trigger] elms@[j]) by {
                        if j < n {
                            let k = choose|k: int| 0 <= k < cs0.len() && self.erep((#[trigger] cs0[k])@[0]) == self.erep(elms@[j]);
                            assert(classes@[k] == cs0[k]);
                        } else {
                            assert(self.erep(classes@[c]@[0]) == self.erep(elms@[j]));
                        }
                    }
                    assert forall|k: int| 0 <= k < classes@.len() implies 0 <= #[trigger] firsts[k] < n + 1 && classes@[k]@[0] == elms@[firsts[k]] by {
                        if k < c { assert(classes@[k] == cs0[k]); }
                    }
                    assert forall|k: int, l: int| 0 <= k < l < classes@.len() implies #[trigger] firsts[k] < #[trigger] firsts[l] by {}
                    assert forall|k: int, l: int| 0 <= k < l < classes@.len() implies self.erep((#[trigger] classes@[k])@[0]) != self.erep((#[trigger] classes@[l])@[0]) by {
                        assert(classes@[k] == cs0[k]);
                        if l < c { assert(classes@[l] == cs0[l]); }
                    }
                    assert forall|r: usize| #[trigger] class_for_rep@.contains_key(r) implies
                        class_for_rep@[r] < classes@.len() && self.erep(classes@[class_for_rep@[r] as int]@[0]) == r by {
                        if r != rep { assert(classes@[class_for_rep@[r] as int] == cs0[class_for_rep@[r] as int]); }
                    }
                    assert forall|k: int| 0 <= k < classes@.len() implies
                        class_for_rep@.contains_key(self.erep((#[trigger] classes@[k])@[0]) as usize) by {
                        if k < c { assert(classes@[k] == cs0[k]); }
                    }
                }
            }
        }

        proof { assert(elms@.take(elms@.len() as int) =~= elms@); }
        classes
    }
    //@ end
}


impl Clone for Partition {
    //@ begin src/util/partitions.rs :: impl<T> Clone for Partition<T> where T: Clone :: fn clone
    //@ rw R16 /-> Self/-> (r: Self)/
    #[verifier::external_body]
    fn clone(&self) -> (r: Self)
        ensures forall|x: usize| #[trigger] r.erep(x) == self.erep(x)
    {
        Self {
            _impl: UnsafeCell::new(unsafe { (*self._impl.get()).clone() })
        }
    }
    //@ end
}

// PartitionImpl::unite establishes `united_u`, the relation the wrapper's contract states and the history lemma consumes
proof fn lemma_unite_u_is_united(p0: PartitionImpl, p1: PartitionImpl, a: usize, b: usize)
    requires
        forall|z: usize| #![trigger p1.erep(z)] p1.erep(z) ==
            (if p0.erep(z) == p0.erep(a) || p0.erep(z) == p0.erep(b) { p1.erep(a) } else { p0.erep(z) }),
        p1.erep(a) == p1.erep(b),
        p1.erep(a) == p0.erep(a) || p1.erep(a) == p0.erep(b),
    ensures united_u(|z: usize| p0.erep(z), |z: usize| p1.erep(z), a, b)
{
    let r0 = |z: usize| p0.erep(z);
    let r1 = |z: usize| p1.erep(z);
    assert forall|z: usize| #[trigger] r1(z) == (if r0(z) == r0(a) || r0(z) == r0(b) { r1(a) } else { r0(z) }) by {
        assert(r1(z) == p1.erep(z));
    }
}

proof fn canary_generic_wf_is_satisfiable(s: PartitionImpl)
    requires s.wf(), s.rank_ok(), s.parent@.len() == 2, s.parent@[0] == 1, s.elements@[0] == 7
    ensures false
{}

fn canary_generic_unite_contract(s: &mut PartitionImpl)
    requires old(s).wf(), old(s).rank_ok(), old(s).parent@.len() < 100
    ensures false
{
    s.unite(&1, &2);
}

fn witness_generic_calls()
{
    let mut p = PartitionImpl::new();
    p.unite(&3, &5);
    let r = p.find(&4);
    let mut q = Partition::new();
    q.unite(&1, &2);
    let cs = q.classes(&[1usize, 2, 3]);
}

// vacuity guards
proof fn canary_wf_is_satisfiable(s: IntPartitionImpl)
    requires s.wf(), s.rank_ok(), s.parent@.len() == 3, s.parent@[0] == 1
    ensures false
{}

fn canary_unite_contract(s: &mut IntPartitionImpl)
    requires old(s).wf(), old(s).rank_ok()
    ensures false
{
    s.unite(1, 2);
}

fn canary_classes_contract(p: &IntPartition, elms: &[usize])
    requires forall|j: int| 0 <= j < elms@.len() ==> #[trigger] elms@[j] < usize::MAX
    ensures false
{
    let c = p.classes(elms);
}

fn witness_calls()
{
    let mut p = IntPartitionImpl::new();
    p.unite(3, 5);
    let r = p.find(4);
    let mut q = IntPartition::new();
    q.unite(1, 2);
    let cs = q.classes(&[1usize, 2, 3]);
}

} // verus!
fn main() {}
