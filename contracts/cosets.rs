//@ unit cosets
//@ props C11
//@@ depends free_words partitions
//@@ fnprops C13 lemma_ind_stable lemma_pinv_join lemma_pinv_next lemma_pinv_final lemma_core_rows witness_core_rows lemma_ind_join lemma_ind_final lemma_ind_pairing lemma_core_trace lemma_core_fixes canary_induced_table_contract canary_core_table_contract lemma_rows_alloc_bound lemma_pairs_bound lemma_pigeon_int lemma_ix_join lemma_ix_final lemma_ix_pairing lemma_compacted_row lemma_pairing_trace lemma_intersection_fixes witness_intersection_contract canary_intersection_contract
#![feature(panic_internals)]
#![feature(sized_hierarchy)]
use vstd::prelude::*;
use vstd::std_specs::core::IndexSpecImpl;
use vstd::std_specs::ops::*;
use std::collections::{BTreeMap, BTreeSet, HashMap, VecDeque};
use std::cmp::Ordering;
use std::ops::{Index, Mul};
verus! {
// =====================================================================================================
// trusted std specifications that vstd lacks
// =====================================================================================================
pub assume_specification<T, const N: usize>[<VecDeque<T> as From<[T; N]>>::from](a: [T; N]) -> (r: VecDeque<T>)
    ensures r@ == a@;
#[verifier::external_type_specification]
pub struct ExAssertKind(core::panicking::AssertKind);
pub assume_specification<T, U> [core::panicking::assert_failed] (_0: core::panicking::AssertKind, _1: &T, _2: &U, _3: std::option::Option<std::fmt::Arguments<'_>>) -> !
    where
    T: std::marker::MetaSized + std::fmt::Debug + ?Sized,
    U: std::marker::MetaSized + std::fmt::Debug + ?Sized,
    requires false;
pub assume_specification<K: Ord, V, const N: usize>[<BTreeMap<K, V> as From<[(K, V); N]>>::from](a: [(K, V); N]) -> (r: BTreeMap<K, V>)
    ensures N == 1 ==> r@ == Map::<K, V>::empty().insert(a@[0].0, a@[0].1);

// =====================================================================================================
// contracts imported from other units (assumed HERE, proved THERE; check.py runs those units as dependencies)
// =====================================================================================================
// --- unit free_words (C10): spec layer copied verbatim
pub open spec fn neg_eq(x: isize, y: isize) -> bool { x as int == -(y as int) }
pub open spec fn step(buf: Seq<isize>, x: isize) -> Seq<isize> {
    if buf.len() > 0 && neg_eq(x, buf.last()) { buf.drop_last() }
    else if x != 0 { buf.push(x) }
    else { buf }
}
pub open spec fn reduced(s: Seq<isize>) -> bool {
    &&& forall|k: int| 0 <= k < s.len() ==> #[trigger] s[k] != 0 && s[k] > isize::MIN
    &&& forall|k: int| 0 <= k < s.len() - 1 ==> !neg_eq(#[trigger] s[k + 1], s[k])
}

pub struct FreeWord { pub w: Vec<isize> }
impl FreeWord {
    pub open spec fn view(&self) -> Seq<isize> { self.w@ }
    // free_words: type invariant of FreeWord
    #[verifier::external_body]
    pub proof fn lemma_reduced(&self) ensures reduced(self@) {}
    // free_words: FreeWord::empty, len, clone
    //@@ import free_words :: impl FreeWord::empty
    #[verifier::external_body]
    pub fn empty() -> (r: Self)
        ensures r@ == Seq::<isize>::empty()
    { unimplemented!() }
    //@@ import free_words :: impl FreeWord::len
    #[verifier::external_body]
    pub fn len(&self) -> (r: usize)
        ensures r == self@.len()
    { unimplemented!() }
    #[verifier::external_body]
    pub fn clone(&self) -> (r: Self) ensures r@ == self@ { unimplemented!() }
}
// FreeWord is ordered (BTreeSet<FreeWord>); the order itself plays no role in this unit
impl PartialEq for FreeWord { #[verifier::external_body] fn eq(&self, other: &Self) -> bool { unimplemented!() } }
impl Eq for FreeWord {}
impl PartialOrd for FreeWord { #[verifier::external_body] fn partial_cmp(&self, other: &Self) -> Option<Ordering> { unimplemented!() } }
impl Ord for FreeWord { #[verifier::external_body] fn cmp(&self, other: &Self) -> Ordering { unimplemented!() } }
pub open spec fn within(s: Seq<isize>, b: int) -> bool { forall|k: int| 0 <= k < s.len() ==> -b <= #[trigger] s[k] <= b }
pub open spec fn has_view(s: Set<FreeWord>, v: Seq<isize>) -> bool { exists|u: FreeWord| #[trigger] s.contains(u) && u@ == v }
//@@ import free_words :: relator_permutations
#[verifier::external_body]
pub fn relator_permutations(fw: &FreeWord) -> (result: BTreeSet<FreeWord>)
    ensures
        has_view(result@, fw@),
        forall|u: FreeWord, b: int| #![trigger result@.contains(u), within(fw@, b)] result@.contains(u) && within(fw@, b) ==> within(u@, b),
        forall|act: spec_fn(int, int) -> int, n: int, u: FreeWord| #![trigger m1(act, n), result@.contains(u)] m1(act, n) && within(fw@, n) && triv(act, fw@) && result@.contains(u) ==> triv(act, u@),
{ unimplemented!() }
// free_words: impl Index<usize> for FreeWord
impl IndexSpecImpl<usize> for FreeWord {
    open spec fn index_req(&self, index: &usize) -> bool { *index < self@.len() }
}
impl Index<usize> for FreeWord {
    type Output = isize;
    //@@ import free_words :: impl Index<usize> for FreeWord::index
    #[verifier::external_body]
    fn index(&self, index: usize) -> (r: &isize)
        ensures *r == self@[index as int]
    { unimplemented!() }
}
// free_words: impl Mul<isize> for &FreeWord
impl MulSpecImpl<isize> for &FreeWord {
    open spec fn obeys_mul_spec() -> bool { false }
    open spec fn mul_req(self, rhs: isize) -> bool { rhs > isize::MIN }
    open spec fn mul_spec(self, rhs: isize) -> FreeWord { arbitrary() }
}
impl Mul<isize> for &FreeWord {
    type Output = FreeWord;
    //@@ import free_words :: impl Mul<isize> for &FreeWord::mul
    #[verifier::external_body]
    fn mul(self, rhs: isize) -> (r: FreeWord)
        ensures r@ == step(self@, rhs)
    { unimplemented!() }
}

// --- unit partitions (C20): IntPartition::find is a function of the abstract partition (R6 wrapper over IntPartitionImpl::find)
pub struct IntPartition { pub _impl: usize }
impl IntPartition {
    pub uninterp spec fn rep(&self, x: int) -> int;
    //@@ import partitions :: impl IntPartition::new
    #[verifier::external_body]
    pub fn new() -> (r: Self)
        ensures forall|x: int| #[trigger] r.rep(x) == x
    { unimplemented!() }
    //@@ import partitions :: impl IntPartition::find
    #[verifier::external_body]
    pub fn find(&self, x: usize) -> (r: usize)
        requires x < usize::MAX
        ensures r == self.rep(x as int), self.rep(r as int) == r
    { unimplemented!() }
    //@@ import partitions :: impl IntPartition::unite
    #[verifier::external_body]
    pub fn unite(&mut self, x: usize, y: usize)
        requires x < usize::MAX, y < usize::MAX
        ensures united(|z: int| old(self).rep(z), |z: int| final(self).rep(z), x as int, y as int)
    { unimplemented!() }
}
pub open spec fn united(r0: spec_fn(int) -> int, r1: spec_fn(int) -> int, a: int, b: int) -> bool {
    &&& forall|z: int| #[trigger] r1(z) == (if r0(z) == r0(a) || r0(z) == r0(b) { r1(a) } else { r0(z) })
    &&& r1(a) == r1(b)
    &&& (r1(a) == r0(a) || r1(a) == r0(b))
}

// =====================================================================================================
// CosetTable
// =====================================================================================================
//@ begin src/fpgroups/cosets.rs :: - :: struct CosetTable | props=C11,C13
//@ rw R0 /^([ \t]+)(\w+): /\1pub \2: /
pub struct CosetTable {
    pub nr_gens: usize,
    pub table: Vec<Vec<isize>>,
    pub part: IntPartition
}
//@ end

impl CosetTable {
    pub open spec fn wf(&self) -> bool {
        &&& self.nr_gens < isize::MAX / 2
        &&& forall|c: int| 0 <= c < self.table@.len() ==> (#[trigger] self.table@[c])@.len() == 2 * self.nr_gens + 1
    }
    // a column index: -nr_gens ..= nr_gens (column 0 is unused by the enumeration but addressable)
    pub open spec fn col_ok(&self, g: int) -> bool { -(self.nr_gens as int) <= g <= self.nr_gens as int }
    // a generator or inverse generator
    pub open spec fn gen_ok(&self, g: int) -> bool { g != 0 && self.col_ok(g) }
    pub open spec fn raw(&self, c: int, g: int) -> int { self.table@[c]@[g + self.nr_gens] as int }
    // the action the table defines: canonical representative of the raw entry, None where undefined
    pub open spec fn act(&self, c: int, g: int) -> Option<usize> {
        if 0 <= c < self.table@.len() && self.raw(c, g) >= 0 { Some(self.part.rep(self.raw(c, g)) as usize) } else { None }
    }

    //@ begin src/fpgroups/cosets.rs :: impl CosetTable :: fn new | props=C11,C13
    //@ rw R16 /-> Self/-> (r: Self)/
    pub fn new(nr_gens: usize) -> (r: Self)
        requires nr_gens < isize::MAX / 2
        ensures r.wf(), r.nr_gens == nr_gens, r.table@.len() == 1,
            forall|g: int| r.col_ok(g) ==> #[trigger] r.act(0, g).is_none(),
            forall|g: int| r.col_ok(g) ==> #[trigger] r.raw(0, g) == -1,
            forall|x: int| #[trigger] r.part.rep(x) == x,
    {
        Self {
            nr_gens,
            table: vec![vec![-1; nr_gens * 2 + 1]],
            part: IntPartition::new(),
        }
    }
    //@ end

    //@ begin src/fpgroups/cosets.rs :: impl CosetTable :: fn nr_gens | props=C11,C13
    //@ rw R16 /-> usize/-> (r: usize)/
    pub fn nr_gens(&self) -> (r: usize)
        ensures r == self.nr_gens
    {
        self.nr_gens
    }
    //@ end

    // R5: the body is two std iterator expressions (RangeInclusive map/collect, cloned/chain/map/collect) vstd does not model
    //@ begin src/fpgroups/cosets.rs :: impl CosetTable :: fn all_gens | props=C11,C13
    //@ rw R16 /-> Vec<isize>/-> (r: Vec<isize>)/
    #[verifier::external_body]
    pub fn all_gens(&self) -> (r: Vec<isize>)
        ensures r@.len() == 2 * self.nr_gens,
            forall|k: int| 0 <= k < self.nr_gens ==> #[trigger] r@[k] == k + 1,
            forall|k: int| self.nr_gens <= k < 2 * self.nr_gens ==> #[trigger] r@[k] == -(k - self.nr_gens + 1),
    {
        let tmp: Vec<_> = (1..=self.nr_gens).map(|g| g as isize).collect();
        tmp.iter().cloned().chain(tmp.iter().map(|g| -g)).collect()
    }
    //@ end

    //@ begin src/fpgroups/cosets.rs :: impl CosetTable :: fn len | props=C11,C13
    //@ rw R16 /-> usize/-> (r: usize)/
    pub fn len(&self) -> (r: usize)
        ensures r == self.table@.len()
    {
        self.table.len()
    }
    //@ end

    //@ begin src/fpgroups/cosets.rs :: impl CosetTable :: fn canon | props=C11,C13
    //@ rw R16 /-> usize/-> (r: usize)/
    fn canon(&self, c: usize) -> (r: usize)
        requires c < usize::MAX
        ensures r == self.part.rep(c as int), self.part.rep(r as int) == r
    {
        self.part.find(c)
    }
    //@ end

    //@ begin src/fpgroups/cosets.rs :: impl CosetTable :: fn get | props=C11,C13
    //@ rw R16 /-> Option<usize>/-> (r: Option<usize>)/
    pub fn get(&self, c: usize, g: isize) -> (r: Option<usize>)
        requires self.wf(), self.col_ok(g as int)
        ensures r == self.act(c as int, g as int)
    {
        if c < self.len() {
            let r = self.table[c][(g + self.nr_gens as isize) as usize];
            if r >= 0 {
                Some(self.canon(r as usize))
            } else {
                None
            }
        } else {
            None
        }
    }
    //@ end

    //@ begin src/fpgroups/cosets.rs :: impl CosetTable :: fn set | props=C11,C13
    pub fn set(&mut self, c: usize, g: isize, d: usize)
        requires old(self).wf(), old(self).col_ok(g as int), d <= isize::MAX, c < usize::MAX
        ensures final(self).wf(), final(self).nr_gens == old(self).nr_gens, final(self).part == old(self).part,
            final(self).table@.len() == (if c < old(self).table@.len() { old(self).table@.len() } else { (c + 1) as nat }),
            final(self).raw(c as int, g as int) == d,
            // frame: all other entries of existing rows are unchanged, new rows are empty
            forall|c2: int, g2: int| 0 <= c2 < old(self).table@.len() && old(self).col_ok(g2) && !(c2 == c && g2 == g)
                ==> final(self).raw(c2, g2) == old(self).raw(c2, g2),
            forall|c2: int, g2: int| old(self).table@.len() <= c2 < final(self).table@.len() && old(self).col_ok(g2) && !(c2 == c && g2 == g)
                ==> final(self).raw(c2, g2) == -1,
    {
        while c >= self.len()
            invariant self.wf(), self.nr_gens == old(self).nr_gens, self.part == old(self).part,
                self.table@.len() >= old(self).table@.len(),
                self.table@.len() <= c + 1 || self.table@.len() == old(self).table@.len(),
                forall|c2: int| 0 <= c2 < old(self).table@.len() ==> self.table@[c2] == old(self).table@[c2],
                forall|c2: int, k: int| old(self).table@.len() <= c2 < self.table@.len() && 0 <= k < 2 * self.nr_gens + 1 ==> self.table@[c2]@[k] == -1,
            decreases c + 1 - self.table@.len()
        {
            self.table.push(vec![-1; self.nr_gens * 2 + 1]);
        }
        self.table[c][(g + self.nr_gens as isize) as usize] = d as isize;
    }
    //@ end

    //@ begin src/fpgroups/cosets.rs :: impl CosetTable :: fn join | props=C11,C13
    fn join(&mut self, c: usize, d: usize, g: isize)
        requires old(self).wf(), old(self).col_ok(g as int), c <= isize::MAX, d <= isize::MAX, c < usize::MAX, d < usize::MAX, g > isize::MIN
        // after join, row c maps to d under g and d maps back to c under the inverse generator
        ensures final(self).wf(), final(self).raw(d as int, -(g as int)) == c, (c != d || g != 0) ==> final(self).raw(c as int, g as int) == d,
            // frame: nothing else changes; rows created on the way are empty
            final(self).nr_gens == old(self).nr_gens, final(self).part == old(self).part,
            final(self).table@.len() >= old(self).table@.len(), c < final(self).table@.len(), d < final(self).table@.len(),
            final(self).table@.len() == old(self).table@.len() || final(self).table@.len() == c + 1 || final(self).table@.len() == d + 1,
            forall|c2: int, g2: int| 0 <= c2 < final(self).table@.len() && old(self).col_ok(g2) && !(c2 == c && g2 == g) && !(c2 == d && g2 == -(g as int))
                ==> #[trigger] final(self).raw(c2, g2) == (if c2 < old(self).table@.len() { old(self).raw(c2, g2) } else { -1 }),
            grows(old(self), final(self)),
    {
        self.set(c, g, d);
        self.set(d, -g, c);
    }
    //@ end
}

// tracing a word through the table, from a row
pub open spec fn trace(t: &CosetTable, row: int, w: Seq<isize>) -> Option<usize>
    decreases w.len()
{
    if w.len() == 0 { Some(row as usize) }
    else { match trace(t, row, w.drop_last()) { Some(x) => t.act(x as int, w.last() as int), None => None } }
}

pub open spec fn cols_ok(t: &CosetTable, w: Seq<isize>) -> bool { forall|k: int| 0 <= k < w.len() ==> t.col_ok(#[trigger] w[k] as int) }

pub open spec fn inv_word(w: Seq<isize>) -> Seq<isize> { Seq::new(w.len(), |k: int| (-(w[w.len() - 1 - k] as int)) as isize) }

//@ begin src/fpgroups/cosets.rs :: - :: fn scan
//@ rw R16 /-> \(usize, usize\)/-> (res: (usize, usize))/
fn scan(table: &CosetTable, w: &FreeWord, start: usize, limit: usize)
    -> (res: (usize, usize))
    requires table.wf(), cols_ok(table, w@), limit <= w@.len()
    // scans the longest defined prefix (up to limit): the prefix traces from start to the returned row, and stops
    // early only where the table is undefined
    ensures res.1 <= limit, trace(table, start as int, w@.take(res.1 as int)) == Some(res.0),
        res.1 < limit ==> table.act(res.0 as int, w@[res.1 as int] as int).is_none(),
{
    let mut row = start;
    proof { assert(w@.take(0) =~= Seq::<isize>::empty()); }

    for index in 0..limit
        invariant table.wf(), cols_ok(table, w@), limit <= w@.len(),
            trace(table, start as int, w@.take(index as int)) == Some(row),
    {
        proof {
            assert(w@.take(index + 1).drop_last() =~= w@.take(index as int));
            assert(w@.take(index + 1).last() == w@[index as int]);
        }
        if let Some(next) = table.get(row, w[index]) {
            row = next;
        } else {
            return (row, index);
        }
    }
    (row, limit)
}
//@ end

//@ begin src/fpgroups/cosets.rs :: - :: fn scan_inverse
//@ rw R16 /-> \(usize, usize\)/-> (res: (usize, usize))/
fn scan_inverse(
    table: &CosetTable, w: &FreeWord, start: usize, limit: usize
)
    -> (res: (usize, usize))
    requires table.wf(), cols_ok(table, w@), limit <= w@.len()
    // the same for the inverse word w^-1 = (-w[n-1], ..., -w[0])
    ensures res.1 <= limit, trace(table, start as int, inv_word(w@).take(res.1 as int)) == Some(res.0),
        res.1 < limit ==> table.act(res.0 as int, inv_word(w@)[res.1 as int] as int).is_none(),
{
    proof { w.lemma_reduced(); }
    let n = w.len();
    let mut row = start;
    proof { assert(inv_word(w@).take(0) =~= Seq::<isize>::empty()); }

    for index in 0..limit
        invariant table.wf(), cols_ok(table, w@), limit <= w@.len(), n == w@.len(), reduced(w@),
            trace(table, start as int, inv_word(w@).take(index as int)) == Some(row),
    {
        proof {
            let iw = inv_word(w@);
            assert(iw.take(index + 1).drop_last() =~= iw.take(index as int));
            assert(iw.take(index + 1).last() == iw[index as int]);
            assert(w@[n - 1 - index] > isize::MIN);
            assert(table.col_ok(w@[n - 1 - index] as int));
        }
        if let Some(next) = table.get(row, -w[n - 1 - index]) {
            row = next;
        } else {
            return (row, index);
        }
    }
    (row, limit)
}
//@ end

// a defined trace has defined prefixes
proof fn lemma_trace_prefix(t: &CosetTable, row: int, w: Seq<isize>, k: int)
    requires 0 <= k <= w.len(), trace(t, row, w).is_some()
    ensures trace(t, row, w.take(k)).is_some()
    decreases w.len()
{
    if k == w.len() { assert(w.take(k) =~= w); }
    else {
        assert(w.drop_last().take(k) =~= w.take(k));
        lemma_trace_prefix(t, row, w.drop_last(), k);
    }
}

proof fn lemma_cols_take(t: &CosetTable, w: Seq<isize>, k: int)
    requires cols_ok(t, w), 0 <= k <= w.len()
    ensures cols_ok(t, w.take(k))
{
    assert forall|j: int| 0 <= j < w.take(k).len() implies t.col_ok(#[trigger] w.take(k)[j] as int) by { assert(w.take(k)[j] == w[j]); }
}

proof fn lemma_cols_inv(t: &CosetTable, w: Seq<isize>)
    requires cols_ok(t, w), reduced(w)
    ensures cols_ok(t, inv_word(w))
{
    assert forall|j: int| 0 <= j < inv_word(w).len() implies t.col_ok(#[trigger] inv_word(w)[j] as int) by {
        assert(t.col_ok(w[w.len() - 1 - j] as int)); assert(w[w.len() - 1 - j] > isize::MIN);
    }
}

//@ begin src/fpgroups/cosets.rs :: - :: fn scan_both_ways
//@ rw R16 /-> \(usize, usize, usize, isize\)/-> (res: (usize, usize, usize, isize))/
fn scan_both_ways(table: &CosetTable, w: &FreeWord, start: usize)
    -> (res: (usize, usize, usize, isize))
    requires table.wf(), cols_ok(table, w@)
    // (head, tail, gap, c): w = prefix ++ middle ++ suffix with |middle| = gap; the prefix traces start -> head, the inverse of
    // the suffix traces start -> tail; for gap >= 1, c is the first letter of the middle part; never panics (also for the empty word)
    ensures exists|i: int, j: int| #![trigger w@.take(i), inv_word(w@).take(j)] 0 <= i && 0 <= j && i + j + res.2 == w@.len()
            && trace(table, start as int, w@.take(i)) == Some(res.0)
            && trace(table, start as int, inv_word(w@).take(j)) == Some(res.1)
            && (res.2 >= 1 ==> res.3 == w@[i]),
        // a word whose trace from `start` is defined everywhere is scanned to its end: no gap, head = end of the trace, tail = start
        trace(table, start as int, w@).is_some() ==> res.2 == 0 && Some(res.0) == trace(table, start as int, w@) && res.1 == start,
        // inside the table
        rows_ok(table) && start < table.table@.len() ==> res.0 < table.table@.len() && res.1 < table.table@.len(),
        res.2 >= 1 ==> table.col_ok(res.3 as int) && res.3 > isize::MIN && res.3 != 0,
        // exactly one letter missing: the table is undefined on both sides of it
        res.2 == 1 ==> table.act(res.0 as int, res.3 as int).is_none() && table.act(res.1 as int, -(res.3 as int)).is_none(),
        // rows reached from a live row are live
        rows_ok(table) && start < table.table@.len() && table.part.rep(start as int) == start ==> table.part.rep(res.0 as int) == res.0 && table.part.rep(res.1 as int) == res.1,
{
    proof { w.lemma_reduced(); }
    let n = w.len();
    let (head, i) = scan(table, w, start, n);
    let (tail, j) = scan_inverse(table, w, start, n - i);
    proof {
        if trace(table, start as int, w@).is_some() {
            if i < n {
                lemma_trace_prefix(table, start as int, w@, i + 1);
                assert(w@.take(i + 1).drop_last() =~= w@.take(i as int));
                assert(w@.take(i + 1).last() == w@[i as int]);
            }
            assert(w@.take(n as int) =~= w@);
            assert(inv_word(w@).take(0) =~= Seq::<isize>::empty());
        }
        if rows_ok(table) && start < table.table@.len() {
            lemma_cols_take(table, w@, i as int);
            lemma_trace_rows_ok(table, start as int, w@.take(i as int));
            lemma_cols_inv(table, w@);
            lemma_cols_take(table, inv_word(w@), j as int);
            lemma_trace_rows_ok(table, start as int, inv_word(w@).take(j as int));
        }
        if i < n { assert(table.col_ok(w@[i as int] as int)); }
        if n - i - j == 1 {
            assert(inv_word(w@)[j as int] == (-(w@[n - 1 - j] as int)) as isize);
            assert(w@[i as int] > isize::MIN);
        }
        if rows_ok(table) && start < table.table@.len() && table.part.rep(start as int) == start {
            lemma_trace_live(table, start as int, w@.take(i as int));
            lemma_trace_live(table, start as int, inv_word(w@).take(j as int));
        }
    }
    (head, tail, n - i - j, if i < n { w[i] } else if n > 0 { w[0] } else { 0 })
}
//@ end

// =====================================================================================================
// coset representatives (C11, last sentence)
// =====================================================================================================
// a complete table: every generator and inverse generator acts on every row, staying inside the table, and the action of the
// inverse generator undoes it (C11: "every generator acts on the rows as a permutation whose inverse is the action of the
// inverse generator")
pub open spec fn valid(t: &CosetTable) -> bool {
    &&& t.wf()
    &&& t.table@.len() >= 1
    &&& forall|r: int, g: int| 0 <= r < t.table@.len() && t.gen_ok(g) ==>
            (#[trigger] t.act(r, g)).is_some() && t.act(r, g).unwrap() < t.table@.len()
            && t.act(t.act(r, g).unwrap() as int, -g) == Some(r as usize)
}

proof fn lemma_trace_step(t: &CosetTable, w: Seq<isize>, g: isize, k: int)
    requires valid(t), reduced(w), t.gen_ok(g as int), 0 <= k < t.table@.len(),
        trace(t, 0, w) == Some(k as usize),
        forall|j: int| 0 <= j < w.len() ==> t.gen_ok(#[trigger] w[j] as int),
    ensures trace(t, 0, step(w, g)) == t.act(k, g as int),
        forall|j: int| 0 <= j < step(w, g).len() ==> t.gen_ok(#[trigger] step(w, g)[j] as int),
{
    if w.len() > 0 && neg_eq(g, w.last()) {
        let w0 = w.drop_last();
        let x = trace(t, 0, w0);
        assert(x.is_some());
        lemma_trace_in_range(t, w0);
        assert(t.act(x.unwrap() as int, w.last() as int) == Some(k as usize));
        assert(t.gen_ok(w[w.len() - 1] as int));
        assert(step(w, g) == w0);
        assert forall|j: int| 0 <= j < w0.len() implies t.gen_ok(#[trigger] w0[j] as int) by { assert(w0[j] == w[j]); }
    } else {
        let w2 = w.push(g);
        assert(step(w, g) == w2);
        assert(w2.drop_last() =~= w);
        assert forall|j: int| 0 <= j < w2.len() implies t.gen_ok(#[trigger] w2[j] as int) by { if j < w.len() { assert(w2[j] == w[j]); } }
    }
}

proof fn lemma_trace_in_range(t: &CosetTable, w: Seq<isize>)
    requires valid(t), trace(t, 0, w).is_some(), forall|j: int| 0 <= j < w.len() ==> t.gen_ok(#[trigger] w[j] as int),
    ensures trace(t, 0, w).unwrap() < t.table@.len()
    decreases w.len()
{
    if w.len() > 0 {
        let w0 = w.drop_last();
        assert forall|j: int| 0 <= j < w0.len() implies t.gen_ok(#[trigger] w0[j] as int) by { assert(w0[j] == w[j]); }
        lemma_trace_in_range(t, w0);
        assert(t.gen_ok(w[w.len() - 1] as int));
    }
}


pub open spec fn reps_ok(t: &CosetTable, m: Map<usize, FreeWord>) -> bool {
    forall|k: usize| #[trigger] m.contains_key(k) ==>
        k < t.table@.len() && reduced(m[k]@) && trace(t, 0, m[k]@) == Some(k)
        && forall|j: int| 0 <= j < m[k]@.len() ==> t.gen_ok(#[trigger] m[k]@[j] as int)
}

// a set of rows that contains row 0 and is closed under every generator contains every row some word reaches from row 0
proof fn lemma_closed_keys(t: &CosetTable, keys: Set<usize>, w: Seq<isize>)
    requires keys.contains(0), gens_ok(t, w), trace(t, 0, w).is_some(),
        forall|k: usize, h: int| #![trigger keys.contains(k), t.act(k as int, h)] keys.contains(k) && t.gen_ok(h) && t.act(k as int, h).is_some() ==> keys.contains(t.act(k as int, h).unwrap()),
    ensures keys.contains(trace(t, 0, w).unwrap())
    decreases w.len()
{
    if w.len() > 0 {
        let w0 = w.drop_last();
        assert(gens_ok(t, w0)) by { assert forall|j: int| 0 <= j < w0.len() implies t.gen_ok(#[trigger] w0[j] as int) by { assert(w0[j] == w[j]); } }
        lemma_closed_keys(t, keys, w0);
        let x = trace(t, 0, w0).unwrap();
        assert(t.gen_ok(w.last() as int)) by { assert(w.last() == w[w.len() - 1]); }
        assert(keys.contains(x) && t.act(x as int, w.last() as int).is_some());
    }
}

//@ begin src/fpgroups/cosets.rs :: - :: fn coset_representative
//@ rw R16 /-> BTreeMap<usize, FreeWord>/-> (result: BTreeMap<usize, FreeWord>)/
//@ rw R13 /result\[&i\]\.clone\(\)/result.get(&i).unwrap().clone()/
//@ rw R17 /for g in table\.all_gens\(\)$/for g in it: table.all_gens()/
//@ rw R9+R14 /^([ \t]*)result\.insert\(k, &w \* g\);/\1let wk = Mul::mul(&w, g);\n\1result.insert(k, wk);/
#[verifier::exec_allows_no_decreases_clause]
pub fn coset_representative(table: &CosetTable) -> (result: BTreeMap<usize, FreeWord>)
    requires valid(table)
    // C11: "The coset representatives map each row to a word that, traced from row 0, ends in that row."
    ensures reps_ok(table, result@), result@.contains_key(0),
        // ... EACH row: for a transitive table (what coset_table returns) no row is left without a representative
        transitive(table) ==> forall|r: int| is_row(table, r) ==> result@.contains_key(r as usize),
{
    let mut queue = VecDeque::from([0]);
    let mut result = BTreeMap::from([(0, FreeWord::empty())]);
    proof { assert(reps_ok(table, result@)); }
    let ghost mut qg: Seq<usize> = queue@;
    let ghost mut done: Set<usize> = Set::empty();     // rows whose neighbours have all been given a word

    while let Some(i) = queue.pop_front()
        invariant
            qg == queue@,
            valid(table),
            reps_ok(table, result@),
            result@.contains_key(0),
            forall|k: int| 0 <= k < queue@.len() ==> result@.contains_key(#[trigger] queue@[k]),
            // every row with a word is finished or waiting, and the finished ones have passed a word on to every neighbour
            forall|k: usize| #[trigger] result@.contains_key(k) ==> done.contains(k) || queue@.contains(k),
            forall|k: usize, h: int| #![trigger done.contains(k), table.act(k as int, h)] done.contains(k) && table.gen_ok(h) && table.act(k as int, h).is_some()
                ==> result@.contains_key(table.act(k as int, h).unwrap()),
        ensures queue@.len() == 0,
    {
        proof { assert(qg[0] == i); assert(result@.contains_key(qg[0]));
                assert forall|k: int| 0 <= k < queue@.len() implies result@.contains_key(#[trigger] queue@[k]) by { assert(queue@[k] == qg[k + 1]); }
                assert forall|k: usize| #[trigger] result@.contains_key(k) && k != i implies done.contains(k) || queue@.contains(k) by {
                    if !done.contains(k) { let j = choose|j: int| 0 <= j < qg.len() && qg[j] == k; assert(queue@[j - 1] == k); }
                } }
        let w = result.get(&i).unwrap().clone();

        for g in it: table.all_gens()
            invariant
                valid(table),
                reps_ok(table, result@),
                result@.contains_key(0), result@.contains_key(i),
                w@ == result@[i]@,
                forall|k: int| 0 <= k < queue@.len() ==> result@.contains_key(#[trigger] queue@[k]),
                forall|k: int| 0 <= k < it.seq().len() ==> table.gen_ok(#[trigger] it.seq()[k] as int),
                it.seq().len() == 2 * table.nr_gens,
                forall|k: int| 0 <= k < it.seq().len() ==> gen_index(table, #[trigger] it.seq()[k] as int) == k,
                forall|k: usize| #[trigger] result@.contains_key(k) && k != i ==> done.contains(k) || queue@.contains(k),
                forall|k: usize, h: int| #![trigger done.contains(k), table.act(k as int, h)] done.contains(k) && table.gen_ok(h) && table.act(k as int, h).is_some()
                    ==> result@.contains_key(table.act(k as int, h).unwrap()),
                // the generators already handled at row i
                forall|h: int| table.gen_ok(h) && gen_index(table, h) < it.index() && (#[trigger] table.act(i as int, h)).is_some()
                    ==> result@.contains_key(table.act(i as int, h).unwrap()),
        {
            proof { assert(table.gen_ok(it.seq()[it.index() as int] as int)); assert(gen_index(table, it.seq()[it.index() as int] as int) == it.index()); }
            let ghost q0 = queue@;
            if let Some(k) = table.get(i, g) {
                if !result.contains_key(&k) {
                    proof { lemma_trace_step(table, w@, g, i as int); }
                    let wk = Mul::mul(&w, g);
                    result.insert(k, wk);
                    queue.push_back(k);
                    proof {
                        assert(queue@[q0.len() as int] == k);
                        assert forall|x: usize| q0.contains(x) implies queue@.contains(x) by { let j = choose|j: int| 0 <= j < q0.len() && q0[j] == x; assert(queue@[j] == x); }
                    }
                }
            }
            proof {
                assert forall|h: int| table.gen_ok(h) && gen_index(table, h) < it.index() + 1 && (#[trigger] table.act(i as int, h)).is_some()
                    implies result@.contains_key(table.act(i as int, h).unwrap()) by {
                    if gen_index(table, h) == it.index() { assert(h == g as int); }
                }
            }
        }
        proof {
            let d0 = done;
            done = done.insert(i);
            assert forall|k: usize, h: int| #![trigger done.contains(k), table.act(k as int, h)] done.contains(k) && table.gen_ok(h) && table.act(k as int, h).is_some()
                implies result@.contains_key(table.act(k as int, h).unwrap()) by {
                if k == i { assert(0 <= gen_index(table, h) < 2 * table.nr_gens); } else { assert(d0.contains(k)); }
            }
            qg = queue@;
        }
    }

    proof {
        if transitive(table) {
            assert forall|k: usize| #[trigger] result@.contains_key(k) implies done.contains(k) by { assert(!queue@.contains(k)); }
            assert forall|r: int| is_row(table, r) implies result@.contains_key(r as usize) by {
                let w = choose|w: Seq<isize>| gens_ok(table, w) && #[trigger] trace(table, 0, w) == Some(r as usize);
                lemma_closed_keys(table, result@.dom(), w);
            }
        }
    }
    result
}
//@ end

// =====================================================================================================
// merge / scan_and_connect / compact / coset_table  (C11: "every relator traced from every row returns to that row, and every
// generator of H traced from row 0 returns to row 0" -- proved for every trace that is defined; that every trace IS defined, i.e.
// completeness of the table, and the row count are decided by the bounded stand-in only)
// =====================================================================================================
// the bookkeeping invariant of the enumeration: entries and representatives stay inside the table, which stays below the row limit
pub open spec fn rows_ok(t: &CosetTable) -> bool {
    &&& t.wf()
    &&& 1 <= t.table@.len() <= isize::MAX / 2
    &&& forall|c: int, g: int| 0 <= c < t.table@.len() && t.col_ok(g) ==> -1 <= #[trigger] t.raw(c, g) < t.table@.len()
    &&& forall|x: int| 0 <= x < t.table@.len() ==> 0 <= #[trigger] t.part.rep(x) < t.table@.len()
    &&& forall|x: int| #[trigger] t.part.rep(t.part.rep(x)) == t.part.rep(x)
    &&& forall|x: int| !(0 <= x < t.table@.len()) ==> #[trigger] t.part.rep(x) == x
}

proof fn lemma_act_in_range(t: &CosetTable, c: int, g: int)
    requires rows_ok(t), t.col_ok(g), t.act(c, g).is_some()
    ensures t.act(c, g).unwrap() < t.table@.len(), t.part.rep(t.act(c, g).unwrap() as int) == t.act(c, g).unwrap()
{
    assert(-1 <= t.raw(c, g) < t.table@.len());
    assert(0 <= t.part.rep(t.raw(c, g)) < t.table@.len());
}

// every generator and inverse generator is defined at row k
pub open spec fn row_complete(t: &CosetTable, k: int) -> bool { forall|g: int| t.gen_ok(g) ==> #[trigger] t.raw(k, g) >= 0 }
// every live row is complete
pub open spec fn all_complete(t: &CosetTable) -> bool { forall|k: int| #[trigger] canonical(t, k) ==> row_complete(t, k) }
// what the enumeration never undoes: defined entries stay defined, a row that lost its representative role never regains it
pub open spec fn grows(t0: &CosetTable, t1: &CosetTable) -> bool {
    &&& t1.nr_gens == t0.nr_gens && t1.table@.len() >= t0.table@.len()
    &&& forall|c: int, g: int| 0 <= c < t0.table@.len() && t0.col_ok(g) && #[trigger] t0.raw(c, g) >= 0 ==> t1.raw(c, g) >= 0
    &&& forall|x: int| #[trigger] t1.part.rep(x) == x ==> t0.part.rep(x) == x
}
proof fn lemma_grows_trans(a: &CosetTable, b: &CosetTable, c: &CosetTable)
    requires grows(a, b), grows(b, c)
    ensures grows(a, c)
{
    assert forall|r: int, g: int| 0 <= r < a.table@.len() && a.col_ok(g) && #[trigger] a.raw(r, g) >= 0 implies c.raw(r, g) >= 0 by { assert(b.raw(r, g) >= 0); }
    assert forall|x: int| #[trigger] c.part.rep(x) == x implies a.part.rep(x) == x by { assert(b.part.rep(x) == x); }
}
// rows below `upto` that are live in the later table were live, hence complete, before
proof fn lemma_keep_rows(t0: &CosetTable, t1: &CosetTable, upto: int)
    requires grows(t0, t1), upto <= t0.table@.len(), forall|k: int| 0 <= k < upto && #[trigger] canonical(t0, k) ==> row_complete(t0, k)
    ensures forall|k: int| 0 <= k < upto && #[trigger] canonical(t1, k) ==> row_complete(t1, k)
{
    assert forall|k: int| 0 <= k < upto && #[trigger] canonical(t1, k) implies row_complete(t1, k) by {
        assert(t1.part.rep(k) == k);
        assert(canonical(t0, k));
        assert forall|g: int| t1.gen_ok(g) implies #[trigger] t1.raw(k, g) >= 0 by { assert(t0.raw(k, g) >= 0); }
    }
}

// =====================================================================================================
// C11: "every generator acts on the rows as a permutation whose inverse is the action of the inverse generator".
// K: every defined entry c --g--> d has its back-entry at the representative of d, leading back to c up to the coincidences
// still pending.  E: the equivalence generated by the partition and the pending pairs (x E y iff EVERY function that is
// constant on the classes and on the pending pairs agrees on x and y).
// =====================================================================================================
pub open spec fn resp(t: &CosetTable, pend: Seq<(int, int)>, f: spec_fn(int) -> int) -> bool {
    &&& forall|u: int| #[trigger] f(t.part.rep(u)) == f(u)
    &&& forall|k: int| 0 <= k < pend.len() ==> f((#[trigger] pend[k]).0) == f(pend[k].1)
}
pub open spec fn eqv(t: &CosetTable, pend: Seq<(int, int)>, x: int, y: int) -> bool {
    forall|f: spec_fn(int) -> int| #[trigger] resp(t, pend, f) ==> f(x) == f(y)
}
pub open spec fn back_ok(t: &CosetTable, pend: Seq<(int, int)>, c: int, g: int) -> bool {
    t.raw(c, g) >= 0 ==> {
        let d = t.part.rep(t.raw(c, g));
        t.raw(d, -g) >= 0 && eqv(t, pend, t.raw(d, -g), c)
    }
}
pub open spec fn kinv(t: &CosetTable, pend: Seq<(int, int)>) -> bool {
    forall|c: int, g: int| 0 <= c < t.table@.len() && t.gen_ok(g) ==> #[trigger] back_ok(t, pend, c, g)
}
// on live rows the inverse generator undoes the generator
pub open spec fn inv_consistent(t: &CosetTable) -> bool {
    forall|k: int, g: int| canonical(t, k) && t.gen_ok(g) && (#[trigger] t.act(k, g)).is_some() ==> t.act(t.act(k, g).unwrap() as int, -g) == Some(k as usize)
}

proof fn lemma_eqv_equiv(t: &CosetTable, pend: Seq<(int, int)>, x: int, y: int, z: int)
    ensures eqv(t, pend, x, x), eqv(t, pend, x, y) ==> eqv(t, pend, y, x), eqv(t, pend, x, y) && eqv(t, pend, y, z) ==> eqv(t, pend, x, z),
        eqv(t, pend, t.part.rep(x), x),
{
    if eqv(t, pend, x, y) {
        assert forall|f: spec_fn(int) -> int| #[trigger] resp(t, pend, f) implies f(y) == f(x) by { assert(f(x) == f(y)); }
        if eqv(t, pend, y, z) {
            assert forall|f: spec_fn(int) -> int| #[trigger] resp(t, pend, f) implies f(x) == f(z) by { assert(f(x) == f(y)); assert(f(y) == f(z)); }
        }
    }
}

// more pending pairs: more is equivalent
proof fn lemma_eqv_mono(t: &CosetTable, p1: Seq<(int, int)>, p2: Seq<(int, int)>, x: int, y: int)
    requires eqv(t, p1, x, y), forall|k: int| 0 <= k < p1.len() ==> has_pair(p2, #[trigger] p1[k])
    ensures eqv(t, p2, x, y)
{
    assert forall|f: spec_fn(int) -> int| #[trigger] resp(t, p2, f) implies f(x) == f(y) by {
        assert forall|k: int| 0 <= k < p1.len() implies f((#[trigger] p1[k]).0) == f(p1[k].1) by {
            assert(has_pair(p2, p1[k]));
            let j = choose|j: int| 0 <= j < p2.len() && #[trigger] p2[j] == p1[k];
            assert(f(p2[j].0) == f(p2[j].1));
        }
        assert(resp(t, p1, f));
    }
}
pub open spec fn has_pair(p: Seq<(int, int)>, x: (int, int)) -> bool { exists|j: int| 0 <= j < p.len() && #[trigger] p[j] == x }

// nothing pending: equivalent means same class
proof fn lemma_eqv_empty(t: &CosetTable, x: int, y: int)
    requires rows_ok(t), eqv(t, Seq::<(int, int)>::empty(), x, y)
    ensures t.part.rep(x) == t.part.rep(y)
{
    let f = |u: int| t.part.rep(u);
    assert(resp(t, Seq::<(int, int)>::empty(), f)) by {
        assert forall|u: int| #[trigger] f(t.part.rep(u)) == f(u) by { assert(t.part.rep(t.part.rep(u)) == t.part.rep(u)); }
    }
}

proof fn lemma_kinv_inverse(t: &CosetTable)
    requires rows_ok(t), kinv(t, Seq::<(int, int)>::empty())
    ensures inv_consistent(t)
{
    assert forall|k: int, g: int| canonical(t, k) && t.gen_ok(g) && (#[trigger] t.act(k, g)).is_some() implies t.act(t.act(k, g).unwrap() as int, -g) == Some(k as usize) by {
        assert(back_ok(t, Seq::<(int, int)>::empty(), k, g));
        lemma_act_in_range(t, k, g);
        let d = t.part.rep(t.raw(k, g));
        lemma_eqv_empty(t, t.raw(d, -g), k);
    }
}

pub open spec fn qpairs(q: Seq<(usize, usize)>) -> Seq<(int, int)> { Seq::new(q.len(), |k: int| (q[k].0 as int, q[k].1 as int)) }
// columns g of rows a and b agree up to the pending coincidences (what merging a and b has to achieve before the union)
pub open spec fn synced(t: &CosetTable, pend: Seq<(int, int)>, a: int, b: int, g: int) -> bool {
    (t.raw(a, g) >= 0 || t.raw(b, g) >= 0) ==> t.raw(a, g) >= 0 && t.raw(b, g) >= 0 && eqv(t, pend, t.raw(a, g), t.raw(b, g))
}
pub open spec fn same_rows(t0: &CosetTable, t1: &CosetTable) -> bool {
    t1.nr_gens == t0.nr_gens && t1.table@.len() == t0.table@.len()
}

// K survives a change of the pending pairs under which every admissible function stays admissible
proof fn lemma_kinv_pend(t: &CosetTable, p1: Seq<(int, int)>, p2: Seq<(int, int)>)
    requires kinv(t, p1), forall|f: spec_fn(int) -> int| #[trigger] resp(t, p2, f) ==> resp(t, p1, f)
    ensures kinv(t, p2)
{
    assert forall|c: int, g: int| 0 <= c < t.table@.len() && t.gen_ok(g) implies #[trigger] back_ok(t, p2, c, g) by {
        assert(back_ok(t, p1, c, g));
        if t.raw(c, g) >= 0 {
            let d = t.part.rep(t.raw(c, g));
            assert forall|f: spec_fn(int) -> int| #[trigger] resp(t, p2, f) implies f(t.raw(d, -g)) == f(c) by { assert(resp(t, p1, f)); }
        }
    }
}
proof fn lemma_eqv_pend(t: &CosetTable, p1: Seq<(int, int)>, p2: Seq<(int, int)>, x: int, y: int)
    requires eqv(t, p1, x, y), forall|f: spec_fn(int) -> int| #[trigger] resp(t, p2, f) ==> resp(t, p1, f)
    ensures eqv(t, p2, x, y)
{
    assert forall|f: spec_fn(int) -> int| #[trigger] resp(t, p2, f) implies f(x) == f(y) by { assert(resp(t, p1, f)); }
}

// K survives copying the entry a --g--> (ag) to row b when b had none and a, b are pending to be merged
proof fn lemma_kinv_set(t0: &CosetTable, t1: &CosetTable, pend: Seq<(int, int)>, a: int, b: int, g: int, ag: int)
    requires rows_ok(t0), kinv(t0, pend), same_rows(t0, t1), t1.part == t0.part,
        0 <= a < t0.table@.len(), 0 <= b < t0.table@.len(), t0.gen_ok(g),
        t0.raw(a, g) >= 0, t0.raw(b, g) < 0, ag == t0.part.rep(t0.raw(a, g)), eqv(t0, pend, a, b),
        t1.raw(b, g) == ag,
        forall|c2: int, g2: int| 0 <= c2 < t0.table@.len() && t0.col_ok(g2) && !(c2 == b && g2 == g) ==> #[trigger] t1.raw(c2, g2) == t0.raw(c2, g2),
    ensures kinv(t1, pend),
        forall|x: int, y: int| eqv(t0, pend, x, y) ==> #[trigger] eqv(t1, pend, x, y),
{
    assert forall|f: spec_fn(int) -> int| #[trigger] resp(t1, pend, f) <==> resp(t0, pend, f) by { }
    assert forall|x: int, y: int| eqv(t0, pend, x, y) implies #[trigger] eqv(t1, pend, x, y) by {
        assert forall|f: spec_fn(int) -> int| #[trigger] resp(t1, pend, f) implies f(x) == f(y) by { assert(resp(t0, pend, f)); }
    }
    assert(0 <= ag < t0.table@.len() && t0.part.rep(ag) == ag) by { assert(-1 <= t0.raw(a, g) < t0.table@.len()); }
    assert forall|c: int, h: int| 0 <= c < t1.table@.len() && t1.gen_ok(h) implies #[trigger] back_ok(t1, pend, c, h) by {
        if c == b && h == g {
            assert(back_ok(t0, pend, a, g));
            assert(!(ag == b && -g == g));
            assert(t1.raw(ag, -g) == t0.raw(ag, -g));
            lemma_eqv_equiv(t0, pend, t0.raw(ag, -g), a, b);
            assert(eqv(t1, pend, t1.raw(ag, -g), b));
        } else {
            assert(t1.raw(c, h) == t0.raw(c, h));
            if t0.raw(c, h) >= 0 {
                assert(back_ok(t0, pend, c, h));
                let d = t0.part.rep(t0.raw(c, h));
                assert(-1 <= t0.raw(c, h) < t0.table@.len());
                assert(0 <= d < t0.table@.len());
                assert(t0.raw(d, -h) >= 0);
                assert(!(d == b && -h == g));
                assert(t1.raw(d, -h) == t0.raw(d, -h));
                assert(eqv(t1, pend, t1.raw(d, -h), c));
            }
        }
    }
}

// K survives the union of a and b once all their columns are synced; the pending pair (a, b) is discharged by it
proof fn lemma_kinv_unite(t0: &CosetTable, t1: &CosetTable, q: Seq<(int, int)>, a: int, b: int)
    requires rows_ok(t0), rows_ok(t1), same_rows(t0, t1), kinv(t0, q.push((a, b))),
        0 <= a < t0.table@.len(), 0 <= b < t0.table@.len(), t0.part.rep(a) == a, t0.part.rep(b) == b,
        forall|g: int| t0.gen_ok(g) ==> #[trigger] synced(t0, q.push((a, b)), a, b, g),
        united(|z: int| t0.part.rep(z), |z: int| t1.part.rep(z), a, b),
        forall|c2: int, g2: int| 0 <= c2 < t0.table@.len() && t0.col_ok(g2) ==> #[trigger] t1.raw(c2, g2) == t0.raw(c2, g2),
    ensures kinv(t1, q)
{
    let p = q.push((a, b));
    let ra = |z: int| t0.part.rep(z);
    let rb = |z: int| t1.part.rep(z);
    assert(rb(a) == rb(b) && (rb(a) == a || rb(a) == b));
    // a function admissible after the union was admissible before, with the pair (a, b) pending
    assert forall|f: spec_fn(int) -> int| #[trigger] resp(t1, q, f) implies resp(t0, p, f) by {
        assert forall|u: int| #[trigger] f(t0.part.rep(u)) == f(u) by {
            let v = t0.part.rep(u);
            assert(rb(u) == (if ra(u) == ra(a) || ra(u) == ra(b) { rb(a) } else { ra(u) }));
            assert(rb(v) == (if ra(v) == ra(a) || ra(v) == ra(b) { rb(a) } else { ra(v) }));
            assert(t0.part.rep(t0.part.rep(u)) == t0.part.rep(u));
            assert(f(t1.part.rep(u)) == f(u)); assert(f(t1.part.rep(v)) == f(v));
        }
        assert(f(t1.part.rep(a)) == f(a)); assert(f(t1.part.rep(b)) == f(b));
        assert forall|k: int| 0 <= k < p.len() implies f((#[trigger] p[k]).0) == f(p[k].1) by { if k < q.len() { assert(p[k] == q[k]); } }
    }
    assert forall|c: int, h: int| 0 <= c < t1.table@.len() && t1.gen_ok(h) implies #[trigger] back_ok(t1, q, c, h) by {
        assert(t1.raw(c, h) == t0.raw(c, h));
        if t0.raw(c, h) >= 0 {
            assert(back_ok(t0, p, c, h));
            let x = t0.raw(c, h);
            assert(-1 <= x < t0.table@.len());
            let d0 = t0.part.rep(x); let d1 = t1.part.rep(x);
            assert(0 <= d0 < t0.table@.len() && 0 <= d1 < t0.table@.len());
            assert(rb(x) == (if ra(x) == ra(a) || ra(x) == ra(b) { rb(a) } else { ra(x) }));
            assert(t1.gen_ok(-h));
            if d1 == d0 {
                assert(t1.raw(d1, -h) == t0.raw(d0, -h));
            } else {
                assert(d0 == a || d0 == b);
                assert(d1 == a || d1 == b);
                assert(synced(t0, p, a, b, -h));
                assert(t0.raw(a, -h) >= 0 && t0.raw(b, -h) >= 0 && eqv(t0, p, t0.raw(a, -h), t0.raw(b, -h)));
                lemma_eqv_equiv(t0, p, t0.raw(a, -h), t0.raw(b, -h), c);
                lemma_eqv_equiv(t0, p, t0.raw(b, -h), t0.raw(a, -h), c);
                assert(eqv(t0, p, t0.raw(d1, -h), c));
                assert(t1.raw(d1, -h) == t0.raw(d1, -h));
            }
            // eqv over t0 with q and over t1 with q: t1's admissible functions are admissible for t0 with p, so the transfer above
            // is what is needed; restate for t1
            assert forall|f: spec_fn(int) -> int| #[trigger] resp(t1, q, f) implies f(t1.raw(d1, -h)) == f(c) by {
                assert(resp(t0, p, f));
                assert(eqv(t0, p, t0.raw(d1, -h), c));
            }
        }
    }
}

// =====================================================================================================
// C11: "exactly [G:H] rows" -- as a universal property.  A MODEL is a set of points with an action of the generators in which inverse
// generators undo generators, every relator acts trivially and the subgroup generators fix a base point x0 (e.g. the cosets of H in G
// with x0 = H).  U: for every model there is a map phi from the rows to the points, phi(0) = x0, constant on the classes and on the
// pending pairs, with phi(c.g) = phi(c).g for every defined entry.  So the table never identifies more than every model does: together
// with completeness, inverse-consistency, transitivity and relator closure (the table IS a model) it is the initial one, i.e. G/H.
// =====================================================================================================
pub open spec fn m1(act: spec_fn(int, int) -> int, n: int) -> bool {
    forall|x: int, g: int| g != 0 && -n <= g <= n ==> #[trigger] act(act(x, g), -g) == x
}
pub open spec fn act_word(act: spec_fn(int, int) -> int, x: int, w: Seq<isize>) -> int
    decreases w.len()
{
    if w.len() == 0 { x } else { act(act_word(act, x, w.drop_last()), w.last() as int) }
}
pub open spec fn triv(act: spec_fn(int, int) -> int, w: Seq<isize>) -> bool { forall|x: int| #[trigger] act_word(act, x, w) == x }
// the model condition on the words the enumeration scans: the expanded relator set and the subgroup generators
pub open spec fn emodel(n: int, rels: Set<FreeWord>, subs: Seq<FreeWord>, act: spec_fn(int, int) -> int, x0: int) -> bool {
    &&& m1(act, n)
    &&& forall|u: FreeWord| #[trigger] rels.contains(u) ==> triv(act, u@)
    &&& forall|m: int| 0 <= m < subs.len() ==> act_word(act, x0, (#[trigger] subs[m])@) == x0
}
pub open spec fn uadm(t: &CosetTable, pend: Seq<(int, int)>, act: spec_fn(int, int) -> int, x0: int, phi: spec_fn(int) -> int) -> bool {
    &&& phi(0) == x0
    &&& resp(t, pend, phi)
    &&& forall|c: int, g: int| 0 <= c < t.table@.len() && t.gen_ok(g) && t.raw(c, g) >= 0 ==> phi(#[trigger] t.raw(c, g)) == act(phi(c), g)
}
pub open spec fn uinv(t: &CosetTable, pend: Seq<(int, int)>, act: spec_fn(int, int) -> int, x0: int) -> bool {
    exists|phi: spec_fn(int) -> int| #[trigger] uadm(t, pend, act, x0, phi)
}

proof fn lemma_word_concat(act: spec_fn(int, int) -> int, x: int, u: Seq<isize>, v: Seq<isize>)
    ensures act_word(act, x, u + v) == act_word(act, act_word(act, x, u), v)
    decreases v.len()
{
    if v.len() == 0 { assert(u + v =~= u); }
    else {
        assert((u + v).drop_last() =~= u + v.drop_last());
        assert((u + v).last() == v.last());
        lemma_word_concat(act, x, u, v.drop_last());
    }
}

proof fn lemma_word_inv(act: spec_fn(int, int) -> int, n: int, x: int, v: Seq<isize>)
    requires m1(act, n), forall|j: int| 0 <= j < v.len() ==> #[trigger] v[j] != 0 && -n <= v[j] <= n && v[j] > isize::MIN
    ensures act_word(act, act_word(act, x, v), inv_word(v)) == x
    decreases v.len()
{
    if v.len() > 0 {
        let v0 = v.drop_last();
        let g = v.last();
        let iv = inv_word(v);
        // inv_word(v) = [-g] ++ inv_word(v0)
        assert(iv =~= seq![(-(g as int)) as isize] + inv_word(v0)) by {
            assert(iv.len() == v.len());
            assert forall|k: int| 0 <= k < iv.len() implies iv[k] == (seq![(-(g as int)) as isize] + inv_word(v0))[k] by {
                if k > 0 { assert(inv_word(v0)[k - 1] == (-(v0[v0.len() - 1 - (k - 1)] as int)) as isize); assert(v0[v0.len() - k] == v[v.len() - 1 - k]); }
            }
        }
        let y = act_word(act, x, v);
        lemma_word_concat(act, y, seq![(-(g as int)) as isize], inv_word(v0));
        let s1 = seq![(-(g as int)) as isize];
        assert(v[v.len() - 1] != 0 && -n <= v[v.len() - 1] <= n && v[v.len() - 1] > isize::MIN);
        assert(s1.len() == 1 && s1.last() == (-(g as int)) as isize);
        assert(s1.drop_last() =~= Seq::<isize>::empty());
        assert(act_word(act, y, s1.drop_last()) == y);
        assert(act_word(act, y, s1) == act(y, -(g as int)));
        assert(act(act(act_word(act, x, v0), g as int), -(g as int)) == act_word(act, x, v0));
        assert forall|j: int| 0 <= j < v0.len() implies #[trigger] v0[j] != 0 && -n <= v0[j] <= n && v0[j] > isize::MIN by { assert(v0[j] == v[j]); }
        lemma_word_inv(act, n, x, v0);
    }
}

// along a defined trace, phi follows the action of the model
proof fn lemma_trace_phi(t: &CosetTable, act: spec_fn(int, int) -> int, x0: int, phi: spec_fn(int) -> int, row: int, w: Seq<isize>)
    requires rows_ok(t), uadm(t, Seq::<(int, int)>::empty(), act, x0, phi), 0 <= row < t.table@.len(), gens_ok(t, w), trace(t, row, w).is_some()
    ensures phi(trace(t, row, w).unwrap() as int) == act_word(act, phi(row), w), trace(t, row, w).unwrap() < t.table@.len()
    decreases w.len()
{
    if w.len() > 0 {
        let w0 = w.drop_last();
        assert(gens_ok(t, w0)) by { assert forall|j: int| 0 <= j < w0.len() implies t.gen_ok(#[trigger] w0[j] as int) by { assert(w0[j] == w[j]); } }
        lemma_trace_phi(t, act, x0, phi, row, w0);
        let y0 = trace(t, row, w0).unwrap() as int;
        assert(t.gen_ok(w[w.len() - 1] as int));
        lemma_act_in_range(t, y0, w.last() as int);
        assert(phi(t.part.rep(t.raw(y0, w.last() as int))) == phi(t.raw(y0, w.last() as int)));
    }
}

// what a scan of a word that fixes phi(start) tells about phi: the two ends are linked by the missing middle part
proof fn lemma_scan_phi(t: &CosetTable, act: spec_fn(int, int) -> int, x0: int, phi: spec_fn(int) -> int, w: Seq<isize>, start: int, head: usize, tail: usize, i: int, j: int)
    requires rows_ok(t), uadm(t, Seq::<(int, int)>::empty(), act, x0, phi), m1(act, t.nr_gens as int), 0 <= start < t.table@.len(),
        gens_ok(t, w), forall|k: int| 0 <= k < w.len() ==> #[trigger] w[k] > isize::MIN,
        0 <= i, 0 <= j, i + j <= w.len(),
        trace(t, start, w.take(i)) == Some(head), trace(t, start, inv_word(w).take(j)) == Some(tail),
        act_word(act, phi(start), w) == phi(start),
    ensures act_word(act, phi(head as int), w.subrange(i, w.len() - j)) == phi(tail as int)
{
    let n = w.len() as int;
    let p = w.take(i); let m = w.subrange(i, n - j); let s = w.skip(n - j);
    assert(w =~= p + m + s);
    assert(inv_word(w).take(j) =~= inv_word(s)) by {
        assert forall|k: int| 0 <= k < j implies inv_word(w).take(j)[k] == inv_word(s)[k] by { assert(s[s.len() - 1 - k] == w[n - 1 - k]); }
    }
    assert(gens_ok(t, p)) by { assert forall|k: int| 0 <= k < p.len() implies t.gen_ok(#[trigger] p[k] as int) by { assert(p[k] == w[k]); } }
    assert(gens_ok(t, inv_word(s))) by { assert forall|k: int| 0 <= k < inv_word(s).len() implies t.gen_ok(#[trigger] inv_word(s)[k] as int) by { assert(t.gen_ok(w[n - 1 - k] as int)); assert(s[s.len() - 1 - k] == w[n - 1 - k]); } }
    lemma_trace_phi(t, act, x0, phi, start, p);
    lemma_trace_phi(t, act, x0, phi, start, inv_word(s));
    let xs = phi(start);
    lemma_word_concat(act, xs, p + m, s);
    lemma_word_concat(act, xs, p, m);
    let y = act_word(act, phi(head as int), m);
    assert(act_word(act, xs, p) == phi(head as int));
    assert(act_word(act, xs, p + m) == y);
    assert(act_word(act, xs, p + m + s) == xs);
    assert(act_word(act, y, s) == xs);
    assert forall|k: int| 0 <= k < s.len() implies #[trigger] s[k] != 0 && -(t.nr_gens as int) <= s[k] <= t.nr_gens && s[k] > isize::MIN by { assert(s[k] == w[n - j + k]); assert(t.gen_ok(w[n - j + k] as int)); }
    lemma_word_inv(act, t.nr_gens as int, y, s);
}

// U is kept from (t0, p0) to (t1, p1): every model that maps from the first maps from the second
pub open spec fn ukeep(t0: &CosetTable, p0: Seq<(int, int)>, t1: &CosetTable, p1: Seq<(int, int)>) -> bool {
    forall|act: spec_fn(int, int) -> int, x0: int| #[trigger] uinv(t0, p0, act, x0) && m1(act, t0.nr_gens as int) ==> uinv(t1, p1, act, x0)
}
proof fn lemma_ukeep_step(t0: &CosetTable, p0: Seq<(int, int)>, t1: &CosetTable, p1: Seq<(int, int)>)
    requires forall|act: spec_fn(int, int) -> int, x0: int, phi: spec_fn(int) -> int| #[trigger] uadm(t0, p0, act, x0, phi) && m1(act, t0.nr_gens as int) ==> uadm(t1, p1, act, x0, phi)
    ensures ukeep(t0, p0, t1, p1)
{
    assert forall|act: spec_fn(int, int) -> int, x0: int| #[trigger] uinv(t0, p0, act, x0) && m1(act, t0.nr_gens as int) implies uinv(t1, p1, act, x0) by {
        let phi = choose|phi: spec_fn(int) -> int| #[trigger] uadm(t0, p0, act, x0, phi);
        assert(uadm(t1, p1, act, x0, phi));
    }
}
proof fn lemma_ukeep_trans(t0: &CosetTable, p0: Seq<(int, int)>, t1: &CosetTable, p1: Seq<(int, int)>, t2: &CosetTable, p2: Seq<(int, int)>)
    requires ukeep(t0, p0, t1, p1), ukeep(t1, p1, t2, p2), t1.nr_gens == t0.nr_gens
    ensures ukeep(t0, p0, t2, p2)
{
    assert forall|act: spec_fn(int, int) -> int, x0: int| #[trigger] uinv(t0, p0, act, x0) && m1(act, t0.nr_gens as int) implies uinv(t2, p2, act, x0) by {
        assert(uinv(t1, p1, act, x0));
    }
}

// phi survives a change of the pending pairs that it respects
proof fn lemma_u_pend(t: &CosetTable, p1: Seq<(int, int)>, p2: Seq<(int, int)>, act: spec_fn(int, int) -> int, x0: int, phi: spec_fn(int) -> int)
    requires uadm(t, p1, act, x0, phi), forall|k: int| 0 <= k < p2.len() ==> phi((#[trigger] p2[k]).0) == phi(p2[k].1)
    ensures uadm(t, p2, act, x0, phi)
{}

// phi identifies the g-images of two rows it identifies
proof fn lemma_u_images(t: &CosetTable, pend: Seq<(int, int)>, act: spec_fn(int, int) -> int, x0: int, phi: spec_fn(int) -> int, a: int, b: int, g: int)
    requires uadm(t, pend, act, x0, phi), 0 <= a < t.table@.len(), 0 <= b < t.table@.len(), t.gen_ok(g), t.raw(a, g) >= 0, t.raw(b, g) >= 0, phi(a) == phi(b)
    ensures phi(t.part.rep(t.raw(a, g))) == phi(t.part.rep(t.raw(b, g)))
{
    assert(phi(t.part.rep(t.raw(a, g))) == phi(t.raw(a, g)));
    assert(phi(t.part.rep(t.raw(b, g))) == phi(t.raw(b, g)));
}

proof fn lemma_u_set(t0: &CosetTable, t1: &CosetTable, pend: Seq<(int, int)>, act: spec_fn(int, int) -> int, x0: int, phi: spec_fn(int) -> int, a: int, b: int, g: int, ag: int)
    requires uadm(t0, pend, act, x0, phi), same_rows(t0, t1), t1.part == t0.part,
        0 <= a < t0.table@.len(), 0 <= b < t0.table@.len(), t0.gen_ok(g), t0.raw(a, g) >= 0, ag == t0.part.rep(t0.raw(a, g)), phi(a) == phi(b),
        t1.raw(b, g) == ag,
        forall|c2: int, g2: int| 0 <= c2 < t0.table@.len() && t0.col_ok(g2) && !(c2 == b && g2 == g) ==> #[trigger] t1.raw(c2, g2) == t0.raw(c2, g2),
    ensures uadm(t1, pend, act, x0, phi)
{
    assert(resp(t1, pend, phi));
    assert forall|c: int, h: int| 0 <= c < t1.table@.len() && t1.gen_ok(h) && t1.raw(c, h) >= 0 implies phi(#[trigger] t1.raw(c, h)) == act(phi(c), h) by {
        if c == b && h == g {
            assert(phi(t0.part.rep(t0.raw(a, g))) == phi(t0.raw(a, g)));
            assert(phi(t0.raw(a, g)) == act(phi(a), g));
        } else {
            assert(t1.raw(c, h) == t0.raw(c, h));
        }
    }
}

proof fn lemma_u_unite(t0: &CosetTable, t1: &CosetTable, q: Seq<(int, int)>, a: int, b: int, act: spec_fn(int, int) -> int, x0: int, phi: spec_fn(int) -> int)
    requires rows_ok(t0), same_rows(t0, t1), uadm(t0, q.push((a, b)), act, x0, phi), t0.part.rep(a) == a, t0.part.rep(b) == b,
        united(|z: int| t0.part.rep(z), |z: int| t1.part.rep(z), a, b),
        forall|c2: int, g2: int| 0 <= c2 < t0.table@.len() && t0.col_ok(g2) ==> #[trigger] t1.raw(c2, g2) == t0.raw(c2, g2),
    ensures uadm(t1, q, act, x0, phi)
{
    let p = q.push((a, b));
    let ra = |z: int| t0.part.rep(z);
    let rb = |z: int| t1.part.rep(z);
    assert(p[q.len() as int] == (a, b));
    assert(phi(p[q.len() as int].0) == phi(p[q.len() as int].1));
    assert(phi(a) == phi(b));
    assert(rb(a) == rb(b) && (rb(a) == a || rb(a) == b));
    assert forall|u: int| #[trigger] phi(t1.part.rep(u)) == phi(u) by {
        assert(rb(u) == (if ra(u) == ra(a) || ra(u) == ra(b) { rb(a) } else { ra(u) }));
        assert(phi(t0.part.rep(u)) == phi(u));
    }
    assert forall|k: int| 0 <= k < q.len() implies phi((#[trigger] q[k]).0) == phi(q[k].1) by { assert(p[k] == q[k]); assert(phi(p[k].0) == phi(p[k].1)); }
    assert forall|c: int, h: int| 0 <= c < t1.table@.len() && t1.gen_ok(h) && t1.raw(c, h) >= 0 implies phi(#[trigger] t1.raw(c, h)) == act(phi(c), h) by {
        assert(t1.raw(c, h) == t0.raw(c, h));
    }
}

// what scan_both_ways reports, read in a model: with no gap the two ends are the same point, with a gap of one letter they are linked by it
proof fn lemma_scan_link(t: &CosetTable, act: spec_fn(int, int) -> int, x0: int, phi: spec_fn(int) -> int, w: Seq<isize>, start: int, res: (usize, usize, usize, isize))
    requires rows_ok(t), uadm(t, Seq::<(int, int)>::empty(), act, x0, phi), m1(act, t.nr_gens as int), 0 <= start < t.table@.len(),
        cols_ok(t, w), reduced(w), act_word(act, phi(start), w) == phi(start),
        exists|i: int, j: int| #![trigger w.take(i), inv_word(w).take(j)] 0 <= i && 0 <= j && i + j + res.2 == w.len()
            && trace(t, start, w.take(i)) == Some(res.0) && trace(t, start, inv_word(w).take(j)) == Some(res.1) && (res.2 >= 1 ==> res.3 == w[i]),
    ensures res.2 == 0 ==> phi(res.0 as int) == phi(res.1 as int), res.2 == 1 ==> act(phi(res.0 as int), res.3 as int) == phi(res.1 as int)
{
    let (i, j) = choose|i: int, j: int| #![trigger w.take(i), inv_word(w).take(j)] 0 <= i && 0 <= j && i + j + res.2 == w.len()
            && trace(t, start, w.take(i)) == Some(res.0) && trace(t, start, inv_word(w).take(j)) == Some(res.1) && (res.2 >= 1 ==> res.3 == w[i]);
    lemma_gens_ok(t, w);
    assert forall|k: int| 0 <= k < w.len() implies #[trigger] w[k] > isize::MIN by { }
    lemma_scan_phi(t, act, x0, phi, w, start, res.0, res.1, i, j);
    let m = w.subrange(i, w.len() - j);
    if res.2 == 0 { assert(m.len() == 0); }
    if res.2 == 1 {
        assert(m.len() == 1 && m.last() == w[i]);
        assert(m.drop_last() =~= Seq::<isize>::empty());
        assert(act_word(act, phi(res.0 as int), m.drop_last()) == phi(res.0 as int));
    }
}

// U survives join(c, d, g) of two existing rows which the model links by g
proof fn lemma_u_join(t0: &CosetTable, t1: &CosetTable, c: int, d: int, g: int, act: spec_fn(int, int) -> int, x0: int, phi: spec_fn(int) -> int)
    requires uadm(t0, Seq::<(int, int)>::empty(), act, x0, phi), m1(act, t0.nr_gens as int), same_rows(t0, t1), t1.part == t0.part,
        0 <= c < t0.table@.len(), 0 <= d < t0.table@.len(), t0.gen_ok(g), act(phi(c), g) == phi(d),
        t1.raw(c, g) == d, t1.raw(d, -g) == c,
        forall|c2: int, g2: int| 0 <= c2 < t1.table@.len() && t0.col_ok(g2) && !(c2 == c && g2 == g) && !(c2 == d && g2 == -g) ==> #[trigger] t1.raw(c2, g2) == t0.raw(c2, g2),
    ensures uadm(t1, Seq::<(int, int)>::empty(), act, x0, phi)
{
    assert(resp(t1, Seq::<(int, int)>::empty(), phi));
    assert forall|x: int, h: int| 0 <= x < t1.table@.len() && t1.gen_ok(h) && t1.raw(x, h) >= 0 implies phi(#[trigger] t1.raw(x, h)) == act(phi(x), h) by {
        if x == c && h == g { }
        else if x == d && h == -g { assert(act(act(phi(c), g), -g) == phi(c)); }
        else { assert(t1.raw(x, h) == t0.raw(x, h)); }
    }
}

// U survives the definition of a new row n = i.g: phi is extended by phi(n) = phi(i).g
proof fn lemma_u_join_new(t0: &CosetTable, t1: &CosetTable, i: int, n: int, g: int, act: spec_fn(int, int) -> int, x0: int, phi: spec_fn(int) -> int)
    requires rows_ok(t0), uadm(t0, Seq::<(int, int)>::empty(), act, x0, phi), m1(act, t0.nr_gens as int), t1.nr_gens == t0.nr_gens, t1.part == t0.part,
        n == t0.table@.len(), t1.table@.len() == n + 1, 0 <= i < n, t0.gen_ok(g),
        t1.raw(i, g) == n, t1.raw(n, -g) == i,
        forall|c2: int, g2: int| 0 <= c2 < t1.table@.len() && t0.col_ok(g2) && !(c2 == i && g2 == g) && !(c2 == n && g2 == -g)
            ==> #[trigger] t1.raw(c2, g2) == (if c2 < t0.table@.len() { t0.raw(c2, g2) } else { -1 }),
    ensures uinv(t1, Seq::<(int, int)>::empty(), act, x0)
{
    let e = Seq::<(int, int)>::empty();
    let phi1 = |x: int| if x == n { act(phi(i), g) } else { phi(x) };
    assert(uadm(t1, e, act, x0, phi1)) by {
        assert forall|u: int| #[trigger] phi1(t1.part.rep(u)) == phi1(u) by {
            if u == n { assert(t0.part.rep(n) == n); }
            else {
                assert(phi(t0.part.rep(u)) == phi(u));
                if t0.part.rep(u) == n { assert(t0.part.rep(t0.part.rep(u)) == t0.part.rep(u)); if 0 <= u < n { assert(0 <= t0.part.rep(u) < n); } else { assert(t0.part.rep(u) == u); } }
            }
        }
        assert forall|x: int, h: int| 0 <= x < t1.table@.len() && t1.gen_ok(h) && t1.raw(x, h) >= 0 implies phi1(#[trigger] t1.raw(x, h)) == act(phi1(x), h) by {
            if x == i && h == g { }
            else if x == n && h == -g { assert(act(act(phi(i), g), -g) == phi(i)); }
            else {
                assert(t1.raw(x, h) == (if x < n { t0.raw(x, h) } else { -1 }));
                assert(x < n);
                assert(-1 <= t0.raw(x, h) < n);
            }
        }
    }
}

// =====================================================================================================
// C11: "the action is transitive".  T: every row is connected to row 0, where x and y are connected iff EVERY function that is
// constant on the classes, on the pending pairs and along every entry of a live row agrees on them.
// =====================================================================================================
pub open spec fn tadm(t: &CosetTable, pend: Seq<(int, int)>, f: spec_fn(int) -> int) -> bool {
    &&& resp(t, pend, f)
    &&& forall|k: int, g: int| canonical(t, k) && t.gen_ok(g) && t.raw(k, g) >= 0 ==> f(#[trigger] t.raw(k, g)) == f(k)
}
pub open spec fn tconn(t: &CosetTable, pend: Seq<(int, int)>, x: int, y: int) -> bool {
    forall|f: spec_fn(int) -> int| #[trigger] tadm(t, pend, f) ==> f(x) == f(y)
}
pub open spec fn tinv(t: &CosetTable, pend: Seq<(int, int)>) -> bool {
    forall|c: int| 0 <= c < t.table@.len() ==> #[trigger] tconn(t, pend, c, 0)
}
// C11: every row is reached from row 0 by a word in the generators
pub open spec fn transitive(t: &CosetTable) -> bool {
    forall|r: int| #[trigger] is_row(t, r) ==> exists|w: Seq<isize>| gens_ok(t, w) && #[trigger] trace(t, 0, w) == Some(r as usize)
}

// T survives any change under which every admissible function stays admissible (all steps of the enumeration only add constraints)
proof fn lemma_tinv_step(t0: &CosetTable, p0: Seq<(int, int)>, t1: &CosetTable, p1: Seq<(int, int)>)
    requires tinv(t0, p0), t1.table@.len() == t0.table@.len(), forall|f: spec_fn(int) -> int| #[trigger] tadm(t1, p1, f) ==> tadm(t0, p0, f)
    ensures tinv(t1, p1)
{
    assert forall|c: int| 0 <= c < t1.table@.len() implies #[trigger] tconn(t1, p1, c, 0) by {
        assert(tconn(t0, p0, c, 0));
        assert forall|f: spec_fn(int) -> int| #[trigger] tadm(t1, p1, f) implies f(c) == f(0) by { assert(tadm(t0, p0, f)); }
    }
}

// a table entry written into a live row that had none there: every function admissible afterwards was admissible before
proof fn lemma_tadm_set(t0: &CosetTable, t1: &CosetTable, pend: Seq<(int, int)>, b: int, g: int, f: spec_fn(int) -> int)
    requires tadm(t1, pend, f), same_rows(t0, t1), t1.part == t0.part, 0 <= b < t0.table@.len(), t0.gen_ok(g), t0.raw(b, g) < 0,
        forall|c2: int, g2: int| 0 <= c2 < t0.table@.len() && t0.col_ok(g2) && !(c2 == b && g2 == g) ==> #[trigger] t1.raw(c2, g2) == t0.raw(c2, g2),
    ensures tadm(t0, pend, f)
{
    assert forall|k: int, h: int| canonical(t0, k) && t0.gen_ok(h) && t0.raw(k, h) >= 0 implies f(#[trigger] t0.raw(k, h)) == f(k) by {
        assert(canonical(t1, k));
        assert(t1.raw(k, h) == t0.raw(k, h));
    }
}

// the union: a function admissible afterwards was admissible before, with the pair (a, b) pending (the columns of a and b are synced)
proof fn lemma_tadm_unite(t0: &CosetTable, t1: &CosetTable, q: Seq<(int, int)>, a: int, b: int, f: spec_fn(int) -> int)
    requires rows_ok(t0), rows_ok(t1), same_rows(t0, t1), tadm(t1, q, f),
        0 <= a < t0.table@.len(), 0 <= b < t0.table@.len(), t0.part.rep(a) == a, t0.part.rep(b) == b,
        forall|g: int| t0.gen_ok(g) ==> #[trigger] synced(t0, q.push((a, b)), a, b, g),
        united(|z: int| t0.part.rep(z), |z: int| t1.part.rep(z), a, b),
        forall|c2: int, g2: int| 0 <= c2 < t0.table@.len() && t0.col_ok(g2) ==> #[trigger] t1.raw(c2, g2) == t0.raw(c2, g2),
    ensures tadm(t0, q.push((a, b)), f)
{
    let p = q.push((a, b));
    let ra = |z: int| t0.part.rep(z);
    let rb = |z: int| t1.part.rep(z);
    assert(rb(a) == rb(b) && (rb(a) == a || rb(a) == b));
    assert(resp(t0, p, f)) by {
        assert forall|u: int| #[trigger] f(t0.part.rep(u)) == f(u) by {
            let v = t0.part.rep(u);
            assert(rb(u) == (if ra(u) == ra(a) || ra(u) == ra(b) { rb(a) } else { ra(u) }));
            assert(rb(v) == (if ra(v) == ra(a) || ra(v) == ra(b) { rb(a) } else { ra(v) }));
            assert(t0.part.rep(t0.part.rep(u)) == t0.part.rep(u));
            assert(f(t1.part.rep(u)) == f(u)); assert(f(t1.part.rep(v)) == f(v));
        }
        assert(f(t1.part.rep(a)) == f(a)); assert(f(t1.part.rep(b)) == f(b));
        assert forall|k: int| 0 <= k < p.len() implies f((#[trigger] p[k]).0) == f(p[k].1) by { if k < q.len() { assert(p[k] == q[k]); } }
    }
    assert forall|k: int, h: int| canonical(t0, k) && t0.gen_ok(h) && t0.raw(k, h) >= 0 implies f(#[trigger] t0.raw(k, h)) == f(k) by {
        assert(rb(k) == (if ra(k) == ra(a) || ra(k) == ra(b) { rb(a) } else { ra(k) }));
        assert(t1.raw(k, h) == t0.raw(k, h));
        if t1.part.rep(k) == k {
            assert(canonical(t1, k));
        } else {
            // k is the row that dies: its entry is synced with the survivor's
            assert(k == a || k == b);
            let o = if k == a { b } else { a };
            assert(t1.part.rep(o) == o);
            assert(canonical(t1, o));
            assert(synced(t0, p, a, b, h));
            assert(t0.raw(a, h) >= 0 && t0.raw(b, h) >= 0 && eqv(t0, p, t0.raw(a, h), t0.raw(b, h)));
            assert(f(t0.raw(a, h)) == f(t0.raw(b, h)));
            assert(t1.raw(o, h) == t0.raw(o, h));
            assert(f(t1.raw(o, h)) == f(o));
            assert(f(a) == f(b));
        }
    }
}

// T survives join(c, d, g) (d possibly the new row): the new row is connected to c by the new entry
proof fn lemma_tinv_join(t0: &CosetTable, t1: &CosetTable, c: int, d: int, g: int)
    requires rows_ok(t0), rows_ok(t1), tinv(t0, Seq::<(int, int)>::empty()), t1.part == t0.part, t1.nr_gens == t0.nr_gens,
        t1.table@.len() >= t0.table@.len(), t1.table@.len() <= t0.table@.len() + 1, 0 <= c < t0.table@.len(), 0 <= d < t1.table@.len(), t0.gen_ok(g),
        t0.part.rep(c) == c, t0.raw(c, g) < 0, d < t0.table@.len() ==> t0.raw(d, -g) < 0,
        t1.table@.len() > t0.table@.len() ==> d == t0.table@.len(),
        t1.raw(c, g) == d,
        forall|c2: int, g2: int| 0 <= c2 < t1.table@.len() && t0.col_ok(g2) && !(c2 == c && g2 == g) && !(c2 == d && g2 == -g)
            ==> #[trigger] t1.raw(c2, g2) == (if c2 < t0.table@.len() { t0.raw(c2, g2) } else { -1 }),
    ensures tinv(t1, Seq::<(int, int)>::empty())
{
    let e = Seq::<(int, int)>::empty();
    assert forall|f: spec_fn(int) -> int| #[trigger] tadm(t1, e, f) implies tadm(t0, e, f) by {
        assert forall|k: int, h: int| canonical(t0, k) && t0.gen_ok(h) && t0.raw(k, h) >= 0 implies f(#[trigger] t0.raw(k, h)) == f(k) by {
            assert(canonical(t1, k));
            assert(!(k == c && h == g));
            assert(!(k == d && h == -g));
            assert(t1.raw(k, h) == t0.raw(k, h));
        }
    }
    assert forall|x: int| 0 <= x < t1.table@.len() implies #[trigger] tconn(t1, e, x, 0) by {
        assert(tconn(t0, e, c, 0));
        assert forall|f: spec_fn(int) -> int| #[trigger] tadm(t1, e, f) implies f(x) == f(0) by {
            assert(tadm(t0, e, f));
            if x < t0.table@.len() { assert(tconn(t0, e, x, 0)); }
            else {
                assert(x == d);
                assert(canonical(t1, c));
                assert(f(t1.raw(c, g)) == f(c));
            }
        }
    }
}

// with nothing pending, connected to row 0 means reached from (the representative of) row 0 by a word
pub open spec fn reachable(t: &CosetTable, x: int) -> bool {
    exists|w: Seq<isize>| gens_ok(t, w) && #[trigger] trace(t, t.part.rep(0), w) == Some(t.part.rep(x) as usize)
}
pub open spec fn reach_all(t: &CosetTable) -> bool { forall|c: int| 0 <= c < t.table@.len() ==> #[trigger] reachable(t, c) }

proof fn lemma_tinv_reach(t: &CosetTable)
    requires rows_ok(t), all_complete(t), inv_consistent(t), tinv(t, Seq::<(int, int)>::empty())
    ensures reach_all(t)
{
    let e = Seq::<(int, int)>::empty();
    let f = |x: int| if reachable(t, x) { 1int } else { 0int };
    assert(tadm(t, e, f)) by {
        assert forall|u: int| #[trigger] f(t.part.rep(u)) == f(u) by {
            assert(t.part.rep(t.part.rep(u)) == t.part.rep(u));
        }
        assert forall|k: int, g: int| canonical(t, k) && t.gen_ok(g) && t.raw(k, g) >= 0 implies f(#[trigger] t.raw(k, g)) == f(k) by {
            let y = t.raw(k, g);
            lemma_act_in_range(t, k, g);
            let ry = t.act(k, g).unwrap() as int;
            assert(ry == t.part.rep(y));
            if reachable(t, k) {
                let w = choose|w: Seq<isize>| gens_ok(t, w) && #[trigger] trace(t, t.part.rep(0), w) == Some(t.part.rep(k) as usize);
                let w2 = w.push(g as isize);
                assert(w2.drop_last() =~= w);
                assert(gens_ok(t, w2)) by { assert forall|j: int| 0 <= j < w2.len() implies t.gen_ok(#[trigger] w2[j] as int) by { if j < w.len() { assert(w2[j] == w[j]); } } }
                assert(trace(t, t.part.rep(0), w2) == Some(ry as usize));
                assert(reachable(t, y));
            }
            if reachable(t, y) {
                let w = choose|w: Seq<isize>| gens_ok(t, w) && #[trigger] trace(t, t.part.rep(0), w) == Some(t.part.rep(y) as usize);
                let w2 = w.push((-g) as isize);
                assert(w2.drop_last() =~= w);
                assert(t.gen_ok(-g));
                assert(gens_ok(t, w2)) by { assert forall|j: int| 0 <= j < w2.len() implies t.gen_ok(#[trigger] w2[j] as int) by { if j < w.len() { assert(w2[j] == w[j]); } } }
                assert(t.act(ry, -g) == Some(k as usize));
                assert(trace(t, t.part.rep(0), w2) == Some(k as usize));
                assert(reachable(t, k));
            }
        }
    }
    assert(reachable(t, 0)) by {
        let w0 = Seq::<isize>::empty();
        assert(gens_ok(t, w0));
        assert(0 <= t.part.rep(0) < t.table@.len());
        assert(trace(t, t.part.rep(0), w0) == Some(t.part.rep(0) as usize));
    }
    assert forall|c: int| 0 <= c < t.table@.len() implies #[trigger] reachable(t, c) by {
        assert(tconn(t, e, c, 0));
        assert(f(c) == f(0));
    }
}

impl CosetTable {
    //@ begin src/fpgroups/cosets.rs :: impl CosetTable :: fn merge
    //@ rw R17 /for g in self\.all_gens\(\)$/for g in it: self.all_gens()/
    #[verifier::spinoff_prover]
    #[verifier::exec_allows_no_decreases_clause]
    fn merge(&mut self, a: usize, b: usize)
        requires rows_ok(old(self)), a < old(self).table@.len(), b < old(self).table@.len()
        ensures rows_ok(final(self)), final(self).nr_gens == old(self).nr_gens, final(self).table@.len() == old(self).table@.len(),
            grows(old(self), final(self)),
            // the inverse-generator bookkeeping survives the processing of all coincidences
            kinv(old(self), Seq::<(int, int)>::empty()) ==> kinv(final(self), Seq::<(int, int)>::empty()),
            // ... and so does the connection of every row with row 0
            kinv(old(self), Seq::<(int, int)>::empty()) && tinv(old(self), Seq::<(int, int)>::empty()) ==> tinv(final(self), Seq::<(int, int)>::empty()),
            // every model that maps from the table with a and b identified maps from the result
            ukeep(old(self), seq![(a as int, b as int)], final(self), Seq::<(int, int)>::empty()),
    {
        let mut queue: VecDeque<(usize, usize)> = VecDeque::from([(a, b)]);
        let ghost mut qg: Seq<(usize, usize)> = queue@;
        let ghost k0 = kinv(old(self), Seq::<(int, int)>::empty());
        let ghost z0 = k0 && tinv(old(self), Seq::<(int, int)>::empty());
        let ghost pz = seq![(a as int, b as int)];
        proof {
            assert(qpairs(queue@) =~= pz);
            lemma_ukeep_step(self, pz, self, qpairs(queue@));
            if k0 { lemma_kinv_pend(self, Seq::<(int, int)>::empty(), qpairs(queue@)); }
            if z0 { lemma_tinv_step(self, Seq::<(int, int)>::empty(), self, qpairs(queue@)); }
        }

        while let Some((a, b)) = queue.pop_front()
            invariant
                qg == queue@,
                rows_ok(self), self.nr_gens == old(self).nr_gens, self.table@.len() == old(self).table@.len(),
                grows(old(self), self),
                forall|k: int| 0 <= k < queue@.len() ==> (#[trigger] queue@[k]).0 < self.table@.len() && queue@[k].1 < self.table@.len(),
                k0 ==> kinv(self, qpairs(queue@)),
                k0 && queue@.len() == 0 ==> kinv(self, Seq::<(int, int)>::empty()),
                z0 ==> k0,
                z0 ==> tinv(self, qpairs(queue@)),
                z0 && queue@.len() == 0 ==> tinv(self, Seq::<(int, int)>::empty()),
                ukeep(old(self), pz, self, qpairs(queue@)),
                queue@.len() == 0 ==> ukeep(old(self), pz, self, Seq::<(int, int)>::empty()),
            ensures
                rows_ok(self), self.nr_gens == old(self).nr_gens, self.table@.len() == old(self).table@.len(), grows(old(self), self),
                k0 ==> kinv(self, Seq::<(int, int)>::empty()),
                z0 ==> tinv(self, Seq::<(int, int)>::empty()),
                ukeep(old(self), pz, self, Seq::<(int, int)>::empty()),
        {
            let ghost a1 = a as int; let ghost b1 = b as int;
            proof {
                assert(qg[0] == (a, b));
                assert forall|k: int| 0 <= k < queue@.len() implies (#[trigger] queue@[k]).0 < self.table@.len() && queue@[k].1 < self.table@.len() by { assert(queue@[k] == qg[k + 1]); }
            }
            let a = self.canon(a);
            let b = self.canon(b);
            let ghost qq = qpairs(queue@);
            let ghost pp = qq.push((a as int, b as int));
            proof {
                assert(0 <= self.part.rep(a1) < self.table@.len() && 0 <= self.part.rep(b1) < self.table@.len());
                if k0 {
                    // the popped pair, with its members replaced by their representatives, stays pending while a and b are processed
                    assert forall|f: spec_fn(int) -> int| #[trigger] resp(self, pp, f) implies resp(self, qpairs(qg), f) by {
                        assert forall|k: int| 0 <= k < qpairs(qg).len() implies f((#[trigger] qpairs(qg)[k]).0) == f(qpairs(qg)[k].1) by {
                            if k == 0 {
                                assert(pp[qq.len() as int] == (a as int, b as int));
                                assert(f(pp[qq.len() as int].0) == f(pp[qq.len() as int].1));
                                assert(f(self.part.rep(a1)) == f(a1)); assert(f(self.part.rep(b1)) == f(b1));
                            } else {
                                assert(qg[k] == queue@[k - 1]);
                                assert(pp[k - 1] == qq[k - 1]);
                                assert(f(pp[k - 1].0) == f(pp[k - 1].1));
                            }
                        }
                    }
                    lemma_kinv_pend(self, qpairs(qg), pp);
                    if z0 {
                        assert forall|f: spec_fn(int) -> int| #[trigger] tadm(self, pp, f) implies tadm(self, qpairs(qg), f) by { assert(resp(self, pp, f)); }
                        lemma_tinv_step(self, qpairs(qg), self, pp);
                    }
                }
            }

            proof {
                // universality: the same phi serves
                assert forall|act: spec_fn(int, int) -> int, x0: int, phi: spec_fn(int) -> int| #[trigger] uadm(self, qpairs(qg), act, x0, phi) && m1(act, self.nr_gens as int)
                    implies uadm(self, pp, act, x0, phi) by {
                    assert(qpairs(qg)[0] == (a1, b1));
                    assert(phi(qpairs(qg)[0].0) == phi(qpairs(qg)[0].1));
                    assert(phi(self.part.rep(a1)) == phi(a1) && phi(self.part.rep(b1)) == phi(b1));
                    assert forall|k: int| 0 <= k < pp.len() implies phi((#[trigger] pp[k]).0) == phi(pp[k].1) by {
                        if k < qq.len() { assert(qg[k + 1] == queue@[k]); assert(pp[k] == qpairs(qg)[k + 1]); assert(phi(qpairs(qg)[k + 1].0) == phi(qpairs(qg)[k + 1].1)); }
                    }
                    lemma_u_pend(self, qpairs(qg), pp, act, x0, phi);
                }
                lemma_ukeep_step(self, qpairs(qg), self, pp);
                lemma_ukeep_trans(old(self), pz, self, qpairs(qg), self, pp);
                if a == b {
                    assert forall|act: spec_fn(int, int) -> int, x0: int, phi: spec_fn(int) -> int| #[trigger] uadm(self, pp, act, x0, phi) && m1(act, self.nr_gens as int)
                        implies uadm(self, qq, act, x0, phi) by {
                        assert forall|k: int| 0 <= k < qq.len() implies phi((#[trigger] qq[k]).0) == phi(qq[k].1) by { assert(pp[k] == qq[k]); assert(phi(pp[k].0) == phi(pp[k].1)); }
                        lemma_u_pend(self, pp, qq, act, x0, phi);
                    }
                    lemma_ukeep_step(self, pp, self, qq);
                    lemma_ukeep_trans(old(self), pz, self, pp, self, qq);
                }
            }
            proof {
                if k0 && a == b {
                    // the pair is trivial: dropping it changes nothing
                    assert forall|f: spec_fn(int) -> int| #[trigger] resp(self, qq, f) implies resp(self, pp, f) by {
                        assert forall|k: int| 0 <= k < pp.len() implies f((#[trigger] pp[k]).0) == f(pp[k].1) by { if k < qq.len() { assert(pp[k] == qq[k]); } }
                    }
                    lemma_kinv_pend(self, pp, qq);
                    if z0 {
                        assert forall|f: spec_fn(int) -> int| #[trigger] tadm(self, qq, f) implies tadm(self, pp, f) by { assert(resp(self, qq, f)); }
                        lemma_tinv_step(self, pp, self, qq);
                    }
                }
            }
            if a != b {
                for g in it: self.all_gens()
                    invariant
                        rows_ok(self), self.nr_gens == old(self).nr_gens, self.table@.len() == old(self).table@.len(),
                        grows(old(self), self),
                        a < self.table@.len(), b < self.table@.len(), a != b, self.part.rep(a as int) == a, self.part.rep(b as int) == b,
                        forall|k: int| 0 <= k < queue@.len() ==> (#[trigger] queue@[k]).0 < self.table@.len() && queue@[k].1 < self.table@.len(),
                        it.seq().len() == 2 * self.nr_gens,
                        forall|k: int| 0 <= k < it.seq().len() ==> self.gen_ok(#[trigger] it.seq()[k] as int) && gen_index(self, it.seq()[k] as int) == k,
                        k0 ==> kinv(self, qpairs(queue@).push((a as int, b as int))),
                        z0 ==> k0,
                        z0 ==> tinv(self, qpairs(queue@).push((a as int, b as int))),
                        ukeep(old(self), pz, self, qpairs(queue@).push((a as int, b as int))),
                        k0 ==> forall|h: int| self.gen_ok(h) && gen_index(self, h) < it.index() ==> #[trigger] synced(self, qpairs(queue@).push((a as int, b as int)), a as int, b as int, h),
                {
                    let ghost idx = it.index() as int;
                    proof { assert(self.gen_ok(it.seq()[idx] as int) && gen_index(self, it.seq()[idx] as int) == idx); }
                    let ghost q0 = queue@;
                    let ghost p0 = qpairs(q0).push((a as int, b as int));
                    let ghost s0 = *self;
                    if let Some(ag) = self.get(a, g) {
                        proof { lemma_act_in_range(self, a as int, g as int); }
                        if let Some(bg) = self.get(b, g) {
                            proof { lemma_act_in_range(self, b as int, g as int); }
                            queue.push_back((ag, bg));
                            proof {
                                assert forall|k: int| 0 <= k < queue@.len() implies (#[trigger] queue@[k]).0 < self.table@.len() && queue@[k].1 < self.table@.len() by { if k < q0.len() { assert(queue@[k] == q0[k]); } }
                                {
                                    let p1u = qpairs(queue@).push((a as int, b as int));
                                    assert forall|act: spec_fn(int, int) -> int, x0: int, phi: spec_fn(int) -> int| #[trigger] uadm(self, p0, act, x0, phi) && m1(act, self.nr_gens as int)
                                        implies uadm(self, p1u, act, x0, phi) by {
                                        assert(p0[q0.len() as int] == (a as int, b as int));
                                        assert(phi(p0[q0.len() as int].0) == phi(p0[q0.len() as int].1));
                                        lemma_u_images(self, p0, act, x0, phi, a as int, b as int, g as int);
                                        assert forall|k: int| 0 <= k < p1u.len() implies phi((#[trigger] p1u[k]).0) == phi(p1u[k].1) by {
                                            if k < q0.len() { assert(p1u[k] == p0[k]); assert(phi(p0[k].0) == phi(p0[k].1)); }
                                            else if k == q0.len() { assert(p1u[k] == (ag as int, bg as int)); }
                                            else { assert(p1u[k] == (a as int, b as int)); }
                                        }
                                        lemma_u_pend(self, p0, p1u, act, x0, phi);
                                    }
                                    lemma_ukeep_step(self, p0, self, p1u);
                                    lemma_ukeep_trans(old(self), pz, self, p0, self, p1u);
                                }
                                if k0 {
                                    let p1 = qpairs(queue@).push((a as int, b as int));
                                    // one more pending pair: every function admissible now was admissible before
                                    assert forall|f: spec_fn(int) -> int| #[trigger] resp(self, p1, f) implies resp(self, p0, f) by {
                                        assert forall|k: int| 0 <= k < p0.len() implies f((#[trigger] p0[k]).0) == f(p0[k].1) by {
                                            if k < q0.len() { assert(p1[k] == p0[k]); assert(f(p1[k].0) == f(p1[k].1)); }
                                            else { assert(p1[q0.len() as int + 1] == p0[k]); assert(f(p1[q0.len() as int + 1].0) == f(p1[q0.len() as int + 1].1)); }
                                        }
                                    }
                                    lemma_kinv_pend(self, p0, p1);
                                    if z0 {
                                        assert forall|f: spec_fn(int) -> int| #[trigger] tadm(self, p1, f) implies tadm(self, p0, f) by { assert(resp(self, p1, f)); }
                                        lemma_tinv_step(self, p0, self, p1);
                                    }
                                    assert forall|h: int| self.gen_ok(h) && gen_index(self, h) < idx + 1 implies #[trigger] synced(self, p1, a as int, b as int, h) by {
                                        if gen_index(self, h) < idx {
                                            assert(synced(self, p0, a as int, b as int, h));
                                            if self.raw(a as int, h) >= 0 || self.raw(b as int, h) >= 0 {
                                                lemma_eqv_pend(self, p0, p1, self.raw(a as int, h), self.raw(b as int, h));
                                            }
                                        } else {
                                            assert(h == g);
                                            // the new pair itself links the two entries
                                            assert forall|f: spec_fn(int) -> int| #[trigger] resp(self, p1, f) implies f(self.raw(a as int, g as int)) == f(self.raw(b as int, g as int)) by {
                                                assert(p1[q0.len() as int] == (ag as int, bg as int));
                                                assert(f(p1[q0.len() as int].0) == f(p1[q0.len() as int].1));
                                                assert(f(self.part.rep(self.raw(a as int, g as int))) == f(self.raw(a as int, g as int)));
                                                assert(f(self.part.rep(self.raw(b as int, g as int))) == f(self.raw(b as int, g as int)));
                                            }
                                        }
                                    }
                                }
                            }
                        } else {
                            self.set(b, g, ag);
                            proof {
                                assert(grows(&s0, self)); lemma_grows_trans(old(self), &s0, self);
                                assert forall|act: spec_fn(int, int) -> int, x0: int, phi: spec_fn(int) -> int| #[trigger] uadm(&s0, p0, act, x0, phi) && m1(act, s0.nr_gens as int)
                                    implies uadm(self, p0, act, x0, phi) by {
                                    assert(p0[q0.len() as int] == (a as int, b as int));
                                    assert(phi(p0[q0.len() as int].0) == phi(p0[q0.len() as int].1));
                                    lemma_u_set(&s0, self, p0, act, x0, phi, a as int, b as int, g as int, ag as int);
                                }
                                lemma_ukeep_step(&s0, p0, self, p0);
                                lemma_ukeep_trans(old(self), pz, &s0, p0, self, p0);
                                if k0 {
                                    assert(eqv(&s0, p0, a as int, b as int)) by {
                                        assert forall|f: spec_fn(int) -> int| #[trigger] resp(&s0, p0, f) implies f(a as int) == f(b as int) by {
                                            assert(p0[q0.len() as int] == (a as int, b as int));
                                            assert(f(p0[q0.len() as int].0) == f(p0[q0.len() as int].1));
                                        }
                                    }
                                    lemma_kinv_set(&s0, self, p0, a as int, b as int, g as int, ag as int);
                                    if z0 {
                                        assert forall|f: spec_fn(int) -> int| #[trigger] tadm(self, p0, f) implies tadm(&s0, p0, f) by { lemma_tadm_set(&s0, self, p0, b as int, g as int, f); }
                                        lemma_tinv_step(&s0, p0, self, p0);
                                    }
                                    assert forall|h: int| self.gen_ok(h) && gen_index(self, h) < idx + 1 implies #[trigger] synced(self, p0, a as int, b as int, h) by {
                                        if gen_index(self, h) < idx {
                                            assert(h != g);
                                            assert(synced(&s0, p0, a as int, b as int, h));
                                            assert(self.raw(a as int, h) == s0.raw(a as int, h) && self.raw(b as int, h) == s0.raw(b as int, h));
                                        } else {
                                            assert(h == g);
                                            lemma_eqv_equiv(&s0, p0, s0.raw(a as int, g as int), s0.raw(a as int, g as int), s0.raw(a as int, g as int));
                                            lemma_eqv_equiv(&s0, p0, ag as int, s0.raw(a as int, g as int), s0.raw(a as int, g as int));
                                            assert(self.raw(a as int, g as int) == s0.raw(a as int, g as int));
                                        }
                                    }
                                }
                            }
                        }
                    } else if let Some(bg) = self.get(b, g) {
                        proof { lemma_act_in_range(self, b as int, g as int); }
                        self.set(a, g, bg);
                        proof {
                            assert(grows(&s0, self)); lemma_grows_trans(old(self), &s0, self);
                            assert forall|act: spec_fn(int, int) -> int, x0: int, phi: spec_fn(int) -> int| #[trigger] uadm(&s0, p0, act, x0, phi) && m1(act, s0.nr_gens as int)
                                implies uadm(self, p0, act, x0, phi) by {
                                assert(p0[q0.len() as int] == (a as int, b as int));
                                assert(phi(p0[q0.len() as int].0) == phi(p0[q0.len() as int].1));
                                lemma_u_set(&s0, self, p0, act, x0, phi, b as int, a as int, g as int, bg as int);
                            }
                            lemma_ukeep_step(&s0, p0, self, p0);
                            lemma_ukeep_trans(old(self), pz, &s0, p0, self, p0);
                            if k0 {
                                assert(eqv(&s0, p0, b as int, a as int)) by {
                                    assert forall|f: spec_fn(int) -> int| #[trigger] resp(&s0, p0, f) implies f(b as int) == f(a as int) by {
                                        assert(p0[q0.len() as int] == (a as int, b as int));
                                        assert(f(p0[q0.len() as int].0) == f(p0[q0.len() as int].1));
                                    }
                                }
                                lemma_kinv_set(&s0, self, p0, b as int, a as int, g as int, bg as int);
                                if z0 {
                                    assert forall|f: spec_fn(int) -> int| #[trigger] tadm(self, p0, f) implies tadm(&s0, p0, f) by { lemma_tadm_set(&s0, self, p0, a as int, g as int, f); }
                                    lemma_tinv_step(&s0, p0, self, p0);
                                }
                                assert forall|h: int| self.gen_ok(h) && gen_index(self, h) < idx + 1 implies #[trigger] synced(self, p0, a as int, b as int, h) by {
                                    if gen_index(self, h) < idx {
                                        assert(h != g);
                                        assert(synced(&s0, p0, a as int, b as int, h));
                                        assert(self.raw(a as int, h) == s0.raw(a as int, h) && self.raw(b as int, h) == s0.raw(b as int, h));
                                    } else {
                                        assert(h == g);
                                        lemma_eqv_equiv(&s0, p0, s0.raw(b as int, g as int), s0.raw(b as int, g as int), s0.raw(b as int, g as int));
                                        lemma_eqv_equiv(&s0, p0, bg as int, s0.raw(b as int, g as int), s0.raw(b as int, g as int));
                                        assert(self.raw(b as int, g as int) == s0.raw(b as int, g as int));
                                    }
                                }
                            }
                        }
                    }
                    proof {
                        if k0 && s0.raw(a as int, g as int) < 0 && s0.raw(b as int, g as int) < 0 {
                            // neither row has the entry: nothing to do for this generator
                            assert forall|h: int| self.gen_ok(h) && gen_index(self, h) < idx + 1 implies #[trigger] synced(self, p0, a as int, b as int, h) by {
                                if gen_index(self, h) >= idx { assert(h == g); }
                            }
                        }
                    }
                }
                let ghost r0 = self.part;
                let ghost t0 = *self;
                let ghost qq2 = qpairs(queue@);
                let ghost pp2 = qq2.push((a as int, b as int));
                self.part.unite(a, b);
                proof {
                    assert(self.table == t0.table && self.nr_gens == t0.nr_gens);
                    assert(self.wf());
                    assert forall|c: int, g: int| 0 <= c < self.table@.len() && self.col_ok(g) implies -1 <= #[trigger] self.raw(c, g) < self.table@.len() by {
                        assert(self.raw(c, g) == t0.raw(c, g));
                    }
                    let ra = |z: int| r0.rep(z);
                    let rb = |z: int| self.part.rep(z);
                    assert(united(ra, rb, a as int, b as int));
                    assert forall|x: int| 0 <= x < self.table@.len() implies 0 <= #[trigger] self.part.rep(x) < self.table@.len() by {
                        assert(rb(x) == (if ra(x) == ra(a as int) || ra(x) == ra(b as int) { rb(a as int) } else { ra(x) }));
                        assert(0 <= r0.rep(x) < self.table@.len());
                        assert(0 <= r0.rep(a as int) < self.table@.len());
                        assert(0 <= r0.rep(b as int) < self.table@.len());
                    }
                    assert forall|x: int| #[trigger] self.part.rep(self.part.rep(x)) == self.part.rep(x) by {
                        let y = rb(x);
                        assert(rb(x) == (if ra(x) == ra(a as int) || ra(x) == ra(b as int) { rb(a as int) } else { ra(x) }));
                        assert(rb(y) == (if ra(y) == ra(a as int) || ra(y) == ra(b as int) { rb(a as int) } else { ra(y) }));
                        assert(r0.rep(r0.rep(x)) == r0.rep(x));
                        assert(r0.rep(r0.rep(a as int)) == r0.rep(a as int));
                        assert(r0.rep(r0.rep(b as int)) == r0.rep(b as int));
                    }
                    assert forall|x: int| !(0 <= x < self.table@.len()) implies #[trigger] self.part.rep(x) == x by {
                        assert(rb(x) == (if ra(x) == ra(a as int) || ra(x) == ra(b as int) { rb(a as int) } else { ra(x) }));
                        assert(r0.rep(x) == x);
                        assert(0 <= r0.rep(a as int) < self.table@.len());
                        assert(0 <= r0.rep(b as int) < self.table@.len());
                    }
                    assert(rows_ok(self));
                    assert(grows(&t0, self)) by {
                        assert forall|x: int| #[trigger] self.part.rep(x) == x implies t0.part.rep(x) == x by {
                            assert(rb(x) == (if ra(x) == ra(a as int) || ra(x) == ra(b as int) { rb(a as int) } else { ra(x) }));
                            assert(r0.rep(r0.rep(a as int)) == r0.rep(a as int));
                            assert(r0.rep(r0.rep(b as int)) == r0.rep(b as int));
                        }
                    }
                    lemma_grows_trans(old(self), &t0, self);
                    assert forall|act: spec_fn(int, int) -> int, x0: int, phi: spec_fn(int) -> int| #[trigger] uadm(&t0, pp2, act, x0, phi) && m1(act, t0.nr_gens as int)
                        implies uadm(self, qq2, act, x0, phi) by {
                        lemma_u_unite(&t0, self, qq2, a as int, b as int, act, x0, phi);
                    }
                    lemma_ukeep_step(&t0, pp2, self, qq2);
                    lemma_ukeep_trans(old(self), pz, &t0, pp2, self, qq2);
                    if k0 {
                        assert forall|g: int| t0.gen_ok(g) implies #[trigger] synced(&t0, pp2, a as int, b as int, g) by {
                            let j = gen_index(&t0, g);
                            assert(0 <= j < 2 * t0.nr_gens);
                        }
                        lemma_kinv_unite(&t0, self, qq2, a as int, b as int);
                        if z0 {
                            assert forall|f: spec_fn(int) -> int| #[trigger] tadm(self, qq2, f) implies tadm(&t0, pp2, f) by { lemma_tadm_unite(&t0, self, qq2, a as int, b as int, f); }
                            lemma_tinv_step(&t0, pp2, self, qq2);
                        }
                    }
                }
            }
            proof {
                qg = queue@;
                if queue@.len() == 0 { assert(qpairs(queue@) =~= Seq::<(int, int)>::empty()); }
            }
        }
    }
    //@ end
}

proof fn lemma_trace_rows_ok(t: &CosetTable, row: int, w: Seq<isize>)
    requires rows_ok(t), 0 <= row < t.table@.len(), cols_ok(t, w), trace(t, row, w).is_some()
    ensures trace(t, row, w).unwrap() < t.table@.len()
    decreases w.len()
{
    if w.len() > 0 {
        let w0 = w.drop_last();
        assert forall|j: int| 0 <= j < w0.len() implies t.col_ok(#[trigger] w0[j] as int) by { assert(w0[j] == w[j]); }
        lemma_trace_rows_ok(t, row, w0);
        assert(t.col_ok(w[w.len() - 1] as int));
        lemma_act_in_range(t, trace(t, row, w0).unwrap() as int, w.last() as int);
    }
}

proof fn lemma_trace_live(t: &CosetTable, row: int, w: Seq<isize>)
    requires rows_ok(t), 0 <= row < t.table@.len(), t.part.rep(row) == row, cols_ok(t, w), trace(t, row, w).is_some()
    ensures t.part.rep(trace(t, row, w).unwrap() as int) == trace(t, row, w).unwrap()
    decreases w.len()
{
    if w.len() > 0 {
        let w0 = w.drop_last();
        assert forall|j: int| 0 <= j < w0.len() implies t.col_ok(#[trigger] w0[j] as int) by { assert(w0[j] == w[j]); }
        assert(t.col_ok(w[w.len() - 1] as int));
        lemma_act_in_range(t, trace(t, row, w0).unwrap() as int, w.last() as int);
    }
}

// K survives join(c, d, g) of two live rows (d possibly the new row) whose entries c.g and d.g^-1 were undefined
proof fn lemma_kinv_join(t0: &CosetTable, t1: &CosetTable, c: int, d: int, g: int)
    requires rows_ok(t0), rows_ok(t1), kinv(t0, Seq::<(int, int)>::empty()), t1.part == t0.part, t1.nr_gens == t0.nr_gens,
        t1.table@.len() >= t0.table@.len(), 0 <= c < t0.table@.len(), 0 <= d < t1.table@.len(), d <= t0.table@.len(), t0.gen_ok(g),
        t0.part.rep(c) == c, t0.part.rep(d) == d,
        t0.raw(c, g) < 0, d < t0.table@.len() ==> t0.raw(d, -g) < 0,
        t1.raw(c, g) == d, t1.raw(d, -g) == c,
        forall|c2: int, g2: int| 0 <= c2 < t1.table@.len() && t0.col_ok(g2) && !(c2 == c && g2 == g) && !(c2 == d && g2 == -g)
            ==> #[trigger] t1.raw(c2, g2) == (if c2 < t0.table@.len() { t0.raw(c2, g2) } else { -1 }),
    ensures kinv(t1, Seq::<(int, int)>::empty())
{
    let e = Seq::<(int, int)>::empty();
    assert forall|f: spec_fn(int) -> int| #[trigger] resp(t1, e, f) <==> resp(t0, e, f) by { }
    assert forall|x: int, h: int| 0 <= x < t1.table@.len() && t1.gen_ok(h) implies #[trigger] back_ok(t1, e, x, h) by {
        if x == c && h == g {
            lemma_eqv_equiv(t1, e, c, c, c);
        } else if x == d && h == -g {
            lemma_eqv_equiv(t1, e, d, d, d);
        } else {
            assert(t1.raw(x, h) == (if x < t0.table@.len() { t0.raw(x, h) } else { -1 }));
            if t1.raw(x, h) >= 0 {
                assert(back_ok(t0, e, x, h));
                let y = t0.raw(x, h);
                assert(-1 <= y < t0.table@.len());
                let d0 = t0.part.rep(y);
                assert(0 <= d0 < t0.table@.len());
                assert(t0.raw(d0, -h) >= 0);
                assert(!(d0 == c && -h == g));
                assert(!(d0 == d && -h == -g));
                assert(t1.raw(d0, -h) == t0.raw(d0, -h));
                assert forall|f: spec_fn(int) -> int| #[trigger] resp(t1, e, f) implies f(t1.raw(d0, -h)) == f(x) by { assert(resp(t0, e, f)); }
            }
        }
    }
}

// the word fixes the point of `start` in the model, whatever map is used
pub open spec fn wfix(t: &CosetTable, act: spec_fn(int, int) -> int, x0: int, w: Seq<isize>, start: int) -> bool {
    forall|phi: spec_fn(int) -> int| #[trigger] uadm(t, Seq::<(int, int)>::empty(), act, x0, phi) ==> act_word(act, phi(start), w) == phi(start)
}
// scanning a word that the model fixes at `start` keeps U for that model
pub open spec fn uscan(t0: &CosetTable, t1: &CosetTable, w: Seq<isize>, start: int) -> bool {
    forall|act: spec_fn(int, int) -> int, x0: int| #[trigger] uinv(t0, Seq::<(int, int)>::empty(), act, x0) && m1(act, t0.nr_gens as int) && wfix(t0, act, x0, w, start)
        ==> uinv(t1, Seq::<(int, int)>::empty(), act, x0)
}
// U for every model of the scanned words
pub open spec fn uall(t: &CosetTable, rels: Set<FreeWord>, subs: Seq<FreeWord>) -> bool {
    forall|act: spec_fn(int, int) -> int, x0: int| #[trigger] emodel(t.nr_gens as int, rels, subs, act, x0) ==> uinv(t, Seq::<(int, int)>::empty(), act, x0)
}

//@ begin src/fpgroups/cosets.rs :: - :: fn scan_and_connect
//@ rw R16 /\) -> Option<\(usize, isize\)>/) -> (r: Option<(usize, isize)>)/
fn scan_and_connect(
    table: &mut CosetTable, w: &FreeWord, start: usize
) -> (r: Option<(usize, isize)>)
    requires rows_ok(old(table)), cols_ok(old(table), w@), start < old(table).table@.len()
    ensures rows_ok(final(table)), final(table).nr_gens == old(table).nr_gens, final(table).table@.len() == old(table).table@.len(),
        r.is_some() ==> r.unwrap().0 < final(table).table@.len(),
        grows(old(table), final(table)),
        // scanning from a live row keeps the inverse-generator bookkeeping
        old(table).part.rep(start as int) == start && kinv(old(table), Seq::<(int, int)>::empty()) ==> kinv(final(table), Seq::<(int, int)>::empty()),
        old(table).part.rep(start as int) == start && kinv(old(table), Seq::<(int, int)>::empty()) && tinv(old(table), Seq::<(int, int)>::empty())
            ==> tinv(final(table), Seq::<(int, int)>::empty()),
        // universality: a word that a model fixes at start never forces an identification the model does not make
        uscan(old(table), final(table), w@, start as int),
{
    let ghost tb = *table;
    proof { w.lemma_reduced(); }
    let (head, tail, gap, c) = scan_both_ways(table, w, start);

    if gap == 1 {
        let ghost t0 = *table;
        table.join(head, tail, c);
        proof {
            assert(table.table@.len() == t0.table@.len());
            assert forall|c2: int, g2: int| 0 <= c2 < table.table@.len() && table.col_ok(g2) implies -1 <= #[trigger] table.raw(c2, g2) < table.table@.len() by {
                if !(c2 == head && g2 == c) && !(c2 == tail && g2 == -(c as int)) { assert(table.raw(c2, g2) == t0.raw(c2, g2)); }
            }
            if t0.part.rep(start as int) == start && kinv(&t0, Seq::<(int, int)>::empty()) {
                assert(t0.raw(head as int, c as int) < 0 && t0.raw(tail as int, -(c as int)) < 0);
                lemma_kinv_join(&t0, table, head as int, tail as int, c as int);
                if tinv(&t0, Seq::<(int, int)>::empty()) { lemma_tinv_join(&t0, table, head as int, tail as int, c as int); }
            }
            assert forall|act: spec_fn(int, int) -> int, x0: int| #[trigger] uinv(&t0, Seq::<(int, int)>::empty(), act, x0) && m1(act, t0.nr_gens as int) && wfix(&t0, act, x0, w@, start as int)
                implies uinv(table, Seq::<(int, int)>::empty(), act, x0) by {
                let phi = choose|phi: spec_fn(int) -> int| #[trigger] uadm(&t0, Seq::<(int, int)>::empty(), act, x0, phi);
                lemma_scan_link(&t0, act, x0, phi, w@, start as int, (head, tail, gap, c));
                lemma_u_join(&t0, table, head as int, tail as int, c as int, act, x0, phi);
            }
        }
        Some((head, c))
    } else {
        if gap == 0 && head != tail {
            table.merge(head, tail);
            proof {
                assert forall|act: spec_fn(int, int) -> int, x0: int| #[trigger] uinv(&tb, Seq::<(int, int)>::empty(), act, x0) && m1(act, tb.nr_gens as int) && wfix(&tb, act, x0, w@, start as int)
                    implies uinv(table, Seq::<(int, int)>::empty(), act, x0) by {
                    let phi = choose|phi: spec_fn(int) -> int| #[trigger] uadm(&tb, Seq::<(int, int)>::empty(), act, x0, phi);
                    lemma_scan_link(&tb, act, x0, phi, w@, start as int, (head, tail, gap, c));
                    let pz = seq![(head as int, tail as int)];
                    assert(uadm(&tb, pz, act, x0, phi)) by { assert forall|k: int| 0 <= k < pz.len() implies phi((#[trigger] pz[k]).0) == phi(pz[k].1) by { } }
                    assert(uinv(&tb, pz, act, x0));
                }
            }
        }
        None
    }
}
//@ end

// ---- compact(): renumbering of the live rows
pub open spec fn canonical(t: &CosetTable, c: int) -> bool { 0 <= c < t.table@.len() && t.part.rep(c) == c }

// r is t with its canonical rows renumbered by nw (first-member order, so the class of row 0 stays row 0) and a fresh partition
pub open spec fn compacted(t: &CosetTable, r: &CosetTable, nw: Seq<int>) -> bool {
    &&& r.wf() && r.nr_gens == t.nr_gens
    &&& 1 <= r.table@.len() <= t.table@.len()
    &&& forall|x: int| #[trigger] r.part.rep(x) == x
    &&& nw.len() == t.table@.len()
    &&& forall|c: int| canonical(t, c) ==> 0 <= #[trigger] nw[c] < t.table@.len()
    &&& forall|c1: int, c2: int| canonical(t, c1) && canonical(t, c2) && c1 != c2 ==> #[trigger] nw[c1] != #[trigger] nw[c2]
    &&& nw[t.part.rep(0)] == 0
    &&& forall|k: int, g: int| canonical(t, k) && t.gen_ok(g) ==>
            #[trigger] r.act(nw[k], g) == (match t.act(k, g) { Some(c) => Some(nw[c as int] as usize), None => None })
    &&& forall|x: int| #[trigger] is_row(r, x) ==> exists|k: int| canonical(t, k) && #[trigger] nw[k] == x
}
pub open spec fn is_row(t: &CosetTable, x: int) -> bool { 0 <= x < t.table@.len() }

// position of a generator in all_gens()
pub open spec fn gen_index(t: &CosetTable, g: int) -> int { if g > 0 { g - 1 } else { t.nr_gens - g - 1 } }
pub open spec fn res_entry(r: &CosetTable, x: int, g: int) -> int { if 0 <= x < r.table@.len() { r.raw(x, g) } else { -1 } }
// entry (x, g) of the result while row `upto` of the source is being copied and the first `gi` generators of that row are done
pub open spec fn entry_spec(t: &CosetTable, o2n: Seq<usize>, n2o: Seq<int>, x: int, g: int, upto: int, gi: int) -> int {
    let c0 = n2o[x];
    if t.gen_ok(g) && (c0 < upto || (c0 == upto && gen_index(t, g) < gi)) && t.act(c0, g).is_some() { o2n[t.act(c0, g).unwrap() as int] as int } else { -1 }
}
pub open spec fn numbering_ok(t: &CosetTable, o2n: Seq<usize>, n2o: Seq<int>, n: int) -> bool {
    &&& o2n.len() == t.table@.len() && n2o.len() == n && 0 <= n <= t.table@.len()
    &&& forall|c: int| 0 <= c < t.table@.len() && #[trigger] o2n[c] != t.table@.len() ==> canonical(t, c) && o2n[c] < n && n2o[o2n[c] as int] == c
    &&& forall|m: int| 0 <= m < n ==> 0 <= #[trigger] n2o[m] < t.table@.len() && o2n[n2o[m]] == m
}

impl CosetTable {
    //@ begin src/fpgroups/cosets.rs :: impl CosetTable :: fn compact | props=C11,C13
    //@ rw R16 /-> CosetTable$/-> (result: CosetTable)/
    //@ rw R12 /let mut n = 0;/let mut n: usize = 0;/
    //@ rw R17 /for g in self\.all_gens\(\)$/for g in it: self.all_gens()/
    #[verifier::spinoff_prover]
    fn compact(&self) -> (result: CosetTable)
        requires rows_ok(self)
        ensures exists|nw: Seq<int>| compacted(self, &result, nw),
            // a table whose live rows are complete compacts to a complete table
            all_complete(self) ==> complete_table(&result),
            // ... in which inverse generators undo generators if they did on the live rows
            all_complete(self) && inv_consistent(self) ==> valid(&result),
            // ... and every row is reached from row 0 if every live row was reached from the class of row 0
            reach_all(self) ==> transitive(&result),
            // every model that maps from the table maps from its compacted form
            forall|act: spec_fn(int, int) -> int, x0: int| #[trigger] uinv(self, Seq::<(int, int)>::empty(), act, x0) ==> uinv(&result, Seq::<(int, int)>::empty(), act, x0),
    {
        // number the classes in the order of their first members, so that the
        // class of row 0 (the subgroup itself) stays row 0
        let unset = self.len();
        let mut n: usize = 0;
        let mut old_to_new = vec![unset; self.len()];
        let ghost mut n2o: Seq<int> = Seq::empty();
        for k in 0..self.len()
            invariant
                rows_ok(self), unset == self.table@.len(), n <= k,
                numbering_ok(self, old_to_new@, n2o, n as int),
                forall|j: int| 0 <= j < k ==> old_to_new@[#[trigger] self.part.rep(j)] != unset,
                k > 0 ==> old_to_new@[self.part.rep(0)] == 0,
        {
            let c = self.canon(k);
            proof { assert(0 <= self.part.rep(k as int) < self.table@.len()); assert(self.part.rep(self.part.rep(k as int)) == self.part.rep(k as int)); }
            if old_to_new[c] == unset {
                let ghost o0 = old_to_new@;
                old_to_new[c] = n;
                n += 1;
                proof {
                    n2o = n2o.push(c as int);
                    assert forall|j: int| 0 <= j < k + 1 implies old_to_new@[#[trigger] self.part.rep(j)] != unset by {
                        if j < k { assert(o0[self.part.rep(j)] != unset); }
                    }
                }
            }
        }
        proof {
            assert(self.part.rep(0) >= 0);
            assert(n >= 1) by { assert(old_to_new@[self.part.rep(0)] != unset); }
        }

        let mut result = CosetTable::new(self.nr_gens);
        for k in 0..self.len()
            invariant
                rows_ok(self), unset == self.table@.len(), 1 <= n,
                numbering_ok(self, old_to_new@, n2o, n as int),
                forall|j: int| 0 <= j < self.table@.len() ==> old_to_new@[#[trigger] self.part.rep(j)] != unset,
                old_to_new@[self.part.rep(0)] == 0,
                result.wf(), result.nr_gens == self.nr_gens, 1 <= result.table@.len() <= n,
                forall|x: int| #[trigger] result.part.rep(x) == x,
                forall|x: int, g: int| 0 <= x < n && self.col_ok(g) ==> #[trigger] res_entry(&result, x, g) == entry_spec(self, old_to_new@, n2o, x, g, k as int, 0),
        {
            if self.canon(k) == k {
                let ghost row = old_to_new@[k as int] as int;
                proof { assert(self.part.rep(k as int) == k); assert(old_to_new@[self.part.rep(k as int)] != unset); assert(n2o[row] == k); }
                for g in it: self.all_gens()
                    invariant
                        rows_ok(self), unset == self.table@.len(), 1 <= n, k < self.table@.len(), canonical(self, k as int),
                        row == old_to_new@[k as int], 0 <= row < n, n2o[row] == k,
                        numbering_ok(self, old_to_new@, n2o, n as int),
                        forall|j: int| 0 <= j < self.table@.len() ==> old_to_new@[#[trigger] self.part.rep(j)] != unset,
                        old_to_new@[self.part.rep(0)] == 0,
                        result.wf(), result.nr_gens == self.nr_gens, 1 <= result.table@.len() <= n,
                        forall|x: int| #[trigger] result.part.rep(x) == x,
                        it.seq().len() == 2 * self.nr_gens,
                        forall|j: int| 0 <= j < it.seq().len() ==> self.gen_ok(#[trigger] it.seq()[j] as int) && gen_index(self, it.seq()[j] as int) == j,
                        forall|x: int, g: int| 0 <= x < n && self.col_ok(g) ==> #[trigger] res_entry(&result, x, g) == entry_spec(self, old_to_new@, n2o, x, g, k as int, it.index() as int),
                {
                    let ghost gi = it.index() as int;
                    proof { assert(self.gen_ok(it.seq()[gi] as int) && gen_index(self, it.seq()[gi] as int) == gi); }
                    if let Some(c) = self.get(k, g) {
                        proof {
                            lemma_act_in_range(self, k as int, g as int);
                            assert(old_to_new@[self.part.rep(c as int)] != unset);
                            assert(old_to_new@[self.part.rep(k as int)] != unset);
                        }
                        let ghost r0 = result;
                        result.set(old_to_new[k], g, old_to_new[c]);
                        proof {
                            assert forall|x: int, g2: int| 0 <= x < n && self.col_ok(g2) implies #[trigger] res_entry(&result, x, g2) == entry_spec(self, old_to_new@, n2o, x, g2, k as int, gi + 1) by {
                                assert(res_entry(&r0, x, g2) == entry_spec(self, old_to_new@, n2o, x, g2, k as int, gi));
                                if x == row && g2 == g { }
                                else {
                                    if x < r0.table@.len() { assert(result.raw(x, g2) == r0.raw(x, g2)); }
                                    else if x < result.table@.len() { assert(result.raw(x, g2) == -1); }
                                    if x == row && self.gen_ok(g2) && gen_index(self, g2) == gi { assert(g2 == g); }
                                }
                            }
                        }
                    } else {
                        proof {
                            assert forall|x: int, g2: int| 0 <= x < n && self.col_ok(g2) implies #[trigger] res_entry(&result, x, g2) == entry_spec(self, old_to_new@, n2o, x, g2, k as int, gi + 1) by {
                                assert(res_entry(&result, x, g2) == entry_spec(self, old_to_new@, n2o, x, g2, k as int, gi));
                                if x == row && self.gen_ok(g2) && gen_index(self, g2) == gi { assert(g2 == g); }
                            }
                        }
                    }
                }
                proof {
                    assert forall|x: int, g: int| 0 <= x < n && self.col_ok(g) implies #[trigger] res_entry(&result, x, g) == entry_spec(self, old_to_new@, n2o, x, g, k + 1, 0) by {
                        assert(res_entry(&result, x, g) == entry_spec(self, old_to_new@, n2o, x, g, k as int, 2 * self.nr_gens as int));
                        if self.gen_ok(g) { assert(0 <= gen_index(self, g) < 2 * self.nr_gens); }
                    }
                }
            } else {
                proof {
                    assert forall|x: int, g: int| 0 <= x < n && self.col_ok(g) implies #[trigger] res_entry(&result, x, g) == entry_spec(self, old_to_new@, n2o, x, g, k + 1, 0) by {
                        assert(res_entry(&result, x, g) == entry_spec(self, old_to_new@, n2o, x, g, k as int, 0));
                        assert(canonical(self, n2o[x]));
                    }
                }
            }
        }

        proof {
            let nw = Seq::new(self.table@.len(), |c: int| old_to_new@[c] as int);
            let len = self.table@.len() as int;
            assert forall|k: int, g: int| canonical(self, k) && self.gen_ok(g) implies
                #[trigger] result.act(nw[k], g) == (match self.act(k, g) { Some(c) => Some(nw[c as int] as usize), None => None }) by {
                assert(old_to_new@[self.part.rep(k)] != unset);
                let x = old_to_new@[k] as int;
                assert(n2o[x] == k);
                assert(res_entry(&result, x, g) == entry_spec(self, old_to_new@, n2o, x, g, len, 0));
                if self.act(k, g).is_some() {
                    lemma_act_in_range(self, k, g);
                    let c = self.act(k, g).unwrap() as int;
                    assert(old_to_new@[self.part.rep(c)] != unset);
                }
            }
            assert forall|x: int| #[trigger] is_row(&result, x) implies exists|k: int| canonical(self, k) && #[trigger] nw[k] == x by {
                let k = n2o[x];
                assert(old_to_new@[k] == x);
                assert(canonical(self, k));
                assert(nw[k] == x);
            }
            assert forall|c1: int, c2: int| canonical(self, c1) && canonical(self, c2) && c1 != c2 implies #[trigger] nw[c1] != #[trigger] nw[c2] by {
                assert(old_to_new@[self.part.rep(c1)] != unset); assert(old_to_new@[self.part.rep(c2)] != unset);
            }
            assert forall|c: int| canonical(self, c) implies 0 <= #[trigger] nw[c] < self.table@.len() by { assert(old_to_new@[self.part.rep(c)] != unset); }
            assert(compacted(self, &result, nw));
            assert forall|act: spec_fn(int, int) -> int, x0: int| #[trigger] uinv(self, Seq::<(int, int)>::empty(), act, x0) implies uinv(&result, Seq::<(int, int)>::empty(), act, x0) by {
                let e = Seq::<(int, int)>::empty();
                let phi = choose|phi: spec_fn(int) -> int| #[trigger] uadm(self, e, act, x0, phi);
                let phr = |r: int| if 0 <= r < n { phi(n2o[r]) } else { x0 };
                assert(uadm(&result, e, act, x0, phr)) by {
                    let k0 = self.part.rep(0);
                    assert(old_to_new@[k0] == 0 && n2o[0] == k0);
                    assert(phi(self.part.rep(0)) == phi(0));
                    assert forall|u: int| #[trigger] phr(result.part.rep(u)) == phr(u) by { assert(result.part.rep(u) == u); }
                    assert forall|x: int, g: int| 0 <= x < result.table@.len() && result.gen_ok(g) && result.raw(x, g) >= 0 implies phr(#[trigger] result.raw(x, g)) == act(phr(x), g) by {
                        let k = n2o[x];
                        assert(res_entry(&result, x, g) == entry_spec(self, old_to_new@, n2o, x, g, len, 0));
                        assert(self.gen_ok(g));
                        assert(self.act(k, g).is_some());
                        lemma_act_in_range(self, k, g);
                        let c = self.act(k, g).unwrap() as int;
                        assert(old_to_new@[self.part.rep(c)] != unset);
                        assert(n2o[old_to_new@[c] as int] == c);
                        assert(phi(self.part.rep(self.raw(k, g))) == phi(self.raw(k, g)));
                        assert(phi(self.raw(k, g)) == act(phi(k), g));
                    }
                }
            }
            if reach_all(self) {
                assert forall|r: int| #[trigger] is_row(&result, r) implies exists|w: Seq<isize>| gens_ok(&result, w) && #[trigger] trace(&result, 0, w) == Some(r as usize) by {
                    let k = n2o[r];
                    assert(old_to_new@[k] == r);
                    assert(canonical(self, k));
                    assert(nw[k] == r);
                    assert(reachable(self, k));
                    let w = choose|w: Seq<isize>| gens_ok(self, w) && #[trigger] trace(self, self.part.rep(0), w) == Some(self.part.rep(k) as usize);
                    let k0 = self.part.rep(0);
                    assert(0 <= k0 < self.table@.len() && self.part.rep(self.part.rep(0)) == self.part.rep(0));
                    assert(canonical(self, k0));
                    lemma_transport(self, &result, nw, k0, w);
                    assert(nw[k0] == 0);
                    assert(gens_ok(&result, w)) by { assert forall|j: int| 0 <= j < w.len() implies result.gen_ok(#[trigger] w[j] as int) by { assert(self.gen_ok(w[j] as int)); } }
                    assert(trace(&result, 0, w) == Some(r as usize));
                }
                assert(transitive(&result));
            }
            if all_complete(self) {
                assert forall|r: int, g: int| 0 <= r < result.table@.len() && result.gen_ok(g) implies (#[trigger] result.act(r, g)).is_some() && result.act(r, g).unwrap() < result.table@.len() by {
                    let k = n2o[r];
                    assert(old_to_new@[k] == r);
                    assert(canonical(self, k));
                    assert(nw[k] == r);
                    assert(row_complete(self, k));
                    assert(self.raw(k, g) >= 0);
                    lemma_act_in_range(self, k, g);
                    let c = self.act(k, g).unwrap() as int;
                    assert(canonical(self, c));
                    assert(old_to_new@[self.part.rep(c)] != unset);
                    assert(row_complete(self, c));
                    assert(self.raw(c, g) >= 0);
                    lemma_act_in_range(self, c, g);
                    let x = old_to_new@[c] as int;
                    assert(n2o[x] == c);
                    assert(res_entry(&result, x, g) == entry_spec(self, old_to_new@, n2o, x, g, len, 0));
                    assert(old_to_new@[self.part.rep(self.act(c, g).unwrap() as int)] != unset);
                    assert(res_entry(&result, x, g) >= 0);
                    assert(x < result.table@.len());
                    assert(result.act(nw[k], g) == Some(nw[c] as usize));
                }
                if inv_consistent(self) {
                    assert forall|r: int, g: int| 0 <= r < result.table@.len() && result.gen_ok(g) implies
                        (#[trigger] result.act(r, g)).is_some() && result.act(r, g).unwrap() < result.table@.len()
                        && result.act(result.act(r, g).unwrap() as int, -g) == Some(r as usize) by {
                        let k = n2o[r];
                        assert(old_to_new@[k] == r);
                        assert(canonical(self, k));
                        assert(nw[k] == r);
                        assert(row_complete(self, k));
                        assert(self.raw(k, g) >= 0);
                        lemma_act_in_range(self, k, g);
                        let c = self.act(k, g).unwrap() as int;
                        assert(canonical(self, c));
                        assert(self.act(c, -g) == Some(k as usize));
                        assert(result.act(nw[k], g) == Some(nw[c] as usize));
                        assert(self.gen_ok(-g));
                        assert(result.act(nw[c], -g) == (match self.act(c, -g) { Some(c2) => Some(nw[c2 as int] as usize), None => None }));
                        assert(0 <= nw[c] < self.table@.len());
                    }
                    assert(valid(&result));
                }
            }
        }
        result
    }
    //@ end
}

// =====================================================================================================
// coset_table
// =====================================================================================================
// R5: std iterator / collection expressions vstd does not model, by their std semantics (assumed)
#[verifier::external_body]
fn __set_extend(s: &mut BTreeSet<FreeWord>, o: BTreeSet<FreeWord>)
    ensures final(s)@ == old(s)@.union(o@)
{ s.extend(o) }
#[verifier::external_body]
fn __set_new() -> (s: BTreeSet<FreeWord>)
    ensures s@ == Set::<FreeWord>::empty()
{ BTreeSet::new() }
pub open spec fn listed(v: Seq<&FreeWord>, u: FreeWord) -> bool { exists|j: int| 0 <= j < v.len() && *#[trigger] v[j] == u }
pub open spec fn is_sub(subs: Seq<FreeWord>, u: FreeWord) -> bool { exists|m: int| 0 <= m < subs.len() && #[trigger] subs[m] == u }
// `for w in &rels`: every member, and only members
#[verifier::external_body]
fn __set_items<'a>(s: &'a BTreeSet<FreeWord>) -> (v: Vec<&'a FreeWord>)
    ensures forall|j: int| 0 <= j < v@.len() ==> s@.contains(*#[trigger] v@[j]),
        forall|u: FreeWord| #[trigger] s@.contains(u) ==> listed(v@, u),
{ s.iter().collect() }
// `rels.iter().chain(if i == 0 { subgroup_gens.iter() } else { [].iter() })`: the members of rels, followed for i == 0 by the subgroup generators
#[verifier::external_body]
fn __words_at<'a>(s: &'a BTreeSet<FreeWord>, subs: &'a Vec<FreeWord>, i: usize) -> (v: Vec<&'a FreeWord>)
    ensures forall|j: int| 0 <= j < v@.len() ==> s@.contains(*#[trigger] v@[j]) || (i == 0 && is_sub(subs@, *v@[j])),
        forall|u: FreeWord| #[trigger] s@.contains(u) ==> listed(v@, u),
        i == 0 ==> forall|m: int| 0 <= m < subs@.len() ==> listed(v@, #[trigger] subs@[m]),
{ s.iter().chain(if i == 0 { subs.iter() } else { [].iter() }).collect() }
// `deduced.extend(opt)`
#[verifier::external_body]
fn __extend_opt(v: &mut Vec<(usize, isize)>, o: Option<(usize, isize)>)
    ensures final(v)@ == (match o { Some(x) => old(v)@.push(x), None => old(v)@ })
{ v.extend(o) }
// R19: the documented abort `assert!(n < 100_000, "Reached coset table limit ...")`: the call does not return when the limit is hit (partial correctness)
#[verifier::external_body]
fn __limit_guard(b: bool)
    ensures b
{ assert!(b, "Reached coset table limit of 100_000") }

pub open spec fn all_triv(act: spec_fn(int, int) -> int, ws: Seq<FreeWord>) -> bool { forall|m: int| 0 <= m < ws.len() ==> triv(act, (#[trigger] ws[m])@) }
pub open spec fn all_within(ws: Seq<FreeWord>, b: int) -> bool { forall|m: int| 0 <= m < ws.len() ==> within((#[trigger] ws[m])@, b) }

//@ begin src/fpgroups/cosets.rs :: - :: fn expanded_relator_set
//@ rw R16 /-> BTreeSet<FreeWord>$/-> (rels: BTreeSet<FreeWord>)/
//@ rw R5 /let mut rels = BTreeSet::new\(\);/let mut rels = __set_new();/
//@ rw R5+R14 /^([ \t]*)rels\.extend\(relator_permutations\(&rel\)\);/\1let __p = relator_permutations(rel);\n\1__set_extend(&mut rels, __p);/
//@ rw R17 /for rel in relators$/for rel in it: relators/
fn expanded_relator_set(relators: &Vec<FreeWord>) -> (rels: BTreeSet<FreeWord>)
    ensures
        // every relator is a member, and no member uses a letter beyond those of the relators
        forall|m: int| 0 <= m < relators@.len() ==> has_view(rels@, (#[trigger] relators@[m])@),
        forall|u: FreeWord, b: int| #![trigger rels@.contains(u), all_within(relators@, b)] rels@.contains(u) && all_within(relators@, b) ==> within(u@, b),
        // in every model in which the relators act trivially, so does every member (rotations and inverses of relators)
        forall|act: spec_fn(int, int) -> int, n: int, u: FreeWord| #![trigger m1(act, n), rels@.contains(u)]
            m1(act, n) && all_within(relators@, n) && all_triv(act, relators@) && rels@.contains(u) ==> triv(act, u@),
{
    let mut rels = __set_new();
    for rel in it: relators
        invariant
            it.seq().len() == relators@.len(),
            forall|m: int| 0 <= m < relators@.len() ==> *(#[trigger] it.seq()[m]) == relators@[m],
            forall|m: int| 0 <= m < it.index() ==> has_view(rels@, (#[trigger] relators@[m])@),
            forall|u: FreeWord, b: int| #![trigger rels@.contains(u), all_within(relators@, b)] rels@.contains(u) && all_within(relators@, b) ==> within(u@, b),
            forall|act: spec_fn(int, int) -> int, n: int, u: FreeWord| #![trigger m1(act, n), rels@.contains(u)]
                m1(act, n) && all_within(relators@, n) && all_triv(act, relators@) && rels@.contains(u) ==> triv(act, u@),
    {
        let ghost r0 = rels@;
        let ghost idx = it.index() as int;
        let __p = relator_permutations(rel);
        let ghost pg = __p@;
        __set_extend(&mut rels, __p);
        proof {
            assert(*it.seq()[idx] == relators@[idx]);
            assert forall|m: int| 0 <= m < idx + 1 implies has_view(rels@, (#[trigger] relators@[m])@) by {
                if m < idx {
                    let u = choose|u: FreeWord| #[trigger] r0.contains(u) && u@ == relators@[m]@;
                    assert(rels@.contains(u));
                } else {
                    let u = choose|u: FreeWord| #[trigger] pg.contains(u) && u@ == rel@;
                    assert(rels@.contains(u));
                }
            }
            assert forall|u: FreeWord, b: int| #![trigger rels@.contains(u), all_within(relators@, b)] rels@.contains(u) && all_within(relators@, b) implies within(u@, b) by {
                if !r0.contains(u) { assert(pg.contains(u)); assert(within(relators@[idx]@, b)); assert(within(rel@, b)); }
            }
            assert forall|act: spec_fn(int, int) -> int, n: int, u: FreeWord| #![trigger m1(act, n), rels@.contains(u)]
                m1(act, n) && all_within(relators@, n) && all_triv(act, relators@) && rels@.contains(u) implies triv(act, u@) by {
                if !r0.contains(u) { assert(pg.contains(u)); assert(within(relators@[idx]@, n)); assert(triv(act, relators@[idx]@)); assert(within(rel@, n) && triv(act, rel@)); }
            }
        }
    }
    rels
}
//@ end

// w traced from row c returns to c, wherever the whole trace is defined
pub open spec fn closes(t: &CosetTable, w: Seq<isize>, c: int) -> bool { trace(t, c, w).is_some() ==> trace(t, c, w) == Some(c as usize) }
// the words that must close at row i: every (expanded) relator, and for row 0 every subgroup generator
pub open spec fn due_at(rels: Set<FreeWord>, subs: Seq<FreeWord>, i: int, u: FreeWord) -> bool { rels.contains(u) || (i == 0 && is_sub(subs, u)) }
pub open spec fn row_done(t: &CosetTable, rels: Set<FreeWord>, subs: Seq<FreeWord>, i: int) -> bool {
    forall|u: FreeWord| #[trigger] due_at(rels, subs, i, u) ==> closes(t, u@, t.part.rep(i))
}
// the first `upto` rows have been checked: everything due closes at the representative of the row
pub open spec fn pass_done(t: &CosetTable, rels: Set<FreeWord>, subs: Seq<FreeWord>, upto: int) -> bool {
    forall|i: int, u: FreeWord| 0 <= i < upto && #[trigger] due_at(rels, subs, i, u) ==> closes(t, u@, t.part.rep(i))
}

// tracing through the compacted table is tracing through the original one, renumbered
pub open spec fn gens_ok(t: &CosetTable, w: Seq<isize>) -> bool { forall|j: int| 0 <= j < w.len() ==> t.gen_ok(#[trigger] w[j] as int) }
proof fn lemma_gens_ok(t: &CosetTable, w: Seq<isize>)
    requires cols_ok(t, w), reduced(w)
    ensures gens_ok(t, w)
{
    assert forall|j: int| 0 <= j < w.len() implies t.gen_ok(#[trigger] w[j] as int) by { assert(t.col_ok(w[j] as int)); }
}
proof fn lemma_transport(t: &CosetTable, r: &CosetTable, nw: Seq<int>, k: int, w: Seq<isize>)
    requires rows_ok(t), compacted(t, r, nw), canonical(t, k), gens_ok(t, w)
    ensures trace(r, nw[k], w) == (match trace(t, k, w) { Some(x) => Some(nw[x as int] as usize), None => None }),
        trace(t, k, w).is_some() ==> canonical(t, trace(t, k, w).unwrap() as int)
    decreases w.len()
{
    if w.len() > 0 {
        let w0 = w.drop_last();
        let g = w.last();
        assert(gens_ok(t, w0)) by { assert forall|j: int| 0 <= j < w0.len() implies t.gen_ok(#[trigger] w0[j] as int) by { assert(w0[j] == w[j]); } }
        lemma_transport(t, r, nw, k, w0);
        assert(t.gen_ok(w[w.len() - 1] as int));
        assert(t.gen_ok(g as int));
        if trace(t, k, w0).is_some() {
            let x0 = trace(t, k, w0).unwrap() as int;
            assert(canonical(t, x0));
            assert(r.act(nw[x0], g as int) == (match t.act(x0, g as int) { Some(c) => Some(nw[c as int] as usize), None => None }));
            assert(0 <= nw[x0] < t.table@.len());
            assert(0 <= nw[k] < t.table@.len());
            if t.act(x0, g as int).is_some() { lemma_act_in_range(t, x0, g as int); }
        }
    }
}

// C11: "every generator acts on the rows": every entry of the table is defined and is a row
pub open spec fn complete_table(t: &CosetTable) -> bool {
    forall|r: int, g: int| 0 <= r < t.table@.len() && t.gen_ok(g) ==> (#[trigger] t.act(r, g)).is_some() && t.act(r, g).unwrap() < t.table@.len()
}
// progress of the enumeration: the live rows below i are complete, and so is row i for the first gk generators (if it is still live)
pub open spec fn prog(t: &CosetTable, i: int, gens: Seq<isize>, gk: int) -> bool {
    &&& forall|k: int| 0 <= k < i && #[trigger] canonical(t, k) ==> row_complete(t, k)
    &&& canonical(t, i) ==> forall|j: int| 0 <= j < gk ==> t.raw(i, #[trigger] gens[j] as int) >= 0
}
proof fn lemma_prog_grows(t0: &CosetTable, t1: &CosetTable, i: int, gens: Seq<isize>, gk: int)
    requires grows(t0, t1), prog(t0, i, gens, gk), 0 <= i < t0.table@.len(), 0 <= gk <= gens.len(),
        forall|j: int| 0 <= j < gens.len() ==> t0.col_ok(#[trigger] gens[j] as int),
    ensures prog(t1, i, gens, gk)
{
    lemma_keep_rows(t0, t1, i);
    if canonical(t1, i) {
        assert(t1.part.rep(i) == i);
        assert(canonical(t0, i));
        assert forall|j: int| 0 <= j < gk implies t1.raw(i, #[trigger] gens[j] as int) >= 0 by { assert(t0.raw(i, gens[j] as int) >= 0); }
    }
}
proof fn lemma_all_complete_grows(t0: &CosetTable, t1: &CosetTable)
    requires grows(t0, t1), all_complete(t0), t0.table@.len() == t1.table@.len()
    ensures all_complete(t1)
{
    assert(forall|k: int| 0 <= k < t0.table@.len() && #[trigger] canonical(t0, k) ==> row_complete(t0, k));
    lemma_keep_rows(t0, t1, t0.table@.len() as int);
}
proof fn lemma_trace_total(t: &CosetTable, row: int, w: Seq<isize>)
    requires complete_table(t), 0 <= row < t.table@.len(), cols_ok(t, w), reduced(w)
    ensures trace(t, row, w).is_some(), trace(t, row, w).unwrap() < t.table@.len()
    decreases w.len()
{
    if w.len() > 0 {
        let w0 = w.drop_last();
        assert(cols_ok(t, w0)) by { assert forall|j: int| 0 <= j < w0.len() implies t.col_ok(#[trigger] w0[j] as int) by { assert(w0[j] == w[j]); } }
        assert(reduced(w0)) by {
            assert forall|j: int| 0 <= j < w0.len() implies #[trigger] w0[j] != 0 && w0[j] > isize::MIN by { assert(w0[j] == w[j]); }
            assert forall|j: int| 0 <= j < w0.len() - 1 implies !neg_eq(#[trigger] w0[j + 1], w0[j]) by { assert(w0[j + 1] == w[j + 1]); assert(w0[j] == w[j]); }
        }
        lemma_trace_total(t, row, w0);
        assert(w[w.len() - 1] != 0 && t.col_ok(w[w.len() - 1] as int));
        assert(t.gen_ok(w.last() as int));
    }
}

// the model condition on the given relators (what the contract of coset_table speaks about)
pub open spec fn umodel(n: int, rels: Seq<FreeWord>, subs: Seq<FreeWord>, act: spec_fn(int, int) -> int, x0: int) -> bool {
    &&& m1(act, n)
    &&& all_triv(act, rels)
    &&& forall|m: int| 0 <= m < subs.len() ==> act_word(act, x0, (#[trigger] subs[m])@) == x0
}

proof fn lemma_uall_scan_rel(t0: &CosetTable, t1: &CosetTable, rels: Set<FreeWord>, subs: Seq<FreeWord>, u: FreeWord, start: int)
    requires uall(t0, rels, subs), rels.contains(u), uscan(t0, t1, u@, start), t1.nr_gens == t0.nr_gens
    ensures uall(t1, rels, subs)
{
    assert forall|act: spec_fn(int, int) -> int, x0: int| #[trigger] emodel(t1.nr_gens as int, rels, subs, act, x0) implies uinv(t1, Seq::<(int, int)>::empty(), act, x0) by {
        assert(emodel(t0.nr_gens as int, rels, subs, act, x0));
        assert(triv(act, u@));
        assert(wfix(t0, act, x0, u@, start));
    }
}

proof fn lemma_uall_scan_sub(t0: &CosetTable, t1: &CosetTable, rels: Set<FreeWord>, subs: Seq<FreeWord>, m: int, start: int)
    requires uall(t0, rels, subs), 0 <= m < subs.len(), start == t0.part.rep(0), uscan(t0, t1, subs[m]@, start), t1.nr_gens == t0.nr_gens
    ensures uall(t1, rels, subs)
{
    assert forall|act: spec_fn(int, int) -> int, x0: int| #[trigger] emodel(t1.nr_gens as int, rels, subs, act, x0) implies uinv(t1, Seq::<(int, int)>::empty(), act, x0) by {
        assert(emodel(t0.nr_gens as int, rels, subs, act, x0));
        assert forall|phi: spec_fn(int) -> int| #[trigger] uadm(t0, Seq::<(int, int)>::empty(), act, x0, phi) implies act_word(act, phi(start), subs[m]@) == phi(start) by {
            assert(phi(t0.part.rep(0)) == phi(0));
        }
        assert(wfix(t0, act, x0, subs[m]@, start));
    }
}

// a coincidence found by scanning a due word without gap is one every model makes
proof fn lemma_uall_merge(t0: &CosetTable, t1: &CosetTable, rels: Set<FreeWord>, subs: Seq<FreeWord>, u: FreeWord, i: int, start: int, res: (usize, usize, usize, isize))
    requires rows_ok(t0), uall(t0, rels, subs), due_at(rels, subs, i, u), start == t0.part.rep(i), 0 <= start < t0.table@.len(),
        cols_ok(t0, u@), reduced(u@), res.2 == 0, t1.nr_gens == t0.nr_gens,
        exists|a: int, b: int| #![trigger u@.take(a), inv_word(u@).take(b)] 0 <= a && 0 <= b && a + b + res.2 == u@.len()
            && trace(t0, start, u@.take(a)) == Some(res.0) && trace(t0, start, inv_word(u@).take(b)) == Some(res.1) && (res.2 >= 1 ==> res.3 == u@[a]),
        ukeep(t0, seq![(res.0 as int, res.1 as int)], t1, Seq::<(int, int)>::empty()),
    ensures uall(t1, rels, subs)
{
    assert forall|act: spec_fn(int, int) -> int, x0: int| #[trigger] emodel(t1.nr_gens as int, rels, subs, act, x0) implies uinv(t1, Seq::<(int, int)>::empty(), act, x0) by {
        assert(emodel(t0.nr_gens as int, rels, subs, act, x0));
        assert(uinv(t0, Seq::<(int, int)>::empty(), act, x0));
        let phi = choose|phi: spec_fn(int) -> int| #[trigger] uadm(t0, Seq::<(int, int)>::empty(), act, x0, phi);
        if rels.contains(u) { assert(triv(act, u@)); }
        else {
            let m = choose|m: int| 0 <= m < subs.len() && #[trigger] subs[m] == u;
            assert(act_word(act, x0, subs[m]@) == x0);
            assert(phi(t0.part.rep(0)) == phi(0));
        }
        lemma_scan_link(t0, act, x0, phi, u@, start, res);
        let pz = seq![(res.0 as int, res.1 as int)];
        assert(uadm(t0, pz, act, x0, phi)) by { assert forall|k: int| 0 <= k < pz.len() implies phi((#[trigger] pz[k]).0) == phi(pz[k].1) by { } }
        assert(uinv(t0, pz, act, x0));
    }
}

proof fn lemma_uall_join_new(t0: &CosetTable, t1: &CosetTable, rels: Set<FreeWord>, subs: Seq<FreeWord>, i: int, n: int, g: int)
    requires rows_ok(t0), uall(t0, rels, subs), t1.nr_gens == t0.nr_gens, t1.part == t0.part,
        n == t0.table@.len(), t1.table@.len() == n + 1, 0 <= i < n, t0.gen_ok(g),
        t1.raw(i, g) == n, t1.raw(n, -g) == i,
        forall|c2: int, g2: int| 0 <= c2 < t1.table@.len() && t0.col_ok(g2) && !(c2 == i && g2 == g) && !(c2 == n && g2 == -g)
            ==> #[trigger] t1.raw(c2, g2) == (if c2 < t0.table@.len() { t0.raw(c2, g2) } else { -1 }),
    ensures uall(t1, rels, subs)
{
    assert forall|act: spec_fn(int, int) -> int, x0: int| #[trigger] emodel(t1.nr_gens as int, rels, subs, act, x0) implies uinv(t1, Seq::<(int, int)>::empty(), act, x0) by {
        assert(emodel(t0.nr_gens as int, rels, subs, act, x0));
        let phi = choose|phi: spec_fn(int) -> int| #[trigger] uadm(t0, Seq::<(int, int)>::empty(), act, x0, phi);
        lemma_u_join_new(t0, t1, i, n, g, act, x0, phi);
    }
}

//@ begin src/fpgroups/cosets.rs :: - :: fn coset_table
//@ rw R16 /^\) -> CosetTable$/) -> (result: CosetTable)/
//@ rw R19 /for i in 0\.\.\n([ \t]*)\{/let mut __i: usize = 0;\n\1loop\n\1{\n\1    let i = __i; __i += 1;/?
//@ rw R19 /for i in 0\.\.([A-Za-z0-9_]+)\n([ \t]*)\{/let mut __i: usize = 0;\n\2loop\n\2{\n\2    if __i >= \1 { break; }\n\2    let i = __i; __i += 1;/?
//@ rw R19 /assert!\(n < 100_000, "Reached coset table limit of 100_000"\);/__limit_guard(n < 100_000);/
//@ rw R20 /for g in table\.all_gens\(\)\n([ \t]*)\{/let __gens = table.all_gens(); let mut __gk: usize = 0;\n\1while __gk < __gens.len()\n\1{\n\1    let g = __gens[__gk]; __gk += 1;/
//@ rw R5+R17 /for w in &rels$/for w in it: __set_items(&rels)/
//@ rw R17 /for w in subgroup_gens$/for w in it: subgroup_gens/
//@ rw R5+R14 /^([ \t]*)deduced\.extend\(scan_and_connect\(&mut table, w, c\)\);/\1let __d = scan_and_connect(&mut table, w, c);\n\1__extend_opt(&mut deduced, __d);/
//@ rw R17 /for i in 0\.\.table\.len\(\)$/for i in iti: 0..table.len()/
//@ rw R5+R17 /for w in rels\.iter\(\)\.chain\(if i == 0 \{ subgroup_gens\.iter\(\) \} else \{ \[\]\.iter\(\) \}\)$/for w in it: __words_at(&rels, subgroup_gens, i)/
//@ rw R14 /^([ \t]*)table\.compact\(\)$/\1let __r = table.compact();\n\1__r/
#[verifier::spinoff_prover]
#[verifier::exec_allows_no_decreases_clause]
pub fn coset_table(
    nr_gens: usize, relators: &Vec<FreeWord>, subgroup_gens: &Vec<FreeWord>
) -> (result: CosetTable)
    requires nr_gens < isize::MAX / 2,
        // relators and subgroup generators are words in the nr_gens generators and their inverses (anything else indexes outside a table row)
        all_within(relators@, nr_gens as int), all_within(subgroup_gens@, nr_gens as int),
    ensures result.wf(), result.nr_gens == nr_gens, result.table@.len() >= 1,
        // the documented row limit: the enumeration aborts (panics) before the table exceeds it
        result.table@.len() <= 100_000,
        forall|x: int| #[trigger] result.part.rep(x) == x,
        // C11: "every generator acts on the rows as a permutation whose inverse is the action of the inverse generator": every entry is
        // defined and is a row of the table, and the inverse generator leads back
        complete_table(&result), valid(&result),
        // C11: "the action is transitive": every row is reached from row 0 by a word in the generators
        transitive(&result),
        // C11: "exactly [G:H] rows", as the universal property: into EVERY model -- points with an action of the generators in which inverse
        // generators undo generators, the relators act trivially and the subgroup generators fix x0 -- there is a map phi of the rows with
        // phi(0) = x0 and phi(r.g) = phi(r).g.  (For the model G/H with x0 = H, together with transitivity and the clauses above, phi is a
        // bijection: no two rows are the same coset.)
        forall|act: spec_fn(int, int) -> int, x0: int| #[trigger] umodel(nr_gens as int, relators@, subgroup_gens@, act, x0) ==> uinv(&result, Seq::<(int, int)>::empty(), act, x0),
        // C11: "every relator traced from every row returns to that row" ...
        forall|m: int, r: int| 0 <= m < relators@.len() && 0 <= r < result.table@.len() ==> #[trigger] trace(&result, r, relators@[m]@) == Some(r as usize),
        // ... "and every generator of H traced from row 0 returns to row 0"
        forall|m: int| 0 <= m < subgroup_gens@.len() ==> trace(&result, 0, (#[trigger] subgroup_gens@[m])@) == Some(0usize),
{
    let rels = expanded_relator_set(relators);
    let mut table = CosetTable::new(nr_gens);
    proof {
        assert(all_within(relators@, nr_gens as int));
        assert forall|u: FreeWord| #[trigger] rels@.contains(u) implies within(u@, nr_gens as int) by { }
        assert(rows_ok(&table));
        assert(uall(&table, rels@, subgroup_gens@)) by {
            assert forall|act: spec_fn(int, int) -> int, x0: int| #[trigger] emodel(table.nr_gens as int, rels@, subgroup_gens@, act, x0) implies uinv(&table, Seq::<(int, int)>::empty(), act, x0) by {
                let phi = |x: int| x0;
                assert(uadm(&table, Seq::<(int, int)>::empty(), act, x0, phi)) by { assert forall|c: int, g: int| 0 <= c < table.table@.len() && table.gen_ok(g) && table.raw(c, g) >= 0 implies phi(#[trigger] table.raw(c, g)) == act(phi(c), g) by { assert(table.raw(0, g) == -1); } }
            }
        }
        assert(tinv(&table, Seq::<(int, int)>::empty())) by {
            assert forall|c: int| 0 <= c < table.table@.len() implies #[trigger] tconn(&table, Seq::<(int, int)>::empty(), c, 0) by { }
        }
        assert(kinv(&table, Seq::<(int, int)>::empty())) by { assert forall|c: int, g: int| 0 <= c < table.table@.len() && table.gen_ok(g) implies #[trigger] back_ok(&table, Seq::<(int, int)>::empty(), c, g) by { assert(table.raw(0, g) == -1); } }
    }

    let mut __i: usize = 0;
    loop
        invariant_except_break __i <= table.table@.len(),
        invariant rows_ok(&table), table.nr_gens == nr_gens && table.table@.len() <= 100_000,
            all_within(subgroup_gens@, nr_gens as int),
            forall|u: FreeWord| #[trigger] rels@.contains(u) ==> within(u@, nr_gens as int),
            forall|k: int| 0 <= k < __i && #[trigger] canonical(&table, k) ==> row_complete(&table, k),
            kinv(&table, Seq::<(int, int)>::empty()), tinv(&table, Seq::<(int, int)>::empty()), uall(&table, rels@, subgroup_gens@),
        ensures rows_ok(&table), table.nr_gens == nr_gens && table.table@.len() <= 100_000, all_complete(&table), kinv(&table, Seq::<(int, int)>::empty()), tinv(&table, Seq::<(int, int)>::empty()), uall(&table, rels@, subgroup_gens@),
    {
        let i = __i; __i += 1;
        if i >= table.len() {
            proof {
                assert forall|k: int| #[trigger] canonical(&table, k) implies row_complete(&table, k) by { assert(0 <= k < i); }
            }
            break;
        }

        let __gens = table.all_gens(); let mut __gk: usize = 0;
        proof {
            assert forall|j: int| 0 <= j < __gens@.len() implies table.gen_ok(#[trigger] __gens@[j] as int) && gen_index(&table, __gens@[j] as int) == j by { }
            assert forall|g2: int| #[trigger] table.gen_ok(g2) implies 0 <= gen_index(&table, g2) < __gens@.len() && __gens@[gen_index(&table, g2)] == g2 by {
                if g2 > 0 { assert(__gens@[g2 - 1] == g2); } else { assert(__gens@[nr_gens - g2 - 1] == g2); }
            }
        }
        while __gk < __gens.len()
            invariant rows_ok(&table), table.nr_gens == nr_gens && table.table@.len() <= 100_000, i < table.table@.len(),
                all_within(subgroup_gens@, nr_gens as int),
                forall|u: FreeWord| #[trigger] rels@.contains(u) ==> within(u@, nr_gens as int),
                __gens@.len() == 2 * nr_gens, __gk <= __gens@.len(),
                forall|j: int| 0 <= j < __gens@.len() ==> table.gen_ok(#[trigger] __gens@[j] as int) && gen_index(&table, __gens@[j] as int) == j,
                forall|g2: int| #[trigger] table.gen_ok(g2) ==> 0 <= gen_index(&table, g2) < __gens@.len() && __gens@[gen_index(&table, g2)] == g2,
                prog(&table, i as int, __gens@, __gk as int),
                kinv(&table, Seq::<(int, int)>::empty()), tinv(&table, Seq::<(int, int)>::empty()), uall(&table, rels@, subgroup_gens@),
            ensures rows_ok(&table), table.nr_gens == nr_gens && table.table@.len() <= 100_000, i < table.table@.len(), kinv(&table, Seq::<(int, int)>::empty()), tinv(&table, Seq::<(int, int)>::empty()), uall(&table, rels@, subgroup_gens@),
                forall|k: int| 0 <= k < i && #[trigger] canonical(&table, k) ==> row_complete(&table, k),
                canonical(&table, i as int) ==> row_complete(&table, i as int),
        {
            let g = __gens[__gk]; __gk += 1;
            proof { assert(table.gen_ok(__gens@[__gk - 1] as int)); }
            if i != table.canon(i) {
                break;
            }
            if table.get(i, g).is_none() {
                let n = table.len();
                __limit_guard(n < 100_000);

                let ghost t0 = table;
                table.join(i, n, g);
                proof {
                    assert(table.table@.len() == n + 1);
                    assert forall|c2: int, g2: int| 0 <= c2 < table.table@.len() && table.col_ok(g2) implies -1 <= #[trigger] table.raw(c2, g2) < table.table@.len() by {
                        if !(c2 == i && g2 == g) && !(c2 == n && g2 == -(g as int)) {
                            assert(table.raw(c2, g2) == (if c2 < t0.table@.len() { t0.raw(c2, g2) } else { -1 }));
                        }
                    }
                    assert forall|x: int| 0 <= x < table.table@.len() implies 0 <= #[trigger] table.part.rep(x) < table.table@.len() by {
                        if x == n { assert(t0.part.rep(x) == x); } else { assert(0 <= t0.part.rep(x) < t0.table@.len()); }
                    }
                    assert(rows_ok(&table));
                    lemma_prog_grows(&t0, &table, i as int, __gens@, __gk - 1);
                    assert(table.raw(i as int, g as int) == n);
                    assert(t0.raw(i as int, g as int) < 0);
                    assert(t0.part.rep(n as int) == n);
                    lemma_kinv_join(&t0, &table, i as int, n as int, g as int);
                    lemma_tinv_join(&t0, &table, i as int, n as int, g as int);
                    lemma_uall_join_new(&t0, &table, rels@, subgroup_gens@, i as int, n as int, g as int);
                    assert(prog(&table, i as int, __gens@, __gk as int));
                }

                // scan the relators through the new edge, and through every
                // edge deduced while doing so
                let mut deduced = vec![(i, g)];
                while let Some((r, h)) = deduced.pop()
                    invariant rows_ok(&table), table.nr_gens == nr_gens && table.table@.len() <= 100_000, i < table.table@.len(),
                        all_within(subgroup_gens@, nr_gens as int),
                        forall|u: FreeWord| #[trigger] rels@.contains(u) ==> within(u@, nr_gens as int),
                        forall|k: int| 0 <= k < deduced@.len() ==> (#[trigger] deduced@[k]).0 < table.table@.len(),
                        __gk <= __gens@.len(),
                        forall|j: int| 0 <= j < __gens@.len() ==> table.gen_ok(#[trigger] __gens@[j] as int),
                        prog(&table, i as int, __gens@, __gk as int),
                        kinv(&table, Seq::<(int, int)>::empty()), tinv(&table, Seq::<(int, int)>::empty()), uall(&table, rels@, subgroup_gens@),
                {
                    for w in it: __set_items(&rels)
                        invariant rows_ok(&table), table.nr_gens == nr_gens && table.table@.len() <= 100_000, i < table.table@.len(), r < table.table@.len(),
                            forall|u: FreeWord| #[trigger] rels@.contains(u) ==> within(u@, nr_gens as int),
                            forall|j: int| 0 <= j < it.seq().len() ==> rels@.contains(*#[trigger] it.seq()[j]),
                            forall|k: int| 0 <= k < deduced@.len() ==> (#[trigger] deduced@[k]).0 < table.table@.len(),
                            __gk <= __gens@.len(),
                            forall|j: int| 0 <= j < __gens@.len() ==> table.gen_ok(#[trigger] __gens@[j] as int),
                            prog(&table, i as int, __gens@, __gk as int),
                            kinv(&table, Seq::<(int, int)>::empty()), tinv(&table, Seq::<(int, int)>::empty()), uall(&table, rels@, subgroup_gens@),
                    {
                        proof { assert(rels@.contains(*it.seq()[it.index() as int])); assert(within(w@, nr_gens as int)); }
                        if w.len() > 0 && w[0] == h {
                            proof { assert forall|j: int| 0 <= j < w@.len() implies table.col_ok(#[trigger] w@[j] as int) by { assert(-(nr_gens as int) <= w@[j] <= nr_gens); } }
                            let c = table.canon(r);
                            let ghost d0 = deduced@;
                            let ghost tb = table;
                            let __d = scan_and_connect(&mut table, w, c);
                            __extend_opt(&mut deduced, __d);
                            proof {
                                assert forall|k: int| 0 <= k < deduced@.len() implies (#[trigger] deduced@[k]).0 < table.table@.len() by { if k < d0.len() { assert(deduced@[k] == d0[k]); } }
                                lemma_prog_grows(&tb, &table, i as int, __gens@, __gk as int);
                                lemma_uall_scan_rel(&tb, &table, rels@, subgroup_gens@, *w, c as int);
                            }
                        }
                    }
                    for w in it: subgroup_gens
                        invariant rows_ok(&table), table.nr_gens == nr_gens && table.table@.len() <= 100_000, i < table.table@.len(),
                            all_within(subgroup_gens@, nr_gens as int),
                            it.seq().len() == subgroup_gens@.len(),
                            forall|m: int| 0 <= m < subgroup_gens@.len() ==> *(#[trigger] it.seq()[m]) == subgroup_gens@[m],
                            forall|k: int| 0 <= k < deduced@.len() ==> (#[trigger] deduced@[k]).0 < table.table@.len(),
                            __gk <= __gens@.len(),
                            forall|j: int| 0 <= j < __gens@.len() ==> table.gen_ok(#[trigger] __gens@[j] as int),
                            prog(&table, i as int, __gens@, __gk as int),
                            kinv(&table, Seq::<(int, int)>::empty()), tinv(&table, Seq::<(int, int)>::empty()), uall(&table, rels@, subgroup_gens@),
                    {
                        proof {
                            let m = it.index() as int;
                            assert(*it.seq()[m] == subgroup_gens@[m]);
                            assert(within(subgroup_gens@[m]@, nr_gens as int));
                            assert forall|j: int| 0 <= j < w@.len() implies table.col_ok(#[trigger] w@[j] as int) by { assert(-(nr_gens as int) <= w@[j] <= nr_gens); }
                        }
                        let c = table.canon(0);
                        let ghost d0 = deduced@;
                        let ghost tb = table;
                        let __d = scan_and_connect(&mut table, w, c);
                        __extend_opt(&mut deduced, __d);
                        proof {
                            assert forall|k: int| 0 <= k < deduced@.len() implies (#[trigger] deduced@[k]).0 < table.table@.len() by { if k < d0.len() { assert(deduced@[k] == d0[k]); } }
                            lemma_prog_grows(&tb, &table, i as int, __gens@, __gk as int);
                            lemma_uall_scan_sub(&tb, &table, rels@, subgroup_gens@, it.index() as int, c as int);
                        }
                    }
                }
            }
            proof {
                // defined before, or just defined by the join above and kept by everything after it
                assert(prog(&table, i as int, __gens@, __gk as int)) by {
                    if canonical(&table, i as int) {
                        assert(table.raw(i as int, g as int) >= 0);
                        assert forall|j: int| 0 <= j < __gk implies table.raw(i as int, #[trigger] __gens@[j] as int) >= 0 by { if j == __gk - 1 { assert(__gens@[j] == g); } }
                    }
                }
            }
        }
        proof {
            // the generator loop ran to its end (or row i is no longer live): row i is complete
            assert forall|k: int| 0 <= k < __i && #[trigger] canonical(&table, k) implies row_complete(&table, k) by { }
        }
    }

    // All rows are complete now, but deductions made while scanning were never
    // scanned themselves, so a relator may still fail to close (a coincidence
    // that was not discovered).  Check every relator at every live row and
    // merge until the table is consistent.
    loop
        invariant_except_break rows_ok(&table), table.nr_gens == nr_gens && table.table@.len() <= 100_000, all_complete(&table), kinv(&table, Seq::<(int, int)>::empty()), tinv(&table, Seq::<(int, int)>::empty()), uall(&table, rels@, subgroup_gens@),
            all_within(subgroup_gens@, nr_gens as int),
            forall|u: FreeWord| #[trigger] rels@.contains(u) ==> within(u@, nr_gens as int),
        ensures rows_ok(&table), table.nr_gens == nr_gens && table.table@.len() <= 100_000, all_complete(&table), kinv(&table, Seq::<(int, int)>::empty()), tinv(&table, Seq::<(int, int)>::empty()), uall(&table, rels@, subgroup_gens@),
            // the last pass found every due word closing at every row, and changed nothing
            pass_done(&table, rels@, subgroup_gens@, table.table@.len() as int),
    {
        let mut changed = false;

        for i in iti: 0..table.len()
            invariant rows_ok(&table), table.nr_gens == nr_gens && table.table@.len() <= 100_000, all_complete(&table), kinv(&table, Seq::<(int, int)>::empty()), tinv(&table, Seq::<(int, int)>::empty()), uall(&table, rels@, subgroup_gens@),
                iti.seq().len() == table.table@.len(),
                all_within(subgroup_gens@, nr_gens as int),
                forall|u: FreeWord| #[trigger] rels@.contains(u) ==> within(u@, nr_gens as int),
                !changed ==> pass_done(&table, rels@, subgroup_gens@, i as int),
        {
            for w in it: __words_at(&rels, subgroup_gens, i)
                invariant rows_ok(&table), table.nr_gens == nr_gens && table.table@.len() <= 100_000, all_complete(&table), kinv(&table, Seq::<(int, int)>::empty()), tinv(&table, Seq::<(int, int)>::empty()), uall(&table, rels@, subgroup_gens@), i < table.table@.len(), iti.seq().len() == table.table@.len(),
                    all_within(subgroup_gens@, nr_gens as int),
                    forall|u: FreeWord| #[trigger] rels@.contains(u) ==> within(u@, nr_gens as int),
                    forall|j: int| 0 <= j < it.seq().len() ==> rels@.contains(*#[trigger] it.seq()[j]) || (i == 0 && is_sub(subgroup_gens@, *it.seq()[j])),
                    forall|u: FreeWord| #[trigger] rels@.contains(u) ==> listed(it.seq(), u),
                    i == 0 ==> forall|m: int| 0 <= m < subgroup_gens@.len() ==> listed(it.seq(), #[trigger] subgroup_gens@[m]),
                    !changed ==> pass_done(&table, rels@, subgroup_gens@, i as int),
                    !changed ==> forall|j: int| 0 <= j < it.index() ==> closes(&table, (*#[trigger] it.seq()[j])@, table.part.rep(i as int)),
                    !changed && it.index() == it.seq().len() ==> row_done(&table, rels@, subgroup_gens@, i as int),
            {
                let ghost idx = it.index() as int;
                proof {
                    assert(rels@.contains(*it.seq()[idx]) || (i == 0 && is_sub(subgroup_gens@, *it.seq()[idx])));
                    if !rels@.contains(*it.seq()[idx]) {
                        let m = choose|m: int| 0 <= m < subgroup_gens@.len() && #[trigger] subgroup_gens@[m] == *it.seq()[idx];
                        assert(within(subgroup_gens@[m]@, nr_gens as int));
                    }
                    assert(within(w@, nr_gens as int));
                    assert forall|j: int| 0 <= j < w@.len() implies table.col_ok(#[trigger] w@[j] as int) by { assert(-(nr_gens as int) <= w@[j] <= nr_gens); }
                }
                let c = table.canon(i);
                let (head, tail, gap, _) = scan_both_ways(&table, w, c);
                if gap == 0 && head != tail {
                    let ghost tb = table;
                    table.merge(head, tail);
                    changed = true;
                    proof {
                        lemma_all_complete_grows(&tb, &table);
                        w.lemma_reduced();
                        lemma_uall_merge(&tb, &table, rels@, subgroup_gens@, *w, i as int, c as int, (head, tail, gap, 0isize));
                    }
                }
                proof {
                    assert(!changed && idx + 1 == it.seq().len() ==> row_done(&table, rels@, subgroup_gens@, i as int)) by {
                        assert forall|u: FreeWord| !changed && idx + 1 == it.seq().len() && #[trigger] due_at(rels@, subgroup_gens@, i as int, u) implies closes(&table, u@, table.part.rep(i as int)) by {
                            if rels@.contains(u) { assert(listed(it.seq(), u)); }
                            else { let m = choose|m: int| 0 <= m < subgroup_gens@.len() && #[trigger] subgroup_gens@[m] == u; assert(listed(it.seq(), subgroup_gens@[m])); }
                            let j = choose|j: int| 0 <= j < it.seq().len() && *#[trigger] it.seq()[j] == u;
                            assert(closes(&table, (*it.seq()[j])@, table.part.rep(i as int)));
                        }
                    }
                }
            }
            proof {
                if !changed {
                    assert(row_done(&table, rels@, subgroup_gens@, i as int));
                    assert forall|i2: int, u: FreeWord| 0 <= i2 < i + 1 && #[trigger] due_at(rels@, subgroup_gens@, i2, u) implies closes(&table, u@, table.part.rep(i2)) by { }
                }
            }
        }

        if !changed {
            break;
        }
    }

    proof { lemma_kinv_inverse(&table); lemma_tinv_reach(&table); }
    let __r = table.compact();
    proof {
        let nw = choose|nw: Seq<int>| compacted(&table, &__r, nw);
        assert(complete_table(&__r));
        assert(valid(&__r));
        assert(transitive(&__r));
        assert forall|act: spec_fn(int, int) -> int, x0: int| #[trigger] umodel(nr_gens as int, relators@, subgroup_gens@, act, x0) implies uinv(&__r, Seq::<(int, int)>::empty(), act, x0) by {
            // a model of the relators is a model of all their rotations and inverses
            assert(emodel(table.nr_gens as int, rels@, subgroup_gens@, act, x0)) by {
                assert forall|u: FreeWord| #[trigger] rels@.contains(u) implies triv(act, u@) by { }
            }
            assert(uinv(&table, Seq::<(int, int)>::empty(), act, x0));
        }
        assert forall|m: int, r: int| 0 <= m < relators@.len() && 0 <= r < __r.table@.len() implies #[trigger] trace(&__r, r, relators@[m]@) == Some(r as usize) by {
            assert(is_row(&__r, r));
            let k = choose|k: int| canonical(&table, k) && #[trigger] nw[k] == r;
            assert(has_view(rels@, relators@[m]@));
            let u = choose|u: FreeWord| #[trigger] rels@.contains(u) && u@ == relators@[m]@;
            assert(due_at(rels@, subgroup_gens@, k, u));
            assert(closes(&table, u@, table.part.rep(k)));
            u.lemma_reduced();
            assert(within(u@, nr_gens as int));
            assert forall|j: int| 0 <= j < u@.len() implies table.col_ok(#[trigger] u@[j] as int) by { assert(-(nr_gens as int) <= u@[j] <= nr_gens); }
            assert(cols_ok(&__r, u@)) by { assert forall|j: int| 0 <= j < u@.len() implies __r.col_ok(#[trigger] u@[j] as int) by { assert(table.col_ok(u@[j] as int)); } }
            lemma_gens_ok(&table, u@);
            lemma_transport(&table, &__r, nw, k, u@);
            lemma_trace_total(&__r, r, u@);
            if trace(&table, k, u@).is_some() {
                let x = trace(&table, k, u@).unwrap() as int;
                assert(x == k);
            }
        }
        assert forall|m: int| 0 <= m < subgroup_gens@.len() implies trace(&__r, 0, (#[trigger] subgroup_gens@[m])@) == Some(0usize) by {
            let k = table.part.rep(0);
            assert(0 <= k < table.table@.len());
            assert(table.part.rep(table.part.rep(0)) == table.part.rep(0));
            assert(canonical(&table, k));
            let u = subgroup_gens@[m];
            assert(is_sub(subgroup_gens@, u));
            assert(due_at(rels@, subgroup_gens@, 0, u));
            assert(closes(&table, u@, table.part.rep(0)));
            u.lemma_reduced();
            assert(within(u@, nr_gens as int));
            assert forall|j: int| 0 <= j < u@.len() implies table.col_ok(#[trigger] u@[j] as int) by { assert(-(nr_gens as int) <= u@[j] <= nr_gens); }
            assert(cols_ok(&__r, u@)) by { assert forall|j: int| 0 <= j < u@.len() implies __r.col_ok(#[trigger] u@[j] as int) by { assert(table.col_ok(u@[j] as int)); } }
            lemma_gens_ok(&table, u@);
            lemma_transport(&table, &__r, nw, k, u@);
            lemma_trace_total(&__r, 0, u@);
        }
    }
    __r
}
//@ end


// =====================================================================================================
// C13 (third sentence): "The intersection table is the orbit of the pair of base rows in the product action, so a word fixes its
// row 0 exactly when it fixes row 0 of both inputs."
// =====================================================================================================
// pa pairs every row of t with a row of ta and a row of tb: row 0 with (0, 0), injectively, and compatibly with every generator
pub open spec fn pairing(ta: &CosetTable, tb: &CosetTable, t: &CosetTable, pa: Seq<(int, int)>) -> bool {
    &&& pa.len() == t.table@.len() && pa[0] == (0int, 0int)
    &&& forall|r: int| 0 <= r < pa.len() ==> 0 <= (#[trigger] pa[r]).0 < ta.table@.len() && 0 <= pa[r].1 < tb.table@.len()
    &&& forall|r1: int, r2: int| 0 <= r1 < pa.len() && 0 <= r2 < pa.len() && #[trigger] pa[r1] == #[trigger] pa[r2] ==> r1 == r2
    &&& forall|r: int, g: int| 0 <= r < pa.len() && t.gen_ok(g) ==>
            (#[trigger] t.act(r, g)).is_some() && t.act(r, g).unwrap() < pa.len()
            && pa[t.act(r, g).unwrap() as int] == (ta.act(pa[r].0, g).unwrap() as int, tb.act(pa[r].1, g).unwrap() as int)
}

// the loop state of intersection_table
pub open spec fn ix_state(ta: &CosetTable, tb: &CosetTable, t: &CosetTable, o2n: Seq<Vec<isize>>, n2o: Seq<(usize, usize)>) -> bool {
    &&& rows_ok(t) && t.nr_gens == ta.nr_gens && n2o.len() == t.table@.len() && n2o[0] == (0usize, 0usize)
    &&& forall|x: int| #[trigger] t.part.rep(x) == x
    &&& o2n.len() == ta.table@.len() && forall|a: int| 0 <= a < o2n.len() ==> (#[trigger] o2n[a])@.len() == tb.table@.len()
    &&& forall|k: int| 0 <= k < n2o.len() ==> (#[trigger] n2o[k]).0 < ta.table@.len() && n2o[k].1 < tb.table@.len() && o2n[n2o[k].0 as int]@[n2o[k].1 as int] == k
    &&& forall|a: int, b: int| 0 <= a < ta.table@.len() && 0 <= b < tb.table@.len() ==>
            -1 <= (#[trigger] o2n[a]@[b]) < n2o.len() && (o2n[a]@[b] >= 0 ==> n2o[o2n[a]@[b] as int] == (a as usize, b as usize))
    // every defined entry is the right one
    &&& forall|k: int, g: int| 0 <= k < n2o.len() && t.gen_ok(g) && #[trigger] t.raw(k, g) >= 0 ==>
            n2o[t.raw(k, g)] == (ta.act(n2o[k].0 as int, g).unwrap(), tb.act(n2o[k].1 as int, g).unwrap())
}

// the rows are pairwise different pairs, so there are at most |ta| * |tb| of them
proof fn lemma_pairs_bound(na: int, nb: int, o2n: Seq<Vec<isize>>, n2o: Seq<(usize, usize)>)
    requires na >= 1, nb >= 1, o2n.len() == na, forall|a: int| 0 <= a < na ==> (#[trigger] o2n[a])@.len() == nb,
        forall|k: int| 0 <= k < n2o.len() ==> (#[trigger] n2o[k]).0 < na && n2o[k].1 < nb && o2n[n2o[k].0 as int]@[n2o[k].1 as int] == k,
    ensures n2o.len() <= na * nb
{
    // the injection k |-> a * nb + b into 1..=na*nb
    let s = Seq::new(n2o.len(), |k: int| n2o[k].0 as int * nb + n2o[k].1 as int + 1);
    assert forall|k: int| 0 <= k < s.len() implies 1 <= #[trigger] s[k] <= na * nb by {
        let a = n2o[k].0 as int; let b = n2o[k].1 as int;
        assert(a * nb + b + 1 <= na * nb) by(nonlinear_arith) requires 0 <= a < na, 0 <= b < nb;
        assert(a * nb >= 0) by(nonlinear_arith) requires a >= 0, nb >= 1;
    }
    assert forall|x: int, y: int| 0 <= x < y < s.len() implies s[x] != s[y] by {
        let a1 = n2o[x].0 as int; let b1 = n2o[x].1 as int; let a2 = n2o[y].0 as int; let b2 = n2o[y].1 as int;
        if s[x] == s[y] {
            assert(a1 == a2 && b1 == b2) by(nonlinear_arith) requires a1 * nb + b1 == a2 * nb + b2, 0 <= b1 < nb, 0 <= b2 < nb, a1 >= 0, a2 >= 0;
            assert(o2n[a1]@[b1] == x && o2n[a2]@[b2] == y);
        }
    }
    lemma_pigeon_int(s, na * nb);
}
// pigeonhole: a duplicate-free sequence of values in 1..=n has length <= n
proof fn lemma_pigeon_int(s: Seq<int>, n: int)
    requires n >= 0, forall|k: int| 0 <= k < s.len() ==> 1 <= #[trigger] s[k] <= n,
        forall|a: int, b: int| 0 <= a < b < s.len() ==> s[a] != s[b],
    ensures s.len() <= n
    decreases n
{
    if s.len() == 0 {
    } else if n == 0 {
        assert(1 <= s[0] <= 0);
    } else {
        if exists|p: int| 0 <= p < s.len() && s[p] == n {
            let p = choose|p: int| 0 <= p < s.len() && s[p] == n;
            let t = s.remove(p);
            assert forall|k: int| 0 <= k < t.len() implies 1 <= #[trigger] t[k] <= n - 1 by {
                if k < p { assert(t[k] == s[k]); assert(s[k] != s[p]); } else { assert(t[k] == s[k + 1]); assert(s[p] != s[k + 1]); }
            }
            assert forall|a: int, b: int| 0 <= a < b < t.len() implies t[a] != t[b] by {
                let a2 = if a < p { a } else { a + 1 };
                let b2 = if b < p { b } else { b + 1 };
                assert(t[a] == s[a2] && t[b] == s[b2]);
            }
            lemma_pigeon_int(t, n - 1);
        } else {
            assert forall|k: int| 0 <= k < s.len() implies 1 <= #[trigger] s[k] <= n - 1 by { }
            lemma_pigeon_int(s, n - 1);
        }
    }
}

// one step of intersection_table: the pair (ag, bg) = (a.g, b.g) of row i is numbered (if it was not) and row i is joined to it
proof fn lemma_ix_join(ta: &CosetTable, tb: &CosetTable, t0: &CosetTable, t1: &CosetTable, o0: Seq<Vec<isize>>, m0: Seq<(usize, usize)>,
                       o1: Seq<Vec<isize>>, m1s: Seq<(usize, usize)>, i: int, ag: usize, bg: usize, g: int)
    requires valid(ta), valid(tb), ta.nr_gens == tb.nr_gens, ix_state(ta, tb, t0, o0, m0), 0 <= i < t0.table@.len(), t0.gen_ok(g),
        ag == ta.act(m0[i].0 as int, g).unwrap(), bg == tb.act(m0[i].1 as int, g).unwrap(),
        o0[ag as int]@[bg as int] >= 0 ==> o1 == o0 && m1s == m0,
        o0[ag as int]@[bg as int] < 0 ==> m1s == m0.push((ag, bg)) && o1.len() == o0.len() && o1[ag as int]@ == o0[ag as int]@.update(bg as int, t0.table@.len() as isize)
            && forall|a: int| 0 <= a < o0.len() && a != ag ==> #[trigger] o1[a] == o0[a],
        ta.table@.len() * tb.table@.len() <= isize::MAX / 2,
        // the join
        t1.nr_gens == t0.nr_gens, t1.part == t0.part, t1.wf(),
        ({ let n = o1[ag as int]@[bg as int] as int;
           &&& t1.raw(i, g) == n && t1.raw(n, -g) == i
           &&& t1.table@.len() == (if n < t0.table@.len() { t0.table@.len() as int } else { n + 1 })
           &&& forall|c2: int, g2: int| 0 <= c2 < t1.table@.len() && t0.col_ok(g2) && !(c2 == i && g2 == g) && !(c2 == n && g2 == -g)
                ==> #[trigger] t1.raw(c2, g2) == (if c2 < t0.table@.len() { t0.raw(c2, g2) } else { -1 }) }),
    ensures ix_state(ta, tb, t1, o1, m1s)
{
    let len0 = t0.table@.len() as int;
    let n = o1[ag as int]@[bg as int] as int;
    let a = m0[i].0 as int; let b = m0[i].1 as int;
    assert(a < ta.table@.len() && b < tb.table@.len());
    assert(ta.act(a, g).is_some() && ta.act(a, g).unwrap() < ta.table@.len() && ta.act(ta.act(a, g).unwrap() as int, -g) == Some(a as usize));
    assert(tb.act(b, g).is_some() && tb.act(b, g).unwrap() < tb.table@.len() && tb.act(tb.act(b, g).unwrap() as int, -g) == Some(b as usize));
    assert(-1 <= o0[ag as int]@[bg as int] < m0.len());
    if o0[ag as int]@[bg as int] >= 0 { assert(n == o0[ag as int]@[bg as int] && m0[n] == (ag, bg)); } else { assert(n == len0 && m1s[n] == (ag, bg)); }
    assert(m1s[n] == (ag, bg));
    // numbering facts
    assert forall|k: int| 0 <= k < m1s.len() implies (#[trigger] m1s[k]).0 < ta.table@.len() && m1s[k].1 < tb.table@.len() && o1[m1s[k].0 as int]@[m1s[k].1 as int] == k by {
        if k < m0.len() {
            assert(m1s[k] == m0[k]);
            assert(o0[m0[k].0 as int]@[m0[k].1 as int] == k);
            if o0[ag as int]@[bg as int] < 0 && m0[k].0 == ag { assert(!(m0[k].1 == bg)); }
        }
    }
    assert forall|x: int, y: int| 0 <= x < ta.table@.len() && 0 <= y < tb.table@.len() implies
        -1 <= (#[trigger] o1[x]@[y]) < m1s.len() && (o1[x]@[y] >= 0 ==> m1s[o1[x]@[y] as int] == (x as usize, y as usize)) by {
        assert(-1 <= o0[x]@[y] < m0.len() && (o0[x]@[y] >= 0 ==> m0[o0[x]@[y] as int] == (x as usize, y as usize)));
        if o0[ag as int]@[bg as int] < 0 { if x == ag && y == bg { } else if x == ag { assert(o1[x]@[y] == o0[x]@[y]); } else { assert(o1[x] == o0[x]); } }
    }
    assert forall|x: int| 0 <= x < o1.len() implies (#[trigger] o1[x])@.len() == tb.table@.len() by { assert(o0[x]@.len() == tb.table@.len()); if o0[ag as int]@[bg as int] < 0 && x != ag { assert(o1[x] == o0[x]); } }
    lemma_pairs_bound(ta.table@.len() as int, tb.table@.len() as int, o1, m1s);
    // the table
    assert(rows_ok(t1)) by {
        assert forall|c2: int, g2: int| 0 <= c2 < t1.table@.len() && t1.col_ok(g2) implies -1 <= #[trigger] t1.raw(c2, g2) < t1.table@.len() by {
            if !(c2 == i && g2 == g) && !(c2 == n && g2 == -g) { assert(t1.raw(c2, g2) == (if c2 < len0 { t0.raw(c2, g2) } else { -1 })); if c2 < len0 { assert(-1 <= t0.raw(c2, g2) < len0); } }
        }
        assert forall|x: int| 0 <= x < t1.table@.len() implies 0 <= #[trigger] t1.part.rep(x) < t1.table@.len() by { assert(t0.part.rep(x) == x); }
        assert forall|x: int| #[trigger] t1.part.rep(t1.part.rep(x)) == t1.part.rep(x) by { assert(t0.part.rep(x) == x); assert(t0.part.rep(t0.part.rep(x)) == t0.part.rep(x)); }
        assert forall|x: int| !(0 <= x < t1.table@.len()) implies #[trigger] t1.part.rep(x) == x by { assert(t0.part.rep(x) == x); }
    }
    assert forall|x: int| #[trigger] t1.part.rep(x) == x by { assert(t0.part.rep(x) == x); }
    // every defined entry is the right one
    assert forall|k: int, h: int| 0 <= k < m1s.len() && t1.gen_ok(h) && #[trigger] t1.raw(k, h) >= 0 implies
        m1s[t1.raw(k, h)] == (ta.act(m1s[k].0 as int, h).unwrap(), tb.act(m1s[k].1 as int, h).unwrap()) by {
        if k == i && h == g {
            assert(m1s[i] == m0[i]);
        } else if k == n && h == -g {
            assert(m1s[i] == m0[i]);
            assert(ta.gen_ok(g) && tb.gen_ok(g));
        } else {
            assert(t1.raw(k, h) == (if k < len0 { t0.raw(k, h) } else { -1 }));
            assert(k < len0);
            assert(m0[t0.raw(k, h)] == (ta.act(m0[k].0 as int, h).unwrap(), tb.act(m0[k].1 as int, h).unwrap()));
            assert(-1 <= t0.raw(k, h) < len0);
            assert(m1s[k] == m0[k] && m1s[t0.raw(k, h)] == m0[t0.raw(k, h)]);
        }
    }
}

proof fn lemma_ix_final(ta: &CosetTable, tb: &CosetTable, t: &CosetTable, o2n: Seq<Vec<isize>>, n2o: Seq<(usize, usize)>)
    requires valid(ta), valid(tb), ta.nr_gens == tb.nr_gens, ix_state(ta, tb, t, o2n, n2o), forall|k: int| 0 <= k < t.table@.len() ==> #[trigger] row_complete(t, k)
    ensures all_complete(t), inv_consistent(t)
{
    assert forall|k: int| #[trigger] canonical(t, k) implies row_complete(t, k) by { }
    assert forall|k: int, g: int| canonical(t, k) && t.gen_ok(g) && (#[trigger] t.act(k, g)).is_some() implies t.act(t.act(k, g).unwrap() as int, -g) == Some(k as usize) by {
        let c = t.raw(k, g);
        assert(-1 <= c < t.table@.len());
        assert(t.part.rep(c) == c);
        assert(row_complete(t, c));
        assert(t.gen_ok(-g));
        let m = t.raw(c, -g);
        assert(m >= 0 && -1 <= m < t.table@.len());
        assert(t.part.rep(m) == m);
        let a = n2o[k].0 as int; let b = n2o[k].1 as int;
        assert(n2o[c] == (ta.act(a, g).unwrap(), tb.act(b, g).unwrap()));
        assert(n2o[m] == (ta.act(n2o[c].0 as int, -g).unwrap(), tb.act(n2o[c].1 as int, -g).unwrap()));
        assert(ta.gen_ok(g) && tb.gen_ok(g));
        assert(ta.act(ta.act(a, g).unwrap() as int, -g) == Some(a as usize));
        assert(tb.act(tb.act(b, g).unwrap() as int, -g) == Some(b as usize));
        assert(n2o[m] == n2o[k]);
        assert(o2n[n2o[m].0 as int]@[n2o[m].1 as int] == m && o2n[n2o[k].0 as int]@[n2o[k].1 as int] == k);
    }
}

proof fn lemma_ix_pairing(ta: &CosetTable, tb: &CosetTable, t: &CosetTable, r: &CosetTable, nw: Seq<int>, o2n: Seq<Vec<isize>>, n2o: Seq<(usize, usize)>)
    requires valid(ta), valid(tb), ta.nr_gens == tb.nr_gens, ix_state(ta, tb, t, o2n, n2o), forall|k: int| 0 <= k < t.table@.len() ==> #[trigger] row_complete(t, k),
        compacted(t, r, nw), n2o[0] == (0usize, 0usize),
    ensures exists|pa: Seq<(int, int)>| pairing(ta, tb, r, pa)
{
    let back = |x: int| choose|k: int| canonical(t, k) && #[trigger] nw[k] == x;
    let pa = Seq::new(r.table@.len(), |x: int| (n2o[back(x)].0 as int, n2o[back(x)].1 as int));
    assert forall|x: int| 0 <= x < r.table@.len() implies canonical(t, #[trigger] back(x)) && nw[back(x)] == x by { assert(is_row(r, x)); }
    assert(canonical(t, 0)) by { assert(t.part.rep(0) == 0); }
    assert(back(0) == 0) by { assert(nw[t.part.rep(0)] == 0); }
    assert forall|x: int| 0 <= x < pa.len() implies 0 <= (#[trigger] pa[x]).0 < ta.table@.len() && 0 <= pa[x].1 < tb.table@.len() by { assert(canonical(t, back(x))); }
    assert forall|r1: int, r2: int| 0 <= r1 < pa.len() && 0 <= r2 < pa.len() && #[trigger] pa[r1] == #[trigger] pa[r2] implies r1 == r2 by {
        let k1 = back(r1); let k2 = back(r2);
        assert(canonical(t, k1) && canonical(t, k2));
        assert(n2o[k1] == n2o[k2]);
        assert(o2n[n2o[k1].0 as int]@[n2o[k1].1 as int] == k1 && o2n[n2o[k2].0 as int]@[n2o[k2].1 as int] == k2);
    }
    assert forall|x: int, g: int| 0 <= x < pa.len() && r.gen_ok(g) implies
        (#[trigger] r.act(x, g)).is_some() && r.act(x, g).unwrap() < pa.len()
        && pa[r.act(x, g).unwrap() as int] == (ta.act(pa[x].0, g).unwrap() as int, tb.act(pa[x].1, g).unwrap() as int) by {
        let k = back(x);
        assert(canonical(t, k));
        assert(t.gen_ok(g));
        assert(r.act(nw[k], g) == (match t.act(k, g) { Some(c) => Some(nw[c as int] as usize), None => None }));
        assert(row_complete(t, k));
        assert(t.raw(k, g) >= 0);
        lemma_act_in_range(t, k, g);
        let c = t.act(k, g).unwrap() as int;
        assert(c == t.raw(k, g)) by { assert(t.part.rep(t.raw(k, g)) == t.raw(k, g)); }
        assert(canonical(t, c));
        // the row nw[c] of r exists: its g^-1 entry is set
        assert(row_complete(t, c));
        assert(t.gen_ok(-g));
        assert(t.raw(c, -g) >= 0);
        lemma_compacted_row(t, r, nw, c, -g);
        let y = nw[c];
        assert(0 <= y < r.table@.len());
        assert(is_row(r, y));
        let k2 = back(y);
        assert(canonical(t, k2) && nw[k2] == nw[c]);
        assert(k2 == c);
    }
    assert(pa[0] == (0int, 0int));
    assert(pairing(ta, tb, r, pa));
}

// a live complete row has a row in the compacted table
proof fn lemma_compacted_row(t: &CosetTable, r: &CosetTable, nw: Seq<int>, c: int, g: int)
    requires rows_ok(t), compacted(t, r, nw), canonical(t, c), t.gen_ok(g), t.raw(c, g) >= 0
    ensures 0 <= nw[c] < r.table@.len()
{
    lemma_act_in_range(t, c, g);
    assert(r.act(nw[c], g) == (match t.act(c, g) { Some(c2) => Some(nw[c2 as int] as usize), None => None }));
    assert(r.act(nw[c], g).is_some());
}

//@ begin src/fpgroups/cosets.rs :: - :: fn intersection_table | props=C13
//@ rw R16 /-> CosetTable$/-> (result: CosetTable)/
//@ rw R12 /let mut n2o = vec!\[\];/let mut n2o: Vec<(usize, usize)> = vec![];/
//@ rw R19 /for i in 0\.\.\n([ \t]*)\{/let mut __i: usize = 0;\n\1loop\n\1{\n\1    let i = __i; __i += 1;/?
//@ rw R19 /for i in 0\.\.([A-Za-z0-9_]+)\n([ \t]*)\{/let mut __i: usize = 0;\n\2loop\n\2{\n\2    if __i >= \1 { break; }\n\2    let i = __i; __i += 1;/?
//@ rw R17 /for g in table\.all_gens\(\)$/for g in it: table.all_gens()/
//@ rw R14 /^([ \t]*)table\.compact\(\)$/\1let __r = table.compact();\n\1__r/
#[verifier::spinoff_prover]
#[verifier::exec_allows_no_decreases_clause]
pub fn intersection_table(ta: &CosetTable, tb: &CosetTable) -> (result: CosetTable)
    requires valid(ta), valid(tb), ta.nr_gens == tb.nr_gens, ta.table@.len() * tb.table@.len() <= isize::MAX / 2,
    ensures valid(&result), result.nr_gens == ta.nr_gens, exists|pa: Seq<(int, int)>| pairing(ta, tb, &result, pa),
{
    assert_eq!(ta.nr_gens, tb.nr_gens);

    let mut table = CosetTable::new(ta.nr_gens);
    let mut o2n = vec![vec![-1; tb.len()]; ta.len()];
    let mut n2o: Vec<(usize, usize)> = vec![];

    o2n[0][0] = 0;
    n2o.push((0, 0));
    proof {
        assert(ix_state(ta, tb, &table, o2n@, n2o@)) by {
            assert forall|k: int, g: int| 0 <= k < n2o@.len() && table.gen_ok(g) && #[trigger] table.raw(k, g) >= 0 implies
                n2o@[table.raw(k, g)] == (ta.act(n2o@[k].0 as int, g).unwrap(), tb.act(n2o@[k].1 as int, g).unwrap()) by { assert(table.raw(0, g) == -1); }
        }
    }

    let mut __i: usize = 0;
    loop
        invariant_except_break __i <= table.table@.len(),
        invariant valid(ta), valid(tb), ta.nr_gens == tb.nr_gens, ta.table@.len() * tb.table@.len() <= isize::MAX / 2,
            ix_state(ta, tb, &table, o2n@, n2o@),
            forall|k: int| 0 <= k < __i && k < table.table@.len() ==> #[trigger] row_complete(&table, k),
        ensures ix_state(ta, tb, &table, o2n@, n2o@), forall|k: int| 0 <= k < table.table@.len() ==> #[trigger] row_complete(&table, k),
    {
        let i = __i; __i += 1;
        if i >= table.len() {
            break;
        }
        let (a, b) = n2o[i];
        for g in it: table.all_gens()
            invariant valid(ta), valid(tb), ta.nr_gens == tb.nr_gens, ta.table@.len() * tb.table@.len() <= isize::MAX / 2,
                ix_state(ta, tb, &table, o2n@, n2o@), i < table.table@.len(), (a, b) == n2o@[i as int],
                forall|k: int| 0 <= k < i ==> #[trigger] row_complete(&table, k),
                it.seq().len() == 2 * table.nr_gens,
                forall|k: int| 0 <= k < it.seq().len() ==> table.gen_ok(#[trigger] it.seq()[k] as int) && gen_index(&table, it.seq()[k] as int) == k,
                forall|h: int| table.gen_ok(h) && gen_index(&table, h) < it.index() ==> #[trigger] table.raw(i as int, h) >= 0,
        {
            let ghost idx = it.index() as int;
            proof { assert(table.gen_ok(it.seq()[idx] as int) && gen_index(&table, it.seq()[idx] as int) == idx); }
            let ag = ta.get(a, g).unwrap();
            let bg = tb.get(b, g).unwrap();
            proof {
                assert(ta.act(a as int, g as int).unwrap() < ta.table@.len() && tb.act(b as int, g as int).unwrap() < tb.table@.len());
                lemma_pairs_bound(ta.table@.len() as int, tb.table@.len() as int, o2n@, n2o@);
            }
            let ghost o0 = o2n@;
            let ghost m0 = n2o@;
            if o2n[ag][bg] < 0 {
                o2n[ag][bg] = table.len() as isize;
                n2o.push((ag, bg));
            }
            let ghost t0 = table;
            let ghost n = o2n@[ag as int]@[bg as int] as int;
            proof {
                assert(-1 <= o0[ag as int]@[bg as int] < m0.len());
                assert(0 <= n <= t0.table@.len());
            }
            table.join(i, o2n[ag][bg] as usize, g);
            proof { lemma_ix_join(ta, tb, &t0, &table, o0, m0, o2n@, n2o@, i as int, ag, bg, g as int); }
            proof {
                assert forall|k: int| 0 <= k < i implies #[trigger] row_complete(&table, k) by {
                    assert(row_complete(&t0, k));
                    assert forall|h: int| table.gen_ok(h) implies #[trigger] table.raw(k, h) >= 0 by { assert(t0.raw(k, h) >= 0); if !(k == n && h == -(g as int)) { assert(table.raw(k, h) == t0.raw(k, h)); } }
                }
                assert forall|h: int| table.gen_ok(h) && gen_index(&table, h) < idx + 1 implies #[trigger] table.raw(i as int, h) >= 0 by {
                    if gen_index(&table, h) < idx { assert(t0.raw(i as int, h) >= 0); if !(i == n && h == -(g as int)) { assert(table.raw(i as int, h) == t0.raw(i as int, h)); } }
                    else { assert(h == g); }
                }
            }
        }
        proof {
            assert(row_complete(&table, i as int)) by { assert forall|h: int| table.gen_ok(h) implies #[trigger] table.raw(i as int, h) >= 0 by { assert(0 <= gen_index(&table, h) < 2 * table.nr_gens); } }
        }
    }

    proof { lemma_ix_final(ta, tb, &table, o2n@, n2o@); }
    let __r = table.compact();
    proof {
        let nw = choose|nw: Seq<int>| compacted(&table, &__r, nw);
        lemma_ix_pairing(ta, tb, &table, &__r, nw, o2n@, n2o@);
    }
    __r
}
//@ end

// along every word the pairing follows the two inputs ...
proof fn lemma_pairing_trace(ta: &CosetTable, tb: &CosetTable, t: &CosetTable, pa: Seq<(int, int)>, x: int, w: Seq<isize>)
    requires valid(ta), valid(tb), t.nr_gens == ta.nr_gens, ta.nr_gens == tb.nr_gens, pairing(ta, tb, t, pa), 0 <= x < pa.len(), gens_ok(t, w),
        t.table@.len() <= usize::MAX, ta.table@.len() <= usize::MAX, tb.table@.len() <= usize::MAX,     // true of every Vec; known in exec code from .len()
    ensures trace(t, x, w).is_some(), trace(t, x, w).unwrap() < pa.len(),
        trace(ta, pa[x].0, w).is_some(), trace(tb, pa[x].1, w).is_some(),
        pa[trace(t, x, w).unwrap() as int] == (trace(ta, pa[x].0, w).unwrap() as int, trace(tb, pa[x].1, w).unwrap() as int)
    decreases w.len()
{
    if w.len() > 0 {
        let w0 = w.drop_last();
        assert(gens_ok(t, w0)) by { assert forall|j: int| 0 <= j < w0.len() implies t.gen_ok(#[trigger] w0[j] as int) by { assert(w0[j] == w[j]); } }
        lemma_pairing_trace(ta, tb, t, pa, x, w0);
        assert(t.gen_ok(w[w.len() - 1] as int));
        let y = trace(t, x, w0).unwrap() as int;
        let g = w.last() as int;
        assert(t.act(y, g).is_some());
        assert(ta.gen_ok(g) && tb.gen_ok(g));
        assert(0 <= pa[y].0 < ta.table@.len() && 0 <= pa[y].1 < tb.table@.len());
        assert(ta.act(pa[y].0, g).is_some() && tb.act(pa[y].1, g).is_some());
        assert(trace(ta, pa[x].0, w0).unwrap() as int == pa[y].0);
        assert(trace(tb, pa[x].1, w0).unwrap() as int == pa[y].1);
        assert(trace(ta, pa[x].0, w) == ta.act(pa[y].0, g));
        assert(trace(tb, pa[x].1, w) == tb.act(pa[y].1, g));
        assert(pa[t.act(y, g).unwrap() as int] == (ta.act(pa[y].0, g).unwrap() as int, tb.act(pa[y].1, g).unwrap() as int));
    } else {
        assert(trace(t, x, w) == Some(x as usize));
        assert((x as usize) as int == x);
        assert(0 <= pa[x].0 < ta.table@.len() && 0 <= pa[x].1 < tb.table@.len());
        assert(trace(ta, pa[x].0, w) == Some(pa[x].0 as usize));
        assert(trace(tb, pa[x].1, w) == Some(pa[x].1 as usize));
        assert(pa[x] == (pa[x].0, pa[x].1));
    }
}

// ... so (C13) "a word fixes its row 0 exactly when it fixes row 0 of both inputs"
pub proof fn lemma_intersection_fixes(ta: &CosetTable, tb: &CosetTable, t: &CosetTable, pa: Seq<(int, int)>, w: Seq<isize>)
    requires valid(ta), valid(tb), t.nr_gens == ta.nr_gens, ta.nr_gens == tb.nr_gens, pairing(ta, tb, t, pa), t.table@.len() >= 1, gens_ok(t, w),
        t.table@.len() <= usize::MAX, ta.table@.len() <= usize::MAX, tb.table@.len() <= usize::MAX,
    ensures (trace(t, 0, w) == Some(0usize)) <==> (trace(ta, 0, w) == Some(0usize) && trace(tb, 0, w) == Some(0usize))
{
    lemma_pairing_trace(ta, tb, t, pa, 0, w);
    let r = trace(t, 0, w).unwrap() as int;
    if trace(ta, 0, w) == Some(0usize) && trace(tb, 0, w) == Some(0usize) { assert(pa[r] == pa[0]); }
}

// =====================================================================================================
// C13: induced_table (the orbit of a start state under an action given by a closure) and core_table
// induced_table is generic in the state type; it is verified at T := Vec<usize> (R4), its only instantiation in the crate (core_table).
// States are compared by their views.  The closure is visible only as the relation img.ensures((x, g), y).
// =====================================================================================================
// HashMap pieces by their std semantics (R5); vstd has no key model for Vec keys, so the maps are seen through uninterpreted views
pub uninterp spec fn oview(m: &HashMap<Vec<usize>, usize>) -> Map<Seq<usize>, usize>;
pub uninterp spec fn nview(m: &HashMap<usize, Vec<usize>>) -> Map<usize, Seq<usize>>;
// HashMap::from([(k, v)])
#[verifier::external_body]
fn __o2n_from1(k: Vec<usize>, v: usize) -> (r: HashMap<Vec<usize>, usize>)
    ensures oview(&r) == Map::<Seq<usize>, usize>::empty().insert(k@, v)
{ HashMap::from([(k, v)]) }
#[verifier::external_body]
fn __n2o_from1(k: usize, v: Vec<usize>) -> (r: HashMap<usize, Vec<usize>>)
    ensures nview(&r) == Map::<usize, Seq<usize>>::empty().insert(k, v@)
{ HashMap::from([(k, v)]) }
// &m[&i]
#[verifier::external_body]
fn __n2o_at<'a>(m: &'a HashMap<usize, Vec<usize>>, i: usize) -> (r: &'a Vec<usize>)
    requires nview(m).contains_key(i)
    ensures r@ == nview(m)[i]
{ &m[&i] }
// *m.entry(k).or_insert(v)
#[verifier::external_body]
fn __entry_or_insert(m: &mut HashMap<Vec<usize>, usize>, k: Vec<usize>, v: usize) -> (r: usize)
    ensures oview(old(m)).contains_key(k@) ==> r == oview(old(m))[k@] && oview(final(m)) == oview(old(m)),
        !oview(old(m)).contains_key(k@) ==> r == v && oview(final(m)) == oview(old(m)).insert(k@, v)
{ *m.entry(k).or_insert(v) }
// m.insert(n, k)
#[verifier::external_body]
fn __n2o_insert(m: &mut HashMap<usize, Vec<usize>>, n: usize, k: Vec<usize>)
    ensures nview(final(m)) == nview(old(m)).insert(n, k@)
{ m.insert(n, k); }
// Rust guarantees that no allocation exceeds isize::MAX bytes; a Vec<isize> header has 24 bytes
#[verifier::external_body]
proof fn lemma_rows_alloc_bound(v: &Vec<Vec<isize>>)
    ensures v@.len() <= isize::MAX / 24
{}

// the closure as a relation on views
pub open spec fn img_call<F: Fn(&Vec<usize>, isize) -> Vec<usize>>(img: &F, s: Seq<usize>, g: isize, r: Seq<usize>) -> bool {
    exists|x: Vec<usize>, y: Vec<usize>| #[trigger] img.ensures((&x, g), y) && x@ == s && y@ == r
}
// a state the enumeration can meet: the start state or something the closure returned
pub open spec fn st_ok<F: Fn(&Vec<usize>, isize) -> Vec<usize>>(img: &F, start: Seq<usize>, s: Seq<usize>) -> bool {
    s == start || exists|x: Vec<usize>, g: isize, y: Vec<usize>| #[trigger] img.ensures((&x, g), y) && y@ == s
}
// what induced_table needs of the closure: callable on every such state, a function on views, and the inverse generator undoes the generator
pub open spec fn is_gen(g: isize, ngens: int) -> bool { g != 0 && -ngens <= g <= ngens }
pub open spec fn img_pre<F: Fn(&Vec<usize>, isize) -> Vec<usize>>(img: &F, start: Seq<usize>, ngens: int) -> bool {
    &&& forall|x: Vec<usize>, g: isize| #![trigger img.requires((&x, g))] st_ok(img, start, x@) && is_gen(g, ngens) ==> img.requires((&x, g))
    &&& forall|x1: Vec<usize>, x2: Vec<usize>, g: isize, y1: Vec<usize>, y2: Vec<usize>| #![trigger img.ensures((&x1, g), y1), img.ensures((&x2, g), y2)]
            st_ok(img, start, x1@) && is_gen(g, ngens) && img.ensures((&x1, g), y1) && img.ensures((&x2, g), y2) && x1@ == x2@ ==> y1@ == y2@
    &&& forall|x: Vec<usize>, g: isize, y: Vec<usize>, y2: Vec<usize>, h: isize, z: Vec<usize>| #![trigger img.ensures((&x, g), y), img.ensures((&y2, h), z)]
            st_ok(img, start, x@) && is_gen(g, ngens) && img.ensures((&x, g), y) && img.ensures((&y2, h), z) && y2@ == y@ && h as int == -(g as int) ==> z@ == x@
}

// the loop state of induced_table
pub open spec fn ind_state<F: Fn(&Vec<usize>, isize) -> Vec<usize>>(img: &F, t: &CosetTable, o2n: Map<Seq<usize>, usize>, n2o: Map<usize, Seq<usize>>, start: Seq<usize>) -> bool {
    &&& rows_ok(t) && t.table@.len() <= isize::MAX / 24
    &&& forall|x: int| #[trigger] t.part.rep(x) == x
    &&& forall|k: usize| #[trigger] n2o.contains_key(k) <==> k < t.table@.len()
    &&& n2o[0usize] == start
    &&& forall|k: usize| k < t.table@.len() ==> st_ok(img, start, #[trigger] n2o[k]) && o2n.contains_key(n2o[k]) && o2n[n2o[k]] == k
    &&& forall|s: Seq<usize>| #[trigger] o2n.contains_key(s) ==> o2n[s] < t.table@.len() && n2o[o2n[s]] == s
    // every defined entry is the right one: whatever the closure returns on the state of row k and generator g is the state of that row
    &&& forall|k: int, g: int, x: Vec<usize>, y: Vec<usize>| #![trigger t.raw(k, g), img.ensures((&x, g as isize), y)]
            0 <= k < t.table@.len() && t.gen_ok(g) && t.raw(k, g) >= 0 && x@ == n2o[k as usize] && img.ensures((&x, g as isize), y)
            ==> y@ == n2o[t.raw(k, g) as usize]
}

// the closure has been called on the state of row k with generator g
pub open spec fn called<F: Fn(&Vec<usize>, isize) -> Vec<usize>>(img: &F, n2o: Map<usize, Seq<usize>>, k: int, g: int) -> bool {
    exists|x: Vec<usize>, y: Vec<usize>| #[trigger] img.ensures((&x, g as isize), y) && x@ == n2o[k as usize]
}

// pa gives every row of r its state: row 0 the start state, injectively, and compatibly with the closure
pub open spec fn ind_pairing<F: Fn(&Vec<usize>, isize) -> Vec<usize>>(img: &F, r: &CosetTable, start: Seq<usize>, pa: Seq<Seq<usize>>) -> bool {
    &&& pa.len() == r.table@.len() && pa[0] == start
    &&& forall|x: int| 0 <= x < pa.len() ==> st_ok(img, start, #[trigger] pa[x])
    &&& forall|r1: int, r2: int| 0 <= r1 < pa.len() && 0 <= r2 < pa.len() && #[trigger] pa[r1] == #[trigger] pa[r2] ==> r1 == r2
    &&& forall|x: int, g: int| 0 <= x < pa.len() && r.gen_ok(g) ==>
            (#[trigger] r.act(x, g)).is_some() && r.act(x, g).unwrap() < pa.len() && img_call(img, pa[x], g as isize, pa[r.act(x, g).unwrap() as int])
}

proof fn lemma_ind_join<F: Fn(&Vec<usize>, isize) -> Vec<usize>>(img: &F, t0: &CosetTable, t1: &CosetTable, o0: Map<Seq<usize>, usize>, m0: Map<usize, Seq<usize>>,
                        o1: Map<Seq<usize>, usize>, m1s: Map<usize, Seq<usize>>, start: Seq<usize>, i: int, g: isize, xi: Vec<usize>, k: Vec<usize>, n: int)
    requires img_pre(img, start, t0.nr_gens as int), ind_state(img, t0, o0, m0, start), 0 <= i < t0.table@.len(), t0.gen_ok(g as int),
        xi@ == m0[i as usize], img.ensures((&xi, g), k),
        o0.contains_key(k@) ==> n == o0[k@] && o1 == o0,
        !o0.contains_key(k@) ==> n == t0.table@.len() && o1 == o0.insert(k@, n as usize),
        m1s == m0.insert(n as usize, k@),
        // the join
        t1.nr_gens == t0.nr_gens, t1.part == t0.part, t1.wf(),
        t1.raw(i, g as int) == n && t1.raw(n, -(g as int)) == i,
        t1.table@.len() == (if n < t0.table@.len() { t0.table@.len() as int } else { n + 1 }),
        t1.table@.len() <= isize::MAX / 24,
        forall|c2: int, g2: int| 0 <= c2 < t1.table@.len() && t0.col_ok(g2) && !(c2 == i && g2 == g) && !(c2 == n && g2 == -(g as int))
            ==> #[trigger] t1.raw(c2, g2) == (if c2 < t0.table@.len() { t0.raw(c2, g2) } else { -1 }),
    ensures ind_state(img, t1, o1, m1s, start), 0 <= n < t1.table@.len(),
        forall|kk: usize| kk < t0.table@.len() ==> #[trigger] m1s[kk] == m0[kk],
{
    let len0 = t0.table@.len() as int;
    let gi = g as int;
    assert(0 <= n <= len0) by { if o0.contains_key(k@) { assert(o0[k@] < len0); } }
    assert(st_ok(img, start, k@));
    // the state of row n is k@ before and after
    if o0.contains_key(k@) {
        assert(m0[o0[k@]] == k@);
        assert(m0.contains_key(n as usize));
        assert(m1s =~= m0);
    }
    assert(m1s[n as usize] == k@);
    assert forall|kk: usize| #[trigger] m1s.contains_key(kk) <==> kk < t1.table@.len() by {
        if kk as int != n { assert(m1s.contains_key(kk) == m0.contains_key(kk)); }
    }
    assert forall|kk: usize| kk < t1.table@.len() implies #[trigger] m1s[kk] == (if kk as int == n { k@ } else { m0[kk] }) by { }
    assert(m1s[0usize] == start) by { if n == 0 { assert(m0[0usize] == k@); } }
    assert forall|kk: usize| kk < t1.table@.len() implies st_ok(img, start, #[trigger] m1s[kk]) && o1.contains_key(m1s[kk]) && o1[m1s[kk]] == kk by {
        if kk as int == n {
            if o0.contains_key(k@) { } else { }
        } else {
            assert(kk < len0);
            assert(o0.contains_key(m0[kk]) && o0[m0[kk]] == kk);
            if !o0.contains_key(k@) { assert(m0[kk] != k@); }
        }
    }
    assert forall|s: Seq<usize>| #[trigger] o1.contains_key(s) implies o1[s] < t1.table@.len() && m1s[o1[s]] == s by {
        if o0.contains_key(s) {
            assert(o0[s] < len0 && m0[o0[s]] == s);
            if !o0.contains_key(k@) { assert(s != k@); assert(o1[s] == o0[s]); assert(o0[s] as int != n); }
            else { if o0[s] as int == n { assert(m0[o0[s]] == s); assert(m0[n as usize] == k@); } }
        } else {
            assert(s == k@);
        }
    }
    // rows_ok
    assert(rows_ok(t1)) by {
        assert forall|c: int, g2: int| 0 <= c < t1.table@.len() && t1.col_ok(g2) implies -1 <= #[trigger] t1.raw(c, g2) < t1.table@.len() by {
            if c == i && g2 == gi { } else if c == n && g2 == -gi { }
            else { if c < len0 { assert(-1 <= t0.raw(c, g2) < len0); } }
        }
        assert forall|x: int| 0 <= x < t1.table@.len() implies 0 <= #[trigger] t1.part.rep(x) < t1.table@.len() by { assert(t0.part.rep(x) == x); }
        assert forall|x: int| #[trigger] t1.part.rep(t1.part.rep(x)) == t1.part.rep(x) by { assert(t0.part.rep(x) == x); }
        assert forall|x: int| !(0 <= x < t1.table@.len()) implies #[trigger] t1.part.rep(x) == x by { assert(t0.part.rep(x) == x); }
    }
    assert forall|x: int| #[trigger] t1.part.rep(x) == x by { assert(t0.part.rep(x) == x); }
    // every defined entry is the right one
    assert forall|kk: int, g2: int, x: Vec<usize>, y: Vec<usize>| #![trigger t1.raw(kk, g2), img.ensures((&x, g2 as isize), y)]
            0 <= kk < t1.table@.len() && t1.gen_ok(g2) && t1.raw(kk, g2) >= 0 && x@ == m1s[kk as usize] && img.ensures((&x, g2 as isize), y)
            implies y@ == m1s[t1.raw(kk, g2) as usize] by {
        if kk == i && g2 == gi {
            // determinism: the closure returned k on a vector with the same view
            assert(m1s[i as usize] == m0[i as usize]) by { if i == n { assert(m0[n as usize] == k@); } }
            assert(g2 as isize == g);
            assert(img.ensures((&xi, g), k) && img.ensures((&x, g), y) && xi@ == x@);
        } else if kk == n && g2 == -gi {
            // the inverse generator undoes the generator
            assert(x@ == k@);
            assert(img.ensures((&xi, g), k) && img.ensures((&x, g2 as isize), y) && x@ == k@ && (g2 as isize) as int == -(g as int));
            assert(y@ == xi@);
            assert(m1s[i as usize] == m0[i as usize]) by { if i == n { assert(m0[n as usize] == k@); } }
        } else {
            assert(t1.raw(kk, g2) == (if kk < len0 { t0.raw(kk, g2) } else { -1 }));
            assert(kk < len0);
            let c = t0.raw(kk, g2);
            assert(-1 <= c < len0);
            assert(m1s[kk as usize] == m0[kk as usize]) by { if kk == n { assert(m0[n as usize] == k@); } }
            assert(m1s[c as usize] == m0[c as usize]) by { if c == n { assert(m0[n as usize] == k@); } }
            assert(t0.raw(kk, g2) >= 0 && x@ == m0[kk as usize] && img.ensures((&x, g2 as isize), y));
        }
    }
}

// a row is done: complete, and the closure was called on its state with every generator
pub open spec fn ind_row_done<F: Fn(&Vec<usize>, isize) -> Vec<usize>>(img: &F, t: &CosetTable, n2o: Map<usize, Seq<usize>>, k: int) -> bool {
    row_complete(t, k) && forall|g: int| t.gen_ok(g) ==> #[trigger] called(img, n2o, k, g)
}

proof fn lemma_ind_final<F: Fn(&Vec<usize>, isize) -> Vec<usize>>(img: &F, t: &CosetTable, o2n: Map<Seq<usize>, usize>, n2o: Map<usize, Seq<usize>>, start: Seq<usize>)
    requires img_pre(img, start, t.nr_gens as int), ind_state(img, t, o2n, n2o, start), forall|k: int| 0 <= k < t.table@.len() ==> #[trigger] ind_row_done(img, t, n2o, k)
    ensures all_complete(t), inv_consistent(t)
{
    assert forall|k: int| #[trigger] canonical(t, k) implies row_complete(t, k) by { assert(ind_row_done(img, t, n2o, k)); }
    assert forall|k: int, g: int| canonical(t, k) && t.gen_ok(g) && (#[trigger] t.act(k, g)).is_some() implies t.act(t.act(k, g).unwrap() as int, -g) == Some(k as usize) by {
        let c = t.raw(k, g);
        assert(-1 <= c < t.table@.len());
        assert(t.part.rep(c) == c);
        assert(ind_row_done(img, t, n2o, c));
        assert(t.gen_ok(-g));
        let m = t.raw(c, -g);
        assert(m >= 0 && -1 <= m < t.table@.len());
        assert(t.part.rep(m) == m);
        assert(ind_row_done(img, t, n2o, k));
        assert(called(img, n2o, k, g));
        let (x, y) = choose|x: Vec<usize>, y: Vec<usize>| #[trigger] img.ensures((&x, g as isize), y) && x@ == n2o[k as usize];
        assert(y@ == n2o[c as usize]);
        assert(called(img, n2o, c, -g));
        let (x2, z) = choose|x2: Vec<usize>, z: Vec<usize>| #[trigger] img.ensures((&x2, (-g) as isize), z) && x2@ == n2o[c as usize];
        assert(z@ == n2o[m as usize]);
        assert(img.ensures((&x, g as isize), y) && img.ensures((&x2, (-g) as isize), z) && x2@ == y@ && ((-g) as isize) as int == -((g as isize) as int));
        assert(z@ == x@);
        assert(n2o[m as usize] == n2o[k as usize]);
        assert(o2n[n2o[m as usize]] == m as usize && o2n[n2o[k as usize]] == k as usize);
    }
}

proof fn lemma_ind_pairing<F: Fn(&Vec<usize>, isize) -> Vec<usize>>(img: &F, t: &CosetTable, r: &CosetTable, nw: Seq<int>, o2n: Map<Seq<usize>, usize>, n2o: Map<usize, Seq<usize>>, start: Seq<usize>)
    requires img_pre(img, start, t.nr_gens as int), ind_state(img, t, o2n, n2o, start), forall|k: int| 0 <= k < t.table@.len() ==> #[trigger] ind_row_done(img, t, n2o, k),
        compacted(t, r, nw),
    ensures exists|pa: Seq<Seq<usize>>| ind_pairing(img, r, start, pa)
{
    let back = |x: int| choose|k: int| canonical(t, k) && #[trigger] nw[k] == x;
    let pa = Seq::new(r.table@.len(), |x: int| n2o[back(x) as usize]);
    assert forall|x: int| 0 <= x < r.table@.len() implies canonical(t, #[trigger] back(x)) && nw[back(x)] == x by { assert(is_row(r, x)); }
    assert(canonical(t, 0)) by { assert(t.part.rep(0) == 0); }
    assert(back(0) == 0) by { assert(nw[t.part.rep(0)] == 0); }
    assert forall|r1: int, r2: int| 0 <= r1 < pa.len() && 0 <= r2 < pa.len() && #[trigger] pa[r1] == #[trigger] pa[r2] implies r1 == r2 by {
        let k1 = back(r1); let k2 = back(r2);
        assert(canonical(t, k1) && canonical(t, k2));
        assert(n2o[k1 as usize] == n2o[k2 as usize]);
        assert(o2n[n2o[k1 as usize]] == k1 as usize && o2n[n2o[k2 as usize]] == k2 as usize);
    }
    assert forall|x: int, g: int| 0 <= x < pa.len() && r.gen_ok(g) implies
        (#[trigger] r.act(x, g)).is_some() && r.act(x, g).unwrap() < pa.len() && img_call(img, pa[x], g as isize, pa[r.act(x, g).unwrap() as int]) by {
        let k = back(x);
        assert(canonical(t, k));
        assert(t.gen_ok(g));
        assert(r.act(nw[k], g) == (match t.act(k, g) { Some(c) => Some(nw[c as int] as usize), None => None }));
        assert(ind_row_done(img, t, n2o, k));
        assert(t.raw(k, g) >= 0);
        lemma_act_in_range(t, k, g);
        let c = t.act(k, g).unwrap() as int;
        assert(c == t.raw(k, g)) by { assert(t.part.rep(t.raw(k, g)) == t.raw(k, g)); }
        assert(canonical(t, c));
        assert(ind_row_done(img, t, n2o, c));
        assert(t.gen_ok(-g));
        assert(t.raw(c, -g) >= 0);
        lemma_compacted_row(t, r, nw, c, -g);
        let y = nw[c];
        assert(0 <= y < r.table@.len());
        assert(is_row(r, y));
        let k2 = back(y);
        assert(canonical(t, k2) && nw[k2] == nw[c]);
        assert(k2 == c);
        assert(called(img, n2o, k, g));
        let (xv, yv) = choose|xv: Vec<usize>, yv: Vec<usize>| #[trigger] img.ensures((&xv, g as isize), yv) && xv@ == n2o[k as usize];
        assert(yv@ == n2o[c as usize]);
        assert(img.ensures((&xv, g as isize), yv) && xv@ == pa[x] && yv@ == pa[y]);
    }
    assert(pa[0] == start);
    assert forall|x: int| 0 <= x < pa.len() implies st_ok(img, start, #[trigger] pa[x]) by { assert(canonical(t, back(x))); }
    assert(ind_pairing(img, r, start, pa));
}

// ---- transitivity of the induced table ("its row count is the order of the permutation group generated by the action": with the injective
// pairing, rows <-> reachable states is a bijection once every row is reached from row 0).  An entry (c, h) is PROCESSED when the
// enumeration has called the closure on the state of row c with generator h; processed entries never change their value afterwards, and
// every row is connected to row 0 through processed entries (second-order form, as for coset_table: every function that is constant
// along the processed entries takes the same value at the row and at row 0).
pub open spec fn processed(t: &CosetTable, i: int, idx: int, c: int, h: int) -> bool { c < i || (c == i && gen_index(t, h) < idx) }
pub open spec fn padm(t: &CosetTable, i: int, idx: int, f: spec_fn(int) -> int) -> bool {
    forall|c: int, h: int| 0 <= c < t.table@.len() && t.gen_ok(h) && processed(t, i, idx, c, h) && #[trigger] t.raw(c, h) >= 0 ==> f(t.raw(c, h)) == f(c)
}
pub open spec fn pconn(t: &CosetTable, i: int, idx: int, r: int) -> bool {
    forall|f: spec_fn(int) -> int| #[trigger] padm(t, i, idx, f) ==> f(r) == f(0)
}
pub open spec fn pinv(t: &CosetTable, i: int, idx: int) -> bool {
    forall|r: int| 0 <= r < t.table@.len() ==> #[trigger] pconn(t, i, idx, r)
}
// the join changed no processed entry
pub open spec fn processed_stable(t0: &CosetTable, t1: &CosetTable, i: int, idx: int) -> bool {
    forall|c: int, h: int| 0 <= c < t0.table@.len() && t0.gen_ok(h) && processed(t0, i, idx, c, h) && #[trigger] t0.raw(c, h) >= 0 ==> t1.raw(c, h) == t0.raw(c, h)
}

// the back entry (n, -g) that join(i, n, g) overwrites, if it was processed, already pointed to i
proof fn lemma_ind_stable<F: Fn(&Vec<usize>, isize) -> Vec<usize>>(img: &F, t0: &CosetTable, t1: &CosetTable, o0: Map<Seq<usize>, usize>, m0: Map<usize, Seq<usize>>,
                        start: Seq<usize>, i: int, idx: int, g: isize, xi: Vec<usize>, k: Vec<usize>, n: int)
    requires img_pre(img, start, t0.nr_gens as int), ind_state(img, t0, o0, m0, start), 0 <= i < t0.table@.len(), t0.gen_ok(g as int), gen_index(t0, g as int) == idx,
        xi@ == m0[i as usize], img.ensures((&xi, g), k),
        o0.contains_key(k@) ==> n == o0[k@],
        !o0.contains_key(k@) ==> n == t0.table@.len(),
        t1.nr_gens == t0.nr_gens,
        t1.raw(i, g as int) == n && t1.raw(n, -(g as int)) == i,
        forall|c2: int, g2: int| 0 <= c2 < t1.table@.len() && t0.col_ok(g2) && !(c2 == i && g2 == g) && !(c2 == n && g2 == -(g as int))
            ==> #[trigger] t1.raw(c2, g2) == (if c2 < t0.table@.len() { t0.raw(c2, g2) } else { -1 }),
        t1.table@.len() >= t0.table@.len(),
        // the closure has been called on every processed (row, generator)
        forall|c: int, h: int| 0 <= c < t0.table@.len() && t0.gen_ok(h) && processed(t0, i, idx, c, h) ==> #[trigger] called(img, m0, c, h),
    ensures processed_stable(t0, t1, i, idx)
{
    let gi = g as int;
    assert forall|c: int, h: int| 0 <= c < t0.table@.len() && t0.gen_ok(h) && processed(t0, i, idx, c, h) && #[trigger] t0.raw(c, h) >= 0 implies t1.raw(c, h) == t0.raw(c, h) by {
        if c == i && h == gi {
            // not processed: gen_index(g) == idx
        } else if c == n && h == -gi {
            let mp = t0.raw(n, -gi);
            // n is an old row here, so its state is k@
            assert(n < t0.table@.len());
            assert(o0.contains_key(k@));
            assert(m0[o0[k@]] == k@);
            assert(called(img, m0, n, -gi));
            let (x, y) = choose|x: Vec<usize>, y: Vec<usize>| #[trigger] img.ensures((&x, (-gi) as isize), y) && x@ == m0[n as usize];
            assert(-1 <= mp < t0.table@.len());
            // the entry is the right one: y is the state of row mp
            assert(y@ == m0[mp as usize]);
            // the inverse generator undoes the generator: y is the state of row i
            assert(st_ok(img, start, xi@));
            assert(is_gen(g, t0.nr_gens as int));
            assert(y@ == xi@);
            assert(o0[m0[mp as usize]] == mp as usize && o0[m0[i as usize]] == i as usize);
        } else {
            assert(t0.col_ok(h));
        }
    }
}

proof fn lemma_pinv_join(t0: &CosetTable, t1: &CosetTable, i: int, idx: int, g: int, n: int)
    requires pinv(t0, i, idx), 0 <= i < t0.table@.len(), t0.gen_ok(g), gen_index(t0, g) == idx, t1.nr_gens == t0.nr_gens,
        0 <= n <= t0.table@.len(), t1.table@.len() == (if n < t0.table@.len() { t0.table@.len() as int } else { n + 1 }),
        t1.raw(i, g) == n, processed_stable(t0, t1, i, idx),
    ensures pinv(t1, i, idx + 1)
{
    assert forall|r: int| 0 <= r < t1.table@.len() implies #[trigger] pconn(t1, i, idx + 1, r) by {
        assert forall|f: spec_fn(int) -> int| #[trigger] padm(t1, i, idx + 1, f) implies f(r) == f(0) by {
            assert(padm(t0, i, idx, f)) by {
                assert forall|c: int, h: int| 0 <= c < t0.table@.len() && t0.gen_ok(h) && processed(t0, i, idx, c, h) && #[trigger] t0.raw(c, h) >= 0 implies f(t0.raw(c, h)) == f(c) by {
                    assert(t1.raw(c, h) == t0.raw(c, h));
                    assert(processed(t1, i, idx + 1, c, h));
                }
            }
            assert(pconn(t0, i, idx, i));
            if r < t0.table@.len() { assert(pconn(t0, i, idx, r)); }
            else {
                assert(r == n);
                assert(processed(t1, i, idx + 1, i, g));
                assert(f(t1.raw(i, g)) == f(i));
            }
        }
    }
}

// a row is finished: idx runs over all 2 * nr_gens generators, the next row starts at 0
proof fn lemma_pinv_next(t: &CosetTable, i: int)
    requires pinv(t, i, 2 * t.nr_gens)
    ensures pinv(t, i + 1, 0)
{
    assert forall|r: int| 0 <= r < t.table@.len() implies #[trigger] pconn(t, i + 1, 0, r) by {
        assert(pconn(t, i, 2 * t.nr_gens, r));
        assert forall|f: spec_fn(int) -> int| #[trigger] padm(t, i + 1, 0, f) implies f(r) == f(0) by {
            assert(padm(t, i, 2 * t.nr_gens, f)) by {
                assert forall|c: int, h: int| 0 <= c < t.table@.len() && t.gen_ok(h) && processed(t, i, 2 * t.nr_gens, c, h) && #[trigger] t.raw(c, h) >= 0 implies f(t.raw(c, h)) == f(c) by {
                    assert(processed(t, i + 1, 0, c, h));
                }
            }
        }
    }
}

// everything processed: connected through processed entries means connected (tinv), for a table with the identity partition
proof fn lemma_pinv_final(t: &CosetTable, i: int)
    requires pinv(t, i, 0), i >= t.table@.len(), forall|x: int| #[trigger] t.part.rep(x) == x,
    ensures tinv(t, Seq::<(int, int)>::empty())
{
    let e = Seq::<(int, int)>::empty();
    assert forall|c: int| 0 <= c < t.table@.len() implies #[trigger] tconn(t, e, c, 0) by {
        assert(pconn(t, i, 0, c));
        assert forall|f: spec_fn(int) -> int| #[trigger] tadm(t, e, f) implies f(c) == f(0) by {
            assert(padm(t, i, 0, f)) by {
                assert forall|c2: int, h: int| 0 <= c2 < t.table@.len() && t.gen_ok(h) && processed(t, i, 0, c2, h) && #[trigger] t.raw(c2, h) >= 0 implies f(t.raw(c2, h)) == f(c2) by {
                    assert(canonical(t, c2));
                }
            }
        }
    }
}

//@ begin src/fpgroups/cosets.rs :: - :: fn induced_table | props=C13
//@ rw R4 /fn induced_table<T, F>\(nr_gens: usize, img: F, start: &T\)/fn induced_table<F>(nr_gens: usize, img: F, start: &Vec<usize>)/
//@ rw R4 /^[ \t]*T: Clone \+ Eq \+ std::hash::Hash,\n//
//@ rw R4 /F: Fn\(&T, isize\) -> T/F: Fn(&Vec<usize>, isize) -> Vec<usize>/
//@ rw R16 /-> CosetTable$/-> (result: CosetTable)/
//@ rw R5 /HashMap::from\(\[\(start\.clone\(\), 0\)\]\)/__o2n_from1(start.clone(), 0)/
//@ rw R5 /HashMap::from\(\[\(0, start\.clone\(\)\)\]\)/__n2o_from1(0, start.clone())/
//@ rw R19 /for i in 0\.\.\n([ \t]*)\{/let mut __i: usize = 0;\n\1loop\n\1{\n\1    let i = __i; __i += 1;/?
//@ rw R19 /for i in 0\.\.([A-Za-z0-9_]+)\n([ \t]*)\{/let mut __i: usize = 0;\n\2loop\n\2{\n\2    if __i >= \1 { break; }\n\2    let i = __i; __i += 1;/?
//@ rw R17 /for g in table\.all_gens\(\)$/for g in it: table.all_gens()/
//@ rw R5 /img\(&n2o\[&i\], g\)/img(__n2o_at(&n2o, i), g)/
//@ rw R5 /\*o2n\.entry\(k\.clone\(\)\)\.or_insert\(table\.len\(\)\)/__entry_or_insert(&mut o2n, k.clone(), table.len())/
//@ rw R5 /n2o\.insert\(n, k\);/__n2o_insert(&mut n2o, n, k);/
//@ rw R14 /^([ \t]*)table\.compact\(\)$/\1let __r = table.compact();\n\1__r/
#[verifier::spinoff_prover]
#[verifier::exec_allows_no_decreases_clause]
fn induced_table<F>(nr_gens: usize, img: F, start: &Vec<usize>) -> (result: CosetTable)
    where
        F: Fn(&Vec<usize>, isize) -> Vec<usize>
    requires nr_gens < isize::MAX / 2, img_pre(&img, start@, nr_gens as int),
    // C13: a valid table whose rows are, injectively, the states reached from `start`, row 0 being `start`, with the closure's action
    ensures valid(&result), result.nr_gens == nr_gens, exists|pa: Seq<Seq<usize>>| ind_pairing(&img, &result, start@, pa),
        // every row is reached from row 0: with the injective pairing, rows <-> states reachable from `start` is a bijection
        transitive(&result),
{
    let mut table = CosetTable::new(nr_gens);
    let mut o2n = __o2n_from1(start.clone(), 0);
    let mut n2o = __n2o_from1(0, start.clone());
    proof {
        lemma_rows_alloc_bound(&table.table);
        assert(rows_ok(&table));
        assert(ind_state(&img, &table, oview(&o2n), nview(&n2o), start@)) by {
            assert forall|k: int, g: int, x: Vec<usize>, y: Vec<usize>| #![trigger table.raw(k, g), img.ensures((&x, g as isize), y)]
                0 <= k < table.table@.len() && table.gen_ok(g) && table.raw(k, g) >= 0 && x@ == nview(&n2o)[k as usize] && img.ensures((&x, g as isize), y)
                implies y@ == nview(&n2o)[table.raw(k, g) as usize] by { assert(table.raw(0, g) == -1); }
        }
    }

    let mut __i: usize = 0;
    loop
        invariant_except_break __i <= table.table@.len(), pinv(&table, __i as int, 0),
        invariant img_pre(&img, start@, nr_gens as int), table.nr_gens == nr_gens,
            ind_state(&img, &table, oview(&o2n), nview(&n2o), start@),
            forall|k: int| 0 <= k < __i && k < table.table@.len() ==> #[trigger] ind_row_done(&img, &table, nview(&n2o), k),
        ensures ind_state(&img, &table, oview(&o2n), nview(&n2o), start@), table.nr_gens == nr_gens,
            tinv(&table, Seq::<(int, int)>::empty()),
            forall|k: int| 0 <= k < table.table@.len() ==> #[trigger] ind_row_done(&img, &table, nview(&n2o), k),
    {
        let i = __i; __i += 1;
        if i >= table.len() {
            proof { lemma_pinv_final(&table, i as int); }
            break;
        }
        for g in it: table.all_gens()
            invariant img_pre(&img, start@, nr_gens as int), table.nr_gens == nr_gens,
                ind_state(&img, &table, oview(&o2n), nview(&n2o), start@), i < table.table@.len(),
                forall|k: int| 0 <= k < i ==> #[trigger] ind_row_done(&img, &table, nview(&n2o), k),
                it.seq().len() == 2 * table.nr_gens,
                forall|k: int| 0 <= k < it.seq().len() ==> table.gen_ok(#[trigger] it.seq()[k] as int) && gen_index(&table, it.seq()[k] as int) == k,
                forall|h: int| table.gen_ok(h) && gen_index(&table, h) < it.index() ==> #[trigger] table.raw(i as int, h) >= 0 && called(&img, nview(&n2o), i as int, h),
                pinv(&table, i as int, it.index() as int),
        {
            let ghost idx = it.index() as int;
            proof { assert(table.gen_ok(it.seq()[idx] as int) && gen_index(&table, it.seq()[idx] as int) == idx); }
            let ghost o0 = oview(&o2n);
            let ghost m0 = nview(&n2o);
            let ghost t0 = table;
            proof { assert(m0.contains_key(i)); assert(st_ok(&img, start@, m0[i])); }
            let k = img(__n2o_at(&n2o, i), g);
            let ghost xi: Vec<usize> = choose|v: Vec<usize>| #[trigger] img.ensures((&v, g), k) && v@ == m0[i];
            let n = __entry_or_insert(&mut o2n, k.clone(), table.len());
            proof {
                if o0.contains_key(k@) { assert(o0[k@] < t0.table@.len()); }
                lemma_rows_alloc_bound(&table.table);
            }
            __n2o_insert(&mut n2o, n, k);
            table.join(i, n, g);
            proof {
                lemma_rows_alloc_bound(&table.table);
                assert forall|c: int, h: int| 0 <= c < t0.table@.len() && t0.gen_ok(h) && processed(&t0, i as int, idx, c, h) implies #[trigger] called(&img, m0, c, h) by {
                    if c < i { assert(ind_row_done(&img, &t0, m0, c)); } else { assert(t0.raw(i as int, h) >= 0); }
                }
                lemma_ind_stable(&img, &t0, &table, o0, m0, start@, i as int, idx, g, xi, k, n as int);
                lemma_pinv_join(&t0, &table, i as int, idx, g as int, n as int);
                lemma_ind_join(&img, &t0, &table, o0, m0, oview(&o2n), nview(&n2o), start@, i as int, g, xi, k, n as int);
                let m1s = nview(&n2o);
                assert forall|kk: int| 0 <= kk < i implies #[trigger] ind_row_done(&img, &table, m1s, kk) by {
                    assert(ind_row_done(&img, &t0, m0, kk));
                    assert forall|h: int| table.gen_ok(h) implies #[trigger] table.raw(kk, h) >= 0 by { assert(t0.raw(kk, h) >= 0); if !(kk == n && h == -(g as int)) { assert(table.raw(kk, h) == t0.raw(kk, h)); } }
                    assert forall|h: int| table.gen_ok(h) implies #[trigger] called(&img, m1s, kk, h) by { assert(called(&img, m0, kk, h)); assert(m1s[kk as usize] == m0[kk as usize]); }
                }
                assert forall|h: int| table.gen_ok(h) && gen_index(&table, h) < idx + 1 implies #[trigger] table.raw(i as int, h) >= 0 && called(&img, m1s, i as int, h) by {
                    assert(m1s[i] == m0[i]);
                    if gen_index(&table, h) < idx {
                        assert(t0.raw(i as int, h) >= 0 && called(&img, m0, i as int, h));
                        if !(i == n && h == -(g as int)) { assert(table.raw(i as int, h) == t0.raw(i as int, h)); }
                    } else {
                        assert(h == g);
                        assert(img.ensures((&xi, h as isize), k) && xi@ == m1s[i]);
                    }
                }
            }
        }
        proof {
            lemma_pinv_next(&table, i as int);
            assert(ind_row_done(&img, &table, nview(&n2o), i as int)) by {
                assert forall|h: int| table.gen_ok(h) implies #[trigger] table.raw(i as int, h) >= 0 by { assert(0 <= gen_index(&table, h) < 2 * table.nr_gens); }
                assert forall|h: int| table.gen_ok(h) implies #[trigger] called(&img, nview(&n2o), i as int, h) by { assert(0 <= gen_index(&table, h) < 2 * table.nr_gens); assert(table.raw(i as int, h) >= 0); }
            }
        }
    }

    proof { lemma_ind_final(&img, &table, oview(&o2n), nview(&n2o), start@); lemma_tinv_reach(&table); }
    let __r = table.compact();
    proof {
        let nw = choose|nw: Seq<int>| compacted(&table, &__r, nw);
        lemma_ind_pairing(&img, &table, &__r, nw, oview(&o2n), nview(&n2o), start@);
    }
    __r
}
//@ end

// ---- core_table: the action on tuples of rows, started at the identity tuple ----
// `es.iter().map(|&e| base.get(e, g).unwrap()).collect()`: the iterator chain by its std semantics (R5): element by element
#[verifier::external_body]
fn __map_get(base: &CosetTable, es: &Vec<usize>, g: isize) -> (r: Vec<usize>)
    requires valid(base), base.gen_ok(g as int), good_tuple(base, es@)
    ensures r@.len() == es@.len(), forall|j: int| 0 <= j < es@.len() ==> #[trigger] r@[j] == base.act(es@[j] as int, g as int).unwrap(),
{ es.iter().map(|&e| base.get(e, g).unwrap()).collect() }
// `(0..n).collect()`
#[verifier::external_body]
fn __iota(n: usize) -> (r: Vec<usize>)
    ensures r@ == iota(n as int)
{ (0..n).collect() }
pub open spec fn iota(n: int) -> Seq<usize> { Seq::new(n as nat, |j: int| j as usize) }
// one entry per row of the base table, each a row of the base table
pub open spec fn good_tuple(base: &CosetTable, s: Seq<usize>) -> bool {
    s.len() == base.table@.len() && forall|j: int| 0 <= j < s.len() ==> #[trigger] s[j] < base.table@.len()
}
// the tuple action: every entry moves by the generator
pub open spec fn tuple_img(base: &CosetTable, s: Seq<usize>, g: int, r: Seq<usize>) -> bool {
    r.len() == s.len() && forall|j: int| 0 <= j < s.len() ==> #[trigger] r[j] == base.act(s[j] as int, g).unwrap()
}
// pa gives every row of the core its tuple: row 0 the identity tuple, injectively, compatibly with the generators
pub open spec fn core_pairing(base: &CosetTable, r: &CosetTable, pa: Seq<Seq<usize>>) -> bool {
    &&& pa.len() == r.table@.len() && pa[0] == iota(base.table@.len() as int)
    &&& forall|x: int| 0 <= x < pa.len() ==> good_tuple(base, #[trigger] pa[x])
    &&& forall|r1: int, r2: int| 0 <= r1 < pa.len() && 0 <= r2 < pa.len() && #[trigger] pa[r1] == #[trigger] pa[r2] ==> r1 == r2
    &&& forall|x: int, g: int| 0 <= x < pa.len() && r.gen_ok(g) ==>
            (#[trigger] r.act(x, g)).is_some() && r.act(x, g).unwrap() < pa.len() && tuple_img(base, pa[x], g, pa[r.act(x, g).unwrap() as int])
}

//@ begin src/fpgroups/cosets.rs :: - :: fn core_table | props=C13
//@ rw R16 /-> CosetTable$/-> (result: CosetTable)/
//@ rw R5+R14 /^([ \t]*)let img = \|es: &Vec<usize>, g\| es\.iter\(\)\n[ \t]*\.map\(\|&e\| base\.get\(e, g\)\.unwrap\(\)\)\n[ \t]*\.collect\(\);/\1let img = |es: &Vec<usize>, g: isize| -> (r: Vec<usize>)\n\1{ __map_get(base, es, g) };/
//@ rw R5 /&\(0\.\.base\.len\(\)\)\.collect\(\)/&__iota(base.len())/
//@ rw R14 /^([ \t]*)induced_table\(base\.nr_gens, img, start\)$/\1let __r = induced_table(base.nr_gens, img, start);\n\1__r/
pub fn core_table(base: &CosetTable) -> (result: CosetTable)
    requires valid(base)
    // C13 "the core table is the regular action of the quotient by the kernel": its rows are, injectively, the tuples into which the
    // generators move the identity tuple (0, 1, ..., n-1) of rows of `base`
    ensures valid(&result), result.nr_gens == base.nr_gens, exists|pa: Seq<Seq<usize>>| core_pairing(base, &result, pa),
        // every row is reached from row 0 (so, by lemma_core_rows, the rows ARE the elements of the permutation group the action generates)
        transitive(&result),
{
    let img = |es: &Vec<usize>, g: isize| -> (r: Vec<usize>)
        requires valid(base), base.gen_ok(g as int), good_tuple(base, es@)
        ensures tuple_img(base, es@, g as int, r@), good_tuple(base, r@)
    { __map_get(base, es, g) };
    let start = &__iota(base.len());
    let ghost ig = img;

    proof {
        let st = start@;
        assert(good_tuple(base, st));
        // every state the enumeration can meet is a good tuple
        assert forall|x: Vec<usize>| st_ok(&ig, st, #[trigger] x@) implies good_tuple(base, x@) by { }
        assert(img_pre(&ig, st, base.nr_gens as int)) by {
            assert forall|x1: Vec<usize>, x2: Vec<usize>, g: isize, y1: Vec<usize>, y2: Vec<usize>| #![trigger ig.ensures((&x1, g), y1), ig.ensures((&x2, g), y2)]
                st_ok(&ig, st, x1@) && is_gen(g, base.nr_gens as int) && ig.ensures((&x1, g), y1) && ig.ensures((&x2, g), y2) && x1@ == x2@ implies y1@ == y2@ by {
                assert(y1@ =~= y2@);
            }
            assert forall|x: Vec<usize>, g: isize, y: Vec<usize>, y2: Vec<usize>, h: isize, z: Vec<usize>| #![trigger ig.ensures((&x, g), y), ig.ensures((&y2, h), z)]
                st_ok(&ig, st, x@) && is_gen(g, base.nr_gens as int) && ig.ensures((&x, g), y) && ig.ensures((&y2, h), z) && y2@ == y@ && h as int == -(g as int) implies z@ == x@ by {
                assert(good_tuple(base, x@));
                assert forall|j: int| 0 <= j < x@.len() implies z@[j] == x@[j] by {
                    assert(base.gen_ok(g as int));
                    assert(base.act(x@[j] as int, g as int).is_some());
                    assert(y@[j] == base.act(x@[j] as int, g as int).unwrap());
                    assert(z@[j] == base.act(y2@[j] as int, h as int).unwrap());
                }
                assert(z@ =~= x@);
            }
        }
    }
    let __r = induced_table(base.nr_gens, img, start);
    proof {
        let pa = choose|pa: Seq<Seq<usize>>| ind_pairing(&ig, &__r, start@, pa);
        assert forall|x: int| 0 <= x < pa.len() implies good_tuple(base, #[trigger] pa[x]) by { assert(st_ok(&ig, start@, pa[x])); }
        assert forall|x: int, g: int| 0 <= x < pa.len() && __r.gen_ok(g) implies
            (#[trigger] __r.act(x, g)).is_some() && __r.act(x, g).unwrap() < pa.len() && tuple_img(base, pa[x], g, pa[__r.act(x, g).unwrap() as int]) by {
            let c = __r.act(x, g).unwrap() as int;
            assert(img_call(&ig, pa[x], g as isize, pa[c]));
            let (xv, yv) = choose|xv: Vec<usize>, yv: Vec<usize>| #[trigger] ig.ensures((&xv, g as isize), yv) && xv@ == pa[x] && yv@ == pa[c];
            assert(tuple_img(base, xv@, (g as isize) as int, yv@));
        }
        assert(core_pairing(base, &__r, pa));
    }
    __r
}
//@ end

// along every word the tuple of a row follows the base table entry by entry ...
proof fn lemma_core_trace(base: &CosetTable, t: &CosetTable, pa: Seq<Seq<usize>>, x: int, w: Seq<isize>)
    requires valid(base), valid(t), t.nr_gens == base.nr_gens, core_pairing(base, t, pa), 0 <= x < pa.len(), gens_ok(t, w),
        t.table@.len() <= usize::MAX,     // true of every Vec; known in exec code from .len()
    ensures trace(t, x, w).is_some(), trace(t, x, w).unwrap() < pa.len(),
        forall|j: int| 0 <= j < base.table@.len() ==> (#[trigger] trace(base, pa[x][j] as int, w)).is_some()
            && trace(base, pa[x][j] as int, w).unwrap() < base.table@.len()
            && pa[trace(t, x, w).unwrap() as int][j] == trace(base, pa[x][j] as int, w).unwrap()
    decreases w.len()
{
    assert(good_tuple(base, pa[x]));
    if w.len() > 0 {
        let w0 = w.drop_last();
        assert(gens_ok(t, w0)) by { assert forall|k: int| 0 <= k < w0.len() implies t.gen_ok(#[trigger] w0[k] as int) by { assert(w0[k] == w[k]); } }
        lemma_core_trace(base, t, pa, x, w0);
        assert(t.gen_ok(w[w.len() - 1] as int));
        let y = trace(t, x, w0).unwrap() as int;
        let g = w.last() as int;
        assert(t.act(y, g).is_some());
        let c = t.act(y, g).unwrap() as int;
        assert(tuple_img(base, pa[y], g, pa[c]));
        assert(good_tuple(base, pa[y]));
        assert forall|j: int| 0 <= j < base.table@.len() implies (#[trigger] trace(base, pa[x][j] as int, w)).is_some()
            && trace(base, pa[x][j] as int, w).unwrap() < base.table@.len()
            && pa[trace(t, x, w).unwrap() as int][j] == trace(base, pa[x][j] as int, w).unwrap() by {
            let e0 = trace(base, pa[x][j] as int, w0).unwrap();
            assert(pa[y][j] == e0);
            assert(base.gen_ok(g));
            assert(base.act(e0 as int, g).is_some() && base.act(e0 as int, g).unwrap() < base.table@.len());
            assert(pa[c][j] == base.act(pa[y][j] as int, g).unwrap());
        }
    } else {
        assert forall|j: int| 0 <= j < base.table@.len() implies (#[trigger] trace(base, pa[x][j] as int, w)).is_some()
            && trace(base, pa[x][j] as int, w).unwrap() < base.table@.len()
            && pa[trace(t, x, w).unwrap() as int][j] == trace(base, pa[x][j] as int, w).unwrap() by { }
    }
}

// ... hence C13: "a word fixes all rows of the input exactly when it fixes row 0 of the core"
pub proof fn lemma_core_fixes(base: &CosetTable, t: &CosetTable, pa: Seq<Seq<usize>>, w: Seq<isize>)
    requires valid(base), valid(t), t.nr_gens == base.nr_gens, core_pairing(base, t, pa), gens_ok(t, w),
        base.table@.len() <= usize::MAX, t.table@.len() <= usize::MAX,     // true of every Vec; known in exec code from .len()
    ensures trace(t, 0, w) == Some(0usize) <==> (forall|e: int| 0 <= e < base.table@.len() ==> #[trigger] trace(base, e, w) == Some(e as usize))
{
    lemma_core_trace(base, t, pa, 0, w);
    let y = trace(t, 0, w).unwrap() as int;
    assert forall|j: int| 0 <= j < base.table@.len() implies pa[0][j] == j by { }
    if trace(t, 0, w) == Some(0usize) {
        assert forall|e: int| 0 <= e < base.table@.len() implies #[trigger] trace(base, e, w) == Some(e as usize) by {
            assert(trace(base, pa[0][e] as int, w).is_some());
            assert(pa[y][e] == trace(base, pa[0][e] as int, w).unwrap());
        }
    }
    if forall|e: int| 0 <= e < base.table@.len() ==> #[trigger] trace(base, e, w) == Some(e as usize) {
        assert(good_tuple(base, pa[y]) && good_tuple(base, pa[0]));
        assert forall|j: int| 0 <= j < base.table@.len() implies pa[y][j] == pa[0][j] by {
            assert(trace(base, pa[0][j] as int, w).is_some());
            assert(trace(base, j, w) == Some(j as usize));
        }
        assert(pa[y] =~= pa[0]);
        assert(y == 0);
    }
}

// ... so the rows of the core table correspond ONE TO ONE to the permutations of the rows of `base` that words in the generators induce
// ("its row count is the order of the permutation group generated by the action"): the permutation induced by w is the tuple
// (trace(base, 0, w), ..., trace(base, n-1, w)); every row carries the tuple of some word (transitivity), every word's tuple is carried by
// a row (completeness), and different rows carry different tuples (injectivity of the pairing).
pub open spec fn word_tuple(base: &CosetTable, w: Seq<isize>, s: Seq<usize>) -> bool {
    s.len() == base.table@.len() && forall|j: int| 0 <= j < base.table@.len() ==> trace(base, j, w) == Some(#[trigger] s[j])
}
pub proof fn lemma_core_rows(base: &CosetTable, t: &CosetTable, pa: Seq<Seq<usize>>)
    requires valid(base), valid(t), transitive(t), t.nr_gens == base.nr_gens, core_pairing(base, t, pa),
        base.table@.len() <= usize::MAX, t.table@.len() <= usize::MAX,
    ensures
        forall|r: int| #[trigger] is_row(t, r) ==> exists|w: Seq<isize>| gens_ok(t, w) && #[trigger] word_tuple(base, w, pa[r]),
        forall|w: Seq<isize>| #[trigger] gens_ok(t, w) ==> exists|r: int| 0 <= r < t.table@.len() && #[trigger] word_tuple(base, w, pa[r]),
        forall|r1: int, r2: int| 0 <= r1 < pa.len() && 0 <= r2 < pa.len() && #[trigger] pa[r1] == #[trigger] pa[r2] ==> r1 == r2,
{
    assert forall|j: int| 0 <= j < base.table@.len() implies pa[0][j] == j by { }
    assert forall|r: int| #[trigger] is_row(t, r) implies exists|w: Seq<isize>| gens_ok(t, w) && #[trigger] word_tuple(base, w, pa[r]) by {
        let w = choose|w: Seq<isize>| gens_ok(t, w) && #[trigger] trace(t, 0, w) == Some(r as usize);
        lemma_core_trace(base, t, pa, 0, w);
        assert(good_tuple(base, pa[r]));
        assert forall|j: int| 0 <= j < base.table@.len() implies trace(base, j, w) == Some(#[trigger] pa[r][j]) by {
            assert(trace(base, pa[0][j] as int, w).is_some());
        }
        assert(word_tuple(base, w, pa[r]));
    }
    assert forall|w: Seq<isize>| #[trigger] gens_ok(t, w) implies exists|r: int| 0 <= r < t.table@.len() && #[trigger] word_tuple(base, w, pa[r]) by {
        lemma_core_trace(base, t, pa, 0, w);
        let r = trace(t, 0, w).unwrap() as int;
        assert(good_tuple(base, pa[r]));
        assert forall|j: int| 0 <= j < base.table@.len() implies trace(base, j, w) == Some(#[trigger] pa[r][j]) by {
            assert(trace(base, pa[0][j] as int, w).is_some());
        }
        assert(word_tuple(base, w, pa[r]));
    }
}

// the contract of core_table is what lemma_core_rows needs: the chain connects (must verify)
fn witness_core_rows(base: &CosetTable)
    requires valid(base)
{
    let c = core_table(base);
    let n0 = base.len(); let n1 = c.len();
    proof {
        let pa = choose|pa: Seq<Seq<usize>>| core_pairing(base, &c, pa);
        lemma_core_rows(base, &c, pa);
    }
}

fn canary_induced_table_contract<F: Fn(&Vec<usize>, isize) -> Vec<usize>>(img: F, start: &Vec<usize>)
    requires img_pre(&img, start@, 2)
    ensures false
{
    let r = induced_table(2, img, start);
}

fn canary_core_table_contract(base: &CosetTable)
    requires valid(base)
    ensures false
{
    let r = core_table(base);
}

fn witness_intersection_contract(ta: &CosetTable, tb: &CosetTable)
    requires valid(ta), valid(tb), ta.nr_gens == tb.nr_gens, ta.table@.len() == 2, tb.table@.len() == 3
{
    let t = intersection_table(ta, tb);
    assert(t.table@.len() >= 1);
}

fn canary_intersection_contract(ta: &CosetTable, tb: &CosetTable)
    requires valid(ta), valid(tb), ta.nr_gens == tb.nr_gens, ta.table@.len() == 2, tb.table@.len() == 3
    ensures false
{
    let t = intersection_table(ta, tb);
}

// vacuity guards
proof fn canary_rows_ok_is_satisfiable(t: &CosetTable)
    requires rows_ok(t), t.nr_gens == 1, t.table@.len() == 2, t.raw(0, 1) == 1, t.raw(1, -1) == 0
    ensures false
{}

proof fn canary_compacted_is_satisfiable(t: &CosetTable, r: &CosetTable, nw: Seq<int>)
    requires rows_ok(t), compacted(t, r, nw), t.table@.len() == 3, r.table@.len() == 2
    ensures false
{}

fn canary_coset_table_contract(relators: &Vec<FreeWord>, subs: &Vec<FreeWord>)
    requires all_within(relators@, 2), all_within(subs@, 2), relators@.len() == 2, subs@.len() == 1
    ensures false
{
    let t = coset_table(2, relators, subs);
}

fn canary_merge_contract(t: &mut CosetTable)
    requires rows_ok(old(t)), old(t).table@.len() == 3
    ensures false
{
    t.merge(1, 2);
}

// the table coset_table returns meets the precondition of coset_representative: the two contracts chain (must verify)
fn witness_table_then_representatives(relators: &Vec<FreeWord>, subs: &Vec<FreeWord>)
    requires all_within(relators@, 3), all_within(subs@, 3)
{
    let t = coset_table(3, relators, subs);
    let reps = coset_representative(&t);
    assert(reps@.contains_key(0));
    // "map EACH row to a word": coset_table ensures transitivity, so no row is left out
    assert(forall|r: int| is_row(&t, r) ==> reps@.contains_key(r as usize));
}

// the totality clause is not vacuous: transitive tables with several rows exist as far as the solver knows
fn canary_representatives_total(t: &CosetTable)
    requires valid(t), transitive(t), t.table@.len() == 3
    ensures false
{
    let reps = coset_representative(t);
}

proof fn canary_kinv_is_satisfiable(t: &CosetTable)
    requires rows_ok(t), kinv(t, Seq::<(int, int)>::empty()), t.nr_gens == 1, t.table@.len() == 2, t.raw(0, 1) == 1, t.raw(1, -1) == 0
    ensures false
{}

proof fn canary_umodel_is_satisfiable(rels: Seq<FreeWord>, subs: Seq<FreeWord>, act: spec_fn(int, int) -> int)
    requires umodel(2, rels, subs, act, 7), rels.len() == 1, rels[0]@.len() == 2, rels[0]@[0] == 1, rels[0]@[1] == 1, subs.len() == 0, act(7, 1) != 7
    ensures false
{}

proof fn canary_uinv_is_satisfiable(t: &CosetTable, act: spec_fn(int, int) -> int)
    requires rows_ok(t), uinv(t, Seq::<(int, int)>::empty(), act, 7), t.nr_gens == 1, t.table@.len() == 2, t.raw(0, 1) == 1, t.raw(1, -1) == 0
    ensures false
{}

proof fn canary_valid_is_satisfiable(t: &CosetTable)
    requires valid(t), t.nr_gens == 1, t.table@.len() == 2
    ensures false
{}

fn canary_coset_representative_contract(t: &CosetTable)
    requires valid(t)
    ensures false
{
    let r = coset_representative(t);
}

fn canary_scan_contract(t: &CosetTable, w: &FreeWord)
    requires t.wf(), cols_ok(t, w@)
    ensures false
{
    let r = scan_both_ways(t, w, 0);
}


} // verus!
fn main() {}
