//@ unit cosets
//@ props C11
//@@ depends free_words partitions
use vstd::prelude::*;
use vstd::std_specs::core::IndexSpecImpl;
use vstd::std_specs::ops::*;
use std::collections::{BTreeMap, VecDeque};
use std::ops::{Index, Mul};
verus! {
// =====================================================================================================
// trusted std specifications that vstd lacks
// =====================================================================================================
pub assume_specification<T, const N: usize>[<VecDeque<T> as From<[T; N]>>::from](a: [T; N]) -> (r: VecDeque<T>)
    ensures r@ == a@;
pub assume_specification<K: Ord, V, const N: usize>[<BTreeMap<K, V> as From<[(K, V); N]>>::from](a: [(K, V); N]) -> (r: BTreeMap<K, V>)
    ensures N == 1 ==> r@ == Map::<K, V>::empty().insert(a@[0].0, a@[0].1);

// =====================================================================================================
// contracts imported from other units (assumed HERE, proved THERE; check.py runs those units as dependencies)
// =====================================================================================================
// --- unit free_words (C10): spec layer copied verbatim
pub open spec fn neg_eq(x: isize, y: isize) -> bool { x as int == -(y as int) }
pub open spec fn step(buf: Seq<isize>, x: isize) -> Seq<isize> {
    if buf.len() > 0 && neg_eq(x, buf.last()) { buf.drop_last() }
    else if x != 0 { buf.push(x) }
    else { buf }
}
pub open spec fn reduced(s: Seq<isize>) -> bool {
    &&& forall|k: int| 0 <= k < s.len() ==> #[trigger] s[k] != 0 && s[k] > isize::MIN
    &&& forall|k: int| 0 <= k < s.len() - 1 ==> !neg_eq(#[trigger] s[k + 1], s[k])
}

pub struct FreeWord { pub w: Vec<isize> }
impl FreeWord {
    pub open spec fn view(&self) -> Seq<isize> { self.w@ }
    // free_words: type invariant of FreeWord
    #[verifier::external_body]
    pub proof fn lemma_reduced(&self) ensures reduced(self@) {}
    // free_words: FreeWord::empty, len, clone
    //@@ import free_words :: impl FreeWord::empty
    #[verifier::external_body]
    pub fn empty() -> (r: Self)
        ensures r@ == Seq::<isize>::empty()
    { unimplemented!() }
    //@@ import free_words :: impl FreeWord::len
    #[verifier::external_body]
    pub fn len(&self) -> (r: usize)
        ensures r == self@.len()
    { unimplemented!() }
    #[verifier::external_body]
    pub fn clone(&self) -> (r: Self) ensures r@ == self@ { unimplemented!() }
}
// free_words: impl Index<usize> for FreeWord
impl IndexSpecImpl<usize> for FreeWord {
    open spec fn index_req(&self, index: &usize) -> bool { *index < self@.len() }
}
impl Index<usize> for FreeWord {
    type Output = isize;
    //@@ import free_words :: impl Index<usize> for FreeWord::index
    #[verifier::external_body]
    fn index(&self, index: usize) -> (r: &isize)
        ensures *r == self@[index as int]
    { unimplemented!() }
}
// free_words: impl Mul<isize> for &FreeWord
impl MulSpecImpl<isize> for &FreeWord {
    open spec fn obeys_mul_spec() -> bool { false }
    open spec fn mul_req(self, rhs: isize) -> bool { rhs > isize::MIN }
    open spec fn mul_spec(self, rhs: isize) -> FreeWord { arbitrary() }
}
impl Mul<isize> for &FreeWord {
    type Output = FreeWord;
    //@@ import free_words :: impl Mul<isize> for &FreeWord::mul
    #[verifier::external_body]
    fn mul(self, rhs: isize) -> (r: FreeWord)
        ensures r@ == step(self@, rhs)
    { unimplemented!() }
}

// --- unit partitions (C20): IntPartition::find is a function of the abstract partition (R6 wrapper over IntPartitionImpl::find)
pub struct IntPartition { pub _impl: usize }
impl IntPartition {
    pub uninterp spec fn rep(&self, x: int) -> int;
    //@@ import partitions :: impl IntPartition::new
    #[verifier::external_body]
    pub fn new() -> (r: Self)
        ensures forall|x: int| #[trigger] r.rep(x) == x
    { unimplemented!() }
    //@@ import partitions :: impl IntPartition::find
    #[verifier::external_body]
    pub fn find(&self, x: usize) -> (r: usize)
        requires x < usize::MAX
        ensures r == self.rep(x as int)
    { unimplemented!() }
}

// =====================================================================================================
// CosetTable
// =====================================================================================================
//@ begin src/fpgroups/cosets.rs :: - :: struct CosetTable
//@ rw R0 /^([ \t]+)(\w+): /\1pub \2: /
pub struct CosetTable {
    pub nr_gens: usize,
    pub table: Vec<Vec<isize>>,
    pub part: IntPartition
}
//@ end

impl CosetTable {
    pub open spec fn wf(&self) -> bool {
        &&& self.nr_gens < isize::MAX / 2
        &&& forall|c: int| 0 <= c < self.table@.len() ==> (#[trigger] self.table@[c])@.len() == 2 * self.nr_gens + 1
    }
    // a column index: -nr_gens ..= nr_gens (column 0 is unused by the enumeration but addressable)
    pub open spec fn col_ok(&self, g: int) -> bool { -(self.nr_gens as int) <= g <= self.nr_gens as int }
    // a generator or inverse generator
    pub open spec fn gen_ok(&self, g: int) -> bool { g != 0 && self.col_ok(g) }
    pub open spec fn raw(&self, c: int, g: int) -> int { self.table@[c]@[g + self.nr_gens] as int }
    // the action the table defines: canonical representative of the raw entry, None where undefined
    pub open spec fn act(&self, c: int, g: int) -> Option<usize> {
        if 0 <= c < self.table@.len() && self.raw(c, g) >= 0 { Some(self.part.rep(self.raw(c, g)) as usize) } else { None }
    }

    //@ begin src/fpgroups/cosets.rs :: impl CosetTable :: fn new
    //@ rw R16 /-> Self/-> (r: Self)/
    pub fn new(nr_gens: usize) -> (r: Self)
        requires nr_gens < isize::MAX / 2
        ensures r.wf(), r.nr_gens == nr_gens, r.table@.len() == 1,
            forall|g: int| r.col_ok(g) ==> #[trigger] r.act(0, g).is_none(),
    {
        Self {
            nr_gens,
            table: vec![vec![-1; nr_gens * 2 + 1]],
            part: IntPartition::new(),
        }
    }
    //@ end

    //@ begin src/fpgroups/cosets.rs :: impl CosetTable :: fn nr_gens
    //@ rw R16 /-> usize/-> (r: usize)/
    pub fn nr_gens(&self) -> (r: usize)
        ensures r == self.nr_gens
    {
        self.nr_gens
    }
    //@ end

    // R5: the body is two std iterator expressions (RangeInclusive map/collect, cloned/chain/map/collect) vstd does not model
    //@ begin src/fpgroups/cosets.rs :: impl CosetTable :: fn all_gens
    //@ rw R16 /-> Vec<isize>/-> (r: Vec<isize>)/
    #[verifier::external_body]
    pub fn all_gens(&self) -> (r: Vec<isize>)
        ensures r@.len() == 2 * self.nr_gens,
            forall|k: int| 0 <= k < self.nr_gens ==> #[trigger] r@[k] == k + 1,
            forall|k: int| self.nr_gens <= k < 2 * self.nr_gens ==> #[trigger] r@[k] == -(k - self.nr_gens + 1),
    {
        let tmp: Vec<_> = (1..=self.nr_gens).map(|g| g as isize).collect();
        tmp.iter().cloned().chain(tmp.iter().map(|g| -g)).collect()
    }
    //@ end

    //@ begin src/fpgroups/cosets.rs :: impl CosetTable :: fn len
    //@ rw R16 /-> usize/-> (r: usize)/
    pub fn len(&self) -> (r: usize)
        ensures r == self.table@.len()
    {
        self.table.len()
    }
    //@ end

    //@ begin src/fpgroups/cosets.rs :: impl CosetTable :: fn canon
    //@ rw R16 /-> usize/-> (r: usize)/
    fn canon(&self, c: usize) -> (r: usize)
        requires c < usize::MAX
        ensures r == self.part.rep(c as int)
    {
        self.part.find(c)
    }
    //@ end

    //@ begin src/fpgroups/cosets.rs :: impl CosetTable :: fn get
    //@ rw R16 /-> Option<usize>/-> (r: Option<usize>)/
    pub fn get(&self, c: usize, g: isize) -> (r: Option<usize>)
        requires self.wf(), self.col_ok(g as int)
        ensures r == self.act(c as int, g as int)
    {
        if c < self.len() {
            let r = self.table[c][(g + self.nr_gens as isize) as usize];
            if r >= 0 {
                Some(self.canon(r as usize))
            } else {
                None
            }
        } else {
            None
        }
    }
    //@ end

    //@ begin src/fpgroups/cosets.rs :: impl CosetTable :: fn set
    pub fn set(&mut self, c: usize, g: isize, d: usize)
        requires old(self).wf(), old(self).col_ok(g as int), d <= isize::MAX, c < usize::MAX
        ensures final(self).wf(), final(self).nr_gens == old(self).nr_gens, final(self).part == old(self).part,
            final(self).table@.len() == (if c < old(self).table@.len() { old(self).table@.len() } else { (c + 1) as nat }),
            final(self).raw(c as int, g as int) == d,
            // frame: all other entries of existing rows are unchanged, new rows are empty
            forall|c2: int, g2: int| 0 <= c2 < old(self).table@.len() && old(self).col_ok(g2) && !(c2 == c && g2 == g)
                ==> final(self).raw(c2, g2) == old(self).raw(c2, g2),
            forall|c2: int, g2: int| old(self).table@.len() <= c2 < final(self).table@.len() && old(self).col_ok(g2) && !(c2 == c && g2 == g)
                ==> final(self).raw(c2, g2) == -1,
    {
        while c >= self.len()
            invariant self.wf(), self.nr_gens == old(self).nr_gens, self.part == old(self).part,
                self.table@.len() >= old(self).table@.len(),
                self.table@.len() <= c + 1 || self.table@.len() == old(self).table@.len(),
                forall|c2: int| 0 <= c2 < old(self).table@.len() ==> self.table@[c2] == old(self).table@[c2],
                forall|c2: int, k: int| old(self).table@.len() <= c2 < self.table@.len() && 0 <= k < 2 * self.nr_gens + 1 ==> self.table@[c2]@[k] == -1,
            decreases c + 1 - self.table@.len()
        {
            self.table.push(vec![-1; self.nr_gens * 2 + 1]);
        }
        self.table[c][(g + self.nr_gens as isize) as usize] = d as isize;
    }
    //@ end

    //@ begin src/fpgroups/cosets.rs :: impl CosetTable :: fn join
    fn join(&mut self, c: usize, d: usize, g: isize)
        requires old(self).wf(), old(self).col_ok(g as int), c <= isize::MAX, d <= isize::MAX, c < usize::MAX, d < usize::MAX, g > isize::MIN
        // after join, row c maps to d under g and d maps back to c under the inverse generator
        ensures final(self).wf(), final(self).raw(d as int, -(g as int)) == c, (c != d || g != 0) ==> final(self).raw(c as int, g as int) == d
    {
        self.set(c, g, d);
        self.set(d, -g, c);
    }
    //@ end
}

// tracing a word through the table, from a row
pub open spec fn trace(t: &CosetTable, row: int, w: Seq<isize>) -> Option<usize>
    decreases w.len()
{
    if w.len() == 0 { Some(row as usize) }
    else { match trace(t, row, w.drop_last()) { Some(x) => t.act(x as int, w.last() as int), None => None } }
}

pub open spec fn cols_ok(t: &CosetTable, w: Seq<isize>) -> bool { forall|k: int| 0 <= k < w.len() ==> t.col_ok(#[trigger] w[k] as int) }

pub open spec fn inv_word(w: Seq<isize>) -> Seq<isize> { Seq::new(w.len(), |k: int| (-(w[w.len() - 1 - k] as int)) as isize) }

//@ begin src/fpgroups/cosets.rs :: - :: fn scan
//@ rw R16 /-> \(usize, usize\)/-> (res: (usize, usize))/
fn scan(table: &CosetTable, w: &FreeWord, start: usize, limit: usize)
    -> (res: (usize, usize))
    requires table.wf(), cols_ok(table, w@), limit <= w@.len()
    // scans the longest defined prefix (up to limit): the prefix traces from start to the returned row, and stops
    // early only where the table is undefined
    ensures res.1 <= limit, trace(table, start as int, w@.take(res.1 as int)) == Some(res.0),
        res.1 < limit ==> table.act(res.0 as int, w@[res.1 as int] as int).is_none(),
{
    let mut row = start;
    proof { assert(w@.take(0) =~= Seq::<isize>::empty()); }

    for index in 0..limit
        invariant table.wf(), cols_ok(table, w@), limit <= w@.len(),
            trace(table, start as int, w@.take(index as int)) == Some(row),
    {
        proof {
            assert(w@.take(index + 1).drop_last() =~= w@.take(index as int));
            assert(w@.take(index + 1).last() == w@[index as int]);
        }
        if let Some(next) = table.get(row, w[index]) {
            row = next;
        } else {
            return (row, index);
        }
    }
    (row, limit)
}
//@ end

//@ begin src/fpgroups/cosets.rs :: - :: fn scan_inverse
//@ rw R16 /-> \(usize, usize\)/-> (res: (usize, usize))/
fn scan_inverse(
    table: &CosetTable, w: &FreeWord, start: usize, limit: usize
)
    -> (res: (usize, usize))
    requires table.wf(), cols_ok(table, w@), limit <= w@.len()
    // the same for the inverse word w^-1 = (-w[n-1], ..., -w[0])
    ensures res.1 <= limit, trace(table, start as int, inv_word(w@).take(res.1 as int)) == Some(res.0),
        res.1 < limit ==> table.act(res.0 as int, inv_word(w@)[res.1 as int] as int).is_none(),
{
    proof { w.lemma_reduced(); }
    let n = w.len();
    let mut row = start;
    proof { assert(inv_word(w@).take(0) =~= Seq::<isize>::empty()); }

    for index in 0..limit
        invariant table.wf(), cols_ok(table, w@), limit <= w@.len(), n == w@.len(), reduced(w@),
            trace(table, start as int, inv_word(w@).take(index as int)) == Some(row),
    {
        proof {
            let iw = inv_word(w@);
            assert(iw.take(index + 1).drop_last() =~= iw.take(index as int));
            assert(iw.take(index + 1).last() == iw[index as int]);
            assert(w@[n - 1 - index] > isize::MIN);
            assert(table.col_ok(w@[n - 1 - index] as int));
        }
        if let Some(next) = table.get(row, -w[n - 1 - index]) {
            row = next;
        } else {
            return (row, index);
        }
    }
    (row, limit)
}
//@ end

//@ begin src/fpgroups/cosets.rs :: - :: fn scan_both_ways
//@ rw R16 /-> \(usize, usize, usize, isize\)/-> (res: (usize, usize, usize, isize))/
fn scan_both_ways(table: &CosetTable, w: &FreeWord, start: usize)
    -> (res: (usize, usize, usize, isize))
    requires table.wf(), cols_ok(table, w@)
    // (head, tail, gap, c): w = prefix ++ middle ++ suffix with |middle| = gap; the prefix traces start -> head, the inverse of
    // the suffix traces start -> tail; for gap >= 1, c is the first letter of the middle part; never panics (also for the empty word)
    ensures exists|i: int, j: int| #![trigger w@.take(i), inv_word(w@).take(j)] 0 <= i && 0 <= j && i + j + res.2 == w@.len()
            && trace(table, start as int, w@.take(i)) == Some(res.0)
            && trace(table, start as int, inv_word(w@).take(j)) == Some(res.1)
            && (res.2 >= 1 ==> res.3 == w@[i]),
{
    let n = w.len();
    let (head, i) = scan(table, w, start, n);
    let (tail, j) = scan_inverse(table, w, start, n - i);
    (head, tail, n - i - j, if i < n { w[i] } else if n > 0 { w[0] } else { 0 })
}
//@ end

// =====================================================================================================
// coset representatives (C11, last sentence)
// =====================================================================================================
// a complete table: every generator and inverse generator acts on every row, staying inside the table, and the action of the
// inverse generator undoes it (C11: "every generator acts on the rows as a permutation whose inverse is the action of the
// inverse generator")
pub open spec fn valid(t: &CosetTable) -> bool {
    &&& t.wf()
    &&& t.table@.len() >= 1
    &&& forall|r: int, g: int| 0 <= r < t.table@.len() && t.gen_ok(g) ==>
            (#[trigger] t.act(r, g)).is_some() && t.act(r, g).unwrap() < t.table@.len()
            && t.act(t.act(r, g).unwrap() as int, -g) == Some(r as usize)
}

proof fn lemma_trace_step(t: &CosetTable, w: Seq<isize>, g: isize, k: int)
    requires valid(t), reduced(w), t.gen_ok(g as int), 0 <= k < t.table@.len(),
        trace(t, 0, w) == Some(k as usize),
        forall|j: int| 0 <= j < w.len() ==> t.gen_ok(#[trigger] w[j] as int),
    ensures trace(t, 0, step(w, g)) == t.act(k, g as int),
        forall|j: int| 0 <= j < step(w, g).len() ==> t.gen_ok(#[trigger] step(w, g)[j] as int),
{
    if w.len() > 0 && neg_eq(g, w.last()) {
        let w0 = w.drop_last();
        let x = trace(t, 0, w0);
        assert(x.is_some());
        lemma_trace_in_range(t, w0);
        assert(t.act(x.unwrap() as int, w.last() as int) == Some(k as usize));
        assert(t.gen_ok(w[w.len() - 1] as int));
        assert(step(w, g) == w0);
        assert forall|j: int| 0 <= j < w0.len() implies t.gen_ok(#[trigger] w0[j] as int) by { assert(w0[j] == w[j]); }
    } else {
        let w2 = w.push(g);
        assert(step(w, g) == w2);
        assert(w2.drop_last() =~= w);
        assert forall|j: int| 0 <= j < w2.len() implies t.gen_ok(#[trigger] w2[j] as int) by { if j < w.len() { assert(w2[j] == w[j]); } }
    }
}

proof fn lemma_trace_in_range(t: &CosetTable, w: Seq<isize>)
    requires valid(t), trace(t, 0, w).is_some(), forall|j: int| 0 <= j < w.len() ==> t.gen_ok(#[trigger] w[j] as int),
    ensures trace(t, 0, w).unwrap() < t.table@.len()
    decreases w.len()
{
    if w.len() > 0 {
        let w0 = w.drop_last();
        assert forall|j: int| 0 <= j < w0.len() implies t.gen_ok(#[trigger] w0[j] as int) by { assert(w0[j] == w[j]); }
        lemma_trace_in_range(t, w0);
        assert(t.gen_ok(w[w.len() - 1] as int));
    }
}


pub open spec fn reps_ok(t: &CosetTable, m: Map<usize, FreeWord>) -> bool {
    forall|k: usize| #[trigger] m.contains_key(k) ==>
        k < t.table@.len() && reduced(m[k]@) && trace(t, 0, m[k]@) == Some(k)
        && forall|j: int| 0 <= j < m[k]@.len() ==> t.gen_ok(#[trigger] m[k]@[j] as int)
}

//@ begin src/fpgroups/cosets.rs :: - :: fn coset_representative
//@ rw R16 /-> BTreeMap<usize, FreeWord>/-> (result: BTreeMap<usize, FreeWord>)/
//@ rw R13 /result\[&i\]\.clone\(\)/result.get(&i).unwrap().clone()/
//@ rw R17 /for g in table\.all_gens\(\)$/for g in it: table.all_gens()/
//@ rw R9+R14 /^([ \t]*)result\.insert\(k, &w \* g\);/\1let wk = Mul::mul(&w, g);\n\1result.insert(k, wk);/
#[verifier::exec_allows_no_decreases_clause]
pub fn coset_representative(table: &CosetTable) -> (result: BTreeMap<usize, FreeWord>)
    requires valid(table)
    // C11: "The coset representatives map each row to a word that, traced from row 0, ends in that row."
    ensures reps_ok(table, result@), result@.contains_key(0)
{
    let mut queue = VecDeque::from([0]);
    let mut result = BTreeMap::from([(0, FreeWord::empty())]);
    proof { assert(reps_ok(table, result@)); }
    let ghost mut qg: Seq<usize> = queue@;

    while let Some(i) = queue.pop_front()
        invariant
            qg == queue@,
            valid(table),
            reps_ok(table, result@),
            result@.contains_key(0),
            forall|k: int| 0 <= k < queue@.len() ==> result@.contains_key(#[trigger] queue@[k]),
    {
        proof { assert(qg[0] == i); assert(result@.contains_key(qg[0]));
                assert forall|k: int| 0 <= k < queue@.len() implies result@.contains_key(#[trigger] queue@[k]) by { assert(queue@[k] == qg[k + 1]); } }
        let w = result.get(&i).unwrap().clone();

        for g in it: table.all_gens()
            invariant
                valid(table),
                reps_ok(table, result@),
                result@.contains_key(0), result@.contains_key(i),
                w@ == result@[i]@,
                forall|k: int| 0 <= k < queue@.len() ==> result@.contains_key(#[trigger] queue@[k]),
                forall|k: int| 0 <= k < it.seq().len() ==> table.gen_ok(#[trigger] it.seq()[k] as int),
        {
            proof { assert(table.gen_ok(it.seq()[it.index() as int] as int)); }
            if let Some(k) = table.get(i, g) {
                if !result.contains_key(&k) {
                    proof { lemma_trace_step(table, w@, g, i as int); }
                    let wk = Mul::mul(&w, g);
                    result.insert(k, wk);
                    queue.push_back(k);
                }
            }
        }
        proof { qg = queue@; }
    }

    result
}
//@ end

// vacuity guards
proof fn canary_valid_is_satisfiable(t: &CosetTable)
    requires valid(t), t.nr_gens == 1, t.table@.len() == 2
    ensures false
{}

fn canary_coset_representative_contract(t: &CosetTable)
    requires valid(t)
    ensures false
{
    let r = coset_representative(t);
}

fn canary_scan_contract(t: &CosetTable, w: &FreeWord)
    requires t.wf(), cols_ok(t, w@)
    ensures false
{
    let r = scan_both_ways(t, w, 0);
}

} // verus!
fn main() {}
