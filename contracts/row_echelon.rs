//@ unit row_echelon
//@ props C18
#![feature(panic_internals)]
#![feature(sized_hierarchy)]
use vstd::prelude::*;
use vstd::std_specs::core::*;
use std::ops::{Index, IndexMut};
verus! {
#[verifier::external_type_specification]
pub struct ExAssertKind(core::panicking::AssertKind);

pub assume_specification<T, U> [core::panicking::assert_failed] (_0: core::panicking::AssertKind, _1: &T, _2: &U, _3: std::option::Option<std::fmt::Arguments<'_>>) -> !
    where
    T: std::marker::MetaSized + std::fmt::Debug + ?Sized,
    U: std::marker::MetaSized + std::fmt::Debug + ?Sized,
    requires false;

pub assume_specification<T> [<[T]>::swap] (s: &mut [T], a: usize, b: usize)
    requires a < old(s)@.len(), b < old(s)@.len(),       // std panics otherwise
    ensures final(s)@ == old(s)@.update(a as int, old(s)@[b as int]).update(b as int, old(s)@[a as int]);

// NOT modelled: i64::abs(i64::MIN) overflows (a panic in debug builds); the spec below leaves that result unspecified
pub assume_specification[i64::abs](x: i64) -> (r: i64)
    ensures x > i64::MIN ==> r == if x < 0 { -x } else { x as int };

// =====================================================================================================
// the two interfaces of src/geometry/traits.rs, with SHAPE contracts only ("no shape makes these routines panic")
// =====================================================================================================
pub trait Array2d<T>:
    Index<(usize, usize), Output=T>
{
    spec fn wf(&self) -> bool;
    spec fn srows(&self) -> int;
    spec fn scols(&self) -> int;
    fn nr_rows(&self) -> (r: usize) requires self.wf() ensures r == self.srows();
    fn nr_columns(&self) -> (r: usize) requires self.wf() ensures r == self.scols();
    // law tying the index precondition (the assert!s of the Index impl) to the shape; every implementation proves it
    proof fn index_law(&self, i: usize, j: usize)
        requires self.wf()
        ensures IndexSpec::index_req(self, &(i, j)) <==> (i < self.srows() && j < self.scols()),
            0 <= self.srows() <= usize::MAX, 0 <= self.scols() <= usize::MAX;
}

pub trait Entry: Sized {
    // contract every implementation has to meet (proved below for i64): the pivot is a row index at or below row0
    fn pivot_row<M: Array2d<Self>>(col: usize, row0: usize, a: &M) -> (r: Option<usize>)
        requires a.wf(), row0 < a.srows(), col < a.scols()
        ensures r.is_some() ==> row0 <= r.unwrap() < a.srows();
    // shape preservation; the arithmetic (gcdx, BigRational, f64) is outside the verifier: assumed
    fn clear_col<A: Array2d<Self>, B: Array2d<Self>>(
        col: usize, row1: usize, row2: usize, a: &mut A, x: Option<&mut B>
    )
        requires old(a).wf(), row1 < old(a).srows(), row2 < old(a).srows(), col < old(a).scols(),
            x.is_some() ==> old(x.unwrap()).wf() && row1 < old(x.unwrap()).srows() && row2 < old(x.unwrap()).srows(),
        ensures final(a).wf(), final(a).srows() == old(a).srows(), final(a).scols() == old(a).scols(),
            x.is_some() ==> final(x.unwrap()).wf() && final(x.unwrap()).srows() == old(x.unwrap()).srows()
                && final(x.unwrap()).scols() == old(x.unwrap()).scols();
}

impl Entry for i64 {
    //@ begin src/geometry/traits.rs :: impl Entry for i64 :: fn pivot_row
    //@ rw R16 /-> Option<usize>/-> (r: Option<usize>)/
    fn pivot_row<M: Array2d<Self>>(col: usize, row0: usize, a: &M)
        -> (r: Option<usize>)
    {
        proof { a.index_law(row0, col); }
        let mut best_row = row0;

        for row in (row0 + 1)..a.nr_rows()
            invariant a.wf(), row0 <= best_row < a.srows(), col < a.scols(), row0 < a.srows(),
        {
            proof { a.index_law(row, col); a.index_law(best_row, col); }
            let x = a[(row, col)];
            let y = a[(best_row, col)];
            if x != 0 && (y == 0 || x.abs() < y.abs()) {
                best_row = row;
            }
        }

        proof { a.index_law(best_row, col); }
        if a[(best_row, col)] != 0 { Some(best_row) } else { None }
    }
    //@ end

    #[verifier::external_body]
    fn clear_col<A: Array2d<Self>, B: Array2d<Self>>(
        col: usize, row1: usize, row2: usize, a: &mut A, x: Option<&mut B>
    )
    { unimplemented!() }
}

// =====================================================================================================
// VecMatrix
// =====================================================================================================
//@ begin src/geometry/vec_matrix.rs :: - :: struct VecMatrix
//@ rw R0 /^([ \t]+)(\w+): /\1pub \2: /
pub struct VecMatrix<T> {
    pub data: Vec<T>,
    pub nr_rows: usize,
    pub nr_cols: usize,
}
//@ end

impl<T> VecMatrix<T> {
    pub open spec fn inv(&self) -> bool { self.data@.len() == self.nr_rows * self.nr_cols && self.data@.len() <= usize::MAX }

    // assumed SHAPE contracts of three methods whose bodies need `T: Scalar + Clone` (num_traits Zero/One, HRTB bounds)
    #[verifier::external_body]
    pub fn clone(&self) -> (r: Self) requires self.inv() ensures r.inv(), r.nr_rows == self.nr_rows, r.nr_cols == self.nr_cols { unimplemented!() }
    #[verifier::external_body]
    pub fn identity(dim: usize) -> (r: Self) ensures r.inv(), r.nr_rows == dim, r.nr_cols == dim { unimplemented!() }
}

impl<T> IndexSpecImpl<(usize, usize)> for VecMatrix<T> {
    open spec fn index_req(&self, index: &(usize, usize)) -> bool { index.0 < self.nr_rows && index.1 < self.nr_cols && self.inv() }
}

impl<T> Index<(usize, usize)> for VecMatrix<T>
{
    type Output = T;

    //@ begin src/geometry/vec_matrix.rs :: impl<T> Index<(usize, usize)> for VecMatrix<T> :: fn index
    //@ rw R16 /-> &Self::Output/-> (r: &Self::Output)/
    fn index(&self, index: (usize, usize)) -> (r: &Self::Output)
        ensures *r == self.data@[index.0 * self.nr_cols + index.1]
    {
        let (i, j) = index;
        assert!(i < self.nr_rows);
        assert!(j < self.nr_cols);

        proof {
            assert(i * self.nr_cols + j < self.nr_rows * self.nr_cols && i * self.nr_cols + j >= 0 && i * self.nr_cols >= 0) by(nonlinear_arith)
                requires i < self.nr_rows, j < self.nr_cols;
        }
        &self.data[i * self.nr_cols + j]
    }
    //@ end
}

impl<T> Array2d<T> for VecMatrix<T> {
    open spec fn wf(&self) -> bool { self.inv() }
    open spec fn srows(&self) -> int { self.nr_rows as int }
    open spec fn scols(&self) -> int { self.nr_cols as int }

    //@ begin src/geometry/vec_matrix.rs :: impl<T> Array2d<T> for VecMatrix<T> :: fn nr_rows
    fn nr_rows(&self) -> usize
    {
        self.nr_rows
    }
    //@ end

    //@ begin src/geometry/vec_matrix.rs :: impl<T> Array2d<T> for VecMatrix<T> :: fn nr_columns
    fn nr_columns(&self) -> usize
    {
        self.nr_cols
    }
    //@ end

    proof fn index_law(&self, i: usize, j: usize) {}
}

impl<T> VecMatrix<T> {
    //@ begin src/geometry/vec_matrix.rs :: impl<T: Scalar + Clone> VecMatrix<T> :: fn swap_rows
    pub fn swap_rows(&mut self, i: usize, j: usize)
        requires old(self).inv(), i < old(self).nr_rows, j < old(self).nr_rows, i != j     // the three assertions of the body
        ensures final(self).inv(), final(self).nr_rows == old(self).nr_rows, final(self).nr_cols == old(self).nr_cols
    {
        assert!(i < self.nr_rows);
        assert!(j < self.nr_rows);
        assert_ne!(i, j);

        proof {
            assert(i * self.nr_cols + self.nr_cols <= self.nr_rows * self.nr_cols && j * self.nr_cols + self.nr_cols <= self.nr_rows * self.nr_cols
                   && i * self.nr_cols >= 0 && j * self.nr_cols >= 0) by(nonlinear_arith)
                requires i < self.nr_rows, j < self.nr_rows;
        }
        let ri = i * self.nr_cols;
        let rj = j * self.nr_cols;

        for k in 0..self.nr_cols
            invariant self.inv(), self.nr_rows == old(self).nr_rows, self.nr_cols == old(self).nr_cols,
                ri + self.nr_cols <= self.data@.len(), rj + self.nr_cols <= self.data@.len(),
        {
            self.data.swap(ri + k, rj + k);
        }
    }
    //@ end
}

//@ begin src/geometry/vec_matrix.rs :: - :: struct RowEchelonVecMatrix
//@ rw R0 /^([ \t]+)(\w+): /\1pub \2: /
pub struct RowEchelonVecMatrix<T: Entry> {
    pub multiplier: VecMatrix<T>,
    pub result: VecMatrix<T>,
    pub columns: Vec<usize>,
    pub rank: usize,
    pub nr_swaps: usize
}
//@ end

pub open spec fn pivots_increasing(cols: Seq<usize>, rank: int) -> bool {
    forall|a: int, b: int| 0 <= a < b < rank ==> cols[a] < cols[b]
}

impl<T: Entry> RowEchelonVecMatrix<T> {
    //@ begin src/geometry/vec_matrix.rs :: impl<T: Entry + Clone> RowEchelonVecMatrix<T> :: fn new
    //@ rw R16 /-> Self/-> (re: Self)/
    //@ rw R12 /let mut row = 0;/let mut row: usize = 0;/
    //@ rw R12 /let mut nr_swaps = 0;/let mut nr_swaps: usize = 0;/
    //@ rw R17 /for col in 0\.\.m\.nr_columns\(\)$/for col in it: 0..m.nr_columns()/
    // loops see the facts about immutable locals established before them (robust against hoisting `m.nr_rows()` into a local)
    #[verifier::loop_isolation(false)]
    pub fn new(m: &VecMatrix<T>) -> (re: Self)
        requires m.inv()
        // C18 "no shape makes these routines panic": every index / assertion in the body is discharged for ALL shapes, and
        ensures re.rank <= m.nr_rows, re.rank <= m.nr_cols,                       // rank <= min(rows, columns)
            re.columns@.len() == m.nr_rows,
            pivots_increasing(re.columns@, re.rank as int),                          // pivot columns strictly increase
            forall|a: int| 0 <= a < re.rank ==> #[trigger] re.columns@[a] < m.nr_cols,
            re.multiplier.nr_rows == m.nr_rows, re.multiplier.nr_cols == m.nr_rows,  // shapes of multiplier / result
            re.result.nr_rows == m.nr_rows, re.result.nr_cols == m.nr_cols,
            re.nr_swaps <= re.rank,
    {
        let mut u = m.clone();
        let mut s = VecMatrix::identity(m.nr_rows());
        let mut row: usize = 0;
        let mut nr_swaps: usize = 0;
        let mut cols = vec![m.nr_rows(); m.nr_rows()];

        for col in it: 0..m.nr_columns()
            invariant
                // the elimination sweeps ALL columns (it may stop early only through the explicit `rows exhausted` exit below):
                // a pivot in a late column of a wide matrix must not be skipped
                it.seq().len() == m.nr_cols,
                m.inv(), u.inv(), s.inv(),
                u.nr_rows == m.nr_rows, u.nr_cols == m.nr_cols,
                s.nr_rows == m.nr_rows, s.nr_cols == m.nr_rows,
                cols@.len() == m.nr_rows,
                row <= col, row <= m.nr_rows, nr_swaps <= row,
                pivots_increasing(cols@, row as int),
                forall|a: int| 0 <= a < row ==> #[trigger] cols@[a] < col,
        {
            if row >= m.nr_rows() {
                break;
            }

            if let Some(pr) = Entry::pivot_row(col, row, &u) {
                if pr != row {
                    u.swap_rows(pr, row);
                    s.swap_rows(pr, row);
                    nr_swaps += 1;
                }

                for r in (row + 1)..m.nr_rows()
                    invariant
                        m.inv(), u.inv(), s.inv(),
                        u.nr_rows == m.nr_rows, u.nr_cols == m.nr_cols,
                        s.nr_rows == m.nr_rows, s.nr_cols == m.nr_rows,
                        row < m.nr_rows, col < m.nr_cols,
                {
                    Entry::clear_col(col, r, row, &mut u, Some(&mut s));
                }

                cols[row] = col;
                row += 1;
            }
        }

        RowEchelonVecMatrix {
            multiplier: s,
            result: u,
            columns: cols,
            rank: row,
            nr_swaps
        }
    }
    //@ end
}

// =====================================================================================================
// the const-generic twin (src/geometry/matrix.rs): shapes are types, so "no shape makes these routines panic" is about the
// indices and assertions inside RowEchelonMatrix::new
// =====================================================================================================
//@ begin src/geometry/matrix.rs :: - :: struct Matrix
//@ rw R0 /^([ \t]+)(\w+): /\1pub \2: /
pub struct Matrix<T, const N: usize, const M: usize> {
    pub data: [[T; M]; N]
}
//@ end

impl<T, const N: usize, const M: usize> Matrix<T, N, M> {
    // assumed SHAPE contracts (bodies need `T: Scalar + Clone`, array-of-array manipulation): the assertions of swap_rows are its precondition
    #[verifier::external_body]
    pub fn clone(&self) -> (r: Self) { unimplemented!() }
    #[verifier::external_body]
    pub fn swap_rows(&mut self, i: usize, j: usize) requires i < N, j < N, i != j { unimplemented!() }
}
impl<T, const N: usize> Matrix<T, N, N> {
    #[verifier::external_body]
    pub fn identity() -> (r: Self) { unimplemented!() }
}

impl<T, const N: usize, const M: usize> IndexSpecImpl<(usize, usize)> for Matrix<T, N, M> {
    open spec fn index_req(&self, index: &(usize, usize)) -> bool { index.0 < N && index.1 < M }
}
impl<T, const N: usize, const M: usize> Index<(usize, usize)> for Matrix<T, N, M>
{
    type Output = T;
    #[verifier::external_body]
    fn index(&self, index: (usize, usize)) -> (r: &Self::Output) { unimplemented!() }
}

impl<T, const N: usize, const M: usize> Array2d<T> for Matrix<T, N, M> {
    open spec fn wf(&self) -> bool { true }
    open spec fn srows(&self) -> int { N as int }
    open spec fn scols(&self) -> int { M as int }

    //@ begin src/geometry/matrix.rs :: impl<T, const N: usize, const M: usize> Array2d<T> for Matrix<T, N, M> :: fn nr_rows
    fn nr_rows(&self) -> usize
    {
        N
    }
    //@ end

    //@ begin src/geometry/matrix.rs :: impl<T, const N: usize, const M: usize> Array2d<T> for Matrix<T, N, M> :: fn nr_columns
    fn nr_columns(&self) -> usize
    {
        M
    }
    //@ end

    proof fn index_law(&self, i: usize, j: usize) {}
}

//@ begin src/geometry/matrix.rs :: - :: struct RowEchelonMatrix
//@ rw R0 /^([ \t]+)(\w+): /\1pub \2: /
pub struct RowEchelonMatrix<T: Entry, const N: usize, const M: usize> {
    pub multiplier: Matrix<T, N, N>,
    pub result: Matrix<T, N, M>,
    pub columns: [usize; N],
    pub rank: usize,
    pub nr_swaps: usize
}
//@ end

impl<T: Entry, const N: usize, const M: usize> RowEchelonMatrix<T, N, M> {
    //@ begin src/geometry/matrix.rs :: impl<T: Entry + Clone, const N: usize, const M: usize> RowEchelonMatrix<T, N, M> :: fn new
    //@ rw R16 /-> Self/-> (re: Self)/
    //@ rw R12 /let mut row = 0;/let mut row: usize = 0;/
    //@ rw R12 /let mut nr_swaps = 0;/let mut nr_swaps: usize = 0;/
    //@ rw R17 /for col in 0\.\.M$/for col in it: 0..M/
    pub fn new(m: &Matrix<T, N, M>) -> (re: Self)
        // the same contract as the Vec-backed version: no index or assertion in the body can fail, and
        ensures re.rank <= N, re.rank <= M,
            pivots_increasing(re.columns@, re.rank as int),
            forall|a: int| 0 <= a < re.rank ==> #[trigger] re.columns@[a] < M,
            re.nr_swaps <= re.rank,
    {
        let mut u = m.clone();
        let mut s = Matrix::identity();
        let mut row: usize = 0;
        let mut nr_swaps: usize = 0;
        let mut cols = [N; N];

        for col in it: 0..M
            invariant
                it.seq().len() == M,
                row <= col, row <= N, nr_swaps <= row,
                pivots_increasing(cols@, row as int),
                forall|a: int| 0 <= a < row ==> #[trigger] cols@[a] < col,
        {
            if row >= N {
                break;
            }

            if let Some(pr) = Entry::pivot_row(col, row, &u) {
                if pr != row {
                    u.swap_rows(pr, row);
                    s.swap_rows(pr, row);
                    nr_swaps += 1;
                }

                for r in (row + 1)..N
                    invariant row < N, col < M,
                {
                    Entry::clear_col(col, r, row, &mut u, Some(&mut s));
                }

                cols[row] = col;
                row += 1;
            }
        }

        RowEchelonMatrix {
            multiplier: s,
            result: u,
            columns: cols,
            rank: row,
            nr_swaps
        }
    }
    //@ end
}

fn canary_new_fixed_contract<T: Entry>(m: &Matrix<T, 1, 2>)
    ensures false
{
    let r = RowEchelonMatrix::new(m);
}

// vacuity guards
fn canary_new_contract<T: Entry>(m: &VecMatrix<T>)
    requires m.inv(), m.nr_rows == 1, m.nr_cols == 2
    ensures false
{
    let r = RowEchelonVecMatrix::new(m);
}

fn canary_pivot_row_contract(m: &VecMatrix<i64>)
    requires m.inv(), m.nr_rows == 2, m.nr_cols == 2
    ensures false
{
    let r = <i64 as Entry>::pivot_row(0, 0, m);
}

} // verus!
fn main() {}
