//@ unit row_echelon
//@ props C18
#![feature(panic_internals)]
#![feature(sized_hierarchy)]
use vstd::prelude::*;
use vstd::std_specs::core::*;
use std::ops::{Index, IndexMut};
verus! {
#[verifier::external_type_specification]
pub struct ExAssertKind(core::panicking::AssertKind);

pub assume_specification<T, U> [core::panicking::assert_failed] (_0: core::panicking::AssertKind, _1: &T, _2: &U, _3: std::option::Option<std::fmt::Arguments<'_>>) -> !
    where
    T: std::marker::MetaSized + std::fmt::Debug + ?Sized,
    U: std::marker::MetaSized + std::fmt::Debug + ?Sized,
    requires false;

pub assume_specification<T> [<[T]>::swap] (s: &mut [T], a: usize, b: usize)
    requires a < old(s)@.len(), b < old(s)@.len(),       // std panics otherwise
    ensures final(s)@ == old(s)@.update(a as int, old(s)@[b as int]).update(b as int, old(s)@[a as int]);

// NOT modelled: i64::abs(i64::MIN) overflows (a panic in debug builds); the spec below leaves that result unspecified
pub assume_specification[i64::abs](x: i64) -> (r: i64)
    ensures x > i64::MIN ==> r == if x < 0 { -x } else { x as int };

// =====================================================================================================
// the two interfaces of src/geometry/traits.rs.  Beyond the SHAPE contracts ("no shape makes these routines panic") they now carry
// the ZERO STRUCTURE of the elimination: `at` is the abstract entry, `zr` says "this entry is zero"; what a pivot search must return
// and what clearing a column must leave behind are the trait-level contracts every `Entry` implementation is checked against.
// =====================================================================================================
pub trait Array2d<T>:
    Sized + Index<(usize, usize), Output=T> + IndexMut<(usize, usize), Output=T>
{
    spec fn wf(&self) -> bool;
    spec fn srows(&self) -> int;
    spec fn scols(&self) -> int;
    spec fn at(&self, i: int, j: int) -> T;
    fn nr_rows(&self) -> (r: usize) requires self.wf() ensures r == self.srows();
    fn nr_columns(&self) -> (r: usize) requires self.wf() ensures r == self.scols();
    // law tying the index precondition (the assert!s of the Index impl) to the shape; every implementation proves it
    proof fn index_law(&self, i: usize, j: usize)
        requires self.wf()
        ensures IndexSpec::index_req(self, &(i, j)) <==> (i < self.srows() && j < self.scols()),
            0 <= self.srows() <= usize::MAX, 0 <= self.scols() <= usize::MAX;
    // law: whatever `a[(i, j)]` returns (the postcondition of the implementation's `index`) is the abstract entry
    proof fn read_law(&self)
        requires self.wf()
        ensures forall|i: usize, j: usize, r: &T|
            #[trigger] call_ensures(<Self as Index<(usize, usize)>>::index, (self, (i, j)), r) && i < self.srows() && j < self.scols()
                ==> *r == self.at(i as int, j as int);
    // law: `a[(i, j)] = v` (the postcondition of the implementation's `index_mut`) writes exactly that entry
    proof fn write_law()
        ensures forall|m: &mut Self, i: usize, j: usize, r: &mut T|
            #[trigger] call_ensures(<Self as IndexMut<(usize, usize)>>::index_mut, (m, (i, j)), r) && (*m).wf() && i < (*m).srows() && j < (*m).scols()
                ==> mut_ref_future(m).wf() && mut_ref_future(m).srows() == (*m).srows() && mut_ref_future(m).scols() == (*m).scols()
                    && mut_ref_future(m).at(i as int, j as int) == mut_ref_future(r)
                    && forall|k: int, l: int| 0 <= k < (*m).srows() && 0 <= l < (*m).scols() && !(k == i && l == j)
                        ==> #[trigger] mut_ref_future(m).at(k, l) == (*m).at(k, l);
}

pub open spec fn same_shape<T, A: Array2d<T>>(a0: A, a1: A) -> bool {
    a1.wf() && a1.srows() == a0.srows() && a1.scols() == a0.scols()
}

// a1 is a0 with entry (i, j) replaced by v
pub open spec fn written<T, A: Array2d<T>>(a0: A, a1: A, i: int, j: int, v: T) -> bool {
    same_shape(a0, a1) && a1.at(i, j) == v
    && forall|k: int, l: int| 0 <= k < a0.srows() && 0 <= l < a0.scols() && !(k == i && l == j) ==> #[trigger] a1.at(k, l) == a0.at(k, l)
}

// what `clear_col(col, row1, row2, a, _)` leaves behind: entry (row1, col) is zero, the pivot (row2, col) is still non-zero,
// and nothing changes to the left of `col` or outside the two rows
pub open spec fn cleared<T: Entry, A: Array2d<T>>(a0: A, a1: A, col: int, row1: int, row2: int) -> bool {
    same_shape(a0, a1) && a1.at(row1, col).zr() && !a1.at(row2, col).zr()
    && forall|k: int, l: int| 0 <= k < a0.srows() && 0 <= l < a0.scols() && (l < col || (k != row1 && k != row2)) ==> #[trigger] a1.at(k, l) == a0.at(k, l)
}

pub trait Entry: Sized {
    spec fn zr(&self) -> bool;      // "is zero"

    // contract every implementation has to meet (proved below for i64, in unit prime_residue for PrimeResidueClass):
    // Some(p): p is a row at or below row0 whose entry in `col` is NOT zero;  None: the whole rest of the column is zero
    fn pivot_row<M: Array2d<Self>>(col: usize, row0: usize, a: &M) -> (r: Option<usize>)
        requires a.wf(), row0 < a.srows(), col < a.scols()
        ensures r.is_some() ==> row0 <= r.unwrap() < a.srows() && !a.at(r.unwrap() as int, col as int).zr(),
            r.is_none() ==> forall|k: int| row0 <= k < a.srows() ==> (#[trigger] a.at(k, col as int)).zr();
    // shape preservation and zero structure; the arithmetic itself (gcdx on machine integers, BigRational, f64) is outside the verifier
    fn clear_col<A: Array2d<Self>, B: Array2d<Self>>(
        col: usize, row1: usize, row2: usize, a: &mut A, x: Option<&mut B>
    )
        requires old(a).wf(), row1 < old(a).srows(), row2 < old(a).srows(), col < old(a).scols(),
            row1 != row2, !old(a).at(row2 as int, col as int).zr(),      // the body divides by the pivot entry
            x.is_some() ==> old(x.unwrap()).wf() && row1 < old(x.unwrap()).srows() && row2 < old(x.unwrap()).srows(),
        // (= `cleared(*old(a), *final(a), col, row1, row2)` below, spelled out: a trait may not mention a predicate generic over itself)
        ensures same_shape(*old(a), *final(a)),
            final(a).at(row1 as int, col as int).zr(), !final(a).at(row2 as int, col as int).zr(),
            forall|k: int, l: int| 0 <= k < old(a).srows() && 0 <= l < old(a).scols() && (l < col || (k != row1 && k != row2))
                ==> #[trigger] final(a).at(k, l) == old(a).at(k, l),
            x.is_some() ==> same_shape(*old(x.unwrap()), *final(x.unwrap()));
}

impl Entry for i64 {
    open spec fn zr(&self) -> bool { *self == 0 }

    //@ begin src/geometry/traits.rs :: impl Entry for i64 :: fn pivot_row
    //@ rw R16 /-> Option<usize>/-> (r: Option<usize>)/
    fn pivot_row<M: Array2d<Self>>(col: usize, row0: usize, a: &M)
        -> (r: Option<usize>)
    {
        proof { a.index_law(row0, col); a.read_law(); }
        let mut best_row = row0;

        for row in (row0 + 1)..a.nr_rows()
            invariant a.wf(), row0 <= best_row < a.srows(), col < a.scols(), row0 < a.srows(),
                // the candidate is non-zero as soon as any entry seen so far is
                a.at(best_row as int, col as int) == 0 ==> forall|k: int| row0 <= k < row ==> #[trigger] a.at(k, col as int) == 0,
        {
            proof { a.index_law(row, col); a.index_law(best_row, col); a.read_law(); }
            let x = a[(row, col)];
            let y = a[(best_row, col)];
            if x != 0 && (y == 0 || x.abs() < y.abs()) {
                best_row = row;
            }
        }

        proof { a.index_law(best_row, col); a.read_law(); }
        if a[(best_row, col)] != 0 { Some(best_row) } else { None }
    }
    //@ end

    // ASSUMED (trait contract above): the body is fraction-free elimination through `gcdx` on machine integers, whose products
    // overflow for large entries -- Verus would (rightly) reject every `*`; see DESIGN.md, C18
    #[verifier::external_body]
    fn clear_col<A: Array2d<Self>, B: Array2d<Self>>(
        col: usize, row1: usize, row2: usize, a: &mut A, x: Option<&mut B>
    )
    { unimplemented!() }
}

// =====================================================================================================
// BigRational entries (src/geometry/traits.rs: `impl Entry for BigRational`).  num_rational::BigRational is an external type: it is
// represented by a stand-in WITHOUT a value model -- `rz` ("is zero") is an uninterpreted predicate, every arithmetic operator is a total
// function with an arbitrary result (division: the divisor must not be zero, as in num_rational), `abs` keeps `rz`, and the comparison of
// absolute values is only known to be consistent with `rz`.  The operator sugar on references is emitted as named calls (R9).  What is
// proved is again the ZERO STRUCTURE and the absence of shape panics, for every result the arithmetic might produce.
// =====================================================================================================
#[verifier::external_body]
pub struct BigRational { _p: core::marker::PhantomData<()> }
impl BigRational {
    pub uninterp spec fn rz(&self) -> bool;
    #[verifier::external_body]
    pub fn zero() -> (r: Self) ensures r.rz() { unimplemented!() }
    #[verifier::external_body]
    pub fn is_zero(&self) -> (b: bool) ensures b == self.rz() { unimplemented!() }
}
// `x.abs() > y.abs()`: |x| > |y| >= 0 makes x non-zero, and a non-zero x beats a zero y
#[verifier::external_body]
pub fn __q_abs_gt(x: &BigRational, y: &BigRational) -> (r: bool)
    ensures r ==> !x.rz(), (y.rz() && !x.rz()) ==> r
{ unimplemented!() }
#[verifier::external_body]
pub fn __q_div(x: &BigRational, y: &BigRational) -> (r: BigRational)
    requires !y.rz()          // num_rational panics on division by zero
{ unimplemented!() }
#[verifier::external_body]
pub fn __q_mul(x: &BigRational, y: &BigRational) -> (r: BigRational) { unimplemented!() }
#[verifier::external_body]
pub fn __q_sub(x: &BigRational, y: &BigRational) -> (r: BigRational) { unimplemented!() }

impl Entry for BigRational {
    open spec fn zr(&self) -> bool { self.rz() }

    //@ begin src/geometry/traits.rs :: impl Entry for BigRational :: fn pivot_row
    //@ rw R16 /-> Option<usize>/-> (r: Option<usize>)/
    //@ rw R9 /(a\[\(row, col\)\])\.abs\(\) > (a\[\(best_row, col\)\])\.abs\(\)/__q_abs_gt(&\1, &\2)/
    fn pivot_row<M: Array2d<Self>>(col: usize, row0: usize, a: &M)
        -> (r: Option<usize>)
    {
        proof { a.index_law(row0, col); a.read_law(); }
        let mut best_row = row0;

        for row in (row0 + 1)..a.nr_rows()
            invariant a.wf(), row0 <= best_row < a.srows(), col < a.scols(), row0 < a.srows(),
                a.at(best_row as int, col as int).zr() ==> forall|k: int| row0 <= k < row ==> (#[trigger] a.at(k, col as int)).zr(),
        {
            proof { a.index_law(row, col); a.index_law(best_row, col); a.read_law(); }
            if __q_abs_gt(&a[(row, col)], &a[(best_row, col)]) {
                best_row = row;
            }
        }

        proof { a.index_law(best_row, col); a.read_law(); }
        if a[(best_row, col)].is_zero() { None } else { Some(best_row) }
    }
    //@ end

    //@ begin src/geometry/traits.rs :: impl Entry for BigRational :: fn clear_col
    //@ rw R9 #&(a\[\(row1, col\)\]) / &(a\[\(row2, col\)\])#__q_div(&\1, &\2)#
    //@ rw R9 /&(\w\[\(row1, k\)\]) - &(\w\[\(row2, k\)\]) \* &f/__q_sub(&\1, &__q_mul(&\2, &f))/
    #[verifier::loop_isolation(false)]
    fn clear_col<A: Array2d<Self>, B: Array2d<Self>>(
        col: usize, row1: usize, row2: usize, a: &mut A, x: Option<&mut B>
    )
    {
        proof { a.index_law(row1, col); a.index_law(row2, col); a.read_law(); A::write_law(); }
        let ghost a0 = *a;
        let f = __q_div(&a[(row1, col)], &a[(row2, col)]);
        a[(row1, col)] = Self::zero();

        for k in (col + 1)..a.nr_columns()
            invariant same_shape(a0, *a), row1 < a0.srows(), row2 < a0.srows(), col < a0.scols(), row1 != row2,
                a.at(row1 as int, col as int).zr(),
                // only row1 changes, and only from `col` on
                forall|i: int, l: int| 0 <= i < a0.srows() && 0 <= l < a0.scols() && (i != row1 || l < col) ==> #[trigger] a.at(i, l) == a0.at(i, l),
        {
            proof { a.index_law(row1, k); a.index_law(row2, k); a.read_law(); A::write_law(); }
            a[(row1, k)] = __q_sub(&a[(row1, k)], &__q_mul(&a[(row2, k)], &f));
        }

        if let Some(x) = x {
            let ghost x0 = *x;
            for k in 0..x.nr_columns()
                invariant same_shape(x0, *x), row1 < x0.srows(), row2 < x0.srows(),
            {
                proof { x.index_law(row1, k); x.index_law(row2, k); B::write_law(); }
                x[(row1, k)] = __q_sub(&x[(row1, k)], &__q_mul(&x[(row2, k)], &f));
            }
        }
    }
    //@ end
}

// =====================================================================================================
// VecMatrix
// =====================================================================================================
//@ begin src/geometry/vec_matrix.rs :: - :: struct VecMatrix
//@ rw R0 /^([ \t]+)(\w+): /\1pub \2: /
pub struct VecMatrix<T> {
    pub data: Vec<T>,
    pub nr_rows: usize,
    pub nr_cols: usize,
}
//@ end

// entry (i, j) of the row-major storage; opaque: the nonlinear index stays out of the quantified invariants
#[verifier::opaque]
pub open spec fn vm_at<T>(m: VecMatrix<T>, i: int, j: int) -> T { m.data@[i * m.nr_cols + j] }

// position arithmetic of the row-major layout: (i, j) <-> i * nc + j is a bijection onto 0..nr*nc
proof fn lemma_pos(nr: int, nc: int, i: int, j: int)
    requires 0 <= i < nr, 0 <= j < nc
    ensures 0 <= i * nc + j < nr * nc, i * nc >= 0, i * nc + nc <= nr * nc
{
    assert(0 <= i * nc + j < nr * nc && i * nc >= 0 && i * nc + nc <= nr * nc) by(nonlinear_arith) requires 0 <= i < nr, 0 <= j < nc;
}
proof fn lemma_pos_inj(nc: int, i: int, j: int, k: int, l: int)
    requires 0 <= j < nc, 0 <= l < nc, 0 <= i, 0 <= k, i * nc + j == k * nc + l
    ensures i == k, j == l
{
    assert(i == k) by(nonlinear_arith) requires 0 <= j < nc, 0 <= l < nc, 0 <= i, 0 <= k, i * nc + j == k * nc + l;
}
// a position outside row i
proof fn lemma_pos_other_row(nc: int, i: int, k: int, l: int)
    requires 0 <= l < nc, 0 <= i, 0 <= k, k != i
    ensures !(i * nc <= k * nc + l < i * nc + nc)
{
    assert(!(i * nc <= k * nc + l < i * nc + nc)) by(nonlinear_arith) requires 0 <= l < nc, 0 <= i, 0 <= k, k != i;
}

impl<T> VecMatrix<T> {
    pub open spec fn inv(&self) -> bool { self.data@.len() == self.nr_rows * self.nr_cols && self.data@.len() <= usize::MAX }

    // assumed contracts of two methods whose bodies need `T: Scalar + Clone` (num_traits Zero/One, HRTB bounds): `clone` is the derived
    // one (same entries), `identity` is used for its shape only
    #[verifier::external_body]
    pub fn clone(&self) -> (r: Self) requires self.inv() ensures r.inv(), r.nr_rows == self.nr_rows, r.nr_cols == self.nr_cols,
        forall|i: int, j: int| 0 <= i < self.nr_rows && 0 <= j < self.nr_cols ==> #[trigger] r.at(i, j) == self.at(i, j) { unimplemented!() }
    #[verifier::external_body]
    pub fn identity(dim: usize) -> (r: Self) ensures r.inv(), r.nr_rows == dim, r.nr_cols == dim { unimplemented!() }
}

impl<T> IndexSpecImpl<(usize, usize)> for VecMatrix<T> {
    open spec fn index_req(&self, index: &(usize, usize)) -> bool { index.0 < self.nr_rows && index.1 < self.nr_cols && self.inv() }
}

impl<T> Index<(usize, usize)> for VecMatrix<T>
{
    type Output = T;

    //@ begin src/geometry/vec_matrix.rs :: impl<T> Index<(usize, usize)> for VecMatrix<T> :: fn index
    //@ rw R16 /-> &Self::Output/-> (r: &Self::Output)/
    fn index(&self, index: (usize, usize)) -> (r: &Self::Output)
        ensures *r == self.data@[index.0 * self.nr_cols + index.1]
    {
        let (i, j) = index;
        assert!(i < self.nr_rows);
        assert!(j < self.nr_cols);

        proof {
            assert(i * self.nr_cols + j < self.nr_rows * self.nr_cols && i * self.nr_cols + j >= 0 && i * self.nr_cols >= 0) by(nonlinear_arith)
                requires i < self.nr_rows, j < self.nr_cols;
        }
        &self.data[i * self.nr_cols + j]
    }
    //@ end
}

impl<T> IndexMut<(usize, usize)> for VecMatrix<T>
{
    //@ begin src/geometry/vec_matrix.rs :: impl<T> IndexMut<(usize, usize)> for VecMatrix<T> :: fn index_mut
    //@ rw R16 /-> &mut T$/-> (r: &mut T)/
    fn index_mut(&mut self, index: (usize, usize)) -> (r: &mut T)
        // the returned reference IS the slot of entry (i, j): whatever is stored through it lands there and nowhere else
        ensures *r == old(self).data@[index.0 * old(self).nr_cols + index.1],
            final(self).nr_rows == old(self).nr_rows, final(self).nr_cols == old(self).nr_cols,
            final(self).data@ == old(self).data@.update(index.0 * old(self).nr_cols + index.1, *final(r)),
    {
        let (i, j) = index;
        assert!(i < self.nr_rows);
        assert!(j < self.nr_cols);

        proof {
            assert(i * self.nr_cols + j < self.nr_rows * self.nr_cols && i * self.nr_cols + j >= 0 && i * self.nr_cols >= 0) by(nonlinear_arith)
                requires i < self.nr_rows, j < self.nr_cols;
        }
        &mut self.data[i * self.nr_cols + j]
    }
    //@ end
}

impl<T> Array2d<T> for VecMatrix<T> {
    open spec fn wf(&self) -> bool { self.inv() }
    open spec fn srows(&self) -> int { self.nr_rows as int }
    open spec fn scols(&self) -> int { self.nr_cols as int }
    open spec fn at(&self, i: int, j: int) -> T { vm_at(*self, i, j) }

    //@ begin src/geometry/vec_matrix.rs :: impl<T> Array2d<T> for VecMatrix<T> :: fn nr_rows
    fn nr_rows(&self) -> usize
    {
        self.nr_rows
    }
    //@ end

    //@ begin src/geometry/vec_matrix.rs :: impl<T> Array2d<T> for VecMatrix<T> :: fn nr_columns
    fn nr_columns(&self) -> usize
    {
        self.nr_cols
    }
    //@ end

    proof fn index_law(&self, i: usize, j: usize) {}

    proof fn read_law(&self)
    {
        reveal(vm_at);
    }

    proof fn write_law()
    {
        assert forall|m: &mut Self, i: usize, j: usize, r: &mut T|
            #[trigger] call_ensures(<Self as IndexMut<(usize, usize)>>::index_mut, (m, (i, j)), r) && (*m).wf() && i < (*m).srows() && j < (*m).scols()
            implies mut_ref_future(m).wf() && mut_ref_future(m).srows() == (*m).srows() && mut_ref_future(m).scols() == (*m).scols()
                    && mut_ref_future(m).at(i as int, j as int) == mut_ref_future(r)
                    && forall|k: int, l: int| 0 <= k < (*m).srows() && 0 <= l < (*m).scols() && !(k == i && l == j)
                        ==> #[trigger] mut_ref_future(m).at(k, l) == (*m).at(k, l)
        by {
            let a0 = *m; let a1 = mut_ref_future(m); let v = mut_ref_future(r);
            let nc = a0.nr_cols as int;
            reveal(vm_at);
            lemma_pos(a0.nr_rows as int, nc, i as int, j as int);
            assert forall|k: int, l: int| 0 <= k < a0.srows() && 0 <= l < a0.scols() && !(k == i && l == j) implies #[trigger] a1.at(k, l) == a0.at(k, l) by {
                lemma_pos(a0.nr_rows as int, nc, k, l);
                if k * nc + l == i * nc + j { lemma_pos_inj(nc, i as int, j as int, k, l); }
            }
        }
    }
}

impl<T> VecMatrix<T> {
    //@ begin src/geometry/vec_matrix.rs :: impl<T: Scalar + Clone> VecMatrix<T> :: fn swap_rows
    pub fn swap_rows(&mut self, i: usize, j: usize)
        requires old(self).inv(), i < old(self).nr_rows, j < old(self).nr_rows, i != j     // the three assertions of the body
        ensures final(self).inv(), final(self).nr_rows == old(self).nr_rows, final(self).nr_cols == old(self).nr_cols,
            // rows i and j change places, every other row stays
            forall|k: int, l: int| 0 <= k < old(self).nr_rows && 0 <= l < old(self).nr_cols ==>
                #[trigger] final(self).at(k, l) == old(self).at(if k == i { j as int } else if k == j { i as int } else { k }, l),
    {
        assert!(i < self.nr_rows);
        assert!(j < self.nr_rows);
        assert_ne!(i, j);

        proof {
            assert(i * self.nr_cols + self.nr_cols <= self.nr_rows * self.nr_cols && j * self.nr_cols + self.nr_cols <= self.nr_rows * self.nr_cols
                   && i * self.nr_cols >= 0 && j * self.nr_cols >= 0) by(nonlinear_arith)
                requires i < self.nr_rows, j < self.nr_rows;
        }
        let ri = i * self.nr_cols;
        let rj = j * self.nr_cols;
        let ghost d0 = self.data@;
        let ghost nc = self.nr_cols as int;
        proof {
            // the two rows occupy disjoint stretches of the storage
            assert(ri + nc <= rj || rj + nc <= ri) by(nonlinear_arith) requires ri == i * nc, rj == j * nc, i != j, nc >= 0;
        }

        for k in 0..self.nr_cols
            invariant self.inv(), self.nr_rows == old(self).nr_rows, self.nr_cols == old(self).nr_cols,
                ri + self.nr_cols <= self.data@.len(), rj + self.nr_cols <= self.data@.len(),
                nc == self.nr_cols, d0 == old(self).data@, d0.len() == self.data@.len(),
                ri + nc <= rj || rj + nc <= ri,
                forall|p: int| 0 <= p < d0.len() ==> #[trigger] self.data@[p] ==
                    if ri <= p < ri + k { d0[p - ri + rj] } else if rj <= p < rj + k { d0[p - rj + ri] } else { d0[p] },
        {
            self.data.swap(ri + k, rj + k);
        }
        proof {
            reveal(vm_at);
            assert forall|k: int, l: int| 0 <= k < old(self).nr_rows && 0 <= l < old(self).nr_cols implies
                #[trigger] self.at(k, l) == old(self).at(if k == i { j as int } else if k == j { i as int } else { k }, l) by {
                lemma_pos(self.nr_rows as int, nc, k, l);
                if k != i { lemma_pos_other_row(nc, i as int, k, l); }
                if k != j { lemma_pos_other_row(nc, j as int, k, l); }
            }
        }
    }
    //@ end
}

//@ begin src/geometry/vec_matrix.rs :: - :: struct RowEchelonVecMatrix
//@ rw R0 /^([ \t]+)(\w+): /\1pub \2: /
pub struct RowEchelonVecMatrix<T: Entry> {
    pub multiplier: VecMatrix<T>,
    pub result: VecMatrix<T>,
    pub columns: Vec<usize>,
    pub rank: usize,
    pub nr_swaps: usize
}
//@ end

pub open spec fn pivots_increasing(cols: Seq<usize>, rank: int) -> bool {
    forall|a: int, b: int| 0 <= a < b < rank ==> cols[a] < cols[b]
}

// ---------------------------------------------------------------------------------------------------------------------------
// ROW ECHELON FORM (C18: rank / determinant / null space / solve all read it off `result`, `columns`, `rank`)
// `elim_state(u, cols, row, col)`: the first `row` rows carry pivots (non-zero, nothing but zeros to their left) in the listed columns,
// and the remaining rows are zero in every column below `col`.  With col = number of columns this is the row echelon form.
// ---------------------------------------------------------------------------------------------------------------------------
pub open spec fn pivot_ok<T: Entry, A: Array2d<T>>(u: A, k: int, c: int) -> bool {
    !u.at(k, c).zr() && forall|l: int| 0 <= l < c ==> (#[trigger] u.at(k, l)).zr()
}
pub open spec fn rest_zero<T: Entry, A: Array2d<T>>(u: A, row: int, col: int) -> bool {
    forall|k: int, l: int| row <= k < u.srows() && 0 <= l < col ==> (#[trigger] u.at(k, l)).zr()
}
pub open spec fn elim_state<T: Entry, A: Array2d<T>>(u: A, cols: Seq<usize>, row: int, col: int) -> bool {
    &&& forall|k: int| 0 <= k < row ==> #[trigger] pivot_ok(u, k, cols[k] as int)
    &&& rest_zero(u, row, col)
}
pub open spec fn echelon<T: Entry, A: Array2d<T>>(u: A, cols: Seq<usize>, rank: int) -> bool {
    &&& 0 <= rank <= u.srows() && rank <= u.scols() && cols.len() == u.srows()
    &&& pivots_increasing(cols, rank)
    &&& forall|k: int| 0 <= k < rank ==> #[trigger] cols[k] < u.scols()
    &&& elim_state(u, cols, rank, u.scols())
}
pub open spec fn rows_swapped<T, A: Array2d<T>>(u0: A, u1: A, i: int, j: int) -> bool {
    same_shape(u0, u1) && forall|k: int, l: int| 0 <= k < u0.srows() && 0 <= l < u0.scols() ==>
        #[trigger] u1.at(k, l) == u0.at(if k == i { j } else if k == j { i } else { k }, l)
}
// the state inside the clearing loop: the pivot sits in (row, col) and the rows row+1 .. r-1 are already cleared in that column
pub open spec fn clearing<T: Entry, A: Array2d<T>>(u: A, cols: Seq<usize>, row: int, col: int, r: int) -> bool {
    &&& elim_state(u, cols, row, col)
    &&& !u.at(row, col).zr()
    &&& forall|k: int| row < k < r ==> (#[trigger] u.at(k, col)).zr()
}

proof fn lemma_swap_keeps<T: Entry, A: Array2d<T>>(u0: A, u1: A, cols: Seq<usize>, row: int, col: int, pr: int)
    requires elim_state(u0, cols, row, col), 0 <= row <= pr < u0.srows(), 0 <= col < u0.scols(), rows_swapped(u0, u1, pr, row), !u0.at(pr, col).zr(),
        forall|k: int| 0 <= k < row ==> #[trigger] cols[k] < col,
    ensures clearing(u1, cols, row, col, row + 1)
{
    assert forall|k: int| 0 <= k < row implies #[trigger] pivot_ok(u1, k, cols[k] as int) by {
        assert(pivot_ok(u0, k, cols[k] as int));
        assert(u1.at(k, cols[k] as int) == u0.at(k, cols[k] as int));
        assert forall|l: int| 0 <= l < cols[k] implies (#[trigger] u1.at(k, l)).zr() by { assert(u1.at(k, l) == u0.at(k, l)); }
    }
    assert forall|k: int, l: int| row <= k < u1.srows() && 0 <= l < col implies (#[trigger] u1.at(k, l)).zr() by {
        let k0 = if k == pr { row } else if k == row { pr } else { k };
        assert(u1.at(k, l) == u0.at(k0, l));
        assert(u0.at(k0, l).zr());
    }
    assert(u1.at(row, col) == u0.at(pr, col));
}

proof fn lemma_no_swap<T: Entry, A: Array2d<T>>(u: A, cols: Seq<usize>, row: int, col: int)
    requires elim_state(u, cols, row, col), !u.at(row, col).zr()
    ensures clearing(u, cols, row, col, row + 1)
{}

proof fn lemma_clear_step<T: Entry, A: Array2d<T>>(u0: A, u1: A, cols: Seq<usize>, row: int, col: int, r: int)
    requires clearing(u0, cols, row, col, r), 0 <= row < r < u0.srows(), 0 <= col < u0.scols(), cleared(u0, u1, col, r, row),
        forall|k: int| 0 <= k < row ==> #[trigger] cols[k] < col,
    ensures clearing(u1, cols, row, col, r + 1)
{
    assert forall|k: int| 0 <= k < row implies #[trigger] pivot_ok(u1, k, cols[k] as int) by {
        assert(pivot_ok(u0, k, cols[k] as int));
        assert(u1.at(k, cols[k] as int) == u0.at(k, cols[k] as int));
        assert forall|l: int| 0 <= l < cols[k] implies (#[trigger] u1.at(k, l)).zr() by { assert(u1.at(k, l) == u0.at(k, l)); }
    }
    assert forall|k: int, l: int| row <= k < u1.srows() && 0 <= l < col implies (#[trigger] u1.at(k, l)).zr() by {
        assert(u1.at(k, l) == u0.at(k, l));
        assert(u0.at(k, l).zr());
    }
    assert forall|k: int| row < k < r + 1 implies (#[trigger] u1.at(k, col)).zr() by {
        if k != r { assert(u1.at(k, col) == u0.at(k, col)); }
    }
}

proof fn lemma_pivot_placed<T: Entry, A: Array2d<T>>(u: A, cols: Seq<usize>, row: int, col: usize)
    requires clearing(u, cols, row, col as int, u.srows()), 0 <= row < u.srows(), 0 <= col < u.scols(), row < cols.len(),
    ensures elim_state(u, cols.update(row, col), row + 1, col + 1)
{
    let c2 = cols.update(row, col);
    assert forall|k: int| 0 <= k < row + 1 implies #[trigger] pivot_ok(u, k, c2[k] as int) by {
        if k < row { assert(pivot_ok(u, k, cols[k] as int)); }
        else {
            assert forall|l: int| 0 <= l < col implies (#[trigger] u.at(row, l)).zr() by {}
        }
    }
    assert forall|k: int, l: int| row + 1 <= k < u.srows() && 0 <= l < col + 1 implies (#[trigger] u.at(k, l)).zr() by {}
}

proof fn lemma_no_pivot<T: Entry, A: Array2d<T>>(u: A, cols: Seq<usize>, row: int, col: int)
    requires elim_state(u, cols, row, col), forall|k: int| row <= k < u.srows() ==> (#[trigger] u.at(k, col)).zr(),
    ensures elim_state(u, cols, row, col + 1)
{
    assert forall|k: int, l: int| row <= k < u.srows() && 0 <= l < col + 1 implies (#[trigger] u.at(k, l)).zr() by {}
}

// what the echelon form is good for: below and left of a pivot everything is zero, and a row without pivot is zero
proof fn lemma_echelon_below<T: Entry, A: Array2d<T>>(u: A, cols: Seq<usize>, rank: int, k: int, i: int)
    requires echelon(u, cols, rank), 0 <= k < rank, k < i < u.srows()
    ensures u.at(i, cols[k] as int).zr()
{
    if i < rank { assert(pivot_ok(u, i, cols[i] as int)); }
}

impl<T: Entry> RowEchelonVecMatrix<T> {
    //@ begin src/geometry/vec_matrix.rs :: impl<T: Entry + Clone> RowEchelonVecMatrix<T> :: fn new
    //@ rw R16 /-> Self/-> (re: Self)/
    //@ rw R12 /let mut row = 0;/let mut row: usize = 0;/
    //@ rw R12 /let mut nr_swaps = 0;/let mut nr_swaps: usize = 0;/
    //@ rw R20 /for col in 0\.\.([\w.()]+)\n([ \t]*)\{/let __n: usize = \1; let mut __c: usize = 0;\n\2while __c < __n\n\2{\n\2    let col = __c; __c += 1;/
    // loops see the facts about immutable locals established before them (robust against hoisting `m.nr_rows()` into a local)
    #[verifier::loop_isolation(false)]
    #[verifier::allow_complex_invariants]
    pub fn new(m: &VecMatrix<T>) -> (re: Self)
        requires m.inv()
        // C18 "no shape makes these routines panic": every index / assertion in the body is discharged for ALL shapes, and
        ensures re.rank <= m.nr_rows, re.rank <= m.nr_cols,                       // rank <= min(rows, columns)
            re.columns@.len() == m.nr_rows,
            pivots_increasing(re.columns@, re.rank as int),                          // pivot columns strictly increase
            forall|a: int| 0 <= a < re.rank ==> #[trigger] re.columns@[a] < m.nr_cols,
            re.multiplier.nr_rows == m.nr_rows, re.multiplier.nr_cols == m.nr_rows,  // shapes of multiplier / result
            re.result.nr_rows == m.nr_rows, re.result.nr_cols == m.nr_cols,
            re.nr_swaps <= re.rank,
            // `result` is in ROW ECHELON FORM with `rank` pivots in the listed columns: each pivot is non-zero with zeros to its left,
            // every row from `rank` on is zero -- for every `Entry` type whose pivot_row / clear_col meet the trait contract
            re.result.inv(), echelon(re.result, re.columns@, re.rank as int),
    {
        let mut u = m.clone();
        let mut s = VecMatrix::identity(m.nr_rows());
        let mut row: usize = 0;
        let mut nr_swaps: usize = 0;
        let mut cols = vec![m.nr_rows(); m.nr_rows()];

        let __n: usize = m.nr_columns(); let mut __c: usize = 0;
        while __c < __n
            invariant
                // the elimination sweeps ALL columns (it may stop early only through the explicit `rows exhausted` exit below):
                // a pivot in a late column of a wide matrix must not be skipped
                __n == m.nr_cols, __c <= __n,
                m.inv(), u.inv(), s.inv(),
                u.nr_rows == m.nr_rows, u.nr_cols == m.nr_cols,
                s.nr_rows == m.nr_rows, s.nr_cols == m.nr_rows,
                cols@.len() == m.nr_rows,
                row <= __c, row <= m.nr_rows, nr_swaps <= row,
                pivots_increasing(cols@, row as int),
                forall|a: int| 0 <= a < row ==> #[trigger] cols@[a] < __c,
                elim_state(u, cols@, row as int, __c as int),
            ensures row == m.nr_rows || __c == __n,
            decreases __n - __c,
        {
            let col = __c; __c += 1;
            if row >= m.nr_rows() {
                break;
            }

            if let Some(pr) = Entry::pivot_row(col, row, &u) {
                let ghost u0 = u;
                if pr != row {
                    u.swap_rows(pr, row);
                    s.swap_rows(pr, row);
                    nr_swaps += 1;
                    proof { lemma_swap_keeps(u0, u, cols@, row as int, col as int, pr as int); }
                } else {
                    proof { lemma_no_swap(u, cols@, row as int, col as int); }
                }

                for r in (row + 1)..m.nr_rows()
                    invariant
                        m.inv(), u.inv(), s.inv(),
                        u.nr_rows == m.nr_rows, u.nr_cols == m.nr_cols,
                        s.nr_rows == m.nr_rows, s.nr_cols == m.nr_rows,
                        row < m.nr_rows, col < m.nr_cols,
                        clearing(u, cols@, row as int, col as int, r as int),
                {
                    let ghost u1 = u;
                    Entry::clear_col(col, r, row, &mut u, Some(&mut s));
                    proof { lemma_clear_step(u1, u, cols@, row as int, col as int, r as int); }
                }

                proof { lemma_pivot_placed(u, cols@, row as int, col); }
                cols[row] = col;
                row += 1;
            } else {
                proof { lemma_no_pivot(u, cols@, row as int, col as int); }
            }
        }

        RowEchelonVecMatrix {
            multiplier: s,
            result: u,
            columns: cols,
            rank: row,
            nr_swaps
        }
    }
    //@ end
}

// =====================================================================================================
// the const-generic twin (src/geometry/matrix.rs): shapes are types, so "no shape makes these routines panic" is about the
// indices and assertions inside RowEchelonMatrix::new
// =====================================================================================================
//@ begin src/geometry/matrix.rs :: - :: struct Matrix
//@ rw R0 /^([ \t]+)(\w+): /\1pub \2: /
pub struct Matrix<T, const N: usize, const M: usize> {
    pub data: [[T; M]; N]
}
//@ end

impl<T, const N: usize, const M: usize> Matrix<T, N, M> {
    // assumed contracts (bodies need `T: Scalar + Clone`): `clone` is the derived one (same entries), `identity` is used for its type only
    #[verifier::external_body]
    pub fn clone(&self) -> (r: Self)
        ensures forall|i: int, j: int| 0 <= i < N && 0 <= j < M ==> #[trigger] r.at(i, j) == self.at(i, j) { unimplemented!() }
}
impl<T, const N: usize> Matrix<T, N, N> {
    #[verifier::external_body]
    pub fn identity() -> (r: Self) { unimplemented!() }
}

impl<T, const N: usize, const M: usize> Matrix<T, N, M> {
    //@ begin src/geometry/matrix.rs :: impl<T: Scalar + Clone, const N: usize, const M: usize> Matrix<T, N, M> :: fn swap_rows
    pub fn swap_rows(&mut self, i: usize, j: usize)
        requires i < N, j < N, i != j                                                      // the three assertions of the body
        ensures forall|k: int, l: int| 0 <= k < N && 0 <= l < M ==>
                #[trigger] final(self).at(k, l) == old(self).at(if k == i { j as int } else if k == j { i as int } else { k }, l),
    {
        assert!(i < N);
        assert!(j < N);
        assert_ne!(i, j);

        self.data.swap(i, j)
    }
    //@ end
}

impl<T, const N: usize, const M: usize> IndexSpecImpl<(usize, usize)> for Matrix<T, N, M> {
    open spec fn index_req(&self, index: &(usize, usize)) -> bool { index.0 < N && index.1 < M }
}
impl<T, const N: usize, const M: usize> Index<(usize, usize)> for Matrix<T, N, M>
{
    type Output = T;

    //@ begin src/geometry/matrix.rs :: impl<T, const N: usize, const M: usize> Index<(usize, usize)> for Matrix<T, N, M> :: fn index
    //@ rw R16 /-> &Self::Output/-> (r: &Self::Output)/
    fn index(&self, index: (usize, usize)) -> (r: &Self::Output)
        ensures *r == self.data@[index.0 as int]@[index.1 as int]
    {
        let (i, j) = index;
        assert!(i < N);
        assert!(j < M);

        &self.data[i][j]
    }
    //@ end
}

impl<T, const N: usize, const M: usize> IndexMut<(usize, usize)> for Matrix<T, N, M>
{
    //@ begin src/geometry/matrix.rs :: impl<T, const N: usize, const M: usize> IndexMut<(usize, usize)> for Matrix<T, N, M> :: fn index_mut
    //@ rw R16 /-> &mut T$/-> (r: &mut T)/
    fn index_mut(&mut self, index: (usize, usize)) -> (r: &mut T)
        // the returned reference IS the slot of entry (i, j)
        ensures *r == old(self).data@[index.0 as int]@[index.1 as int],
            final(self).data@[index.0 as int]@ == old(self).data@[index.0 as int]@.update(index.1 as int, *final(r)),
            forall|k: int| 0 <= k < N && k != index.0 ==> #[trigger] final(self).data@[k] == old(self).data@[k],
    {
        let (i, j) = index;
        assert!(i < N);
        assert!(j < M);

        &mut self.data[i][j]
    }
    //@ end
}

impl<T, const N: usize, const M: usize> Array2d<T> for Matrix<T, N, M> {
    open spec fn wf(&self) -> bool { true }
    open spec fn srows(&self) -> int { N as int }
    open spec fn scols(&self) -> int { M as int }
    open spec fn at(&self, i: int, j: int) -> T { self.data@[i]@[j] }

    //@ begin src/geometry/matrix.rs :: impl<T, const N: usize, const M: usize> Array2d<T> for Matrix<T, N, M> :: fn nr_rows
    fn nr_rows(&self) -> usize
    {
        N
    }
    //@ end

    //@ begin src/geometry/matrix.rs :: impl<T, const N: usize, const M: usize> Array2d<T> for Matrix<T, N, M> :: fn nr_columns
    fn nr_columns(&self) -> usize
    {
        M
    }
    //@ end

    proof fn index_law(&self, i: usize, j: usize) {}
    proof fn read_law(&self) {}
    proof fn write_law() {}
}

//@ begin src/geometry/matrix.rs :: - :: struct RowEchelonMatrix
//@ rw R0 /^([ \t]+)(\w+): /\1pub \2: /
pub struct RowEchelonMatrix<T: Entry, const N: usize, const M: usize> {
    pub multiplier: Matrix<T, N, N>,
    pub result: Matrix<T, N, M>,
    pub columns: [usize; N],
    pub rank: usize,
    pub nr_swaps: usize
}
//@ end

impl<T: Entry, const N: usize, const M: usize> RowEchelonMatrix<T, N, M> {
    //@ begin src/geometry/matrix.rs :: impl<T: Entry + Clone, const N: usize, const M: usize> RowEchelonMatrix<T, N, M> :: fn new
    //@ rw R16 /-> Self/-> (re: Self)/
    //@ rw R12 /let mut row = 0;/let mut row: usize = 0;/
    //@ rw R12 /let mut nr_swaps = 0;/let mut nr_swaps: usize = 0;/
    //@ rw R20 /for col in 0\.\.([\w.()]+)\n([ \t]*)\{/let __n: usize = \1; let mut __c: usize = 0;\n\2while __c < __n\n\2{\n\2    let col = __c; __c += 1;/
    #[verifier::loop_isolation(false)]
    #[verifier::allow_complex_invariants]
    pub fn new(m: &Matrix<T, N, M>) -> (re: Self)
        // the same contract as the Vec-backed version: no index or assertion in the body can fail, and
        ensures re.rank <= N, re.rank <= M,
            pivots_increasing(re.columns@, re.rank as int),
            forall|a: int| 0 <= a < re.rank ==> #[trigger] re.columns@[a] < M,
            re.nr_swaps <= re.rank,
            // `result` is in ROW ECHELON FORM with `rank` pivots in the listed columns
            echelon(re.result, re.columns@, re.rank as int),
    {
        let mut u = m.clone();
        let mut s = Matrix::identity();
        let mut row: usize = 0;
        let mut nr_swaps: usize = 0;
        let mut cols = [N; N];

        let __n: usize = M; let mut __c: usize = 0;
        while __c < __n
            invariant
                __n == M, __c <= __n,
                row <= __c, row <= N, nr_swaps <= row,
                pivots_increasing(cols@, row as int),
                forall|a: int| 0 <= a < row ==> #[trigger] cols@[a] < __c,
                elim_state(u, cols@, row as int, __c as int),
            ensures row == N || __c == __n,
            decreases __n - __c,
        {
            let col = __c; __c += 1;
            if row >= N {
                break;
            }

            if let Some(pr) = Entry::pivot_row(col, row, &u) {
                let ghost u0 = u;
                if pr != row {
                    u.swap_rows(pr, row);
                    s.swap_rows(pr, row);
                    nr_swaps += 1;
                    proof { lemma_swap_keeps(u0, u, cols@, row as int, col as int, pr as int); }
                } else {
                    proof { lemma_no_swap(u, cols@, row as int, col as int); }
                }

                for r in (row + 1)..N
                    invariant row < N, col < M,
                        clearing(u, cols@, row as int, col as int, r as int),
                {
                    let ghost u1 = u;
                    Entry::clear_col(col, r, row, &mut u, Some(&mut s));
                    proof { lemma_clear_step(u1, u, cols@, row as int, col as int, r as int); }
                }

                proof { lemma_pivot_placed(u, cols@, row as int, col); }
                cols[row] = col;
                row += 1;
            } else {
                proof { lemma_no_pivot(u, cols@, row as int, col as int); }
            }
        }

        RowEchelonMatrix {
            multiplier: s,
            result: u,
            columns: cols,
            rank: row,
            nr_swaps
        }
    }
    //@ end
}

fn canary_new_fixed_contract<T: Entry>(m: &Matrix<T, 1, 2>)
    ensures false
{
    let r = RowEchelonMatrix::new(m);
}

// vacuity guards
fn canary_new_contract<T: Entry>(m: &VecMatrix<T>)
    requires m.inv(), m.nr_rows == 1, m.nr_cols == 2
    ensures false
{
    let r = RowEchelonVecMatrix::new(m);
}

// the strengthened trait contracts are satisfiable: calling clear_col with its precondition met must not make `false` provable
fn canary_clear_col_contract(m: &mut VecMatrix<i64>, s: &mut VecMatrix<i64>)
    requires old(m).inv(), old(m).nr_rows == 2, old(m).nr_cols == 2, old(s).inv(), old(s).nr_rows == 2, old(s).nr_cols == 2, old(m).at(0, 0) != 0
    ensures false
{
    <i64 as Entry>::clear_col(0, 1, 0, m, Some(s));
}

fn canary_swap_rows_contract(m: &mut VecMatrix<i64>)
    requires old(m).inv(), old(m).nr_rows == 2, old(m).nr_cols == 2
    ensures false
{
    m.swap_rows(0, 1);
}

proof fn canary_echelon_is_satisfiable(u: VecMatrix<i64>, cols: Seq<usize>)
    requires echelon(u, cols, 1), u.nr_rows == 2, u.nr_cols == 2
    ensures false
{
}

fn canary_pivot_row_contract(m: &VecMatrix<i64>)
    requires m.inv(), m.nr_rows == 2, m.nr_cols == 2
    ensures false
{
    let r = <i64 as Entry>::pivot_row(0, 0, m);
}

} // verus!
fn main() {}
