#!/usr/bin/env python3
"""Driver: assemble the contract units of one property from /repo's current tree, run the verifier(s),
classify every failed obligation, write evidence/<id>.json and replay files, print VIOLATION /
KNOWN-FINDING / UNDECIDED lines and exit 0 / 1 / 2.

usage: check.py <PROPERTY-ID> [--tier quick|thorough]
"""
import concurrent.futures as cf
import glob
import hashlib
import json
import os
import re
import shutil
import subprocess
import sys
import tempfile
import time

HERE = os.path.dirname(os.path.abspath(__file__))
sys.path.insert(0, HERE)
import assemble as asm  # noqa: E402

VERIF = os.path.dirname(HERE)
REPO = os.environ.get('VERIF_REPO', '/repo')
VERUS = shutil.which('verus') or '/opt/veriftools/verus/verus'

# Verus diagnostics that are failed proof obligations (everything else at level "error" is a front-end error)
OBLIGATION_KINDS = [
    (r'postcondition not satisfied', 'post'),
    (r'unable to prove post-?condition', 'post'),
    (r'unable to prove pre-?condition', 'pre'),
    (r'unable to prove', 'assert'),
    (r'precondition not satisfied', 'pre'),
    (r'precondition not met', 'pre'),                         # `precondition not met: index in bounds for this access` (array indexing)
    (r'requirement not met', 'pre'),                          # `requirement not met: to access this field, the union must be in the correct variant`
    (r'unable to prove this pattern will successfully match', 'assert'),
    (r'cannot show this call will not unwind', 'pre'),
    (r'invariant not satisfied (before|at end of) loop', 'inv'),
    (r'loop invariant not (satisfied|preserved)', 'inv'),
    (r'invariant not satisfied', 'inv'),
    (r'assertion failed', 'assert'),
    (r'possible arithmetic underflow/overflow', 'overflow'),
    (r'possible division by zero', 'divzero'),
    (r'may fail to meet its declared type invariant', 'type_inv'),
    (r'type invariant', 'type_inv'),
    (r'decreases not satisfied', 'termination'),
    (r'could not prove termination', 'termination'),
    (r'possible bit shift underflow/overflow', 'overflow'),
    (r'cannot show invariant holds', 'inv'),
    (r'recommendation not met', 'recommends'),
]
SMALL_EDIT = 4
RLIMIT_RE = re.compile(r'[Rr]esource limit|rlimit')

TRUST_PATTERNS = [r'\bassume\s*\(', r'\badmit\s*\(', r'external_body', r'assume_specification', r'verifier::external\b',
                  r'exec_allows_no_decreases_clause', r'external_type_specification', r'external_trait_specification',
                  r'verifier::external_fn_specification']


def unit_templates():
    out = {}
    for p in sorted(glob.glob(os.path.join(VERIF, 'contracts', '*.rs'))):
        unit, props, chunks = asm.parse_template(p)
        if unit is None:
            continue
        allprops = set(props)
        for kind, c in chunks:
            if kind == 'region' and c.opts.get('props'):
                allprops |= set(c.opts['props'].split(','))
        out[unit] = {'path': p, 'props': props, 'allprops': sorted(allprops)}
    return out


def template_directives(path):
    """extra per-unit settings: //@@ key value lines (verus-args, aux patterns, function->props map)"""
    d = {'verus_args': [], 'aux': [], 'fnprops': {}, 'depends': []}
    for line in open(path):
        s = line.strip()
        if s.startswith('//@@'):
            k, _, v = s[4:].strip().partition(' ')
            if k == 'verus-args':
                d['verus_args'] += v.split()
            elif k == 'depends':
                d['depends'] += v.split()
            elif k == 'aux':
                d['aux'].append(v.strip())
            elif k == 'fnprops':
                # //@@ fnprops C01 from_str lemma_x ...   (functions of template text serving only these properties)
                parts = v.split()
                for fn in parts[1:]:
                    d['fnprops'][fn] = parts[0].split(',')
    return d


FN_RE = re.compile(r'^\s*(?:#\[[^\]]*\]\s*)*(?:pub(?:\([a-z]+\))?\s+)?(?:open\s+|closed\s+|broadcast\s+|uninterp\s+|const\s+)*'
                   r'(?:(?:proof|spec|exec)\s+)?(?:\(checked\)\s+)?fn\s+([A-Za-z_][A-Za-z0-9_]*)')


def function_index(lines):
    """assembled line (0-based) -> name of the most recent `fn` header at or before it"""
    cur, out = None, []
    for l in lines:
        m = FN_RE.match(l)
        if m:
            cur = m.group(1)
        out.append(cur)
    return out


def run_verus(path, extra_args, seed=None, rlimit_mult=1):
    args = [VERUS, os.path.basename(path), '--output-json', '--time', '--error-format=json', '--multiple-errors', '8']
    args += extra_args
    if rlimit_mult != 1:
        # later --rlimit overrides earlier ones
        base = 10
        for i, a in enumerate(extra_args):
            if a == '--rlimit' and i + 1 < len(extra_args):
                base = float(extra_args[i + 1])
        args += ['--rlimit', str(int(base * rlimit_mult))]
    if seed is not None:
        args += ['-V', 'smt-option=smt.random_seed=%d' % seed] if False else ['--smt-option', 'smt.random_seed=%d' % seed]
    t0 = time.time()
    p = subprocess.run(args, cwd=os.path.dirname(path), capture_output=True, text=True)
    wall = time.time() - t0
    try:
        out = json.loads(p.stdout)
    except Exception:
        out = None
    diags = []
    for line in p.stderr.split('\n'):
        if line.startswith('{'):
            try:
                diags.append(json.loads(line))
            except Exception:
                pass
    return {'cmd': ' '.join(args), 'rc': p.returncode, 'json': out, 'diags': diags, 'stderr': p.stderr, 'wall': wall}


def classify_diag(d):
    msg = d.get('message', '')
    if RLIMIT_RE.search(msg):
        return 'rlimit'
    for pat, kind in OBLIGATION_KINDS:
        if re.search(pat, msg):
            return kind
    return None


def verify_unit_once(unit, info, repo, workdir, seed=None, rlimit_mult=1, modes=None, weaken=None):
    """-> dict(status=ok|fail|undecided, ...)"""
    res = {'unit': unit, 'failures': [], 'undecided': [], 'regions': [], 'functions': [], 'verified': 0, 'errors': 0,
           'canaries_ok': [], 'trusted': [], 'wall': 0.0, 'smt_us': 0, 'cmd': '', 'notes': []}
    try:
        a = asm.assemble(info['path'], repo, modes=modes)
    except asm.AssembleError as e:
        res['undecided'].append('assemble: %s' % e)
        return res
    res['regions'] = a['regions']
    res['fnprops'] = template_directives(info['path'])['fnprops']
    res['allprops'] = info.get('allprops', [])
    res['unitprops'] = info.get('props', [])
    res['notes'] = a['notes']
    text = a['text']
    lines = text.split('\n')
    if weaken:
        # hint lifting (see run_unit_with_retries): the ghost asserts at these lines are made trivially true, so that Verus no longer
        # ASSUMES their claim afterwards and the obligation they were a step towards has to stand on its own
        for k in weaken:
            if 0 <= k < len(lines):
                l = lines[k]
                if re.search(r'\bassert forall\b', l) and ' implies ' in l:
                    lines[k] = l.replace(' implies ', ' implies true || ', 1)
                elif 'assert(' in l:
                    lines[k] = l.replace('assert(', 'assert(true || ', 1)
        text = '\n'.join(lines)
    path = os.path.join(workdir, unit + '.rs')
    open(path, 'w').write(text)
    res['assembled_sha256'] = hashlib.sha256(text.encode()).hexdigest()
    direc = template_directives(info['path'])
    fnidx = function_index(lines)
    # trusted-base inventory (mechanical scan of the assembled text)
    for k, l in enumerate(lines):
        code = l.split('//')[0]
        for pat in TRUST_PATTERNS:
            if re.search(pat, code):
                # name the item the marker belongs to: next fn header at or after this line
                name = None
                for kk in range(k, min(k + 12, len(lines))):
                    m = FN_RE.match(lines[kk])
                    if m:
                        name = m.group(1); break
                    m2 = re.search(r'assume_specification.*\[\s*([^\]]+)\]', lines[kk])
                    if m2:
                        name = m2.group(1).strip(); break
                    m3 = re.search(r'struct\s+(\w+)', lines[kk])
                    if m3:
                        name = m3.group(1); break
                res['trusted'].append('%s: %s (%s)' % (unit, re.sub(r'\\[bs]\*?|\\|\(|\\s\*', '', pat), name or fnidx[k] or 'line %d' % (k + 1)))
                break
    r = run_verus(path, direc['verus_args'], seed, rlimit_mult)
    res['cmd'] = r['cmd']
    res['wall'] = r['wall']
    if r['json'] is None:
        res['undecided'].append('verus produced no JSON (rc=%s): %s' % (r['rc'], r['stderr'][-400:]))
        return res
    vr = r['json'].get('verification-results', {})
    res['verified'] = vr.get('verified', 0)
    res['errors'] = vr.get('errors', 0)
    try:
        for mod in r['json']['times-ms']['smt']['smt-run-module-times']:
            for fb in mod.get('function-breakdown', []):
                res['functions'].append({'function': fb['function'].split('::', 1)[-1], 'mode': fb.get('mode:', fb.get('mode')),
                                         'smt_time_us': fb.get('time-micros', 0), 'rlimit': fb.get('rlimit', 0),
                                         'success': fb.get('success')})
                res['smt_us'] += fb.get('time-micros', 0)
    except Exception:
        pass
    region_by_label = {x['function']: x for x in a['regions']}
    canary_failed = set()
    frontend = []
    for d in r['diags']:
        if d.get('level') != 'error':
            continue
        msg = d.get('message', '')
        if msg.startswith('aborting due to'):
            continue
        kind = classify_diag(d)
        prim = [s for s in d.get('spans', []) if s.get('is_primary')]
        sec = [s for s in d.get('spans', []) if not s.get('is_primary')]
        ln = prim[0]['line_start'] - 1 if prim else None
        if prim and prim[0].get('file_name') and os.path.basename(prim[0]['file_name']) != os.path.basename(path):
            # span in vstd (e.g. failed postcondition of a vstd trait spec): use a secondary span in our file
            mine = [s for s in d.get('spans', []) if os.path.basename(s.get('file_name', '')) == os.path.basename(path)]
            ln = mine[0]['line_start'] - 1 if mine else None
        # attribute the failure to an extracted region where possible: for a failed precondition the primary span can be the
        # `requires` clause of a template-level specification (e.g. `requires false` of a panic function) while the call site,
        # which lies inside the region, is a secondary span
        if ln is None or ln >= len(a['linemap']) or a['linemap'][ln][0] is None:
            allspans = []
            for sp0 in d.get('spans', []):
                sp = sp0
                while sp:                      # a span produced by a macro (assert_eq!) carries its call site in `expansion`
                    allspans.append(sp)
                    sp = (sp.get('expansion') or {}).get('span')
            for sp in allspans:
                if os.path.basename(sp.get('file_name', '')) != os.path.basename(path):
                    continue
                l2 = sp['line_start'] - 1
                if l2 < len(a['linemap']) and a['linemap'][l2][0] is not None:
                    if ln is not None and ln < len(lines) and not any(x.get('label') for x in sec):
                        sec = sec + [{'label': 'failed clause', 'text': [{'text': lines[ln]}]}]
                    ln = l2
                    break
        fn = fnidx[ln] if ln is not None and ln < len(fnidx) else None
        if kind is None:
            frontend.append('%s%s' % (msg, (' at %s' % lines[ln].strip()) if ln is not None and ln < len(lines) else ''))
            continue
        if fn and fn.startswith('canary_'):
            canary_failed.add(fn)
            continue
        lm = a['linemap'][ln] if ln is not None and ln < len(a['linemap']) else (None, False, None)
        label = lm[0] or fn or '?'
        clause = ''
        for s in sec:
            if s.get('label') and s.get('text'):
                clause = '%s: %s' % (s['label'], s['text'][0]['text'].strip())
                break
        site = lines[ln].strip() if ln is not None and ln < len(lines) else ''
        # an assert that only names the witness of an existential postcondition at the return point IS that postcondition
        if kind == 'assert' and '// post-witness' in site:
            kind = 'post'
        reg = region_by_label.get(lm[0]) if lm[0] else None
        props = (reg['props'] if reg else None) or direc['fnprops'].get(fn) or info.get('props') or a['props']
        aux = any(re.search(p, site) or re.search(p, clause) for p in direc['aux']) or '// aux' in site or '// aux' in clause
        res['failures'].append({
            'unit': unit, 'function': label, 'verus_fn': fn, 'kind': kind, 'message': msg, 'site': site, 'asm_line': ln,
            'site_is_real_code': bool(lm[1]), 'clause': clause, 'aux': aux, 'props': props,
            'source_file': reg['source_file'] if reg else None, 'source_line': reg['line'] if reg else None,
            'source_sha256': reg['sha256'] if reg else None,
            'changed_since_baseline': reg['changed_since_baseline'] if reg else None,
            'change_size': reg.get('change_size') if reg else None,
            'rendered': d.get('rendered', '')})
    if frontend:
        # the verifier did not get to (or through) verification: nothing it reported is a decided obligation
        res['undecided'].append('verus front-end error(s): ' + ' | '.join(frontend[:4]))
        res['failures'] = []
    # canaries: every fn canary_* in the file must have failed
    canaries = sorted({m.group(1) for l in lines for m in [FN_RE.match(l)] if m and m.group(1).startswith('canary_')})
    for c in canaries:
        ok_fb = [f for f in res['functions'] if f['function'].split('::')[-1] == c]
        failed = c in canary_failed or any(f['success'] is False for f in ok_fb)
        if failed:
            res['canaries_ok'].append(c)
        elif not frontend:
            res['undecided'].append('vacuity canary %s verified: a precondition or invariant is contradictory' % c)
    res['n_canaries'] = len(canaries)
    # obligations: proof units that are not canaries
    res['obligations'] = res['verified'] + res['errors'] - len(res['canaries_ok'])
    if res['verified'] == 0 and not frontend:
        res['undecided'].append('zero obligations verified')
    return res


def verify_unit(unit, info, repo, workdir, seed=None, rlimit_mult=1):
    """verification with the two fallbacks for functions whose CHANGED body no longer fits its in-body annotations or has left
    the subset Verus accepts:
      1. contract-only: the changed functions keep their pre/postconditions but lose loop invariants and proof hints;
      2. external:      the changed functions are emitted external_body (assumed) so that everything else is still verified.
    Obligations that fail or disappear in a fallback are NOT decided by the verifier alone: report() asks the replay program for a
    concrete failing input on the real code and reports UNDECIDED when there is none."""
    r = verify_unit_once(unit, info, repo, workdir, seed, rlimit_mult)
    changed = [reg for reg in r['regions'] if reg.get('changed_since_baseline')]
    # assumed (external_body) functions are trusted for their baseline text only
    for reg in changed:
        if reg['mode'].startswith('assumed'):
            r['failures'].append(pseudo_failure(unit, reg, 'assumed_changed', 'an assumed (external_body) function changed: its contract was trusted for the baseline text only'))
    frontend = [u for u in r['undecided'] if u.startswith('verus front-end error')]
    labels = [reg['function'] for reg in changed if reg['mode'] == 'verified']
    # Placement retry.  Contract lines whose anchor line vanished are placed as late as possible by default; when a changed function then
    # fails (or no longer parses), the other placement (as early as possible) is tried.  Annotations are ghost code: a placement under
    # which every obligation is discharged is a proof, whichever it is.
    if labels and (frontend or any(f['function'] in labels for f in r['failures'])):
        r_e = verify_unit_once(unit, info, repo, workdir, seed, rlimit_mult, modes={l: 'early' for l in labels})
        fe_e = [u for u in r_e['undecided'] if u.startswith('verus front-end error') or u.startswith('assemble')]
        if not fe_e and not any(f['function'] in labels for f in r_e['failures']) and len(r_e['failures']) <= len(r['failures']):
            r_e['notes'] = r_e['notes'] + ['contract lines of changed function(s) %s placed early (default placement failed)' % ', '.join(labels)]
            for reg in changed:
                if reg['mode'].startswith('assumed'):
                    r_e['failures'].append(pseudo_failure(unit, reg, 'assumed_changed', 'an assumed (external_body) function changed: its contract was trusted for the baseline text only'))
            return r_e
    if not frontend or not changed:
        return r
    if not labels:
        return r
    for mode in ('contract_only', 'external', 'stub'):
        r2 = verify_unit_once(unit, info, repo, workdir, seed, rlimit_mult, modes={l: mode for l in labels})
        if any(u.startswith('verus front-end error') or u.startswith('assemble') for u in r2['undecided']):
            continue
        r2['notes'] = r2['notes'] + ['fallback %s for changed function(s) %s after: %s' % (mode, ', '.join(labels), frontend[0][:200])]
        r2['fallback'] = mode
        for f in r2['failures']:
            if f['function'] in labels:
                f['fallback'] = mode
        if mode in ('external', 'stub'):
            for reg in r2['regions']:
                if reg['function'] in labels:
                    r2['failures'].append(pseudo_failure(unit, reg, 'unverifiable', 'the changed function is outside what the verifier accepts (%s); it was assumed so that the rest of the unit could be checked' % frontend[0][:160]))
        for reg in changed:
            if reg['mode'].startswith('assumed'):
                r2['failures'].append(pseudo_failure(unit, reg, 'assumed_changed', 'an assumed (external_body) function changed'))
        return r2
    return r


def pseudo_failure(unit, reg, kind, msg):
    return {'unit': unit, 'function': reg['function'], 'verus_fn': None, 'kind': kind, 'message': msg, 'site': '', 'site_is_real_code': True,
            'clause': '', 'aux': False, 'props': reg['props'], 'source_file': reg['source_file'], 'source_line': reg['line'],
            'source_sha256': reg['sha256'], 'changed_since_baseline': True, 'rendered': msg, 'fallback': kind}


def region_verus_name(reg):
    """(Type or None, fn name) under which Verus reports the function of a region"""
    label = reg['function']
    cont, _, fn = label.rpartition('::')
    typ = None
    if cont:
        c = re.sub(r'<[^<>]*>', '', cont)
        c = re.sub(r'<[^<>]*>', '', c)
        m = re.search(r'\bfor\s+&?\s*(\w+)', c) or re.match(r'\s*(?:impl|trait)\s+(\w+)', c)
        typ = m.group(1) if m else None
    return typ, reg.get('renamed_to') or fn


def functions_of_property(r, prop):
    """breakdown entries (exec/proof functions with SMT queries) of unit result r that serve prop"""
    by_region = {}
    for reg in r['regions']:
        by_region.setdefault(region_verus_name(reg), []).append(reg)
    out = []
    for f in r['functions']:
        parts = f['function'].split('::')
        name = parts[-1]
        typ = parts[-2] if len(parts) >= 2 else None
        if name.startswith('canary_'):
            continue
        regs = by_region.get((typ, name)) or (by_region.get((None, name)) if typ is None else None)
        if regs:
            if any(prop in rg['props'] for rg in regs):
                out.append(f)
        else:
            props = r.get('fnprops', {}).get(name) or r.get('unitprops') or r.get('allprops') or []
            if prop in props or not props:
                out.append(f)
    return out


def obligation_id(f):
    return '%s::%s::%s' % (f['unit'], f['function'], f['kind'])


def load_known():
    known = []
    p = os.path.join(VERIF, 'known_findings.txt')
    if os.path.exists(p):
        for line in open(p):
            line = line.strip()
            m = re.match(r'known:\s+property=(\S+)\s+obligation=(\S+)\s+(?:input=\{(.*?)\}\s+)?(.*)$', line)
            if m:
                known.append({'property': m.group(1), 'obligation': m.group(2), 'input': m.group(3), 'what': m.group(4)})
    return known


def known_match(known, prop, f):
    """a known finding matches on (property, obligation id) and, when it names an input, on that input being the failing one"""
    oid = obligation_id(f)
    for x in known:
        if x['property'] == prop and x['obligation'] == oid and (not x.get('input') or x['input'] in (f.get('site') or '')):
            return x
    return None


def main():
    import argparse
    ap = argparse.ArgumentParser()
    ap.add_argument('prop')
    ap.add_argument('--tier', default=os.environ.get('VERIF_TIER', 'quick'))
    ap.add_argument('--keep', action='store_true', help='keep the scratch directory (debugging)')
    ap.add_argument('--units', default=None, help='comma separated subset of units (debugging)')
    a = ap.parse_args()
    prop = a.prop
    tier = a.tier if a.tier in ('quick', 'thorough') else 'quick'
    os.environ['VERIF_TIER'] = tier      # the replay program widens its sweeps in the thorough tier
    seed = int(os.environ.get('VERIF_SEED', '0') or 0)
    t0 = time.time()
    all_units = unit_templates()
    units = {u: i for u, i in all_units.items() if prop in i['allprops']}
    # units whose contracts are imported (assumed) by the property's units are run as dependencies
    todo = list(units)
    while todo:
        u = todo.pop()
        for dname in template_directives(all_units[u]['path'])['depends']:
            if dname in all_units and dname not in units:
                units[dname] = dict(all_units[dname], dependency_of=u)
                todo.append(dname)
    if a.units:
        units = {u: i for u, i in units.items() if u in a.units.split(',')}
    if not units:
        print('UNDECIDED property=%s reason=no contract unit serves this property' % prop)
        sys.exit(2)
    import imports
    import_problems = []
    for u, info in units.items():
        import_problems += ['%s: %s' % (u, x) for x in imports.check_imports(info['path'], all_units)]
    scratch_root = os.environ.get('TMPDIR', '/var/tmp')
    work = tempfile.mkdtemp(prefix='verif-scratch.', dir=scratch_root)
    results = []
    extra = []   # results from plug-ins (kani, falsifier)
    try:
        jobs = []
        with cf.ThreadPoolExecutor(max_workers=12) as ex:
            for u, info in units.items():
                wd = os.path.join(work, u); os.makedirs(wd)
                jobs.append(ex.submit(run_unit_with_retries, u, info, REPO, wd, tier, seed))
            # plug-ins run concurrently with Verus
            plug = []
            try:
                import plugins
                for fn in plugins.for_property(prop, tier):
                    plug.append(ex.submit(fn, REPO, work, tier, seed))
            except ImportError:
                pass
            for j in jobs:
                results.append(j.result())
            for j in plug:
                extra.append(j.result())
        if import_problems:
            extra.append({'name': 'imports', 'undecided': import_problems, 'failures': []})
        if tier == 'thorough' and not os.environ.get('VERIF_NO_EVIDENCE'):
            extra += thorough_extras(prop)
        rc = report(prop, tier, seed, results, extra, time.time() - t0)
    finally:
        if not a.keep:
            shutil.rmtree(work, ignore_errors=True)
        else:
            print('scratch kept at', work)
    sys.exit(rc)


def thorough_extras(prop):
    """thorough tier only: (1) the seeded mutations of this property must give their recorded outcome (machinery self-test);
    (2) the replay program is swept over its whole domain on the unchanged tree - a discrepancy there is reported as a NOTE in the
    evidence (it decides nothing: it would mean a defect outside the contracts' coverage, or a wrong oracle)."""
    out = []
    t0 = time.time()
    p = subprocess.run([sys.executable, os.path.join(HERE, 'selftest.py'), prop, '--jobs=4'], capture_output=True, text=True)
    rows = [l for l in p.stdout.split('\n') if l.strip() and not l.startswith('SELFTEST')]
    st = {'name': 'selftest (seeded mutations)', 'failures': [], 'undecided': [], 'rows': rows, 'wall': round(time.time() - t0, 1),
          'cmd': 'python3 tools/selftest.py %s --jobs=4' % prop}
    if p.returncode != 0:
        st['undecided'].append('a seeded mutation recorded as detected is no longer detected: ' + ' | '.join(r for r in rows if ' detected ' not in r)[:300])
    out.append(st)
    try:
        import falsify
        r = falsify.run(prop, REPO)
        out.append({'name': 'replay-program sweep on the unchanged tree', 'failures': [], 'undecided': [], 'cmd': r['cmd'], 'wall': r.get('wall'),
                    'discrepancies': ['%s :: %s :: %s' % l for l in r['lines'][:10]], 'error': r['error'],
                    'note': 'decides nothing; discrepancies here would be defects outside the contracts\' coverage'})
    except Exception as e:
        out.append({'name': 'replay-program sweep', 'failures': [], 'undecided': [], 'error': str(e)})
    return out


def run_unit_with_retries(u, info, repo, wd, tier, seed):
    """retry ladder for solver instability: failures that are only rlimit are retried at 4x rlimit, then 2 more seeds"""
    r = verify_unit(u, info, repo, wd)
    attempts = [r]
    def only_rlimit(x):
        return x['failures'] and all(f['kind'] == 'rlimit' for f in x['failures']) and not x['undecided']
    if only_rlimit(r):
        for mult, sd in ((4, None), (4, 1), (4, 2)):
            r2 = verify_unit(u, info, repo, wd, seed=sd, rlimit_mult=mult)
            attempts.append(r2)
            if not only_rlimit(r2):
                r = r2
                break
        else:
            r['undecided'].append('rlimit exceeded after retry ladder in: ' + ', '.join(sorted({f['function'] for f in r['failures']})))
            r['failures'] = []
    # Hint lifting.  A ghost `assert` is a step of OUR proof; Verus assumes a failed assert and goes on, so when a hint is the only thing
    # that fails in a function the obligation it was a step towards is reported as discharged -- on the strength of an assumption.  For a
    # function that changed by at most SMALL_EDIT lines (where the annotations still sit where they belong) the unit is verified once more
    # with exactly those asserts made trivially true: if the function then verifies, the hint was superfluous and the failure is dropped;
    # if a pre/postcondition or invariant fails now, THAT is the obligation the change breaks and it replaces the hint in the report.
    def hint_only_functions(x):
        by = {}
        for f in x['failures']:
            by.setdefault(f['function'], []).append(f)
        out = {}
        for fn, fs in by.items():
            if all(f['kind'] == 'assert' and not f.get('site_is_real_code') and f.get('asm_line') is not None for f in fs) \
                    and fs[0].get('changed_since_baseline') and (fs[0].get('change_size') or 0) <= SMALL_EDIT and not fs[0].get('fallback'):
                out[fn] = fs
        return out
    ho = hint_only_functions(r)
    if ho and not r.get('fallback') and not any(u2.startswith('verus front-end error') or u2.startswith('assemble') for u2 in r['undecided']):
        weak = set()
        cur = r
        for _round in range(3):
            hoc = hint_only_functions(cur)
            new_lines = {f['asm_line'] for fs in hoc.values() for f in fs} - weak
            if not new_lines:
                break
            weak |= new_lines
            cur = verify_unit_once(u, info, repo, wd, weaken=weak)
            attempts.append(cur)
            if any(u2.startswith('verus front-end error') or u2.startswith('assemble') for u2 in cur['undecided']):
                cur = None
                break
        if cur is not None and cur is not r:
            lifted = [f for f in cur['failures'] if f['function'] in ho and not (f['kind'] == 'assert' and not f.get('site_is_real_code'))]
            remaining_hints = [f for f in cur['failures'] if f['function'] in ho and f['kind'] == 'assert' and not f.get('site_is_real_code')]
            if lifted:
                for f in lifted:
                    f['lifted_from_hint'] = True
                    f['message'] = f['message'] + ' (once the failing proof step of this function is no longer assumed)'
                r['failures'] = [f for f in r['failures'] if f['function'] not in ho] + lifted
                r['notes'] = r.get('notes', []) + ['hint lifting: failing proof steps of %s were made trivial and the unit verified again' % ', '.join(sorted(ho))]
            elif not remaining_hints:
                r['failures'] = [f for f in r['failures'] if f['function'] not in ho]
                r['notes'] = r.get('notes', []) + ['hint lifting: %s verifies without the proof steps that failed (superfluous hints)' % ', '.join(sorted(ho))]
    # Failures in UNCHANGED functions.  Verification is modular: an unchanged function is checked against its own (unchanged) body, the
    # contracts of its callees and the spec functions, which are template text.  Unless an item whose body other obligations can see
    # changed (a type definition, executable text also used as a spec function), its obligations are textually the ones discharged on the
    # baseline tree, so a failure can only be solver instability: the same query sits in a different file (a changed neighbour, a fallback
    # emission) and Z3 takes another path.  Such failures are re-tried under other seeds and a higher rlimit.  A proof found once is a
    # proof; an obligation that stays unproved is reported as UNDECIDED (unstable), never as a violation.
    PSEUDO = ('unverifiable', 'assumed_changed', 'bounded')
    def unstable(x):
        dep_changed = any(reg.get('changed_since_baseline') and (reg['mode'] == 'definition' or reg.get('spec_visible')) for reg in x['regions'])
        if dep_changed:
            return []
        return [f for f in x['failures'] if not f.get('changed_since_baseline') and f['kind'] not in PSEUDO]
    us = unstable(r)
    if us and any(reg.get('changed_since_baseline') for reg in r['regions']):
        still = {obligation_id(f) for f in us}
        for mult, sd in ((2, 1), (4, 2), (4, 3)):
            r2 = verify_unit(u, info, repo, wd, seed=sd, rlimit_mult=mult)
            attempts.append(r2)
            if any(x.startswith('verus front-end error') or x.startswith('assemble') for x in r2['undecided']):
                continue
            still &= {obligation_id(f) for f in r2['failures']}
            if not still:
                break
        dropped = sorted({obligation_id(f) for f in us} - still)
        if dropped:
            r['notes'] = r.get('notes', []) + ['unstable proofs of unchanged functions, discharged on a retry (other seed / rlimit): ' + ', '.join(dropped)]
        if still:
            r['undecided'].append('unstable: obligations of UNCHANGED functions stay unproved next to a changed function (not a property of the code): '
                                  + ', '.join(sorted(still)))
        r['failures'] = [f for f in r['failures'] if f not in us]
    r['attempts'] = len(attempts)
    r['dependency_of'] = info.get('dependency_of')
    if tier == 'thorough' and not r['failures'] and not r['undecided']:
        # proof-stability: re-prove under 3 further seeds; record, never alarm
        stab = []
        for sd in (seed + 11, seed + 23, seed + 37):
            r2 = verify_unit(u, info, repo, wd, seed=sd)
            stab.append({'seed': sd, 'verified': r2['verified'], 'errors': r2['errors'] - len(r2['canaries_ok']),
                         'wall': round(r2['wall'], 2)})
        r['stability'] = stab
    return r


def report(prop, tier, seed, results, extra, wall):
    known = load_known()
    violations, known_hits, undecided, aux_only = [], [], [], []
    for r in results:
        for u in r['undecided']:
            undecided.append('%s: %s' % (r['unit'], u))
        for f in r['failures']:
            if prop not in f['props']:
                if r.get('dependency_of') and not f['aux'] and f['kind'] != 'rlimit':
                    undecided.append('%s: imported contract not discharged in dependency unit (%s, needed by %s)'
                                     % (r['unit'], obligation_id(f), r['dependency_of']))
                continue
            if f['kind'] == 'rlimit':
                undecided.append('%s: rlimit in %s' % (r['unit'], f['function']))
                continue
            if f['aux']:
                aux_only.append(f)
                continue
            k = known_match(known, prop, f)
            if k:
                known_hits.append((k, f))
            else:
                violations.append(f)
    for e in extra:
        for u in e.get('undecided', []):
            undecided.append('%s: %s' % (e['name'], u))
        for f in e.get('failures', []):
            k = known_match(known, prop, f)
            if k:
                known_hits.append((k, f))
            else:
                violations.append(f)
    if aux_only and not violations:
        undecided.append('only auxiliary obligations fail: ' + ', '.join(sorted({obligation_id(f) for f in aux_only})))
    # ---- replay files + output lines
    outdir = os.path.join(VERIF, 'replay', 'out' if not os.environ.get('VERIF_NO_EVIDENCE') else 'out-selftest')
    os.makedirs(outdir, exist_ok=True)
    seen = set()
    for k, f in known_hits:
        key = (k['obligation'], k.get('input'))
        if key in seen:
            continue
        seen.add(key)
        print('KNOWN-FINDING: property=%s obligation=%s %s' % (prop, k['obligation'], k['what']))
    # group violations by obligation id
    # Triage of proof hints.  A ghost `assert` inside a proof block is a step of OUR proof, not an obligation generated from the
    # contracts: when it is the only thing that fails in a function, every pre/postcondition, invariant, overflow and panic check of
    # that function was still discharged (Verus assumes a failed assert and goes on).  Such a failure is treated like a fallback: a
    # VIOLATION only with a concrete failing execution of the real code, otherwise UNDECIDED.
    # Large rewrites.  The contract lines of a function whose text changed are transplanted by alignment.  After a small edit (at most
    # SMALL_EDIT changed / added / removed lines: the typical operator, constant, index or condition change) loop invariants and
    # proof hints still sit where they belong, and a failed obligation is reported as the brief prescribes, with or without a failing
    # input.  After a larger rewrite a failure may be an artefact of the transplant (an invariant that now talks about a hoisted
    # local, a ghost update after the wrong statement), so it is reported only with a concrete failing execution of the real code.
    for f in violations:
        if f.get('changed_since_baseline') and (f.get('change_size') or 0) > SMALL_EDIT and not f.get('counterexample') and not f.get('fallback'):
            f['fallback'] = 'large_rewrite'
            f['message'] = f['message'] + ' (after a rewrite of %d lines of this function)' % f['change_size']
    by_fn = {}
    for f in violations:
        by_fn.setdefault((f['unit'], f['function']), []).append(f)
    for fs0 in by_fn.values():
        if all(f['kind'] == 'assert' and not f.get('site_is_real_code') for f in fs0):
            for f in fs0:
                f.setdefault('fallback', 'proof_hint_only')
    byid = {}
    del_ids = []
    bounded_only = []
    for f in violations:
        # bounded obligations are distinguished by their input, deductive ones by function and kind
        byid.setdefault(obligation_id(f) + ((' @ ' + f['site'][:120]) if f['kind'] == 'bounded' else ''), []).append(f)
    for oid, fs in sorted(byid.items()):
        if all(f.get('fallback') for f in fs) and not any(f.get('counterexample') for f in fs):
            # not decided by the verifier alone (see verify_unit): only a concrete failing execution of the real code makes it a violation
            try:
                import falsify
                cex0 = falsify.search(prop, fs, REPO)
            except Exception as e:
                cex0 = None
            if cex0 is None:
                # A changed function that the verifier's front end does not accept generates no obligation at all: it "cannot be brought
                # within the verifier's reach".  The brief lets a bounded check with a stated bound stand in for such a function, labelled
                # bounded and never counted as proved.  That is done here, and only when the property's bounded stand-in ran to completion
                # on the current tree without a discrepancy.  (A proof that FAILS after a rewrite is different: it stays UNDECIDED.)
                bsweep = [e for e in extra if e.get('name') == 'bounded:%s' % prop]
                if all(f['kind'] in ('unverifiable', 'assumed_changed') for f in fs) and bsweep and not bsweep[0].get('undecided') \
                        and not bsweep[0].get('failures'):
                    bounded_only.append({'function': oid, 'reason': fs[0]['message'][:300], 'decided_by': 'bounded stand-in only (NOT proved)',
                                         'bound': bsweep[0]['bounded'][0]['bound']})
                    del_ids.append(oid)
                    continue
                undecided.append('%s: %s; the replay program found no failing input on the real code' % (oid, fs[0]['message'][:200]))
                del_ids.append(oid)
                continue
            fs[0]['counterexample'] = cex0
            fs[0]['decided_by'] = 'concrete replay on the real code (the deductive obligation could not be checked on the changed text)'
        safe = re.sub(r'[^A-Za-z0-9_.-]+', '_', oid)
        path = os.path.join(outdir, '%s-%s-%s.json' % (prop, safe[:120], hashlib.sha256(oid.encode()).hexdigest()[:6]))
        cex = None
        for f in fs:
            if f.get('counterexample'):
                cex = f['counterexample']
        if cex is None:
            try:
                import falsify
                cex = falsify.search(prop, fs, REPO)
            except ImportError:
                cex = None
            except Exception as e:  # the falsifier never decides anything
                cex = None
                fs[0].setdefault('falsifier_error', str(e))
        doc = {'property': prop, 'obligation': oid, 'backend': fs[0].get('backend', 'verus'),
               'failed_obligations': [{k2: v for k2, v in f.items() if k2 != 'props'} for f in fs],
               'counterexample': cex,
               'note': 'obligation is discharged on the unchanged tree; it fails on the current /repo working tree'}
        json.dump(doc, open(path, 'w'), indent=1)
        tail = '' if cex else ' no-failing-input-found'
        site = fs[0].get('site', '')[:80]
        if not site and cex:
            site = ('%s :: %s' % (cex.get('input', ''), cex.get('observed', '')))[:160]
        print('VIOLATION property=%s replay=%s obligation=%s site=%r%s' % (prop, path, oid, site, tail))
    for oid in del_ids:
        byid.pop(oid, None)
    for u in undecided:
        print('UNDECIDED property=%s reason=%s' % (prop, u))
    for b in bounded_only:
        print('BOUNDED-ONLY property=%s function=%s (changed function outside the verifier\'s reach; its contract was assumed and the bounded '
              'stand-in of this property found no discrepancy: not proved)' % (prop, b['function']))
    # ---- evidence
    per_prop = {r['unit']: functions_of_property(r, prop) for r in results if not r.get('dependency_of')}
    dep_funcs = {r['unit']: [f for f in r['functions'] if not f['function'].split('::')[-1].startswith('canary_')] for r in results if r.get('dependency_of')}
    obligations = sum(len(v) for v in per_prop.values()) + sum(e.get('obligations', 0) for e in extra)
    failed_ids = {obligation_id(f) for r in results for f in r['failures']} | {obligation_id(f) for e in extra for f in e.get('failures', [])}
    discharged = sum(1 for v in per_prop.values() for f in v if f['success']) + sum(e.get('obligations', 0) - e.get('failed', 0) for e in extra)
    trusted = sorted({t for r in results for t in r['trusted']} | {t for e in extra for t in e.get('trusted', [])})
    functions = []
    for r in results:
        for reg in r['regions']:
            if not r.get('dependency_of') and prop not in reg['props']:
                continue
            typ, nm = region_verus_name(reg)
            fb = [f for f in r['functions'] if f['function'].split('::')[-1] == nm and (typ is None or typ in f['function'].split('::'))]
            functions.append({'unit': r['unit'], 'role': 'dependency (imported contract proved here)' if r.get('dependency_of') else 'property',
                              'function': reg['function'], 'source_file': reg['source_file'],
                              'line': reg['line'], 'sha256': reg['sha256'], 'mode': reg['mode'],
                              'rewrites_applied': reg['rewrites_applied'],
                              'changed_since_baseline': reg['changed_since_baseline'], 'backend': 'verus/z3',
                              'smt_time_us': sum(x['smt_time_us'] for x in fb) if fb else None,
                              'success': (all(x['success'] for x in fb) if fb else None) if reg['mode'] == 'verified' else None})
    samples = []
    for r in results:
        for f in per_prop.get(r['unit'], []):
            if f['mode'] == 'exec' and not f['function'].split('::')[-1].startswith('witness_') and len(samples) < 6:
                samples.append({'obligation': '%s::%s (all pre/postconditions, invariants, overflow, bounds, panics of this function)'
                                % (r['unit'], f['function']), 'backend': 'verus/z3', 'smt_time_us': f['smt_time_us'],
                                'discharged': f['success']})
    for e in extra:
        samples += e.get('samples', [])[:3]
    ev = {
        'property_id': prop, 'tier': tier, 'seed': seed, 'level': 'proof',
        'coverage': {
            'obligations': obligations, 'discharged': discharged,
            'obligation_unit': 'one per exec/proof function of this property that Verus sends to the SMT solver (all clauses, loop invariants, '
                               'overflow/bounds/panic checks of that function), plus one per Kani harness; vacuity canaries and the functions of '
                               'dependency units are NOT counted here (they are listed under dependency_units)',
            'dependency_units': {u: {'functions': len(v), 'discharged': sum(1 for f in v if f['success'])} for u, v in dep_funcs.items()},
            'checker_cmd': ' ; '.join([r['cmd'] for r in results] + [e.get('cmd', '') for e in extra if e.get('cmd')]),
            'trusted_base': trusted,
            'functions_under_contract': functions,
            'units': [{'unit': r['unit'], 'verified': r['verified'], 'errors_excluding_canaries': max(0, r['errors'] - len(r['canaries_ok'])),
                       'canaries_failed_as_required': r['canaries_ok'], 'wall_s': round(r['wall'], 2),
                       'smt_time_s': round(r['smt_us'] / 1e6, 3), 'attempts': r.get('attempts', 1),
                       'assembled_sha256': r.get('assembled_sha256'), 'stability': r.get('stability'),
                       'extraction_notes': r['notes']} for r in results],
            'plugins': [{k: v for k, v in e.items() if k not in ('failures',)} for e in extra],
            'bounded': [b for e in extra for b in e.get('bounded', [])],
            'samples': samples,
            'failed_obligations': sorted(failed_ids),
            'undecided': undecided,
            'bounded_only_changed_functions': bounded_only,
        },
        'assumptions': assumptions_for(prop),
        'wall_s': round(wall, 2),
        'violations': len(byid),
    }
    if not os.environ.get('VERIF_NO_EVIDENCE'):
        os.makedirs(os.path.join(VERIF, 'evidence'), exist_ok=True)
        json.dump(ev, open(os.path.join(VERIF, 'evidence', prop + '.json'), 'w'), indent=1)
    if byid:
        return 1
    if undecided:
        return 2
    print('OK property=%s tier=%s obligations=%d discharged=%d units=%s wall=%.1fs'
          % (prop, tier, obligations, discharged, ','.join(r['unit'] for r in results), wall))
    return 0


def assumptions_for(prop):
    p = os.path.join(VERIF, 'contracts', 'assumptions.json')
    if os.path.exists(p):
        d = json.load(open(p))
        return d.get('all', []) + d.get(prop, [])
    return []


if __name__ == '__main__':
    main()
