#!/usr/bin/env python3
"""Writes MANIFEST.json from the table below (kept in one place so it stays valid and consistent)."""
import json, os
VERIF = os.path.dirname(os.path.dirname(os.path.abspath(__file__)))

TECH = 'contract-based deductive verification: Verus (Z3) on functions extracted mechanically from /repo on every run (bounded stand-ins, labelled, for the clauses outside reach)'

CLAIMED = {
 'C20': dict(
   text='Unbounded proof (Verus/Z3) over the real bodies of both union-find implementations (IntPartitionImpl, and PartitionImpl<T> at T = usize): find returns '
        'the class representative, which is a fixed member of its class, and changes no class; unite merges exactly the two classes and leaves every other '
        'representative alone; classes() of both wrappers returns exactly the queried elements grouped by representative, in first-occurrence order; '
        'a history lemma lifts this to: after ANY operation sequence, same representative <=> connected by the unions applied.',
   note='Trusted: Verus+Z3, vstd specs of Vec/HashMap; the UnsafeCell wrappers Partition/IntPartition (one-line unsafe delegations, emitted external_body with the '
        'contract of the wrapped method and pinned to their text); termination (not claimed); Rust ownership for clone independence; T = usize only.',
   ref='5 C20', technique=TECH),
 'C10': dict(
   text='Unbounded proof (Verus/Z3) over the real bodies of src/fpgroups/free_words.rs: the reduced-word type invariant is re-established by every '
        'constructor and operation (new, empty, inverse, raised_to, commutator, rotated, all six * forms, *=), each result equals the '
        'free reduction of the concatenation / inverse / power, cmp is the verified lexicographic order with proved strict-total-order '
        'lemmas, relator_representative is the least candidate and relator_permutations is exactly the candidate set; for a cyclically reduced word '
        'every rotation and the inverse have the same candidate set and hence the same representative (lemma over the contracts); group axioms are '
        'lemmas over the same spec function.',
   note='Trusted: Verus+Z3, vstd; std semantics of three iterator expressions vstd does not model (chain/cloned/collect in mul, '
        'empty().chain(skip).chain(take).cloned() in rotated, (0..m).fold in raised_to) stated as external_body contracts; '
        'isize::rem_euclid, Option::is_some_and, BTreeSet::from specs; vstd closed law obeys_cmp::<FreeWord>() assumed (its content is proved as lemmas); '
        'derived Clone/PartialEq; Vec length <= isize::MAX/8; letters > isize::MIN is a stated precondition; From<I> and iter() not under contract; termination.',
   ref='5 C10', technique=TECH),
 'C18': dict(
   text='Unbounded proof (Verus/Z3, modulus P symbolic) over the real bodies of PrimeResidueClass: representation invariant 0 <= value < P, '
        'from(i64/i32) == n mod P, + - * neg are the operations of Z/P without overflow, inverse (extended Euclid, the one loop) returns the '
        'multiplicative inverse for every prime P <= 3037000499, / is the field quotient; plus bit-precise complete Kani proofs for P in '
        '{2, 3, 61, 3037000493} that supply concrete counterexamples.  Unit row_echelon adds, for both echelon constructors (RowEchelonVecMatrix::new and its const-generic twin '
        'RowEchelonMatrix::new), for every shape and every Entry type meeting the trait contracts of pivot_row / clear_col: no index or assertion can fail, rank <= min(rows, columns), '
        'and the result is in ROW ECHELON FORM (pivot columns strictly increasing, every pivot non-zero with zeros to its left, every row from rank on zero); the real index / index_mut / swap_rows '
        'bodies of both matrix types are proved (values, with frame); i64::pivot_row, PrimeResidueClass::{pivot_row, clear_col, zero, is_zero} and BigRational::{pivot_row, clear_col} (over a stand-in type without a value model) are proved to meet the trait contracts.',
   note='Trusted: Verus+Z3, vstd arithmetic lemmas, Kani/CBMC; domain assumption on the const generic P (2 <= P <= 3037000499, P prime = what valid() '
        'accepts); ASSUMED: <i64 as Entry>::clear_col meets the trait contract (its gcdx arithmetic overflows for large entries: machine arithmetic would have to be treated as mathematical), '
        'the derived Clone of both matrix types returns the same entries, identity() for its shape; BigRational arithmetic is a stand-in (total operators with arbitrary results, division needs a non-zero divisor, is-zero uninterpreted); f64 entries are not extracted; valid() (f64) and the p-adic solver are not under contract; '
        'the echelon contract does not say that the result is row-equivalent to the input, so the exact VALUE of rank/determinant/null space/solve is decided by the bounded stand-in only.',
   ref='5 C18', technique=TECH + '; Kani (CBMC) loop-free harnesses for instantiated moduli'),
 'C02': dict(
   text='Unbounded proof (Verus/Z3) over the real bodies of PartialDSet, SimpleDSet, collect_orbits, PartialDSym and SimpleDSym: the involution '
        'invariant is kept by new/set (with frame), op is total (None out of range, no panic for any usize), collect_orbits builds orbit tables '
        'constant along both operations with r >= 1 = least return time at the representative, r/v/m of BOTH symbol representations equal the same '
        'spec functions of the tables (m = r*v, symmetric, constant on orbits, None out of range); the default DSet::r (generic over the interface): Some(r) is the '
        'least positive number of steps of (operation i, then operation j) leading from d back to d, None out of range or where the walk leaves the defined operations. '
        'Orbit indices separate orbits (equal index only on one (i,i+1)-orbit; index ranges of different i disjoint). The trait DSym with the laws v constant on orbits and '
        'm = r*v for whatever n is the least return time, proved for both implementors; the conversions as_dset, as_dsym, as_partial_dsym (real bodies): same operations, '
        'v = 1 resp. the same v and the same m. orbit_reps_2d lists exactly one representative of every (i,j)-orbit (existence and uniqueness). PartialDSet::set is verified twice (R21: also with its argument checks as guards: every ACCEPTED call keeps the involution invariant) and PartialDSet::grow adds chambers with every operation undefined. is_loopless (no operation fixes a chamber), orientations_match, is_weakly_oriented (every edge passes the test against '
        'the vector partial_orientation returns) and is_oriented (their conjunction) are verified bodies.',
   note='Trusted: Verus+Z3, vstd, <[T]>::fill spec, derived Clone; walk(e,[i,j]) by its std semantics. Not decided by contracts (bounded stand-in): '
        'Traversal/orbits/orbit_reps/is_connected/partial_orientation (stateful iterator over BTreeMap/VecDeque/HashSet; is_weakly_oriented is proved relative to the vector partial_orientation returns); termination of orbit loops; '
        'the lift of the return-time statement from orbit representatives to every chamber is stated as spec-level lemmas only.',
   ref='5 C02', technique=TECH),
 'C01': dict(
   text='Unbounded proof (Verus/Z3) that PartialDSym::from_str, for an ARBITRARY parser result (nom is external and assumed to return any DSymSpec '
        'whatsoever), never reaches a panic, assertion, overflow or out-of-bounds index, and that Ok(ds) implies the full symbol invariant '
        '(involutions on 1..=size, complete, consistent orbit tables, every degree = r*v).',
   note='Trusted: Verus+Z3, vstd; parse_dsymbol (nom grammar) external with NO assumption on its output; allocation failure not modelled. '
        'Not decided: the print/parse round trip (Display is write!-based, the grammar is nom: neither is within the verifier).',
   ref='5 C01', technique=TECH),
 'C04': dict(
   text='Unbounded proof (Verus/Z3), generic over the DSet interface, of the real morphism body: Some(m) is a map with m[1] = img0 that commutes with '
        'every operation and preserves every degree on all chambers it assigns; None implies that no morphism with that base image exists; '
        'automorphisms lists exactly the successful base images. The interface contract is proved for all four concrete representations. '
        'fold (real body; Partition<usize> through the contract proved in unit partitions): Some(p) is a degree-respecting congruence above p0 identifying d and e, '
        'None implies that NO such congruence exists; is_minimal is true exactly when no chamber can be merged with chamber 1 by any degree-respecting congruence, '
        'which for a symbol connected from chamber 1 is: the identity is the only degree-respecting congruence. minimal_image (real body): the result is a well-formed '
        'complete symbol onto which the input maps by a chamber map that commutes with every operation and whose fibres are the classes of a degree-respecting '
        'congruence, for a connected symbol the COARSEST one (every degree-respecting congruence refines it: the join of two such congruences is constructed and '
        'proved to be one), i.e. the image is the smallest quotient of that kind. For complete symbols of one dimension whose source is connected from chamber 1 the map Some(m) assigns EVERY chamber and is a morphism on all of them (lemma_morphism_total), and every map automorphisms lists is a bijection (lemma_self_morphism_bijective; lemmas over the contracts).',
   note='Trusted: Verus+Z3, vstd. Requires img0 != 0 (0 is the code\'s unassigned marker); fold/is_minimal require a complete symbol and chambers in range; termination. '
        'The degrees of the minimal image are proved in the form m_image = r * (m_source / r) with r the orbit length in the image (equal to m_source whenever r divides it; that it '
        'always does is a theorem about quotients and is not proved). Not decided by contracts (bounded stand-in only): totality/bijectivity of the morphism map '
        '(needs connectivity = Traversal), covers vs minimal images. Iterator::fold in minimal_image by its std semantics; precondition v * size <= usize::MAX.',
   ref='5 C04', technique=TECH),
 'C11': dict(
   text='Unbounded proof (Verus/Z3) over the real bodies of CosetTable::{new, len, canon, get, set, join, merge, compact}, scan, scan_inverse, scan_both_ways, '
        'scan_and_connect, expanded_relator_set, coset_table and coset_representative: for ANY presentation and subgroup generators, the table coset_table returns is '
        'complete (every generator and inverse generator defined at every row), the action of the inverse generator undoes the generator, the action is transitive, every relator traced from every '
        'row ends in that row and every subgroup generator traced from row 0 ends in row 0 (completeness and inverse-consistency from invariants of the enumeration and of '
        'the coincidence procedure, closure from the final consistency pass, all carried through the renumbering of compact), so that the result meets the precondition '
        'of coset_representative; the table is universal: into every model (an action of the generators on points with inverse generators undoing generators, relators acting '
        'trivially, subgroup generators fixing a base point) there is an equivariant map of the rows sending row 0 to the base point, i.e. the enumeration never identifies two '
        'rows that some model separates (the contract form of "exactly [G:H] rows"); for every complete table in which inverse generators undo generators, every '
        '(row, word) coset_representative returns traces from row 0 to that row, and for a transitive table (what coset_table returns) EVERY row gets a word; get/set/join are specified against the abstract action with whole-table frames; the scans '
        'trace exactly the prefix they report.',
   note='Trusted: Verus+Z3, vstd, VecDeque/BTreeMap::from specs; all_gens and five std collection expressions in coset_table (BTreeSet new/extend/iteration, iter().chain(), '
        'Vec::extend(Option)) by their std semantics; the row-limit assert as an abort; FreeWord and IntPartition by the contracts proved in units free_words / partitions '
        '(run as dependencies). Not formalised: the group-theoretic identification of the universal transitive table with G/H (the number [G:H] itself is compared by the bounded stand-in); termination.',
   ref='5 C11', technique=TECH),
 'C13': dict(
   text='Unbounded proof (Verus/Z3) over the real body of intersection_table (with CosetTable::{new, get, join, compact} under the contracts of C11): for any two valid tables over '
        'the same generators the result is a valid table whose rows are paired injectively with pairs (row of ta, row of tb), row 0 with (0, 0), compatibly with every generator '
        '-- the orbit of the pair of base rows in the product action -- and consequently a word fixes its row 0 exactly when it fixes row 0 of both inputs (lemma over the contract). '
        'induced_table (at T = Vec<usize>, its only instantiation) and core_table (real bodies): for a closure that is a function on views in which the inverse generator undoes the '
        'generator, the result is a valid TRANSITIVE table whose rows are, injectively, the states reached from the start state; for core_table these are the tuples into which the generators '
        'move the identity tuple of rows of the input, consequently a word fixes ALL rows of the input exactly when it fixes row 0 of the core, and the rows correspond one to one to the '
        'permutations of the rows of the input induced by words in the generators -- the row count is the order of the permutation group generated by the action (lemmas over the contract).',
   note='Trusted: Verus+Z3, vstd; all_gens by its std semantics; `for i in 0..` in desugared form (R19); the product of the two row counts is at most isize::MAX/2 (stated precondition); '
        'termination. NOT decided by contracts (bounded stand-in only): the stabiliser presentation (stabilizer.rs: HashMap / flat_map / BTreeMap::entry code outside the verifier; '
        '"presents a group isomorphic to the stabiliser" is not a first-order postcondition). '
        'HashMap operations of induced_table and the iterator chains of core_table by their std semantics through uninterpreted map views; Rust allocation bound on the number of rows.',
   ref='5 C13', technique=TECH),
 'C05': dict(
   text='Unbounded proof (Verus/Z3) over the real bodies of build_set, build_sym_using_ms, orbit_reps_2d, cover and oriented_cover: for every complete base '
        'and every sheet map that is a consistent family of sheet permutations, the result is a well-formed complete symbol of nr_sheets*size chambers whose '
        'projection d -> (d-1) % size + 1 commutes with every operation; fibres have exactly nr_sheets elements (lemma); oriented_cover discharges the '
        'sheet-map conditions for its xor map whatever the orientation routine returns. Degrees: orbit_reps_2d lists a representative of every orbit, build_sym_using_ms / '
        'build_sym_using_vs write the prescribed value on every orbit (orbit indices separate orbits: collect_orbits), so that in cover, oriented_cover and as_partial_dsym '
        '(all real bodies) chamber d gets the degree r * (m_base(pi d) / r), which is m_base(pi d) whenever the orbit length r in the cover divides it. '
        'cover_for_table and trace_word (real bodies, against the imported contracts of the coset-table unit and of cover): for a valid table and facet words that are words in its '
        'generators and pairwise undo each other on its rows, the sheet map "trace the facet word from the sheet" meets the preconditions of cover, so the result is a cover with one sheet per row; '
        'subgroup_cover and finite_universal_cover (real bodies; the cover belongs to a table of the presentation in which the GIVEN subgroup generators fix row 0) compose an ASSUMED fundamental_group (the syntactic part of C09: facet words mutually inverse or multiplying to a relator) with the '
        'proved coset_table and cover_for_table.',
   note='Trusted: Verus+Z3, vstd; partial_orientation (Traversal-based) assumed to return some sign vector: the contract holds whatever it returns. Precondition v * size <= usize::MAX. '
        'Not decided by contracts: that r always divides the base degree (holds for covers from coset tables of the fundamental group; depends on C09), connectedness, '
        'orientedness of the oriented cover, covers()/cover_for_table()/finite_universal_cover (depend on C09/C11/C12), the count of covers per subgroup class (bounded stand-in).',
   ref='5 C05', technique=TECH),
}

NA = {
 'C03': 'canonical form: equality of canonical forms <=> isomorphism is a statement about the minimum over all seeds of a code produced by the stateful Traversal iterator; no per-function contract within reach expresses relabelling invariance',
 'C06': 'completeness / irredundancy of an orderly generation quantifies over the whole universe of D-sets; a contract can at best say each yielded set is valid',
 'C07': 'same as C06, plus agreement with rational curvature and orbifold strings computed elsewhere (Rational64, String)',
 'C08': 'Gauss-Bonnet links two independent computations built on Rational64, iterator sums, HashSet boundary tracing and string assembly; no spec function short of re-deriving the theorem',
 'C09': '"defines the same group" is not a first-order postcondition of the code; the one decidable clause (all returned words are freely reduced) is a corollary of the FreeWord type invariant and is reported under C10',
 'C12': 'completeness / pairwise inequivalence of a backtracking search',
 'C14': 'statement is about invariant factors of a lattice; the isize arithmetic of the code genuinely overflows for large entries, the final chain uses chain/repeat',
 'C15': 'existence and torus-ness of a cover found by search',
 'C16': 'manifold topology preserved by a rewriting system',
 'C17': 'invariance of a whole pipeline verdict under renumbering / duals / covers',
 'C19': 'bodies are flat_map/filter/cloned chains outside the verifier; minimality is max-flow/min-cut',
}
# properties whose contracts are designed (DESIGN.md) but not yet assembled in this commit
PENDING = {k: 'claimed in DESIGN.md section 5; its contract unit is not yet assembled at this commit, so no check is registered yet' for k in ('C01','C02','C04','C05','C10','C11','C18') if k not in CLAIMED}

def main():
    checks = []
    for pid, c in sorted(CLAIMED.items()):
        checks.append({
            'property_id': pid,
            'quick_cmd': 'python3 tools/check.py %s' % pid,
            'thorough_cmd': 'python3 tools/check.py %s --tier thorough' % pid,
            'evidence_file': '/verif/evidence/%s.json' % pid,
            'replay_cmd_template': 'python3 tools/replay.py {path}',
            'engine': 'contracts',
            'level_claimed': {'category': 'proof', 'text': c['text'], 'design_ref': c['ref']},
            'level_note': c['note'] + ' Clauses of the statement that no contract decides are exercised only by a BOUNDED stand-in on the real crate '
                          '(domain stated in evidence.coverage.bounded; labelled bounded, never counted among obligations/discharged). A Verus failure has no model: '
                          'a concrete failing input comes from the replay program or from Kani, otherwise the line ends with no-failing-input-found.',
            'technique': c['technique'],
        })
    na = [{'property_id': k, 'reason': v} for k, v in sorted({**NA, **PENDING}.items())]
    m = {
        'version': 1,
        'setup_cmd': 'python3 tools/setup.py',
        'hooks': {'guard': 'odf_rust_dsymbols_verif', 'enable': 'none needed: Verus runs on text extracted from /repo, Kani on a scratch copy with harness modules appended',
                  'baseline_off_cmd': 'cd /repo && cargo test --workspace --no-fail-fast --offline', 'source_commits': [], 'add_only': True},
        'engines': [{'name': 'contracts', 'path': 'tools/check.py', 'serves_properties': sorted(CLAIMED),
                     'kind_free_text': 'mechanical extractor/assembler (tools/assemble.py) + Verus 0.2026.09.13 single-file verification; Kani 0.68 for scalar code and counterexamples'}],
        'checks': checks,
        'not_applicable': na,
        'notes': 'See DESIGN.md. Exit 2 + UNDECIDED line = the machinery could not decide (lost anchor, front-end error, rlimit); never an alarm.',
    }
    json.dump(m, open(os.path.join(VERIF, 'MANIFEST.json'), 'w'), indent=1)
    print('MANIFEST.json written: %d checks, %d not applicable' % (len(checks), len(na)))

if __name__ == '__main__':
    main()
