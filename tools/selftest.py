#!/usr/bin/env python3
"""selftest.py [PROP ...] [--record]: runs the quick check of each property against every seeded mutation kept under /verif/seeded
(on a scratch copy of the CURRENT /repo tree with the patch applied; /repo itself is never touched) and compares the outcome with the
outcome recorded in the mutation's meta.json (`expected`).  With --record the outcome is written there instead.
exit 0: all outcomes as recorded; exit 2: a mutation recorded as detected is no longer detected (the machinery regressed)."""
import glob, json, os, re, shutil, subprocess, sys, tempfile

VERIF = os.path.dirname(os.path.dirname(os.path.abspath(__file__)))
REPO = os.environ.get('VERIF_REPO', '/repo')
OBLIGATIONS = {}


def run_one(d):
    meta = json.load(open(os.path.join(d, 'meta.json')))
    prop = meta['property']
    work = tempfile.mkdtemp(prefix='verif-scratch.', dir=os.environ.get('TMPDIR', '/var/tmp'))
    try:
        dst = os.path.join(work, 'repo')
        os.makedirs(dst)
        for n in os.listdir(REPO):
            if n in ('target', '.git'):
                continue
            s, t = os.path.join(REPO, n), os.path.join(dst, n)
            shutil.copytree(s, t) if os.path.isdir(s) else shutil.copy2(s, t)
        a = subprocess.run(['git', 'apply', os.path.join(d, 'patch.diff')], cwd=dst, capture_output=True, text=True)
        if a.returncode != 0:
            return prop, 'patch-does-not-apply', a.stderr[-200:]
        tier = meta.get('tier', 'quick')     # a mutation only the thorough sweep reaches says so in its meta.json
        env = dict(os.environ, VERIF_REPO=dst, VERIF_NO_EVIDENCE='1', VERIF_TIER=tier)
        p = subprocess.run([sys.executable, os.path.join(VERIF, 'tools', 'check.py'), prop, '--tier', tier], env=env, capture_output=True, text=True)
        out = p.stdout
        if p.returncode == 1 and 'VIOLATION property=%s' % prop in out:
            vs = [l for l in out.split('\n') if l.startswith('VIOLATION')]
            obs = [re.search(r'obligation=(.*?)(?: @ | site=|$)', l).group(1) for l in vs if 'obligation=' in l]
            ded = sorted(set(o for o in obs if not o.startswith('bounded::')))
            bnd = sorted(set(o for o in obs if o.startswith('bounded::')))
            OBLIGATIONS[os.path.basename(d)] = {'deductive': ded, 'bounded': bnd}
            return prop, 'detected', vs[0][:300]
        if p.returncode == 0:
            return prop, 'missed', ''
        return prop, 'undecided', ([l for l in out.split('\n') if l.startswith('UNDECIDED')] or [''])[0][:300]
    finally:
        shutil.rmtree(work, ignore_errors=True)


def _job(d):
    prop, res, detail = run_one(d)
    return d, prop, res, detail, OBLIGATIONS.get(os.path.basename(d), {})


def main():
    args = [a for a in sys.argv[1:] if not a.startswith('--')]
    record = '--record' in sys.argv
    jobs = 1
    only = None          # --only=C05-m13,C05-m14: just these seeded directories
    for a in sys.argv[1:]:
        if a.startswith('--jobs='):
            jobs = int(a.split('=')[1])
        if a.startswith('--only='):
            only = set(a.split('=')[1].split(','))
    dirs = []
    for d in sorted(glob.glob(os.path.join(VERIF, 'seeded', '*'))):
        if not os.path.exists(os.path.join(d, 'meta.json')):
            continue
        meta = json.load(open(os.path.join(d, 'meta.json')))
        if args and meta['property'] not in args:
            continue
        if only and os.path.basename(d) not in only:
            continue
        dirs.append(d)
    rc = 0
    if jobs > 1:
        import multiprocessing
        with multiprocessing.Pool(jobs) as pool:
            results = pool.imap(_job, dirs)
            results = list(results)
    else:
        results = (_job(d) for d in dirs)
    for d, prop, res, detail, obl in results:
        meta = json.load(open(os.path.join(d, 'meta.json')))
        exp = meta.get('expected')
        if record and not meta.get('benign'):
            meta['expected'] = res
            meta['check_output_when_recorded'] = detail
            meta['failed_obligations_when_recorded'] = obl
            json.dump(meta, open(os.path.join(d, 'meta.json'), 'w'), indent=1)
        elif record and meta.get('benign'):
            meta['outcome_when_recorded'] = 'no alarm (exit 0)' if res == 'missed' else ('UNDECIDED (exit 2), no alarm' if res == 'undecided' else 'ALARM')
            json.dump(meta, open(os.path.join(d, 'meta.json'), 'w'), indent=1)
            if res == 'detected':
                rc = 2
        elif exp == 'detected' and res != 'detected':
            rc = 2
        elif exp == 'no-alarm' and res == 'detected':
            rc = 2          # a behaviour-preserving refactoring raised an alarm
        print('%-8s %-10s expected=%-10s %s' % (os.path.basename(d), res, exp, detail[:160]), flush=True)
    if rc:
        print('SELFTEST-REGRESSION: a seeded mutation recorded as detected is no longer detected, or a benign refactoring raised an alarm')
    return rc


if __name__ == '__main__':
    sys.exit(main())
