#!/usr/bin/env python3
"""seed_store.py <PROP> <k> <confirm-line>: copies a confirmed seeded mutation from its scratch worktree into /verif/seeded/"""
import json, os, shutil, sys
prop, k, confirm = sys.argv[1], sys.argv[2], sys.argv[3]
src = '/tmp/wt_%s/mutations/m%s' % (prop, k)
dst = '/verif/seeded/%s-m%s' % (prop, k)
os.makedirs(dst, exist_ok=True)
shutil.copy2(os.path.join(src, 'patch.diff'), os.path.join(dst, 'patch.diff'))
shutil.copy2(os.path.join(src, 'demo.rs'), os.path.join(dst, 'demo.rs'))
m = json.load(open(os.path.join(src, 'meta.json')))
meta = {'property': prop, 'breaks': m.get('summary'), 'needs_to_manifest': m.get('needs'), 'why_existing_tests_pass': m.get('why_tests_pass'),
        'origin': 'written by a fresh sub-agent that saw only the property text and a scratch worktree of /repo',
        'confirmed_by_me': {'how': 'scratch worktree /tmp/confirm_wt at /repo HEAD: git apply patch.diff; cargo test --workspace --offline; '
                                   'cargo run --offline --example demo (demo.rs as examples/demo.rs); git checkout -- src; demo again',
                            'result': confirm},
        'demo': 'demo.rs: place as examples/demo.rs, `cargo run --offline --example demo`; exits 0 / prints PASS on the unmodified code, non-zero with the patch'}
json.dump(meta, open(os.path.join(dst, 'meta.json'), 'w'), indent=1)
print('stored', dst)
