"""Runs replay/falsifier.rs against the CURRENT /repo tree (scratch copy) to attach a concrete failing input to a report.
It never decides anything by itself, except where a plug-in registers one of its sections as a *bounded stand-in*
(labelled bounded, never counted as proved)."""
import os
import re
import shutil
import subprocess
import tempfile
import time

VERIF = os.path.dirname(os.path.dirname(os.path.abspath(__file__)))
_cache = {}


def run(prop, repo):
    """-> dict(lines=[(tag, input, what)], raw=str, cmd=str, wall=float, error=str|None); cached per (prop, repo) in this process"""
    key = (prop, repo)
    if key in _cache:
        return _cache[key]
    t0 = time.time()
    work = tempfile.mkdtemp(prefix='verif-scratch.', dir=os.environ.get('TMPDIR', '/var/tmp'))
    res = {'lines': [], 'raw': '', 'error': None, 'cmd': 'cargo run --offline --example zz_falsify -- %s   (replay/falsifier.rs placed in a scratch copy of the current /repo tree)' % prop}
    try:
        dst = os.path.join(work, 'repo')
        os.makedirs(dst)
        for name in os.listdir(repo):
            if name in ('target', '.git'):
                continue
            s, d = os.path.join(repo, name), os.path.join(dst, name)
            shutil.copytree(s, d) if os.path.isdir(s) else shutil.copy2(s, d)
        os.makedirs(os.path.join(dst, 'examples'), exist_ok=True)
        shutil.copy2(os.path.join(VERIF, 'replay', 'falsifier.rs'), os.path.join(dst, 'examples', 'zz_falsify.rs'))
        env = dict(os.environ, CARGO_NET_OFFLINE='true', CARGO_TARGET_DIR=os.path.join(work, 'target'), RUSTFLAGS='-Awarnings')
        b = subprocess.run(['cargo', 'build', '--offline', '--example', 'zz_falsify'], cwd=dst, env=env, capture_output=True, text=True, timeout=1200)
        if b.returncode != 0:
            res['error'] = 'falsifier does not build against the current tree: ' + b.stderr[-400:]
        else:
            exe = os.path.join(work, 'target', 'debug', 'examples', 'zz_falsify')
            try:
                p = subprocess.run([exe, prop], cwd=dst, capture_output=True, text=True, timeout=3000 if os.environ.get('VERIF_TIER') == 'thorough' else 600)
                res['raw'] = p.stdout[-6000:]
                for line in p.stdout.split('\n'):
                    m = re.match(r'FALSIFIED (.*?) :: (.*) :: (.*)$', line)
                    if m:
                        res['lines'].append((m.group(1), m.group(2), m.group(3)))
                if 'falsifier finished' not in p.stdout:
                    res['error'] = 'falsifier did not finish (rc=%s): %s' % (p.returncode, (p.stderr or p.stdout)[-300:])
                    # the process died (abort / signal: e.g. `memory allocation of N bytes failed`, which no catch_unwind sees) inside
                    # a call announced by a breadcrumb line: that call of the real code, on that input, is a concrete failing execution
                    crumbs = [l for l in p.stdout.split('\n') if l.startswith('TRYING ')]
                    last = p.stdout.rstrip('\n').split('\n')[-1] if p.stdout.strip() else ''
                    if p.returncode not in (0, 1, 101) and crumbs and last == crumbs[-1]:
                        m = re.match(r'TRYING (.*?) :: (.*)$', crumbs[-1])
                        why = (p.stderr or '').strip().split('\n')[-1][:200]
                        res['lines'].append((m.group(1), m.group(2), 'the process was killed inside this call (rc=%s: %s) instead of returning Ok or Err' % (p.returncode, why)))
            except subprocess.TimeoutExpired as te:
                # discrepancies printed before the time limit are concrete failing executions all the same (stdout is line buffered)
                out = te.stdout or ''
                if isinstance(out, bytes):
                    out = out.decode('utf-8', 'replace')
                res['raw'] = out[-6000:]
                for line in out.split('\n'):
                    m = re.match(r'FALSIFIED (.*?) :: (.*) :: (.*)$', line)
                    if m:
                        res['lines'].append((m.group(1), m.group(2), m.group(3)))
                res['error'] = 'falsifier timed out'
    except Exception as e:
        res['error'] = str(e)
    finally:
        shutil.rmtree(work, ignore_errors=True)
    res['wall'] = round(time.time() - t0, 1)
    _cache[key] = res
    return res


def search(prop, failures, repo):
    """concrete failing input for a failed obligation, or None"""
    r = run(prop, repo)
    if not r['lines']:
        return None
    fnames = set()
    for f in failures:
        fnames.add(f['function'].split('::')[-1])
    best = None
    for tag, inp, what in r['lines']:
        words = set(re.findall(r'\w+', tag))
        if words & fnames:
            best = (tag, inp, what); break
    if best is None:
        best = r['lines'][0]
    return {'source': 'replay/falsifier.rs executed on the real crate (current working tree)', 'function': best[0], 'input': best[1],
            'observed': best[2], 'related_to_failed_function': bool(set(re.findall(r'\w+', best[0])) & fnames),
            'all_discrepancies': len(r['lines']), 'cmd': r['cmd']}
