#!/usr/bin/env python3
"""replay.py <replay-file.json>: shows the failed obligation with the verifier's output and re-executes the recorded failing
input against the real crate (current /repo working tree):
  * Kani counterexamples are turned into a call of the real function with the solver's concrete values,
  * otherwise the falsifier section of the property is re-run and its discrepancies are printed."""
import json
import os
import re
import shutil
import subprocess
import sys
import tempfile

HERE = os.path.dirname(os.path.abspath(__file__))
sys.path.insert(0, HERE)
REPO = os.environ.get('VERIF_REPO', '/repo')

PMOD = {'p2': 2, 'p3': 3, 'p61': 61, 'p_large': 3037000493, 'f2': 2, 'f3': 3, 'f61': 61}
KANI_SNIPPETS = {
    'from_i64_canonical': 'let n: i64 = {0}; let r = PrimeResidueClass::<{P}>::from(n); let v: i64 = r.into(); println!("PrimeResidueClass::<{P}>::from({{}}i64) -> value {{}} (canonical range is 0..{P})", n, v); ok = 0 <= v && v < {P};',
    'from_i32_canonical': 'let n: i32 = {0}; let r = PrimeResidueClass::<{P}>::from(n); let v: i64 = r.into(); println!("PrimeResidueClass::<{P}>::from({{}}i32) -> value {{}}", n, v); ok = 0 <= v && v < {P} && (v - n as i64) % {P} == 0;',
    'add_sub_neg_are_field_ops': 'let a = PrimeResidueClass::<{P}>::from({0}i64); let b = PrimeResidueClass::<{P}>::from({1}i64); let (s, d, n): (i64, i64, i64) = ((a + b).into(), (a - b).into(), (-a).into()); println!("a={0} b={1}: a+b={{}} a-b={{}} -a={{}}", s, d, n); ok = s == ({0}i64 + {1}) % {P} && (d + {1}) % {P} == {0} && (n + {0}) % {P} == 0;',
    'mul_is_field_op': 'let a = PrimeResidueClass::<{P}>::from({0}i64); let b = PrimeResidueClass::<{P}>::from({1}i64); let m: i64 = (a * b).into(); println!("a={0} b={1}: a*b={{}}", m); ok = m == ({0}i64 * {1}) % {P};',
    'inverse_and_div': 'let a = PrimeResidueClass::<{P}>::from({0}i64); let b = PrimeResidueClass::<{P}>::from({1}i64); let q: i64 = (a / b).into(); println!("a={0} b={1}: a/b={{}}", q); ok = (q * {1}) % {P} == {0};',
}


def replay_kani(cex):
    mod, _, name = cex['harness'].partition('::')
    P = PMOD.get(mod)
    snip = KANI_SNIPPETS.get(name)
    vals = cex.get('symbolic_inputs_in_order') or []
    if P is None or snip is None or not vals:
        return None
    while len(vals) < 2:
        vals.append(0)
    body = snip.replace('{P}', str(P)).replace('{0}', str(vals[0])).replace('{1}', str(vals[1])).replace('{{}}', '{}')
    prog = ('use rust_dsymbols::geometry::prime_residue_classes::PrimeResidueClass;\nfn main() {\n    let ok: bool;\n    %s\n'
            '    println!("{}", if ok { "REPLAY: the real code satisfies the clause on this input" } else { "REPLAY: the real code VIOLATES the clause on this input" });\n}\n' % body)
    work = tempfile.mkdtemp(prefix='verif-scratch.', dir=os.environ.get('TMPDIR', '/var/tmp'))
    try:
        dst = os.path.join(work, 'repo'); os.makedirs(dst)
        for n in os.listdir(REPO):
            if n in ('target', '.git'):
                continue
            s, d = os.path.join(REPO, n), os.path.join(dst, n)
            shutil.copytree(s, d) if os.path.isdir(s) else shutil.copy2(s, d)
        os.makedirs(os.path.join(dst, 'examples'), exist_ok=True)
        open(os.path.join(dst, 'examples', 'zz_replay.rs'), 'w').write(prog)
        env = dict(os.environ, CARGO_NET_OFFLINE='true', CARGO_TARGET_DIR=os.path.join(work, 'target'), RUSTFLAGS='-Awarnings')
        p = subprocess.run(['cargo', 'run', '--offline', '-q', '--example', 'zz_replay'], cwd=dst, env=env, capture_output=True, text=True, timeout=1200)
        return {'program': prog, 'stdout': p.stdout.strip(), 'stderr_tail': p.stderr[-300:], 'rc': p.returncode}
    finally:
        shutil.rmtree(work, ignore_errors=True)


def main():
    path = sys.argv[1]
    d = json.load(open(path))
    print('property   :', d['property'])
    print('obligation :', d['obligation'], '(%s)' % d.get('backend'))
    for f in d['failed_obligations'][:3]:
        print('site       :', f.get('site'))
        if f.get('clause'):
            print('clause     :', f['clause'])
        print((f.get('rendered') or '')[:1500])
    cex = d.get('counterexample')
    if cex and cex.get('harness'):
        r = replay_kani(cex)
        print('kani counterexample:', cex)
        if r:
            print(r['stdout'] or r['stderr_tail'])
            sys.exit(1 if 'VIOLATES' in r['stdout'] else 0)
    import falsify
    r = falsify.run(d['property'], REPO)
    if r['error']:
        print('falsifier:', r['error'])
    for tag, inp, what in r['lines'][:10]:
        print('FALSIFIED %s :: %s :: %s' % (tag, inp, what))
    if not r['lines']:
        print('no failing input found by the falsifier on the current tree (no-failing-input-found)')
    sys.exit(1 if r['lines'] else 0)


if __name__ == '__main__':
    main()
