"""Extra back ends run next to Verus for some properties (Kani on the real crate)."""
import os
import re
import shutil
import subprocess
import time

VERIF = os.path.dirname(os.path.dirname(os.path.abspath(__file__)))


BOUNDED = {
 'C01': ('Display / from_str round trip (Display is write!-based, the grammar is nom: outside the verifier)',
         'the corpus of ~370 D-symbols (8 parsed, the rest pseudo-random involution tables of size <= 8, dimension <= 3, fixed seed): print, parse, compare; symbols with one (0,1)-orbit on 512, 600 and 1024 chambers and one-chamber symbols of dimension 256, 300 and 1000 (built through the API, printed, parsed back); '
         'plus ~2300 malformed strings (hand-written corner cases incl. decimal numbers beyond 64 bits at every position, rejected texts with multi-byte characters at every distance from the start, headers with counters 0, and single-character edits of valid text): no panic, Ok => involutions and degrees multiples of r'),
 'C02': ('Traversal, orbit, orbit_reps, is_connected, is_loopless, is_weakly_oriented, is_oriented (stateful iterator over BTreeMap/VecDeque/HashSet: outside the verifier)',
         'the same corpus; ALL index lists in ascending and descending order plus two mixed ones; all seeds (orbit_reps also with the seeds in descending and rotated order): orbit = reachable set, one representative per component, '
         'every i-edge of a traversed component exactly once, predicates = reachability / bipartiteness computed independently; r/v/m of both representations on every '
         '(i, j, d) including out-of-range values; 240 random PARTIAL D-sets (size <= 5, dimension <= 3, about a third of the entries undefined): orbit, orbit_reps, '
         'is_connected, is_complete against reachability with an undefined operation as no edge; 600 random histories of PartialDSet::set (conflicting calls included): every ACCEPTED call leaves a partial involution; '
         'is_complete of 300 PartialDSyms with a random subset of branching numbers assigned against its definition'),
 'C04': ('degrees of the minimal image, minimal images of covers, totality of morphisms; fold / is_minimal / minimal_image (quotient by the coarsest congruence) are ALSO decided deductively',
         'connected complete corpus symbols of size <= 5, their oriented covers, all covers with <= 4 sheets of six one- and two-chamber symbols: is_minimal / size of '
         'minimal_image against the coarsest degree-respecting congruence computed by partition refinement; a symbol maps onto its minimal image; covers and base have '
         'minimal images of equal size; morphism None against brute force over all maps for sizes <= 4; the automorphism list of every connected complete corpus symbol of size <= 6 (both symbol representations) against brute force over all permutations'),
 'C05': ('orientedness / sheet number of oriented_cover, covers(), finite_universal_cover (the deductive contracts decide the covering property and the degrees of cover / oriented_cover / as_partial_dsym; covers() and the universal cover depend on the fundamental group and the low-index enumeration)',
         'complete corpus symbols of size <= 5: projection commutes with every operation and preserves every degree m(i, i+1); the oriented cover is oriented, connected for a '
         'connected base, and has one sheet iff the base is oriented (bipartite and loopless, computed independently); covers(ds, k), k <= 3, of seven one- to four-chamber symbols: '
         'every entry is complete, connected, has <= k sheets and maps onto the base by a morphism; the NUMBER of entries of covers(ds, k), k <= 4, for ~40 connected 2D/3D symbols '
         'of size <= 6 against the number of transitive permutation representations of the fundamental group on <= k points up to relabelling (brute force over all tuples of '
         'permutations satisfying the relators; the presentation is the library\'s own); finite_universal_cover of every connected spherical 2D symbol with <= 4 chambers from the crate\'s generator '
         '(63 symbols; thorough tier: <= 6 chambers, 208 symbols) whose cover has <= 1000 chambers: complete, connected, maps onto the base by a morphism, has size(base) * |pi_1| chambers where |pi_1| '
         'comes from Todd-Coxeter over the TEXTBOOK presentation built by the check itself (one generator per chamber facet, tree facets trivial, one relator per 2-orbit raised to its branching '
         'number), and (covers of <= 60 chambers) its own textbook presentation is the trivial group; thorough tier: all 2378 2D symbols with <= 8 chambers from the crate\'s generator at k = 4; subgroup_cover for 12 to 60 pseudo-random subgroups (1-3 generators, words of length <= 5) of each of those spherical symbols: complete, maps onto the base by a morphism, one sheet per coset (index from a separate coset enumeration with the same generators), size divides the size of the universal cover'),
 'C10': ('(every clause is also decided deductively)', 'all words over 2 generators up to length 5 and all pairs of reduced words up to length 3, exponents -3..3, rotations -3..6'),
 'C11': ('row count against the numeric index [G:H] computed from a permutation representation (the contracts decide the universal property instead); every other clause is ALSO decided deductively',
         '39 fixed presentations (13 groups with <= 3 generators and index <= 60, each also with a redundant extra generator whose relator comes first resp. last), 1800 pseudo-random '
         'subgroups (1-3 generators, words of length <= 4, fixed seed) of the Coxeter groups S4 and S5, and EXHAUSTIVELY every subgroup of S4 generated by one word or an ordered pair of '
         'words of length <= 3 (two relator orders, ~130 000 enumerations), and for seven presentations of V4, Z6, Z10, Z12, S3, D4 with a redundant or non-involutive generator every '
         'subgroup generated by one word of length <= 5 or an ordered pair of words of length <= 3 (~22 000 enumerations; a call that does not return within 30 s is a discrepancy), '
         'index computed independently from the permutation representation: row count = index, generators act as mutually inverse permutations, transitive, every relator closes at '
         'every row, subgroup generators fix row 0, coset representatives trace to their rows'),
 'C13': ('the stabiliser presentation (Schreier generators, rewritten relators: HashMap / flat_map code outside the verifier) and the row count of the core table; the intersection table and the core table (word-fixing clause) are ALSO decided deductively',
         'thirteen presentations of known order (S3, V4, A4, S4, D4, Z6; Z3, S3, Z4 with a redundant generator; S3, D4, A4 with a conjugated, i.e. freely but not cyclically reduced, relator; SL(2,3) = <a,b | a^3 b^-3, a^3 (ab)^-2>) with all subgroups generated by pairs of words of length <= 2 (plus the trivial subgroup): core_table: row count = order of the permutation '
         'group generated by the action (closure), and for all words up to length 4-5 "fixes every row of the input" <=> "fixes row 0 of the core"; stabilizer(b, ..) for EVERY base row b of tables with '
         'at most 8 rows (rows 0, 1 and the last one of larger tables): every generator fixes the base row, '
         'the generators generate a subgroup of the index of the table, the returned presentation enumerates to the order |G| / index; intersection_table on all pairs of the first eight tables: row '
         'count = size of the orbit of the pair of base rows, and for all those words "fixes row 0" <=> "fixes row 0 of both inputs"; two tables with more than 256 rows (regular actions of Z_300 and of the '
         'dihedral group of order 260): core_table has as many rows as the group has elements and agrees on 5-11 long words, stabilizer generators fix base rows 0 and 257'),
 'C18': ('exact rank / determinant / solve of the machine-integer backend (matrix algebra over generic Entry: outside the contracts)',
         '600 random integer matrices of every shape up to 4x5 (rank against fraction-free elimination on i128) and 400 square ones up to 4x4 (determinant against Bareiss on i128, '
         'solve returns true solutions), entries in -3..=3, fixed seed; ALL shapes 1..4 x 1..4 over Z/61 (40 matrices each, many zeros and repeated rows): rank against own elimination mod p, solve sound and complete (b = A x0 must get a solution), null_space_matrix has columns - rank independent columns annihilated by the matrix; the same shapes over Q (VecMatrix<BigRational>, 25 integer matrices each: rank against fraction-free elimination, solve sound and complete, null space annihilated); the p-adic modular solver on 300 random systems (n <= 3, entries up to 10^9, large and tiny right-hand sides) and 960 near-orthogonal systems of orders 2 and 4 at 60 scales from 3 to 10^9 (solutions near the Hadamard bound): A x = b exactly; residues: 217 boundary and random integers for P in {2, 3, 61, 3037000493}, and 22 big integers (up to 10^40 * P, both signs) through From<BigInt>'),
 'C20': ('(every clause is also decided deductively, at T = usize)', '1500 random mixed histories (unite / find / classes on random sub-multisets / clone) and 30000 union-heavy histories over <= 9 elements, '
         'both partitions, compared with a naive model; clones compared with the model at cloning time'),
}


def for_property(prop, tier):
    out = []
    if prop == 'C18':
        out.append(kani_prime_residue)
        if tier == 'thorough':
            out.append(kani_clear_col)
    if prop in BOUNDED:
        out.append(lambda repo, work, tier, seed, prop=prop: bounded_sweep(prop, repo))
    return out


def bounded_sweep(prop, repo):
    """BOUNDED stand-in (labelled bounded, never counted as proved): the clauses of the property that no contract in reach decides are
    executed on the real crate over the stated finite domain (replay/falsifier.rs).  A discrepancy is a concrete failing execution
    of the real code and is reported as a violation with that input."""
    import falsify
    what, bound = BOUNDED[prop]
    res = {'name': 'bounded:%s' % prop, 'failures': [], 'undecided': [], 'obligations': 0, 'failed': 0, 'samples': [], 'trusted': [],
           'bounded': [{'stands_in_for': what, 'kind': 'bounded stand-in, NOT a proof', 'bound': bound}]}
    r = falsify.run(prop, repo)
    res['cmd'] = r['cmd']
    res['wall'] = r.get('wall')
    if r['error'] and not r['lines']:
        res['undecided'].append(r['error'])
        return res
    # a sweep that did not finish (time limit, crash) but had already printed discrepancies: each of them is a concrete failing
    # execution of the real code and is reported; the sweep itself is recorded as incomplete
    res['bounded'][0]['result'] = ('no discrepancy' if not r['lines'] else '%d discrepancies' % len(r['lines'])) + \
        (' (sweep incomplete: %s)' % r['error'] if r['error'] else '')
    seen_inputs = set()
    for tag, inp, what_obs in r['lines']:
        key = (tag, inp)
        if key in seen_inputs or len(seen_inputs) >= 8:
            continue
        seen_inputs.add(key)      # one failed bounded obligation per distinct (function, input): known findings are matched per input
        fn = re.sub(r'[^A-Za-z0-9_:]+', '_', tag.split(' ')[0])
        res['failures'].append({'unit': 'bounded', 'function': fn, 'kind': 'bounded', 'backend': 'executed on the real crate (bounded stand-in)',
                                'message': what_obs, 'site': inp, 'props': [prop], 'rendered': r['raw'][-1500:],
                                'counterexample': {'source': 'replay/falsifier.rs executed on the real crate', 'function': tag, 'input': inp,
                                                   'observed': what_obs, 'cmd': r['cmd']}})
    return res


def _copy_repo(repo, dst):
    os.makedirs(dst)
    for name in os.listdir(repo):
        if name in ('target', '.git'):
            continue
        s = os.path.join(repo, name)
        d = os.path.join(dst, name)
        if os.path.isdir(s):
            shutil.copytree(s, d)
        else:
            shutil.copy2(s, d)


QUICK = ['p2::from_i64_canonical', 'p3::from_i64_canonical', 'p61::from_i64_canonical', 'p_large::from_i64_canonical',
         'p2::from_i32_canonical', 'p61::from_i32_canonical', 'p_large::from_i32_canonical',
         'p2::add_sub_neg_are_field_ops', 'p61::add_sub_neg_are_field_ops', 'p_large::add_sub_neg_are_field_ops',
         'f2::mul_is_field_op', 'f3::mul_is_field_op', 'f61::mul_is_field_op',
         'f2::inverse_and_div', 'f3::inverse_and_div']
THOROUGH = QUICK + ['p3::from_i32_canonical', 'p3::add_sub_neg_are_field_ops', 'f61::inverse_and_div']


CLEAR_COL = ['clear_col_i64_2x2', 'clear_col_i64_3x2_frame']


def kani_clear_col(repo, work, tier, seed):
    """BOUNDED stand-in (thorough tier) for the ASSUMED contract of <i64 as Entry>::clear_col: Kani on the real function at
    Matrix<i64, N, M> with entries in -7..=7 (kani/clear_col.rs).  Labelled bounded, never counted among obligations."""
    res = {'name': 'kani:clear_col (bounded)', 'failures': [], 'undecided': [], 'obligations': 0, 'failed': 0, 'samples': [],
           'trusted': ['kani 0.68 / CBMC 6.11; unwinding assertions on'],
           'bounded': [{'stands_in_for': 'the assumed trait contract of <i64 as Entry>::clear_col (zero below the pivot, pivot non-zero, frame)',
                        'kind': 'bounded stand-in, NOT a proof',
                        'bound': 'Matrix<i64,2,2> column 0 and Matrix<i64,3,2> column 1, every entry in -7..=7, gcdx loop unwound 8 times with the unwinding assertion on'}]}
    dst = os.path.join(work, 'kani_cc_repo')
    try:
        _copy_repo(repo, dst)
        with open(os.path.join(dst, 'src/geometry/matrix.rs'), 'a') as f:
            f.write('\n#[cfg(kani)]\nmod verif_kani_cc {\n' + open(os.path.join(VERIF, 'kani', 'clear_col.rs')).read() + '\n}\n')
        cmd = ['cargo', 'kani', '-j', '4', '--output-format', 'terse']
        for n in CLEAR_COL:
            cmd += ['--harness', 'verif_kani_cc::' + n]
        env = dict(os.environ, CARGO_NET_OFFLINE='true', CARGO_TARGET_DIR=os.path.join(work, 'kani_cc_target'))
        res['cmd'] = 'CARGO_NET_OFFLINE=true ' + ' '.join(cmd)
        try:
            p = subprocess.run(cmd, cwd=dst, env=env, capture_output=True, text=True, timeout=2400)
        except subprocess.TimeoutExpired:
            res['bounded'][0]['result'] = 'kani timed out: no verdict'
            return res
        out = p.stdout + p.stderr
        m = re.search(r'Complete - (\d+) successfully verified harnesses, (\d+) failures, (\d+) total', out)
        if not m:
            res['bounded'][0]['result'] = 'no verdict: ' + out[-200:]
            return res
        res['bounded'][0]['result'] = '%s of %s harnesses verified' % (m.group(1), m.group(3))
        if int(m.group(2)) > 0:
            failed = re.findall(r'Failed Checks: (.*)', out)
            if failed and all('unwinding' in c for c in failed):
                res['bounded'][0]['result'] += ' (the rest: unwinding bound too small, no verdict)'
                return res
            res['failures'].append({'unit': 'bounded', 'function': 'i64_clear_col', 'kind': 'bounded', 'backend': 'kani/cbmc (bounded stand-in)',
                                    'message': '; '.join(failed[:4]), 'site': 'Matrix<i64, N, M> with entries in -7..=7', 'props': ['C18'],
                                    'rendered': out[-1500:],
                                    'counterexample': {'source': 'kani/clear_col.rs on the real crate', 'function': '<i64 as Entry>::clear_col',
                                                       'input': 'some matrix with entries in -7..=7 (see the harness)', 'observed': '; '.join(failed[:4]),
                                                       'cmd': res['cmd']}})
    finally:
        shutil.rmtree(dst, ignore_errors=True)
        shutil.rmtree(os.path.join(work, 'kani_cc_target'), ignore_errors=True)
    return res


def parse_kani_output(out):
    """-> {harness: (ok, failed, block_text)}; understands both the sequential and the `-j` (Thread N:) layout"""
    seen = {}
    cur = {}            # thread id -> harness currently being checked
    block_owner = None  # harness that owns the lines being read
    blocks = {}
    for line in out.split('\n'):
        m = re.match(r'^(?:Thread (\d+): )?Checking harness ([\w:]+)\.\.\.', line)
        if m:
            h = m.group(2).split('verif_kani::')[-1]
            cur[m.group(1) or '-'] = h
            blocks.setdefault(h, [])
            block_owner = h if m.group(1) is None else None
            continue
        m = re.match(r'^Thread (\d+): ?$', line)
        if m:
            block_owner = cur.get(m.group(1))
            continue
        if line.startswith('Manual Harness Summary') or line.startswith('Summary:'):
            block_owner = None
            continue
        if block_owner is not None:
            blocks[block_owner].append(line)
    for h, ls in blocks.items():
        b = '\n'.join(ls)
        seen[h] = ('VERIFICATION:- SUCCESSFUL' in b, 'VERIFICATION:- FAILED' in b, b)
    return seen


def kani_prime_residue(repo, work, tier, seed):
    t0 = time.time()
    res = {'name': 'kani:prime_residue', 'failures': [], 'undecided': [], 'obligations': 0, 'failed': 0, 'samples': [],
           'trusted': ['kani 0.68 / CBMC 6.11 / CaDiCaL; machine integers are bit-precise (no mathematical-integer abstraction)'],
           'bounded': [], 'harnesses': []}
    dst = os.path.join(work, 'kani_repo')
    try:
        _copy_repo(repo, dst)
        src = os.path.join(dst, 'src/geometry/prime_residue_classes.rs')
        harness = open(os.path.join(VERIF, 'kani', 'prime_residue.rs')).read()
        with open(src, 'a') as f:
            f.write('\n#[cfg(kani)]\nmod verif_kani {\n' + harness + '\n}\n')
        names = THOROUGH if tier == 'thorough' else QUICK
        cmd = ['cargo', 'kani', '-j', '8', '--output-format', 'terse']
        for n in names:
            cmd += ['--harness', 'verif_kani::' + n]
        env = dict(os.environ, CARGO_NET_OFFLINE='true', CARGO_TARGET_DIR=os.path.join(work, 'kani_target'))
        res['cmd'] = 'CARGO_NET_OFFLINE=true ' + ' '.join(cmd)
        try:
            p = subprocess.run(cmd, cwd=dst, env=env, capture_output=True, text=True, timeout=3000)
        except subprocess.TimeoutExpired:
            res['undecided'].append('kani timed out')
            return res
        out = p.stdout + '\n' + p.stderr
        # second pass, single-threaded, only for failed harnesses: ask CBMC for the concrete counterexample
        failed_names = [h for h, (ok, failed, b) in parse_kani_output(out).items() if failed]
        second = {}
        if failed_names:
            cmd2 = ['cargo', 'kani', '-Z', 'concrete-playback', '--concrete-playback=print', '--output-format', 'terse']
            for n in failed_names[:6]:
                cmd2 += ['--harness', 'verif_kani::' + n]
            try:
                p2 = subprocess.run(cmd2, cwd=dst, env=env, capture_output=True, text=True, timeout=1500)
                out2 = p2.stdout + '\n' + p2.stderr
                # blocks of the second pass (with concrete values) override those of the first
                second = parse_kani_output(out2)
            except subprocess.TimeoutExpired:
                pass
        res['raw_tail'] = out[-1500:]
        seen = parse_kani_output(out)
        seen.update(second)
        for n in names:
            if n not in seen:
                res['undecided'].append('kani harness %s produced no verdict' % n)
                continue
            ok, failed, b = seen[n]
            res['obligations'] += 1
            tm = re.search(r'Verification Time: ([0-9.]+)s', b)
            ck = re.search(r'\*\* (\d+) of (\d+) failed', b)
            hrec = {'harness': n, 'result': 'SUCCESSFUL' if ok else 'FAILED' if failed else 'UNKNOWN',
                    'time_s': float(tm.group(1)) if tm else None, 'cbmc_checks': int(ck.group(2)) if ck else None}
            res['harnesses'].append(hrec)
            if ok:
                continue
            if not failed:
                res['undecided'].append('kani harness %s: no verdict' % n)
                res['obligations'] -= 1
                continue
            res['failed'] += 1
            failed_checks = re.findall(r'Failed Checks: (.*)', b)
            # concrete values printed by concrete playback: lines `// <value>` before each byte vector
            vals = re.findall(r'^\s*//\s*(-?\d+)\s*$', b, flags=re.M)
            if any('unwinding assertion' in c for c in failed_checks) and not any('unwinding' not in c for c in failed_checks):
                res['undecided'].append('kani harness %s: unwinding bound too small' % n)
                res['failed'] -= 1
                continue
            cex = {'harness': n, 'symbolic_inputs_in_order': [int(v) for v in vals]} if vals else None
            if cex:
                try:
                    import replay
                    replay.REPO = repo
                    rr = replay.replay_kani(cex)
                    if rr:
                        cex['replayed_on_real_code'] = rr['stdout']
                except Exception as e:       # replay is best effort
                    cex['replay_error'] = str(e)
            res['failures'].append({'unit': 'kani_prime_residue', 'function': n, 'kind': 'assert', 'backend': 'kani/cbmc',
                                    'message': '; '.join(failed_checks[:4]), 'site': '; '.join(failed_checks[:2]),
                                    'props': ['C18'], 'counterexample': cex, 'rendered': b[-1200:]})
        res['samples'] = [{'obligation': 'kani harness %s (full domain of its symbolic inputs)' % h['harness'], 'backend': 'kani/cbmc',
                           'discharged': h['result'] == 'SUCCESSFUL', 'time_s': h['time_s']} for h in res['harnesses'][:4]]
        if not res['harnesses'] and not res['undecided']:
            res['undecided'].append('kani produced no harness results: ' + out[-300:])
    finally:
        shutil.rmtree(dst, ignore_errors=True)
        shutil.rmtree(os.path.join(work, 'kani_target'), ignore_errors=True)
        res['wall'] = round(time.time() - t0, 1)
    return res
