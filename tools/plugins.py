"""Extra back ends run next to Verus for some properties (Kani on the real crate)."""
import os
import re
import shutil
import subprocess
import time

VERIF = os.path.dirname(os.path.dirname(os.path.abspath(__file__)))


BOUNDED = {
 'C01': ('Display / from_str round trip (Display is write!-based, the grammar is nom: outside the verifier)',
         'the corpus of ~370 D-symbols (8 parsed, the rest pseudo-random involution tables of size <= 8, dimension <= 3, fixed seed): print, parse, compare; '
         'plus ~2300 malformed strings (hand-written corner cases and single-character edits of valid text): no panic, Ok => involutions and degrees multiples of r'),
 'C02': ('Traversal, orbit, orbit_reps, is_connected, is_loopless, is_weakly_oriented, is_oriented (stateful iterator over BTreeMap/VecDeque/HashSet: outside the verifier)',
         'the same corpus; ALL index lists in ascending and descending order plus two mixed ones; all seeds: orbit = reachable set, one representative per component, '
         'every i-edge of a traversed component exactly once, predicates = reachability / bipartiteness computed independently; r/v/m of both representations on every '
         '(i, j, d) including out-of-range values'),
 'C04': ('fold, is_minimal, minimal_image (congruence closure over the union-find: no proof yet)',
         'connected complete corpus symbols of size <= 5, their oriented covers, all covers with <= 4 sheets of six one- and two-chamber symbols: is_minimal / size of '
         'minimal_image against the coarsest degree-respecting congruence computed by partition refinement; a symbol maps onto its minimal image; covers and base have '
         'minimal images of equal size; morphism None against brute force over all maps for sizes <= 4'),
 'C05': ('degree preservation / orientedness / sheet number of oriented_cover, and covers() (the deductive contract covers operations only; covers() depends on the low-index enumeration)',
         'complete corpus symbols of size <= 5: projection commutes with every operation and preserves every degree m(i, i+1); the oriented cover is oriented, connected for a '
         'connected base, and has one sheet iff the base is oriented (bipartite and loopless, computed independently); covers(ds, k), k <= 3, of seven one- to four-chamber symbols: '
         'every entry is complete, connected, has <= k sheets and maps onto the base by a morphism'),
 'C10': ('(every clause is also decided deductively)', 'all words over 2 generators up to length 5 and all pairs of reduced words up to length 3, exponents -3..3, rotations -3..6'),
 'C11': ('coset_table (Todd-Coxeter with coincidences, RangeFrom loops, BTreeSet iteration, merge/compact: outside the verifier)',
         '13 fixed presentations (<= 3 generators, index <= 60) and 1800 pseudo-random subgroups (1-3 generators, words of length <= 4, fixed seed) of the Coxeter groups S4 and S5, '
         'index computed independently from the permutation representation: row count = index, generators act as mutually inverse permutations, transitive, every relator closes at '
         'every row, subgroup generators fix row 0, coset representatives trace to their rows'),
 'C18': ('exact rank / determinant / solve of the machine-integer backend (matrix algebra over generic Entry: outside the contracts)',
         '600 random integer matrices of every shape up to 4x5 (rank against fraction-free elimination on i128) and 400 square ones up to 4x4 (determinant against Bareiss on i128, '
         'solve returns true solutions), entries in -3..=3, fixed seed; the p-adic modular solver on 300 random systems (n <= 3, entries up to 10^9, large and tiny right-hand sides: A x = b exactly); residues: 217 boundary and random integers for P in {2, 3, 61, 3037000493}'),
 'C20': ('(every clause is also decided deductively, at T = usize)', '1500 random mixed histories (unite / find / classes on random sub-multisets / clone) and 30000 union-heavy histories over <= 9 elements, '
         'both partitions, compared with a naive model; clones compared with the model at cloning time'),
}


def for_property(prop, tier):
    out = []
    if prop == 'C18':
        out.append(kani_prime_residue)
    if prop in BOUNDED:
        out.append(lambda repo, work, tier, seed, prop=prop: bounded_sweep(prop, repo))
    return out


def bounded_sweep(prop, repo):
    """BOUNDED stand-in (labelled bounded, never counted as proved): the clauses of the property that no contract in reach decides are
    executed on the real crate over the stated finite domain (replay/falsifier.rs).  A discrepancy is a concrete failing execution
    of the real code and is reported as a violation with that input."""
    import falsify
    what, bound = BOUNDED[prop]
    res = {'name': 'bounded:%s' % prop, 'failures': [], 'undecided': [], 'obligations': 0, 'failed': 0, 'samples': [], 'trusted': [],
           'bounded': [{'stands_in_for': what, 'kind': 'bounded stand-in, NOT a proof', 'bound': bound}]}
    r = falsify.run(prop, repo)
    res['cmd'] = r['cmd']
    res['wall'] = r.get('wall')
    if r['error']:
        res['undecided'].append(r['error'])
        return res
    res['bounded'][0]['result'] = 'no discrepancy' if not r['lines'] else '%d discrepancies' % len(r['lines'])
    seen_inputs = set()
    for tag, inp, what_obs in r['lines']:
        key = (tag, inp)
        if key in seen_inputs or len(seen_inputs) >= 8:
            continue
        seen_inputs.add(key)      # one failed bounded obligation per distinct (function, input): known findings are matched per input
        fn = re.sub(r'[^A-Za-z0-9_:]+', '_', tag.split(' ')[0])
        res['failures'].append({'unit': 'bounded', 'function': fn, 'kind': 'bounded', 'backend': 'executed on the real crate (bounded stand-in)',
                                'message': what_obs, 'site': inp, 'props': [prop], 'rendered': r['raw'][-1500:],
                                'counterexample': {'source': 'replay/falsifier.rs executed on the real crate', 'function': tag, 'input': inp,
                                                   'observed': what_obs, 'cmd': r['cmd']}})
    return res


def _copy_repo(repo, dst):
    os.makedirs(dst)
    for name in os.listdir(repo):
        if name in ('target', '.git'):
            continue
        s = os.path.join(repo, name)
        d = os.path.join(dst, name)
        if os.path.isdir(s):
            shutil.copytree(s, d)
        else:
            shutil.copy2(s, d)


QUICK = ['p2::from_i64_canonical', 'p3::from_i64_canonical', 'p61::from_i64_canonical', 'p_large::from_i64_canonical',
         'p2::from_i32_canonical', 'p61::from_i32_canonical', 'p_large::from_i32_canonical',
         'p2::add_sub_neg_are_field_ops', 'p61::add_sub_neg_are_field_ops', 'p_large::add_sub_neg_are_field_ops',
         'f2::mul_is_field_op', 'f3::mul_is_field_op', 'f61::mul_is_field_op',
         'f2::inverse_and_div', 'f3::inverse_and_div']
THOROUGH = QUICK + ['p3::from_i32_canonical', 'p3::add_sub_neg_are_field_ops', 'f61::inverse_and_div']


def parse_kani_output(out):
    """-> {harness: (ok, failed, block_text)}; understands both the sequential and the `-j` (Thread N:) layout"""
    seen = {}
    cur = {}            # thread id -> harness currently being checked
    block_owner = None  # harness that owns the lines being read
    blocks = {}
    for line in out.split('\n'):
        m = re.match(r'^(?:Thread (\d+): )?Checking harness ([\w:]+)\.\.\.', line)
        if m:
            h = m.group(2).split('verif_kani::')[-1]
            cur[m.group(1) or '-'] = h
            blocks.setdefault(h, [])
            block_owner = h if m.group(1) is None else None
            continue
        m = re.match(r'^Thread (\d+): ?$', line)
        if m:
            block_owner = cur.get(m.group(1))
            continue
        if line.startswith('Manual Harness Summary') or line.startswith('Summary:'):
            block_owner = None
            continue
        if block_owner is not None:
            blocks[block_owner].append(line)
    for h, ls in blocks.items():
        b = '\n'.join(ls)
        seen[h] = ('VERIFICATION:- SUCCESSFUL' in b, 'VERIFICATION:- FAILED' in b, b)
    return seen


def kani_prime_residue(repo, work, tier, seed):
    t0 = time.time()
    res = {'name': 'kani:prime_residue', 'failures': [], 'undecided': [], 'obligations': 0, 'failed': 0, 'samples': [],
           'trusted': ['kani 0.68 / CBMC 6.11 / CaDiCaL; machine integers are bit-precise (no mathematical-integer abstraction)'],
           'bounded': [], 'harnesses': []}
    dst = os.path.join(work, 'kani_repo')
    try:
        _copy_repo(repo, dst)
        src = os.path.join(dst, 'src/geometry/prime_residue_classes.rs')
        harness = open(os.path.join(VERIF, 'kani', 'prime_residue.rs')).read()
        with open(src, 'a') as f:
            f.write('\n#[cfg(kani)]\nmod verif_kani {\n' + harness + '\n}\n')
        names = THOROUGH if tier == 'thorough' else QUICK
        cmd = ['cargo', 'kani', '-j', '8', '--output-format', 'terse']
        for n in names:
            cmd += ['--harness', 'verif_kani::' + n]
        env = dict(os.environ, CARGO_NET_OFFLINE='true', CARGO_TARGET_DIR=os.path.join(work, 'kani_target'))
        res['cmd'] = 'CARGO_NET_OFFLINE=true ' + ' '.join(cmd)
        try:
            p = subprocess.run(cmd, cwd=dst, env=env, capture_output=True, text=True, timeout=3000)
        except subprocess.TimeoutExpired:
            res['undecided'].append('kani timed out')
            return res
        out = p.stdout + '\n' + p.stderr
        # second pass, single-threaded, only for failed harnesses: ask CBMC for the concrete counterexample
        failed_names = [h for h, (ok, failed, b) in parse_kani_output(out).items() if failed]
        second = {}
        if failed_names:
            cmd2 = ['cargo', 'kani', '-Z', 'concrete-playback', '--concrete-playback=print', '--output-format', 'terse']
            for n in failed_names[:6]:
                cmd2 += ['--harness', 'verif_kani::' + n]
            try:
                p2 = subprocess.run(cmd2, cwd=dst, env=env, capture_output=True, text=True, timeout=1500)
                out2 = p2.stdout + '\n' + p2.stderr
                # blocks of the second pass (with concrete values) override those of the first
                second = parse_kani_output(out2)
            except subprocess.TimeoutExpired:
                pass
        res['raw_tail'] = out[-1500:]
        seen = parse_kani_output(out)
        seen.update(second)
        for n in names:
            if n not in seen:
                res['undecided'].append('kani harness %s produced no verdict' % n)
                continue
            ok, failed, b = seen[n]
            res['obligations'] += 1
            tm = re.search(r'Verification Time: ([0-9.]+)s', b)
            ck = re.search(r'\*\* (\d+) of (\d+) failed', b)
            hrec = {'harness': n, 'result': 'SUCCESSFUL' if ok else 'FAILED' if failed else 'UNKNOWN',
                    'time_s': float(tm.group(1)) if tm else None, 'cbmc_checks': int(ck.group(2)) if ck else None}
            res['harnesses'].append(hrec)
            if ok:
                continue
            if not failed:
                res['undecided'].append('kani harness %s: no verdict' % n)
                res['obligations'] -= 1
                continue
            res['failed'] += 1
            failed_checks = re.findall(r'Failed Checks: (.*)', b)
            # concrete values printed by concrete playback: lines `// <value>` before each byte vector
            vals = re.findall(r'^\s*//\s*(-?\d+)\s*$', b, flags=re.M)
            if any('unwinding assertion' in c for c in failed_checks) and not any('unwinding' not in c for c in failed_checks):
                res['undecided'].append('kani harness %s: unwinding bound too small' % n)
                res['failed'] -= 1
                continue
            cex = {'harness': n, 'symbolic_inputs_in_order': [int(v) for v in vals]} if vals else None
            if cex:
                try:
                    import replay
                    replay.REPO = repo
                    rr = replay.replay_kani(cex)
                    if rr:
                        cex['replayed_on_real_code'] = rr['stdout']
                except Exception as e:       # replay is best effort
                    cex['replay_error'] = str(e)
            res['failures'].append({'unit': 'kani_prime_residue', 'function': n, 'kind': 'assert', 'backend': 'kani/cbmc',
                                    'message': '; '.join(failed_checks[:4]), 'site': '; '.join(failed_checks[:2]),
                                    'props': ['C18'], 'counterexample': cex, 'rendered': b[-1200:]})
        res['samples'] = [{'obligation': 'kani harness %s (full domain of its symbolic inputs)' % h['harness'], 'backend': 'kani/cbmc',
                           'discharged': h['result'] == 'SUCCESSFUL', 'time_s': h['time_s']} for h in res['harnesses'][:4]]
        if not res['harnesses'] and not res['undecided']:
            res['undecided'].append('kani produced no harness results: ' + out[-300:])
    finally:
        shutil.rmtree(dst, ignore_errors=True)
        shutil.rmtree(os.path.join(work, 'kani_target'), ignore_errors=True)
        res['wall'] = round(time.time() - t0, 1)
    return res
