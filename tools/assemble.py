#!/usr/bin/env python3
"""Mechanical extractor / assembler.

A contract template (contracts/<unit>.rs) is a Verus file in which every piece of executable code that
comes from /repo sits between

    //@ begin <file> :: <container> :: <kind> <name> [| key=value ...]
    //@ rw <RULE> <sep>regex<sep>replacement<sep>[flags]
    ... annotated text (the real lines, interleaved with contract / ghost lines) ...
    //@ end

On every run the real item is located in the *current* source file, cut out verbatim, normalised (N1: the
brace that opens the function body / a loop body is put on a line of its own so that clauses can be
inserted before it), rewritten by the listed regex rules (the R-rules of DESIGN.md section 3) and the
contract / ghost lines of the template are transplanted onto it:

  * the template's region minus its contract lines equals the stored *baseline* text of the item
    (contracts/base/<unit>.json, written by --learn from the tree the contracts were developed on);
  * every contract line is attached in front of a baseline line;
  * the current text is aligned line by line with the baseline (exact matches first, then most similar
    lines) and each group of contract lines is emitted in front of the current line its baseline line
    was aligned to.

If the current text equals the baseline the result is the template region itself.  The executable lines
of the output always come from the current source, never from the template.
"""
import difflib
import hashlib
import json
import os
import re
import sys

sys.path.insert(0, os.path.dirname(os.path.abspath(__file__)))
import rustlex  # noqa: E402

VERIF = os.path.dirname(os.path.dirname(os.path.abspath(__file__)))
REPO = os.environ.get('VERIF_REPO', '/repo')


class AssembleError(Exception):
    """raised for conditions that make a unit undecidable (lost anchor, stale template, ...)"""


# ------------------------------------------------------------------ template parsing

class Region:
    def __init__(self):
        self.file = self.container = self.kind = self.name = None
        self.opts = {}
        self.rws = []          # (rule, regex, repl, flags)
        self.lines = []        # annotated lines (template text)
        self.tline = 0         # template line number of the begin directive

    @property
    def key(self):
        return '%s::%s::%s %s' % (self.file, rustlex.squeeze(self.container), self.kind, self.name)

    @property
    def label(self):
        c = self.container
        if c in ('-', ''):
            return self.name
        return '%s::%s' % (rustlex.norm_ws(c), self.name)


def parse_rw(arg, where):
    rule, rest = arg.split(None, 1)
    sep = rest[0]
    parts = rest[1:].split(sep)
    if len(parts) < 3:
        raise AssembleError('%s: malformed rw directive' % where)
    pat, repl, flags = parts[0], parts[1], parts[2].strip()
    return (rule, pat, repl, flags)


def parse_template(path):
    """-> (unit_name, props, chunks) where chunks is a list of ('text', [lines]) / ('region', Region)"""
    unit, props, chunks = None, [], []
    cur_text, region = [], None
    for ln, line in enumerate(open(path).read().split('\n'), 1):
        s = line.strip()
        if s.startswith('//@@'):
            continue          # per-unit driver settings, read by check.py
        if s.startswith('//@'):
            d = s[3:].strip()
            where = '%s:%d' % (path, ln)
            if d.startswith('unit '):
                unit = d.split()[1]
            elif d.startswith('props '):
                props = d.split()[1:]
            elif d.startswith('begin '):
                if region is not None:
                    raise AssembleError('%s: nested begin' % where)
                if cur_text:
                    chunks.append(('text', cur_text)); cur_text = []
                region = Region(); region.tline = ln
                spec, _, opts = d[6:].partition('|')
                parts = [p.strip() for p in spec.split('::')]
                if len(parts) < 3:
                    raise AssembleError('%s: begin needs file :: container :: kind name' % where)
                region.file = parts[0]
                region.container = ' :: '.join(parts[1:-1]) if len(parts) > 3 else parts[1]
                # a container may itself contain '::' (e.g. `impl fmt::Display for X`): re-join without spaces
                if len(parts) > 3:
                    region.container = '::'.join(parts[1:-1])
                kn = parts[-1].split()
                region.kind, region.name = kn[0], kn[1]
                for kv in opts.split():
                    k, _, v = kv.partition('=')
                    region.opts[k] = v
            elif d.startswith('rw '):
                if region is None:
                    raise AssembleError('%s: rw outside region' % where)
                region.rws.append(parse_rw(d[3:], where))
            elif d == 'end':
                if region is None:
                    raise AssembleError('%s: end without begin' % where)
                chunks.append(('region', region)); region = None
            else:
                raise AssembleError('%s: unknown directive %r' % (where, d))
            continue
        if region is not None:
            region.lines.append(line)
        else:
            cur_text.append(line)
    if region is not None:
        raise AssembleError('%s: unterminated region' % path)
    if cur_text:
        chunks.append(('text', cur_text))
    return unit, props, chunks


# ------------------------------------------------------------------ extraction from /repo

_src_cache = {}


def source_items(repo, relfile):
    p = os.path.join(repo, relfile)
    if p not in _src_cache:
        if not os.path.exists(p):
            raise AssembleError('source file %s not found' % relfile)
        src = open(p).read()
        _src_cache[p] = (src, rustlex.parse_items(src))
    return _src_cache[p]


def extract_raw(repo, region):
    """-> (text, first_line_no) of the item, attributes dropped, leading indentation kept"""
    src, items = source_items(repo, region.file)
    found = rustlex.find_item(src, region.container, region.kind, region.name, items)
    nth = int(region.opts.get('nth', '1'))
    if len(found) < nth:
        raise AssembleError('lost anchor: %s not found in current source' % region.key)
    if len(found) > 1 and 'nth' not in region.opts:
        raise AssembleError('ambiguous anchor: %s matches %d items' % (region.key, len(found)))
    it = found[nth - 1]
    a = it.sig_start
    while a > 0 and src[a - 1] in ' \t':
        a -= 1
    return src[a:it.end], src.count('\n', 0, a) + 1


def normalise(text, kind):
    """N1: put the `{` opening a fn body or a loop body on its own line (whitespace only)."""
    toks = rustlex.lex(text)
    ct = rustlex.code_toks(toks)
    split_at = []

    def first_brace_after(k):
        j = k + 1
        while j < len(ct):
            t = ct[j]
            if t.kind == 'p' and t.text in ('(', '['):
                j = rustlex.match_close(ct, j) + 1; continue
            if t.kind == 'p' and t.text == '{':
                return j
            if t.kind == 'p' and t.text == ';':
                return None
            j += 1
        return None

    for k, t in enumerate(ct):
        if t.kind != 'id':
            continue
        if t.text == 'fn' and kind == 'fn':
            # only the item's own fn keyword (the first one); nested fns are left alone
            if not any(ct[q].kind == 'id' and ct[q].text == 'fn' for q in range(k)):
                b = first_brace_after(k)
                if b is not None:
                    split_at.append(ct[b].start)
        elif t.text in ('for', 'while', 'loop'):
            prev = ct[k - 1] if k else None
            if t.text == 'for' and prev is not None and (prev.kind == 'id' and prev.text not in ('else', 'in', 'return', 'unsafe')
                                                           or prev.text == '>'):
                # `impl X for Y`, `for<'a>` bounds: not a loop
                continue
            b = first_brace_after(k)
            if b is not None:
                split_at.append(ct[b].start)
    out = text
    for pos in sorted(set(split_at), reverse=True):
        ls = out.rfind('\n', 0, pos) + 1
        before = out[ls:pos]
        if before.strip() == '':
            continue
        indent = re.match(r'\s*', out[ls:]).group(0).replace('\n', '')
        out = out[:pos].rstrip(' \t') + '\n' + indent + out[pos:]
    return out


def apply_rws(text, rws, notes, strict):
    applied = []
    for rule, pat, repl, flags in rws:
        f = re.M
        if 's' in flags:
            f |= re.S
        new, n = re.subn(pat, repl, text, count=1 if '1' in flags else 0, flags=f)
        if n == 0:
            if '?' in flags:
                continue
            if strict:
                raise AssembleError('rewrite %s /%s/ does not match the baseline text' % (rule, pat))
            notes.append('rewrite %s /%s/ matched nothing in the current text' % (rule, pat))
        else:
            applied.append(rule)
        text = new
    return text, applied


def prepare(raw, region, notes, strict):
    t = normalise(raw, region.kind)
    t, applied = apply_rws(t, region.rws, notes, strict)
    return t.split('\n'), applied


# ------------------------------------------------------------------ transplanting contract lines

def embed(base, annotated, where):
    """greedy embedding of base lines into annotated lines.
    -> ann_before: list (len(base)+1) of lists of annotation lines"""
    groups = [[] for _ in range(len(base) + 1)]
    k = 0
    for line in annotated:
        if k < len(base) and line.strip() == base[k].strip():
            k += 1
        else:
            groups[k].append(line)
    if k != len(base):
        raise AssembleError('%s: template region does not contain baseline line %d %r (stale template? run --learn)'
                            % (where, k + 1, base[k].strip()))
    return groups


def align(base, cur):
    """global alignment base<->cur maximising similarity; -> list m with m[i] = j or None"""
    n, m = len(base), len(cur)
    bs = [x.strip() for x in base]
    cs = [x.strip() for x in cur]
    simc = {}

    def sim(i, j):
        a, b = bs[i], cs[j]
        if a == b:
            return 2.0
        key = (a, b)
        if key not in simc:
            if not a or not b:
                simc[key] = None
            else:
                r = difflib.SequenceMatcher(None, a, b, autojunk=False).ratio()
                simc[key] = r if r >= 0.55 else None
        return simc[key]

    # DP over (i, j)
    S = [[0.0] * (m + 1) for _ in range(n + 1)]
    for i in range(n - 1, -1, -1):
        for j in range(m - 1, -1, -1):
            best = max(S[i + 1][j], S[i][j + 1])
            s = sim(i, j)
            if s is not None and S[i + 1][j + 1] + s > best:
                best = S[i + 1][j + 1] + s
            S[i][j] = best
    out = [None] * n
    i = j = 0
    while i < n and j < m:
        s = sim(i, j)
        if s is not None and abs(S[i][j] - (S[i + 1][j + 1] + s)) < 1e-9:
            out[i] = j; i += 1; j += 1
        elif abs(S[i][j] - S[i + 1][j]) < 1e-9:
            i += 1
        else:
            j += 1
    return out


def reduce_groups(base, groups, mode):
    """fallback modes for a function whose changed body no longer fits its in-body annotations:
    contract_only: keep only what precedes the body's opening brace (attributes, requires / ensures / decreases);
    external:      the same, plus #[verifier::external_body] (the function is then ASSUMED, and reported as such)"""
    body_open = None
    for k, l in enumerate(base):
        if l.strip() == '{':
            body_open = k
            break
    if body_open is None:
        return groups
    out = [g if k <= body_open else [] for k, g in enumerate(groups)]
    if mode in ('external', 'stub'):
        indent = re.match(r'\s*', base[0]).group(0)
        if not any('verifier::external_body' in a for a in out[0]):
            out[0] = out[0] + [indent + '#[verifier::external_body]']
    return out


_TOK = re.compile(r'[A-Za-z_]\w*|\d+|\S')


def local_renaming(base, cur, m):
    """-> {old: new} or {}.  Only a pure renaming of locals declared in the baseline text is recognised: all differing aligned line pairs
    have the same token structure and differ in identifier tokens only, consistently, injectively, and no new name occurs in the baseline."""
    declared = set()
    for l in base:
        for mm in re.finditer(r'\blet\s+(?:mut\s+)?([a-z_]\w*)\b|\bfor\s+([a-z_]\w*)\s+in\b', l):
            declared.add(mm.group(1) or mm.group(2))
    ren = {}
    unmatched = 0
    for i, j in enumerate(m):
        if j is None:
            if base[i].strip():
                unmatched += 1
            continue
        a, b = base[i].strip(), cur[j].strip()
        if a == b:
            continue
        ta, tb = _TOK.findall(a), _TOK.findall(b)
        if len(ta) != len(tb):
            return {}
        for x, y in zip(ta, tb):
            if x == y:
                continue
            if x not in declared or not re.match(r'[a-z_]\w*$', y):
                return {}
            if ren.setdefault(x, y) != y:
                return {}
    if unmatched or not ren or len(set(ren.values())) != len(ren):
        return {}
    base_words = set(w for l in base for w in _TOK.findall(l))
    if any(v in base_words for v in ren.values()):
        return {}
    return ren


def transplant(base, annotated, cur, where, mode=None):
    groups = embed(base, annotated, where)
    early = mode == 'early'
    if mode and not early:
        groups = reduce_groups(base, groups, mode)
    if mode == 'stub':
        # last resort: even the signature / body cannot be shown to the verifier (e.g. `mut self`): the function is emitted as an
        # assumed stub - signature (binding modes dropped), contract, no body.  Nothing about this function is verified.
        bo = next((k for k, l in enumerate(cur) if l.strip() == '{'), None)
        bb = next((k for k, l in enumerate(base) if l.strip() == '{'), None)
        if bo is not None and bb is not None:
            out = []
            for a in groups[0]:
                out.append((a, False))
            for k in range(bo):
                out.append((re.sub(r'([(,]\s*)mut\s+(?=\w+\s*[:,)])', r'\1', cur[k]), True))
                if k + 1 <= bb:
                    pass
            for g in range(1, bb + 1):
                for a in groups[g]:
                    out.append((a, False))
            indent = re.match(r'\s*', cur[bo]).group(0)
            out.append((indent + '{ unimplemented!() }', False))
            return out
    m = align(base, cur)
    # R22 (renamed locals): when every aligned line pair that differs does so only by one consistent substitution of identifiers that the
    # baseline declares as locals (`let`, `let mut`, `for x in`), the contract lines follow the renaming.  Annotations are ghost text:
    # a wrong substitution can make a proof fail, never make an unsound one pass.
    ren = local_renaming(base, cur, m)
    if ren:
        pat = re.compile(r'\b(' + '|'.join(re.escape(k) for k in ren) + r')\b')
        groups = [[pat.sub(lambda mm: ren[mm.group(1)], a) for a in g] for g in groups]
    out = []          # (line, is_real)
    emitted = 0       # groups[0..emitted) already written
    j_done = 0
    for i, j in enumerate(m):
        if j is None:
            continue
        # current lines inserted before j that matched nothing
        # contract groups of base lines <= i go right in front of cur[j] (default placement: as late as possible).  Placement `early`:
        # the groups of base lines that vanished go right after the previous matched line, in front of the inserted current lines
        # (annotations are ghost: their position can make a proof fail, never make an unsound one pass; check.py tries both)
        if early:
            for g in range(emitted, i):
                for a in groups[g]:
                    out.append((a, False))
            emitted = max(emitted, i)
        for jj in range(j_done, j):
            out.append((cur[jj], True))
        for g in range(emitted, i + 1):
            for a in groups[g]:
                out.append((a, False))
        emitted = i + 1
        out.append((cur[j], True))
        j_done = j + 1
    # trailing: remaining groups attached to unmatched / final lines go before the remaining current lines' last
    rest_cur = cur[j_done:]
    tail_groups = [a for g in range(emitted, len(groups)) for a in groups[g]]
    # keep the closing brace last: contract lines go before the trailing current lines only if those exist
    if rest_cur:
        # unmatched trailing current lines (e.g. a changed last line): put contracts before the final line
        for x in rest_cur[:-1]:
            out.append((x, True))
        for a in tail_groups:
            out.append((a, False))
        out.append((rest_cur[-1], True))
    else:
        for a in tail_groups:
            out.append((a, False))
    return out


# ------------------------------------------------------------------ assembling a unit

def std_imports(text):
    """{name: full path} for the top-level `use std::/core::/alloc::` lines of a source text (one level of braces, no globs, no renames)"""
    out = {}
    for m in re.finditer(r'^use\s+((?:std|core|alloc)(?:::\w+)*)::(\{[^}]*\}|\w+)\s*;', text, re.M):
        prefix, tail = m.group(1), m.group(2)
        names = [x.strip() for x in tail[1:-1].split(',')] if tail.startswith('{') else [tail]
        for n in names:
            if re.fullmatch(r'\w+', n) and n != 'self':
                out[n] = '%s::%s' % (prefix, n)
    return out


def carry_imports(repo, regions, new_words, assembled):
    out = []
    have = std_imports(assembled)
    for relfile, words in new_words.items():
        try:
            imp = std_imports(open(os.path.join(repo, relfile)).read())
        except OSError:
            continue
        for w in sorted(words):
            if w in imp and w not in have and not re.search(r'\b(?:struct|trait|enum|type|fn|mod)\s+%s\b' % w, assembled) \
                    and not re.search(r'^use\s[^;]*\b%s\b' % w, assembled, re.M):
                out.append((imp[w], w)); have[w] = imp[w]
    return out


def sha(s):
    return hashlib.sha256(s.encode()).hexdigest()


def load_base(unit):
    p = os.path.join(VERIF, 'contracts', 'base', unit + '.json')
    if not os.path.exists(p):
        return {}
    return json.load(open(p))


def assemble(template_path, repo=None, learn=False, modes=None):
    """-> dict(text=..., linemap=[...], regions=[...], unit=..., props=[...], notes=[...])
    linemap[k] (0-based assembled line k) = (region_label or None, is_real)"""
    repo = repo or REPO
    unit, props, chunks = parse_template(template_path)
    if unit is None:
        raise AssembleError('%s: no //@ unit directive' % template_path)
    base = load_base(unit)
    new_base = {}
    out_lines, linemap, regions, notes = [], [], [], []
    new_words = {}
    prev_tail = ''
    for kind, c in chunks:
        if kind == 'text':
            for l in c:
                out_lines.append(l); linemap.append((None, False, None))
            tail = [l for l in c if l.strip()]
            prev_tail = tail[-1] if tail else ''
            continue
        r = c
        where = '%s (template line %d)' % (r.key, r.tline)
        raw, first_line = extract_raw(repo, r)
        rec = {'function': r.label, 'key': r.key, 'source_file': r.file, 'line': first_line,
               'sha256': sha(raw), 'props': r.opts.get('props', '').split(',') if r.opts.get('props') else props,
               'mode': 'assumed (external_body: contract trusted, body not verified)'
                       if (any('verifier::external_body' in l for l in r.lines) or 'verifier::external_body' in prev_tail)
                       else ('definition' if r.kind in ('struct', 'enum') else 'verified'),
               'changed_since_baseline': False,
               # the body of this item is visible to the obligations of OTHER functions (a type definition, or executable text that is
               # also used as a spec function): a change here can legitimately make an unchanged function fail
               'spec_visible': r.kind in ('struct', 'enum', 'trait', 'const', 'type')
                               or any(re.search(r'\bspec fn\b|when_used_as_spec|\bspec\(checked\)', l) for l in r.lines)}
        prev_tail = ''
        if learn:
            new_base[r.key] = raw
            b_raw = raw
        else:
            if r.key not in base:
                raise AssembleError('%s: no baseline stored (run --learn)' % where)
            b_raw = base[r.key]
        rnotes = []
        # R22 (alpha-renaming of locals): if the current text is the baseline text with locals (declared by `let` / `for` in the baseline)
        # consistently renamed to fresh names, and nothing else differs, the renaming is undone before assembly; the item counts as changed
        # (it is recorded), but the verified text differs from the source by that renaming of bound variables only
        renamed = None
        if raw != b_raw and raw.count('\n') == b_raw.count('\n'):
            bl, cl = b_raw.split('\n'), raw.split('\n')
            ren = local_renaming(bl, cl, list(range(len(bl))))
            if ren:
                inv = {v: k for k, v in ren.items()}
                pat = re.compile(r'\b(' + '|'.join(re.escape(k) for k in inv) + r')\b')
                if pat.sub(lambda mm: inv[mm.group(1)], raw) == b_raw:
                    renamed = ren
                    rnotes.append('R22: locals renamed (%s); the renaming was undone before assembly' % ', '.join('%s -> %s' % kv for kv in sorted(ren.items())))
                    rec['changed_since_baseline'] = True
                    rec['change_size'] = 0
                    rec['alpha_renamed'] = ren
                    raw = b_raw
        b_lines, _ = prepare(b_raw, r, rnotes, strict=True)
        mode = (modes or {}).get(r.label)
        if mode:
            rec['fallback_mode'] = mode
        if raw == b_raw and not mode:
            # fast path, and the defining equation of the template: region == annotate(baseline)
            embed(b_lines, r.lines, where)   # still checked: template must contain the baseline
            res = None
            c_lines, applied = b_lines, [x[0] for x in r.rws]
            groups = embed(b_lines, r.lines, where)
            # mark real lines
            k = 0
            for line in r.lines:
                if k < len(b_lines) and line.strip() == b_lines[k].strip():
                    out_lines.append(line); linemap.append((r.label, True, r.file)); k += 1
                else:
                    out_lines.append(line); linemap.append((r.label, False, None))
        else:
            rec['changed_since_baseline'] = raw != b_raw
            if raw != b_raw:
                new_words.setdefault(r.file, set()).update(set(re.findall(r'\b[A-Z]\w*\b', raw)) - set(re.findall(r'\b[A-Z]\w*\b', b_raw)))
            c_lines, applied = prepare(raw, r, rnotes, strict=False)
            # size of the change: baseline lines with no exact counterpart + current lines with no exact counterpart
            mm = align(b_lines, c_lines)
            exact = sum(1 for i, j in enumerate(mm) if j is not None and b_lines[i].strip() == c_lines[j].strip())
            rec['change_size'] = (len([l for l in b_lines if l.strip()]) - sum(1 for i, j in enumerate(mm) if j is not None and b_lines[i].strip() and b_lines[i].strip() == c_lines[j].strip())) \
                + (len([l for l in c_lines if l.strip()]) - sum(1 for i, j in enumerate(mm) if j is not None and c_lines[j].strip() and b_lines[i].strip() == c_lines[j].strip()))
            res = transplant(b_lines, r.lines, c_lines, where, mode)
            for line, real in res:
                out_lines.append(line); linemap.append((r.label, real, r.file if real else None))
        rec['rewrites_applied'] = sorted(set(applied))
        for rule, pat, repl, flags in r.rws:
            mm = re.match(r'fn (\w+)\\\(', pat)
            if mm and mm.group(1) == r.name:
                m2 = re.match(r'fn (\w+)\(', repl)
                if m2:
                    rec['renamed_to'] = m2.group(1)
        rec['notes'] = rnotes
        notes += ['%s: %s' % (r.label, x) for x in rnotes]
        regions.append(rec)
    # R18: std imports.  Only items are extracted, not the `use` lines of their file.  When a CHANGED region mentions a name that its
    # baseline text did not, and the region's source file imports that name from std / core / alloc, the import is carried over
    # (unless the template already imports or defines the name).  Nothing is added on the unchanged tree.
    try:
        carried = carry_imports(repo, regions, new_words, '\n'.join(out_lines))
    except Exception:
        carried = []
    if carried:
        k = next((i for i, l in enumerate(out_lines) if l.startswith('use vstd::prelude')), None)
        if k is not None:
            for path, name in carried:
                out_lines.insert(k + 1, '#[allow(unused_imports)] use %s;' % path)
                linemap.insert(k + 1, (None, False, None))
            notes.append('R18: std imports carried over from the source files for changed regions: %s' % ', '.join(p for p, _ in carried))
    if learn:
        os.makedirs(os.path.join(VERIF, 'contracts', 'base'), exist_ok=True)
        with open(os.path.join(VERIF, 'contracts', 'base', unit + '.json'), 'w') as f:
            json.dump(new_base, f, indent=1, sort_keys=True)
    return {'unit': unit, 'props': props, 'text': '\n'.join(out_lines), 'linemap': linemap,
            'regions': regions, 'notes': notes}


def main():
    import argparse
    ap = argparse.ArgumentParser()
    ap.add_argument('template')
    ap.add_argument('--learn', action='store_true', help='store the current source text of every region as the baseline')
    ap.add_argument('--repo', default=None)
    ap.add_argument('-o', '--out', default=None)
    ap.add_argument('--raw', action='store_true', help='print normalised+rewritten current text of every region (for writing templates)')
    a = ap.parse_args()
    if a.raw:
        unit, props, chunks = parse_template(a.template)
        for kind, c in chunks:
            if kind == 'region':
                raw, ln = extract_raw(a.repo or REPO, c)
                lines, _ = prepare(raw, c, [], strict=False)
                print('// ---- %s (line %d)' % (c.key, ln))
                print('\n'.join(lines))
        return
    try:
        res = assemble(a.template, a.repo, a.learn)
    except AssembleError as e:
        print('ASSEMBLE-ERROR: %s' % e, file=sys.stderr)
        sys.exit(2)
    if a.out:
        open(a.out, 'w').write(res['text'])
    for r in res['regions']:
        print('%-50s %s:%d sha=%s%s' % (r['function'], r['source_file'], r['line'], r['sha256'][:12],
                                       ' CHANGED' if r['changed_since_baseline'] else ''))
    for n in res['notes']:
        print('note:', n)


if __name__ == '__main__':
    main()
