#!/usr/bin/env python3
"""metamorph.py UNIT [max_edits] [seed]: apply behaviour-preserving one-line edits to the source of verified regions of a unit (on a
scratch copy of /repo), run the unit's verification on the edited tree and report every deductive failure: each one is a would-be FALSE
ALARM (the edit does not change behaviour), i.e. a brittle proof.  Development tool; never touches /repo."""
import sys, os, re, shutil, subprocess, tempfile, random, json, time
sys.path.insert(0, '/verif/tools')
import check
import assemble as asm

SIMPLE = r'[a-z_][\w.]*(?:\(\))?(?:\[[a-z_]\w*\])?'
PRE = r'(?:(?<=if )|(?<=while )|(?<=\()|(?<=&& )|(?<=\|\| ))'
POST = r'(?= \{| &&| \|\||\)|;|,)'
TRANSFORMS = [
    ('swap_eq', re.compile(PRE + r'(%s) (==|!=) (%s|\d+)' % (SIMPLE, SIMPLE) + POST), lambda m: '%s %s %s' % (m.group(3), m.group(2), m.group(1))),
    ('plus_assign', re.compile(r'\b([a-z_]\w*) \+= 1;'), lambda m: '%s = %s + 1;' % (m.group(1), m.group(1))),
    ('flip_lt', re.compile(PRE + r'(%s) < (%s)' % (SIMPLE, SIMPLE) + POST), lambda m: '%s > %s' % (m.group(2), m.group(1))),
    ('flip_ge', re.compile(PRE + r'(%s) >= (%s)' % (SIMPLE, SIMPLE) + POST), lambda m: '%s <= %s' % (m.group(2), m.group(1))),
    ('comm_plus', re.compile(r'(?<![\w.)\]*/%%-] )(?<![\w.)\]])\b([a-z_]\w*) \+ 1\b(?! [*/%%])'), lambda m: '1 + %s' % m.group(1)),
]

CMP = r'%s (?:==|!=|<|>|<=|>=) (?:%s|\d+)' % (SIMPLE, SIMPLE)
TRANSFORMS2 = [
    ('parens', re.compile(r'(?<=if )(%s)(?= \{)' % CMP), lambda m: '(%s)' % m.group(1)),
    ('and_swap', re.compile(r'(?<=if )(%s) && (%s)(?= \{)' % (CMP, CMP)), lambda m: '%s && %s' % (m.group(2), m.group(1))),
    ('is_empty', re.compile(r'\b([a-z_][\w.]*)\.len\(\) == 0\b'), lambda m: '%s.is_empty()' % m.group(1)),
    ('gt_zero', re.compile(r'\b([a-z_][\w.]*)\.len\(\) > 0\b'), lambda m: '!%s.is_empty()' % m.group(1)),
    ('ne_to_not_eq', re.compile(PRE + r'(%s) != (%s|\d+)' % (SIMPLE, SIMPLE) + POST), lambda m: '!(%s == %s)' % (m.group(1), m.group(2))),
    ('lt_to_not_ge', re.compile(PRE + r'(%s) < (%s)' % (SIMPLE, SIMPLE) + POST), lambda m: '!(%s >= %s)' % (m.group(1), m.group(2))),
    ('minus_assign', re.compile(r'\b([a-z_]\w*) -= 1;'), lambda m: '%s = %s - 1;' % (m.group(1), m.group(1))),
]
if len(sys.argv) > 4 and sys.argv[4] == '2':
    TRANSFORMS = TRANSFORMS2


def candidates(unit):
    path = check.unit_templates()[unit]['path']
    u, props, chunks = asm.parse_template(path)
    out = []
    for kind, c in chunks:
        if kind != 'region' or c.kind != 'fn':
            continue
        if any('verifier::external_body' in l for l in c.lines):
            continue
        raw, first = asm.extract_raw('/repo', c)
        lines = raw.split('\n')
        for k, l in enumerate(lines):
            s = l.strip()
            if not s or s.startswith('//') or '::<' in s or 'Vec<' in s or '->' in s or '|' in s and '||' not in s:
                continue
            for name, rx, fn in TRANSFORMS:
                m = rx.search(l)
                if m:
                    new = l[:m.start()] + fn(m) + l[m.end():]
                    if new != l:
                        out.append({'unit': unit, 'region': c.label, 'file': c.file, 'line': first + k, 'old': l, 'new': new, 'kind': name})
    return out


def main():
    unit = sys.argv[1]
    maxn = int(sys.argv[2]) if len(sys.argv) > 2 else 20
    random.seed(int(sys.argv[3]) if len(sys.argv) > 3 else 1)
    cands = candidates(unit)
    random.shuffle(cands)
    print('%d candidate edits in unit %s; trying %d' % (len(cands), unit, min(maxn, len(cands))), flush=True)
    work = tempfile.mkdtemp(prefix='metamorph.', dir='/var/tmp')
    repo = os.path.join(work, 'repo')
    os.makedirs(repo)
    for n in os.listdir('/repo'):
        if n in ('target', '.git'):
            continue
        s, t = os.path.join('/repo', n), os.path.join(repo, n)
        shutil.copytree(s, t) if os.path.isdir(s) else shutil.copy2(s, t)
    env = dict(os.environ, CARGO_NET_OFFLINE='true', CARGO_TARGET_DIR=os.path.join(work, 'target'), RUSTFLAGS='-Awarnings')
    subprocess.run(['cargo', 'check', '--offline', '--lib'], cwd=repo, env=env, capture_output=True)
    info = check.unit_templates()[unit]
    alarms = []
    try:
        for c in cands[:maxn]:
            p = os.path.join(repo, c['file'])
            orig = open(p).read()
            lines = orig.split('\n')
            if lines[c['line'] - 1] != c['old']:
                print('SKIP (line mismatch)', c['region'], c['line']); continue
            lines[c['line'] - 1] = c['new']
            open(p, 'w').write('\n'.join(lines))
            try:
                b = subprocess.run(['cargo', 'check', '--offline', '--lib'], cwd=repo, env=env, capture_output=True, text=True)
                if b.returncode != 0:
                    print('NOCOMPILE', c['kind'], c['region'], c['new'].strip()[:80], flush=True); continue
                wd = os.path.join(work, 'wd'); shutil.rmtree(wd, ignore_errors=True); os.makedirs(wd)
                t0 = time.time()
                r = check.run_unit_with_retries(unit, info, repo, wd, 'quick', 0)
                fails = [f for f in r['failures'] if f['kind'] not in ('unverifiable', 'assumed_changed', 'bounded')]
                tag = 'ok'
                if fails:
                    tag = 'ALARM-CANDIDATE'
                    alarms.append((c, [(check.obligation_id(f), f.get('fallback'), f.get('site', '')[:100]) for f in fails]))
                elif r['undecided']:
                    tag = 'undecided'
                print('%-16s %-11s %-40s %s  ->  %s   (%.0fs)%s' % (tag, c['kind'], c['region'][:40], c['old'].strip()[:60], c['new'].strip()[:60], time.time() - t0,
                      ('  ' + '; '.join(check.obligation_id(f) for f in fails)) if fails else ('  ' + r['undecided'][0][:120] if r['undecided'] else '')), flush=True)
            finally:
                open(p, 'w').write(orig)
    finally:
        shutil.rmtree(work, ignore_errors=True)
    print('alarm candidates: %d' % len(alarms))
    for c, fs in alarms:
        print(json.dumps({'edit': c, 'failures': fs}))


if __name__ == '__main__':
    main()
