#!/usr/bin/env python3
"""trypatch.py DIR [DIR ...]: development helper -- runs the quick check of the property named in DIR/meta.json on a scratch copy of
/repo with DIR/patch.diff applied (never on /repo itself; no evidence is written) and prints the outcome with the check's verdict lines."""
import os, sys
sys.path.insert(0, os.path.dirname(os.path.abspath(__file__)))
import selftest

for d in sys.argv[1:]:
    prop, res, detail = selftest.run_one(os.path.abspath(d))
    print('%-28s %-6s %-10s %s' % (d[-28:], prop, res, detail[:400]))
    ob = selftest.OBLIGATIONS.get(os.path.basename(os.path.abspath(d)))
    if ob:
        print('    deductive:', ob['deductive'], ' bounded:', ob['bounded'])
